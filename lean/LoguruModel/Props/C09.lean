import LoguruModel.Buffer.LayerLemmas
/-
C09 – a returned log call is durable across a crash; normal interpreter exit flushes everything.

Only property theorems and their non-vacuity examples.  Every statement is about the model
instantiated with what /repo says NOW (`Buffer.Gen`): the `open()` defaults of `FileSink`, the
terminator / `"{exception}"` composition of `Logger.add`, and the statement lists of
`StreamSink.write`, `FileSink.write`, `FileSink._close_file`, `Handler.stop`, `Logger.remove` and
the `atexit` registration.  Quantifiers: all message sequences, all crash points (after the k-th call
AND between any two primitives of the call in flight, rotation included), all message shapes
(any characters: interior line ends, exception text, non-ASCII), all reachable handler states at
exit.  CPython's `TextIOWrapper` and process death are MODELLED (Buffer/Model.lean), not verified.

Round 5 adds: the other `open()` arguments of the file sink (`mode`, `buffering`, `delay`, `watch` with
the file moved away by another process), the LAYERS of a text stream (TextIOWrapper over BufferedWriter
or a raw file, `write_through`, size-driven spills as an oracle – Buffer/Layers.lean), the REGENERATED
tail of `Handler.emit` with every interleaving of logging calls and worker steps, a worker thread that
has ended before the exit, and the REGENERATED `StreamSink.stop` / `_stoppable`, `FileSink.__init__`
tail (`delay`) and step order of `_terminate_file`.
-/
namespace C09
open Py Buffer

/-! ### (a) what the code's constants say -/

/-- the file a `FileSink` opens by default is line buffered and appends -/
theorem default_open_line_buffered_append (existing : Option Str) :
    openDefault existing =
      some { os := existing.getD [], pending := [], lineBuffering := true, closed := false } :=
  openDefault_eq existing

/-- the defaults of `FileSink.__init__` as the property's mechanism names them (utf8: every message
shape is encodable, so a non-ASCII message cannot be dropped by the codec) -/
theorem file_defaults :
    Gen.fileBuffering = 1 ∧ Gen.fileMode = "a".toList ∧ Gen.fileEncoding = "utf8".toList := by decide

/-- `StreamSink` treats a stream as flushable exactly when it has a callable `flush` – whatever the
stream says about its own buffering (`line_buffering`, `write_through`): a line-buffered stream does
NOT flush a text without a line end by itself -/
theorem flushable_iff_callable_flush (hasFlush lineBuffering writeThrough : Bool) :
    Gen.flushableOf hasFlush hasStaticFlush lineBuffering writeThrough = hasFlush := by
  simp [Gen.flushableOf]

/-- string formats, non-raw call: the sink receives `format-part ++ terminator ++ exception` -/
theorem static_text_shape (t : Str) (json : Str → Str) (m : Msg) (hr : m.raw = false)
    (hs : m.serialize = false) : emitText .static t json m = m.body ++ t ++ m.exc := by
  simp [emitText, emitPlain, hr, hs, Gen.templateParts, renderPart]

/-- … and that text always contains a line end, whatever the message, the exception text and the
`serialize` option (this is the hypothesis the durability theorems need) -/
theorem static_text_has_line_end (json : Str → Str) (m : Msg) (hr : m.raw = false) :
    hasLineEnd (emitText .static Gen.fileTerminator json m) = true ∧
    hasLineEnd (emitText .static Gen.streamTerminator json m) = true := by
  cases hs : m.serialize <;>
    simp [emitText, emitPlain, hr, hs, Gen.templateParts, renderPart, hasLineEnd, Gen.fileTerminator,
      Gen.streamTerminator, Gen.serializeSuffix]

/-! ### (b) file sinks: nothing acked stays in user space -/

/-- after `FileSink.write` of a text with a line end returns, the user-space buffer is empty and the
text is in the OS – with or without a rotation during this very call -/
theorem file_write_leaves_nothing_pending (s : FileSink) (h : Ready s) (rotDue : Bool) (m : Str)
    (hm : hasLineEnd m = true) :
    (s.write rotDue m).pendingText = [] ∧ (s.write rotDue m).durable = s.durable ++ m ∧
    Ready (s.write rotDue m) := by
  have h1 := write_ready s h rotDue m hm
  refine ⟨?_, h1.2, h1.1⟩
  obtain ⟨f, hf, _, _, hp, _⟩ := h1.1
  simp [FileSink.pendingText, hf, hp]

/-- the emitted texts of a sequence of non-raw calls on a static-format file handler -/
def fileCalls (json : Str → Str) (msgs : List (Bool × Msg)) : List Call :=
  msgs.map (fun x => (x.1, emitText .static Gen.fileTerminator json x.2))

/-- MAIN (crash after the k-th call, for all k): for every pre-existing content, every sink
configuration, every sequence of calls (with an arbitrary rotation verdict each) and every message
shape, what a reader finds on disk after the process is killed is exactly the earlier content
followed by the first k emitted texts, whole and in order; nothing is left in user space -/
theorem crash_preserves_acked (existing : Option Str) (rot comp ret : Bool) (json : Str → Str)
    (msgs : List (Bool × Msg)) (hraw : ∀ x ∈ msgs, x.2.raw = false) (k : Nat) :
    let s := runCalls (FileSink.new existing rot comp ret) ((fileCalls json msgs).take k)
    s.durable = existing.getD [] ++ texts ((fileCalls json msgs).take k) ∧ s.pendingText = [] := by
  intro s
  have hall : ∀ c ∈ (fileCalls json msgs).take k, hasLineEnd c.2 = true := by
    intro c hc
    have hc' := List.mem_of_mem_take hc
    simp only [fileCalls, List.mem_map] at hc'
    obtain ⟨x, hx, rfl⟩ := hc'
    exact (static_text_has_line_end json x.2 (hraw x hx)).1
  have hn := new_ready existing rot comp ret
  have h := runCalls_ready _ _ hn.1 hall
  refine ⟨by show (runCalls _ _).durable = _; rw [h.2, hn.2], ?_⟩
  obtain ⟨f, hf, _, _, hp, _⟩ := h.1
  show FileSink.pendingText (runCalls _ _) = []
  simp [FileSink.pendingText, hf, hp]

/-- crash INSIDE call k+1, between any two primitives of `FileSink.write` (open, close, rename,
compression/retention, create, write – i.e. also with a rotation in progress): the disk holds every
acked text, whole and in order, followed by either nothing or the whole text in flight -/
theorem no_torn_acked_record (existing : Option Str) (rot comp ret : Bool) (acked : List Call)
    (hall : ∀ c ∈ acked, hasLineEnd c.2 = true) (c : Call) (hc : hasLineEnd c.2 = true) (j : Nat) :
    let s := runCalls (FileSink.new existing rot comp ret) acked
    let prims := writePrims (c.1 && s.hasRotation) c.2
    (runPrims s (prims.take j)).durable =
      existing.getD [] ++ texts acked ++ (if prims.length ≤ j then c.2 else []) := by
  intro s prims
  have hn := new_ready existing rot comp ret
  have h := runCalls_ready acked _ hn.1 hall
  have := write_prefix s h.1 c.1 c.2 hc j
  rw [this, h.2, hn.2]

/-- restart after a crash: a new sink on the same path keeps what is there (`mode="a"`) -/
theorem restart_preserves_acked (content : Str) (rot comp ret : Bool) :
    (FileSink.new (some content) rot comp ret).durable = content ∧
    Ready (FileSink.new (some content) rot comp ret) := by
  have := new_ready (some content) rot comp ret
  exact ⟨by simpa using this.2, this.1⟩

/-! ### (c) flushable streams -/

/-- `StreamSink.write` on ANY stream with a callable `flush` – block buffered, line buffered,
write-through, whatever is already pending – and ANY text (with or without a line end): nothing
stays in user space when the call returns -/
theorem flushable_stream_flushed_each_message (f : TextFile) (staticFlush lineBufferingAttr writeThrough : Bool)
    (hc : f.closed = false) (m : Str) :
    let s := StreamSink.new f true staticFlush lineBufferingAttr writeThrough
    (s.sinkWrite m).file.pending = [] ∧ (s.sinkWrite m).file.os = f.os ++ f.pending ++ m := by
  intro s
  have hf : s.flushable = true := by simp [s, StreamSink.new, flushable_iff_callable_flush]
  have := stream_write s hf hc m
  exact ⟨this.1, this.2.1⟩

/-- crash after the k-th call on a flushable stream sink of any buffering kind: exactly the first k
texts are in the OS – for ALL texts (no line-end hypothesis: raw messages, dynamic formats) -/
theorem stream_crash_preserves_acked (f : TextFile) (staticFlush lineBufferingAttr writeThrough : Bool)
    (hc : f.closed = false) (hp : f.pending = []) (ms : List Str) (k : Nat) :
    let s := StreamSink.new f true staticFlush lineBufferingAttr writeThrough
    (runStream s (ms.take k)).file.crash = f.os ++ (ms.take k).flatten ∧
    (runStream s (ms.take k)).file.pending = [] := by
  intro s
  have hf : s.flushable = true := by simp [s, StreamSink.new, flushable_iff_callable_flush]
  have := runStream_flushed (ms.take k) s hf hc hp
  exact ⟨this.2.1, this.1⟩

/-- what the flush is needed for: WITHOUT it a line-buffered stream keeps a text without a line end
in user space – line buffered or not – so the decision may not depend on `line_buffering` -/
theorem line_buffered_stream_needs_the_flush (f : TextFile) (hc : f.closed = false)
    (hp : f.pending = []) (m : Str) (hm : hasLineEnd m = false) :
    (f.write m).crash = f.os ∧ (f.write m).pending = m := by
  have := (TextFile.write_open f hc m).2.2.2.2 hm
  simp [TextFile.crash, this.1, this.2, hp]

/-! ### (d) normal interpreter exit -/

/-- running the `atexit` list from any logger state whose handlers are live: no handler stays
registered and every handler has been stopped – flagged stopped, its queue drained into its sink in
FIFO order BEFORE the sink is stopped, the worker joined, nothing hung -/
theorem exit_stops_every_handler (lg : Logger) (hl : ∀ h ∈ lg.handlers, Live h) :
    (interpreterExit lg).handlers = [] ∧
    (interpreterExit lg).removed = lg.removed ++ lg.handlers.map Handler.final ∧
    ∀ h ∈ lg.handlers, h.final.stopped = true ∧ h.final.queue = [] ∧ h.final.hung = false ∧
      h.final.joined = h.enqueue ∧ h.final.sink = (h.queue.foldl Sink.write h.sink).stop := by
  rw [exit_eq lg hl]
  refine ⟨rfl, rfl, ?_⟩
  intro h hh
  obtain ⟨_, _, _, _, e, _, _⟩ := hl h hh
  simp [Handler.final, e]

/-- the worker thread of an enqueued handler, as the REGENERATED loop body has it: from any sink state
it writes EVERY queued message in FIFO order – whatever the text: empty, whitespace only, without a
line end – and leaves nothing unread; only the sentinel ends the loop, the confirmation token of
`complete()` is consumed without being written -/
theorem worker_writes_every_message (k : Sink) (q : List Call) :
    workerRun Gen.workerOps k q = (q.foldl Sink.write k, []) ∧
    workerIter Gen.workerOps k .sentinel = none ∧ workerIter Gen.workerOps k .confirm = some k :=
  ⟨workerRun_all q k, (workerIter_gen k).2.1, (workerIter_gen k).2.2⟩

/-- REFUTING WITNESS for the broken shape "the sentinel is recognised by `if not message: break`":
a message whose text is empty ends the worker thread, and everything queued after it is never read
(the calls that put it had returned normally) -/
theorem falsy_sentinel_test_loses_messages (k : Sink) (c : Call) (rest : List Call) (he : c.2 = []) :
    workerRun [.get, .confirmIfTrue, .breakIfFalsy, .write] k (c :: rest) = (k, rest) := by
  simp [workerRun, workerIter, he]

/-- the worker thread survives whatever travels through its queue (REGENERATED loop body, the `try` around
`queue.get()` included): an item that cannot be un-pickled – whatever the exception class – is reported
and SKIPPED; every message before and after it is written, in order, and nothing stays unread -/
theorem worker_survives_unreadable_items (k : Sink) (q : List QItem) (hq : ∀ it ∈ q, it ≠ .sentinel) :
    workerRunQ Gen.workerOps k q = ((msgsOf q).foldl Sink.write k, []) ∧
    workerIter Gen.workerOps k .poison = some k :=
  ⟨workerRunQ_all q hq k, workerIter_poison k⟩

/-- REFUTING WITNESS for the broken shape "some error of `queue.get()` ends the loop": one record that
cannot be rebuilt ends the worker thread; every message accepted after it is never read -/
theorem get_error_must_not_end_the_worker (k : Sink) (rest : List QItem) :
    workerRunQ [.getBreakOnError, .breakIfNone, .confirmIfTrue, .write] k (.poison :: rest) = (k, rest) := by
  simp [workerRunQ, workerIter]

/-- REFUTING WITNESS for the broken shape "`stop()` waits for the worker only for a bounded time"
(`self._thread.join(timeout)`): when the backlog outlasts the bound, `stop()` returns, the sink is
stopped, and the queued messages – whose logging calls had returned – are in no sink -/
theorem bounded_join_loses_the_backlog (h : Handler) (he : h.enqueue = true) (ho : h.owner = true) :
    let bounded : List (Bool × StopOp) :=
      [(false, .setStopped), (true, .returnIfNotOwner), (true, .putSentinel), (true, .joinWorkerTimeout),
       (true, .closeQueue), (false, .sinkStop)]
    let h' := (bounded.foldl runStopOp (h, false)).1
    h'.sink = h.sink.stop ∧ h'.queue = h.queue ∧ h'.joined = h.joined := by
  obtain ⟨enq, own, q, sk, st, se, jo, hu, wd⟩ := h
  simp only at he ho; subst he ho
  simp [runStopOp]

/-- the exit clause in a process FORKED after `add()` (daemonisation: the launcher leaves with
`os._exit`, the forked process later exits normally): a handler without `enqueue` that this process
did not create is stopped all the same – its sink is stopped (file closed, end-of-life compression /
retention, stream `stop()`), exactly as in the creating process -/
theorem forked_process_exit_stops_inherited_handlers (lg : Logger)
    (hf : ∀ h ∈ lg.handlers, h.enqueue = false ∧ h.owner = false ∧ h.stopped = false ∧ h.sentinel = false ∧
      h.joined = false ∧ h.hung = false ∧ h.queue = [] ∧ h.workerDead = false) :
    (interpreterExit lg).handlers = [] ∧
    (interpreterExit lg).removed = lg.removed ++ lg.handlers.map (fun h => { h with stopped := true, sink := h.sink.stop }) := by
  have hl : ∀ h ∈ lg.handlers, Live h := by
    intro h hh
    obtain ⟨a, _, c, d, e, f, g, w⟩ := hf h hh
    exact ⟨c, by simp [a], d, e, f, fun _ => g, w⟩
  rw [exit_eq lg hl]
  refine ⟨rfl, ?_⟩
  show lg.removed ++ List.map Handler.final lg.handlers = _
  congr 1
  apply List.map_congr_left
  intro h hh
  obtain ⟨a, _, _, d, e, _, g, _⟩ := hf h hh
  obtain ⟨enq, own, q, sk, st, se, jo, hu, wd⟩ := h
  simp only at a d e g; subst a d e g
  simp [Handler.final]

/-- REFUTING WITNESS for the broken shape "owner test hoisted out of `if self._enqueue:`" (only the
creating process finalises a handler): with that statement list a plain handler inherited through
`fork()` keeps its sink untouched – never closed, never compressed -/
theorem owner_guard_must_stay_under_enqueue (h : Handler) (he : h.enqueue = false) (ho : h.owner = false) :
    let hoisted : List (Bool × StopOp) :=
      [(false, .setStopped), (false, .returnIfNotOwner), (true, .putSentinel), (true, .joinWorker),
       (true, .closeQueue), (false, .sinkStop)]
    (hoisted.foldl runStopOp (h, false)).1.sink = h.sink := by
  obtain ⟨enq, own, q, sk, st, se, jo, hu, wd⟩ := h
  simp only at he ho; subst he ho
  simp [runStopOp]

/-- file handler at exit: every queued text is written, then the file is flushed and closed (so even
texts WITHOUT a line end reach the OS), and compression / retention run once more iff no rotation
is configured (`drained` is the sink after the worker has written the queue) -/
theorem exit_flushes_file_sink (h : Handler) (f : FileSink) (hs : h.sink = .file f) (ho : Open f) :
    let drained := runCalls f h.queue
    ∃ f', h.final.sink = .file f' ∧ f'.file = none ∧ f'.pendingText = [] ∧
      f'.durable = f.durable ++ f.pendingText ++ texts h.queue ∧
      f'.compressions = drained.compressions + (if f.hasCompression && !f.hasRotation then 1 else 0) ∧
      f'.retentions = drained.retentions + (if f.hasRetention && !f.hasRotation then 1 else 0) := by
  intro drained
  refine ⟨drained.stop, ?_, ?_⟩
  · simp [Handler.final, hs, sink_fold_file, Sink.stop, drained]
  · have h1 := runCalls_content h.queue f ho
    have h2 := stop_open _ h1.1
    have hcfg := runCalls_config h.queue f
    simp only [FileSink.config, Prod.mk.injEq] at hcfg
    refine ⟨h2.1, h2.2.2.1, ?_, ?_, ?_⟩
    · rw [h2.2.1, h1.2]; rfl
    · rw [h2.2.2.2.1, hcfg.2.1, hcfg.1]
    · rw [h2.2.2.2.2, hcfg.2.2, hcfg.1]

/-- stream handler at exit: the queue is drained in order and flushed, the stream's `stop()` is
called (once) iff it has one -/
theorem exit_drains_stream_sink (h : Handler) (s : Stream) (st : Bool) (n : Nat)
    (hs : h.sink = .stream s st n) (hf : s.flushable = true) (hc : s.file.closed = false)
    (hp : s.file.pending = []) :
    ∃ s', h.final.sink = .stream s' st (if st then n + 1 else n) ∧ s'.file.pending = [] ∧
      s'.file.os = s.file.os ++ texts h.queue := by
  refine ⟨runStream s (h.queue.map (·.2)), ?_, ?_⟩
  · simp [Handler.final, hs, sink_fold_stream, Sink.stop, streamStopCalls, Gen.streamStopOps, runStreamStopOp]
  · have := runStream_flushed (h.queue.map (·.2)) s hf hc hp
    exact ⟨this.1, this.2.1⟩

/-! ### (e) finding F7: a text without a line end is NOT durable when the call returns -/

/-- FULL statement of claim (a) for file sinks – every shape of call, raw and dynamic formats
included.  FALSE of the current code (finding F7, not fixed: a flush per write would change the
sink's performance contract). -/
def every_returned_call_is_durable_statement : Prop :=
  ∀ (kind : FormatKind) (existing : Option Str) (msgs : List Msg) (k : Nat),
    let cs : List Call := msgs.map (fun m => (false, emitText kind Gen.fileTerminator id m))
    (runCalls (FileSink.new existing false false false) (cs.take k)).durable =
      existing.getD [] ++ texts (cs.take k)

/-- proved part: `crash_preserves_acked` (static format, non-raw calls).  General shape of the
failure: a text without `\n`/`\r` stays in the user-space buffer, the disk is unchanged -/
theorem no_line_end_stays_pending (s : FileSink) (h : Ready s) (m : Str) (hm : hasLineEnd m = false) :
    (s.write false m).durable = s.durable ∧ (s.write false m).pendingText = m := by
  obtain ⟨f, hf, hc, hl, hp, ha, _⟩ := h
  obtain ⟨rot, atp, file, hr, hcm, hrt, nc, nr, bu, mo⟩ := s
  simp only at hf ha; subst hf ha
  obtain ⟨os, pe, lb, cl⟩ := f
  simp only at hc hl hp; subst hc hl hp
  unfold FileSink.write
  rw [writePrims_eq]
  simp [runPrims, runPrim, FileSink.durable, FileSink.disk, FileSink.pendingText, TextFile.write, hm]

/-- the witness replayed on the implementation by harness/c09.py:
`info("line1")`, `opt(raw=True).info("raw-no-newline")`, then `os._exit(0)` – the file holds only
`line1\n`, the raw text is still pending -/
theorem raw_without_newline_stays_pending :
    let m1 : Msg := { body := "line1".toList, exc := [], raw := false }
    let m2 : Msg := { body := "raw-no-newline".toList, exc := [], raw := true }
    let s := runCalls (FileSink.new none false false false)
      [(false, emitText .static Gen.fileTerminator id m1), (false, emitText .static Gen.fileTerminator id m2)]
    s.durable = "line1\n".toList ∧ s.pendingText = "raw-no-newline".toList := by
  decide

theorem every_returned_call_is_durable_statement_false : ¬ every_returned_call_is_durable_statement := by
  intro h
  have := h .static none
    [{ body := "line1".toList, exc := [], raw := false }, { body := "raw-no-newline".toList, exc := [], raw := true }] 2
  revert this
  decide


/-! ### (f) round 5 – other `open()` arguments of the file sink: `mode`, `buffering`, `delay` -/

/-- the constructor opens the file at once exactly when `delay` is false (REGENERATED from the tail of
`FileSink.__init__`) -/
theorem init_opens_unless_delay (delay : Bool) : Gen.initOpens delay = !delay := by
  simp [Gen.initOpens]

/-- claim (a) does not depend on `mode`: a sink given `buffering=1` explicitly and ANY mode (`"a"`,
`"w"`, `"x"` on a fresh path) keeps every acked text of every call sequence (rotations included); what
the mode decides is only what survives of the EARLIER content -/
theorem line_buffered_any_mode_crash_preserves_acked (existing : Option Str) (rot comp ret : Bool) (mo : OpenMode)
    (hx : mo = .exclusive → existing = none) (cs : List Call) (hall : ∀ c ∈ cs, hasLineEnd c.2 = true) (k : Nat) :
    let s := runCalls (FileSink.newWith existing rot comp ret 1 mo false) (cs.take k)
    s.durable = mo.keeps existing ++ texts (cs.take k) ∧ s.pendingText = [] := by
  intro s
  have hn := newWith_ready existing rot comp ret mo hx
  have h := runCalls_ready (cs.take k) _ hn.1 (fun c hc => hall c (List.mem_of_mem_take hc))
  refine ⟨by show (runCalls _ _).durable = _; rw [h.2, hn.2], ?_⟩
  obtain ⟨f, hf, _, _, hp, _⟩ := h.1
  show FileSink.pendingText (runCalls _ _) = []
  simp [FileSink.pendingText, hf, hp]

/-- `delay=True`: the file is opened by the first `write` exactly as the constructor would have opened
it – so every durability statement about `delay=False` sinks holds for delayed ones from the first call on -/
theorem delayed_sink_first_write_opens (existing : Option Str) (rot comp ret : Bool) (b : Int) (mo : OpenMode)
    (c : Call) (cs : List Call) :
    runCalls (FileSink.newWith existing rot comp ret b mo true) (c :: cs) =
      runCalls (FileSink.newWith existing rot comp ret b mo false) (c :: cs) := by
  simp only [runCalls, List.foldl_cons]
  rw [delayed_write]

/-- … and a delayed sink that never received a message has opened nothing: no file appears, and
`stop()` has nothing to compress -/
theorem delayed_sink_without_messages_creates_nothing (rot comp ret : Bool) (b : Int) (mo : OpenMode) :
    (FileSink.newWith none rot comp ret b mo true).stop.disk = [[]] ∧
    (FileSink.newWith none rot comp ret b mo true).stop.file = none ∧
    (FileSink.newWith none rot comp ret b mo true).stop.compressions = 0 := by
  simp [FileSink.newWith, FileSink.blank, Gen.initOpens, FileSink.stop, stopPrims_eq, runPrims, runPrim, FileSink.disk,
    Gen.endOfLife, Gen.compressionGuard]

/-- claim (b) for EVERY `buffering` that `open()` accepts and every mode: after the program's calls
(any texts, any rotation verdicts) `stop()` leaves the file closed with every text on disk – also for a
block-buffered sink, whose texts had stayed in user space until then -/
theorem any_buffering_any_mode_exit_durable (existing : Option Str) (rot comp ret : Bool) (b : Int) (hb : b ≠ 0)
    (mo : OpenMode) (hx : mo = .exclusive → existing = none) (cs : List Call) :
    let s := (runCalls (FileSink.newWith existing rot comp ret b mo false) cs).stop
    s.file = none ∧ s.pendingText = [] ∧ s.durable = mo.keeps existing ++ texts cs := by
  intro s
  have hn := newWith_open existing rot comp ret b hb mo hx
  have h1 := runCalls_content cs _ hn.1
  have h2 := stop_open _ h1.1
  exact ⟨h2.1, h2.2.2.1, by show FileSink.durable _ = _; rw [h2.2.1, h1.2, hn.2.1]⟩

/-- why the property says "default buffering": with block buffering even a complete line is still in
user space when the logging call returns (REFUTING WITNESS for any default other than `buffering=1`) -/
theorem block_buffering_leaves_whole_lines_pending (existing : Option Str) (b : Int) (hb : b ≠ 0) (h1 : b ≠ 1)
    (m : Str) :
    let s := (FileSink.newWith existing false false false b .append false).write false m
    s.durable = existing.getD [] ∧ s.pendingText = m := by
  have e1 : (b == 1) = false := by simp [h1]
  cases existing <;>
    simp [FileSink.newWith, FileSink.blank, Gen.initOpens, FileSink.write, writePrims_eq, runPrims, runPrim,
      FileSink.reopen, openMode, hb, e1, TextFile.write, FileSink.durable, FileSink.disk, FileSink.pendingText]

/-- a call on a `watch=True` sink (any re-open verdict, any rotation verdict) -/
abbrev WCall := Bool × Bool × Str

def runWCalls (s : FileSink) (cs : List WCall) : FileSink := cs.foldl (fun s c => s.writeW c.1 c.2.1 c.2.2) s

/-- `watch=True`: whenever another process moves the log file away (logrotate), the next `write`
closes the stale file object and creates a new file – every acked text stays on disk (in the moved file
or the new one), whole and in order, for every sequence of calls and every pattern of external moves
and rotations; with no move a watched sink behaves exactly like an unwatched one -/
theorem watched_sink_crash_preserves_acked (s0 : FileSink) (h0 : Ready s0) (cs : List WCall)
    (hall : ∀ c ∈ cs, hasLineEnd c.2.2 = true) :
    Ready (runWCalls s0 cs) ∧ (runWCalls s0 cs).durable = s0.durable ++ (cs.map (·.2.2)).flatten ∧
    (runWCalls s0 cs).pendingText = [] := by
  have key : ∀ (cs : List WCall) (s : FileSink), Ready s → (∀ c ∈ cs, hasLineEnd c.2.2 = true) →
      Ready (runWCalls s cs) ∧ (runWCalls s cs).durable = s.durable ++ (cs.map (·.2.2)).flatten := by
    intro cs
    induction cs with
    | nil => intro s h _; simp [runWCalls, h]
    | cons c cs ih =>
      intro s h hall
      have h1 := writeW_ready s h c.1 c.2.1 c.2.2 (hall c (by simp))
      have h2 := ih _ h1.1 (fun d hd => hall d (by simp [hd]))
      simp only [runWCalls, List.foldl_cons] at h2 ⊢
      refine ⟨h2.1, ?_⟩
      rw [h2.2, h1.2]; simp
  have := key cs s0 h0 hall
  refine ⟨this.1, this.2, ?_⟩
  obtain ⟨f, hf, _, _, hp, _⟩ := this.1
  simp [FileSink.pendingText, hf, hp]

theorem watched_sink_without_move_is_plain (s : FileSink) (r : Bool) (m : Str) : s.writeW false r m = s.write r m :=
  writeW_not_moved s r m

/-! ### (g) round 5 – the layers of a text stream (TextIOWrapper over BufferedWriter or a raw file) -/

/-- claim (a) for file sinks WITHOUT the "below 8 KiB" caveat of the one-buffer model: on the layered
stream `open(path, "a", buffering=1)` builds, a write whose text has a line end leaves BOTH user-space
layers empty – for every size-driven spill behaviour of the two layers -/
theorem line_buffered_layers_empty_after_line_end (l : Layered) (hc : l.closed = false)
    (hl : l.lineBuffering = true) (s : Str) (hs : hasLineEnd s = true) (sp : Spill) :
    (l.write s sp).bin = [] ∧ (l.write s sp).text = [] ∧ (l.write s sp).crash = l.all ++ s :=
  Layered.write_line_end l hc hl s hs sp

/-- the one-buffer `TextFile` the other theorems speak about is the EXACT abstraction of the layers
when nothing spills by size: `write` and `flush` commute with the abstraction -/
theorem text_file_abstracts_the_layers (l : Layered) (hb : l.buffered = true) (s : Str) :
    (l.write s Spill.none).toTextFile = l.toTextFile.write s ∧ l.flush.toTextFile = l.toTextFile.flush :=
  ⟨Layered.toTextFile_write l hb s, Layered.toTextFile_flush l⟩

/-- `StreamSink.write` (REGENERATED statement list, REGENERATED flush decision) over ANY layering –
buffered or raw, line buffered or not, write-through or not – with ANY spill behaviour and ANY text:
when the call returns both layers are empty and the OS has everything -/
theorem layered_stream_flushed_each_message (f : Layered) (staticFlush lineBufferingAttr writeThrough : Bool)
    (hc : f.closed = false) (m : Str) (sp : Spill) :
    let s : LStream := { file := f, flushable := Gen.flushableOf true staticFlush lineBufferingAttr writeThrough }
    (s.sinkWrite m sp).file.bin = [] ∧ (s.sinkWrite m sp).file.text = [] ∧
    (s.sinkWrite m sp).file.crash = f.all ++ m := by
  intro s
  have hf : s.flushable = true := by simp [s, flushable_iff_callable_flush]
  have := lstream_write s hf hc m sp
  exact ⟨this.1, this.2.1, this.2.2.1⟩

/-- crash after the k-th call on a flushable stream of any layering: the OS holds exactly the first k
texts (raw ones too) – for every spill behaviour -/
theorem layered_stream_crash_preserves_acked (f : Layered) (staticFlush lineBufferingAttr writeThrough : Bool)
    (hc : f.closed = false) (hb : f.bin = []) (ht : f.text = []) (ws : List (Str × Spill)) (k : Nat) :
    let s : LStream := { file := f, flushable := Gen.flushableOf true staticFlush lineBufferingAttr writeThrough }
    (runLStream s (ws.take k)).file.crash = f.os ++ textsL (ws.take k) ∧
    (runLStream s (ws.take k)).file.bin = [] ∧ (runLStream s (ws.take k)).file.text = [] := by
  intro s
  have hf : s.flushable = true := by simp [s, flushable_iff_callable_flush]
  exact runLStream_flushed (ws.take k) s hf hc hb ht

/-- `write_through=True` over a RAW file needs no flush: every write is in the OS when it returns … -/
theorem write_through_over_raw_is_durable (l : Layered) (hc : l.closed = false) (hw : l.writeThrough = true)
    (hb : l.buffered = false) (s : Str) (sp : Spill) :
    (l.write s sp).crash = l.all ++ s ∧ (l.write s sp).bin = [] ∧ (l.write s sp).text = [] := by
  have := Layered.write_through_raw l hc hw hb s sp
  exact ⟨this.2.2, this.1, this.2.1⟩

/-- … but over a BufferedWriter it only reaches the buffer: REFUTING WITNESS for a flush decision that
exempts streams reporting `write_through` (the text is lost by `os._exit` / SIGKILL) -/
theorem write_through_over_buffer_needs_the_flush (l : Layered) (hc : l.closed = false)
    (hw : l.writeThrough = true) (hb : l.buffered = true) (s : Str) (hs : hasLineEnd s = false) :
    (l.write s Spill.none).crash = l.os ∧ (l.write s Spill.none).bin = l.bin ++ l.text ++ s := by
  obtain ⟨os, bin, text, bu, lb, wt, cl⟩ := l
  simp only at hc hw hb; subst hc hw hb
  simp [Layered.write, Spill.none, hs, Layered.textFlush, Layered.binWrite, Layered.crash]

/-- the WINDOW of finding F7, for every spill behaviour: after calls `a` (the last of which has a line
end) followed by calls `b` without any line end, the disk holds everything up to the end of `a`, then a
PREFIX `p` of the later texts, and the rest of them is still in the two user-space layers – nothing is
lost other than by the crash, nothing reordered, nothing foreign (this is the shape the harness's F7
classifier accepts; no size bound) -/
theorem f7_window (l0 : Layered) (hc : l0.closed = false) (hl : l0.lineBuffering = true)
    (a : List (Str × Spill)) (w : Str × Spill) (hw : hasLineEnd w.1 = true) (b : List (Str × Spill)) :
    let l := runLayered l0 (a ++ [w] ++ b)
    ∃ p, l.crash = l0.all ++ textsL (a ++ [w]) ++ p ∧ p ++ l.bin ++ l.text = textsL b := by
  intro l
  obtain ⟨p1, o1, w1, c1⟩ := runLayered_window a l0 hc
  have hc1 : (runLayered l0 a).closed = false := by rw [c1.2.2.2]; exact hc
  have hl1 : (runLayered l0 a).lineBuffering = true := by rw [c1.2.1]; exact hl
  obtain ⟨e1, e2, e3⟩ := Layered.write_line_end (runLayered l0 a) hc1 hl1 w.1 hw w.2
  have hc2 : ((runLayered l0 a).write w.1 w.2).closed = false := by
    rw [(Layered.write_window _ hc1 w.1 w.2).choose_spec.2.2.2.2.2]; exact hc1
  obtain ⟨p, o2, w2, _⟩ := runLayered_window b ((runLayered l0 a).write w.1 w.2) hc2
  have hrun : l = runLayered ((runLayered l0 a).write w.1 w.2) b := by
    simp [l, runLayered, List.foldl_append]
  refine ⟨p, ?_, ?_⟩
  · rw [hrun]
    show (runLayered _ b).os = _
    rw [o2, e3]
    have : (runLayered l0 a).all = l0.all ++ textsL a := by
      simp only [Layered.all, o1]
      rw [List.append_assoc, List.append_assoc, ← List.append_assoc p1, w1]
      simp
    rw [this]; simp [textsL]
  · rw [hrun, w2, e1, e2]; simp

/-! ### (h) round 5 – from the logging call to the sink: the tail of `Handler.emit`, any interleaving -/

/-- `StreamSink` calls the stream's `stop()` exactly when the stream has a callable `stop` (REGENERATED
decision kernel and statement list of `StreamSink.stop`) -/
theorem stoppable_iff_callable_stop (hasStop hasStaticStop hasFlush hasStaticFlush lb wt : Bool) (n : Nat) :
    Gen.stoppableOf hasStop hasStaticStop hasFlush hasStaticFlush lb wt = hasStop ∧
    streamStopCalls (Gen.stoppableOf hasStop hasStaticStop hasFlush hasStaticFlush lb wt) n =
      (if hasStop then n + 1 else n) := by
  simp [Gen.stoppableOf, streamStopCalls, Gen.streamStopOps, runStreamStopOp]

/-- when a logging call returns (REGENERATED tail of `Handler.emit`): a handler without `enqueue` HAS
written the text through its sink (this is what makes "the call returned" an acknowledgement), an
enqueued one has appended it to its queue, and a stopped one has dropped it -/
theorem emit_hands_over_before_return (h : Handler) (c : Call) :
    (h.stopped = false → h.enqueue = false → (h.emit c).sink = h.sink.write c ∧ (h.emit c).queue = h.queue) ∧
    (h.stopped = false → h.enqueue = true → (h.emit c).queue = h.queue ++ [c] ∧ (h.emit c).sink = h.sink) ∧
    (h.stopped = true → h.emit c = h) := by
  rw [emit_gen]
  refine ⟨fun a b => by simp [a, b], fun a b => by simp [a, b], fun a => by simp [a]⟩

/-- END TO END, for EVERY interleaving of the program's logging calls with the worker thread's steps:
from a live handler (enqueued or not), after any such history followed by `stop()` – what the `atexit`
callback does – the sink has received every text the calls handed over, in their order, exactly once,
and only then was stopped; nothing is left queued, nothing hangs -/
theorem any_interleaving_then_stop_delivers_everything (h : Handler) (hl : Live h) (evs : List Ev) :
    let h' := (h.run evs).stop
    h'.sink = ((logged evs).foldl Sink.write (h.queue.foldl Sink.write h.sink)).stop ∧
    h'.queue = [] ∧ h'.stopped = true ∧ h'.hung = false := by
  intro h'
  obtain ⟨l, _, p⟩ := run_live evs h hl
  have e : h' = (h.run evs).final := handler_stop _ l
  obtain ⟨_, _, _, _, hh, _, _⟩ := l
  rw [e]
  refine ⟨?_, rfl, rfl, hh⟩
  show ((h.run evs).pendingSink).stop = _
  rw [p]; rfl

/-- the two clauses joined for a file handler (enqueued or not, any `buffering`): whatever the
interleaving of the program's calls with the worker, after `stop()` the file is closed and the disk holds
every text of every call that returned – with or without a line end -/
theorem program_then_exit_file_complete (h : Handler) (hl : Live h) (hq : h.queue = []) (f : FileSink)
    (hs : h.sink = .file f) (ho : Open f) (evs : List Ev) :
    ∃ f', ((h.run evs).stop).sink = .file f' ∧ f'.file = none ∧ f'.pendingText = [] ∧
      f'.durable = f.durable ++ f.pendingText ++ texts (logged evs) := by
  have h0 := (any_interleaving_then_stop_delivers_everything h hl evs).1
  simp only [hq, List.foldl_nil, hs, sink_fold_file, Sink.stop] at h0
  have h1 := runCalls_content (logged evs) f ho
  have h2 := stop_open _ h1.1
  exact ⟨_, h0, h2.1, h2.2.2.1, by rw [h2.2.1, h1.2]; rfl⟩

/-- … and the same at the level of the interpreter's exit callbacks, for any number of handlers each
with its own history -/
theorem programs_then_exit_deliver_everything (hs : List (Handler × List Ev)) (hl : ∀ x ∈ hs, Live x.1) :
    let lg : Logger := { handlers := hs.map (fun x => x.1.run x.2), removed := [] }
    (interpreterExit lg).handlers = [] ∧
    (interpreterExit lg).removed.map (·.sink) =
      hs.map (fun x => ((logged x.2).foldl Sink.write (x.1.queue.foldl Sink.write x.1.sink)).stop) := by
  intro lg
  have hlive : ∀ h ∈ lg.handlers, Live h := by
    intro h hh
    simp only [lg, List.mem_map] at hh
    obtain ⟨x, hx, rfl⟩ := hh
    exact (run_live x.2 x.1 (hl x hx)).1
  rw [exit_eq lg hlive]
  refine ⟨rfl, ?_⟩
  simp only [lg, List.nil_append, List.map_map]
  apply List.map_congr_left
  intro x hx
  have := (run_live x.2 x.1 (hl x hx)).2.2
  show ((x.1.run x.2).pendingSink).stop = _
  rw [this]; rfl

/-- a worker thread that has ENDED before the exit (a sink raised a `BaseException`): `stop()` does not
hang (`join()` on a finished thread returns), the sink is stopped all the same – a file sink flushed,
closed, with its end-of-life compression / retention – and what the worker had written is kept; the
messages still queued are in no sink (nobody is left to read them) -/
theorem dead_worker_exit_still_stops_the_sink (h : Handler) (he : h.enqueue = true) (ho : h.owner = true)
    (hd : h.workerDead = true) (hh : h.hung = false) (f : FileSink) (hs : h.sink = .file f) (hf : Open f) :
    h.stop.hung = false ∧ h.stop.stopped = true ∧ h.stop.queue = h.queue ∧
    ∃ f', h.stop.sink = .file f' ∧ f'.file = none ∧ f'.pendingText = [] ∧ f'.durable = f.durable ++ f.pendingText ∧
      f'.compressions = f.compressions + (if f.hasCompression && !f.hasRotation then 1 else 0) := by
  rw [stop_dead_worker h he ho hd]
  have h2 := stop_open f hf
  obtain ⟨enq, own, q, sk, st, se, jo, hu, wd⟩ := h
  simp only at hs he ho hd hh; subst hs
  exact ⟨hh, rfl, rfl, f.stop, rfl, h2.1, h2.2.2.1, by rw [h2.2.1]; rfl, h2.2.2.2.1⟩

/-- one handler's failure does not keep the others from being finalised: from ANY mix of live handlers
and enqueued handlers whose worker thread has ended, the exit callbacks leave nobody registered, every
handler stopped and none hung; a live handler's sink has received its whole queue before being stopped,
a handler without worker has its sink stopped as it is -/
theorem exit_with_dead_workers_still_stops_everyone (lg : Logger)
    (hl : ∀ h ∈ lg.handlers, Live h ∨ DeadWorker h) :
    (interpreterExit lg).handlers = [] ∧
    (interpreterExit lg).removed = lg.removed ++ lg.handlers.map Handler.finalAny ∧
    ∀ h ∈ lg.handlers, h.finalAny.stopped = true ∧ h.finalAny.hung = false ∧
      (Live h → h.finalAny.sink = (h.queue.foldl Sink.write h.sink).stop ∧ h.finalAny.queue = []) ∧
      (DeadWorker h → h.finalAny.sink = h.sink.stop) := by
  rw [exit_eq_any lg hl]
  refine ⟨rfl, rfl, ?_⟩
  intro h hh
  by_cases hd : h.workerDead = true
  · have hf : h.finalAny = h.finalDead := by simp [Handler.finalAny, hd]
    rcases hl h hh with l | d
    · exact absurd hd (by simp [l.2.2.2.2.2.2])
    · rw [hf]
      exact ⟨rfl, d.2.2.2.2, fun l => absurd hd (by simp [l.2.2.2.2.2.2]), fun _ => rfl⟩
  · have hf : h.finalAny = h.final := by simp [Handler.finalAny, hd]
    rcases hl h hh with l | d
    · rw [hf]
      exact ⟨rfl, l.2.2.2.2.1, fun _ => ⟨rfl, rfl⟩, fun d => absurd d.2.2.1 hd⟩
    · exact absurd d.2.2.1 hd

/-- the one-buffer abstraction commutes with whole histories of writes on a buffered stream (no spill) -/
theorem text_file_abstracts_histories (l : Layered) (hb : l.buffered = true) (ms : List Str) :
    (runLayered l (ms.map (fun m => (m, Spill.none)))).toTextFile = ms.foldl TextFile.write l.toTextFile :=
  toTextFile_run ms l hb

/-! ### non-vacuity -/

example : Ready (FileSink.new none true true false) := (new_ready _ _ _ _).1
example : ∃ h : Handler, Live h ∧ h.enqueue = true ∧ h.queue ≠ [] :=
  ⟨{ enqueue := true, owner := true, queue := [(false, "x\n".toList)],
     sink := .file (FileSink.new none false true false), stopped := false, sentinel := false,
     joined := false, hung := false }, by simp [Live]⟩
example : (writePrims true "a\n".toList).length = 6 := by decide
example : hasLineEnd (emitText .static Gen.fileTerminator id
    { body := "é日本".toList, exc := "Traceback…".toList, raw := false }) = true := by decide

-- round 5
example : workerRunQ Gen.workerOps (.file (FileSink.new none false false false))
    [.msg (false, "a\n".toList), .poison, .confirm, .msg (false, "b\n".toList)] =
    (.file (runCalls (FileSink.new none false false false) [(false, "a\n".toList), (false, "b\n".toList)]), []) := by
  decide
example : (runWCalls (FileSink.new none false false false)
    [(false, false, "a\n".toList), (true, false, "b\n".toList)]).disk = ["a\n".toList, "b\n".toList] := by decide
example : (FileSink.newWith (some "old\n".toList) true false false 1 .truncate false).durable = [] := by decide
example : (FileSink.newWith (some "old\n".toList) false false false 1 .append true).file = none := by decide
example : ∃ (l : Layered) (sp : Spill), l.closed = false ∧ l.lineBuffering = true ∧ l.buffered = true ∧
    (l.write "abc".toList sp).os = "xyab".toList ∧ (l.write "abc".toList sp).bin = "c".toList :=
  ⟨{ os := "x".toList, bin := [], text := "y".toList, buffered := true, lineBuffering := true,
     writeThrough := false, closed := false }, ⟨true, true, 1, 2⟩, by decide⟩
example : ∃ (h : Handler) (evs : List Ev), Live h ∧ h.enqueue = true ∧ (logged evs).length = 2 ∧
    (h.run evs).queue.length = 1 :=
  ⟨{ enqueue := true, owner := true, queue := [], sink := .file (FileSink.new none false true false),
     stopped := false, sentinel := false, joined := false, hung := false },
   [.log (false, "a\n".toList), .worker, .log (false, [])], by simp [Live], rfl, rfl, by decide⟩
example : ∃ h : Handler, h.enqueue = true ∧ h.owner = true ∧ h.workerDead = true ∧ h.hung = false ∧ h.queue ≠ [] ∧
    ∃ f, h.sink = .file f ∧ Open f :=
  ⟨{ enqueue := true, owner := true, queue := [(false, "lost\n".toList)],
     sink := .file (FileSink.new none false true false), stopped := false, sentinel := false, joined := false,
     hung := false, workerDead := true }, rfl, rfl, rfl, rfl, by simp, _, rfl, (new_ready none false true false).1.open⟩

end C09
