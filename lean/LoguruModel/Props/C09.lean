import LoguruModel.Buffer.Lemmas
/-
C09 – a returned log call is durable across a crash; normal interpreter exit flushes everything.

Only property theorems and their non-vacuity examples.  Every statement is about the model
instantiated with what /repo says NOW (`Buffer.Gen`): the `open()` defaults of `FileSink`, the
terminator / `"{exception}"` composition of `Logger.add`, and the statement lists of
`StreamSink.write`, `FileSink.write`, `FileSink._close_file`, `Handler.stop`, `Logger.remove` and
the `atexit` registration.  Quantifiers: all message sequences, all crash points (after the k-th call
AND between any two primitives of the call in flight, rotation included), all message shapes
(any characters: interior line ends, exception text, non-ASCII), all reachable handler states at
exit.  CPython's `TextIOWrapper` and process death are MODELLED (Buffer/Model.lean), not verified.
-/
namespace C09
open Py Buffer

/-! ### (a) what the code's constants say -/

/-- the file a `FileSink` opens by default is line buffered and appends -/
theorem default_open_line_buffered_append (existing : Option Str) :
    openDefault existing =
      some { os := existing.getD [], pending := [], lineBuffering := true, closed := false } :=
  openDefault_eq existing

/-- the defaults of `FileSink.__init__` as the property's mechanism names them (utf8: every message
shape is encodable, so a non-ASCII message cannot be dropped by the codec) -/
theorem file_defaults :
    Gen.fileBuffering = 1 ∧ Gen.fileMode = "a".toList ∧ Gen.fileEncoding = "utf8".toList := by decide

/-- `StreamSink` treats a stream as flushable exactly when it has a callable `flush` – whatever the
stream says about its own buffering (`line_buffering`, `write_through`): a line-buffered stream does
NOT flush a text without a line end by itself -/
theorem flushable_iff_callable_flush (hasFlush lineBuffering writeThrough : Bool) :
    Gen.flushableOf hasFlush hasStaticFlush lineBuffering writeThrough = hasFlush := by
  simp [Gen.flushableOf]

/-- string formats, non-raw call: the sink receives `format-part ++ terminator ++ exception` -/
theorem static_text_shape (t : Str) (json : Str → Str) (m : Msg) (hr : m.raw = false)
    (hs : m.serialize = false) : emitText .static t json m = m.body ++ t ++ m.exc := by
  simp [emitText, emitPlain, hr, hs, Gen.templateParts, renderPart]

/-- … and that text always contains a line end, whatever the message, the exception text and the
`serialize` option (this is the hypothesis the durability theorems need) -/
theorem static_text_has_line_end (json : Str → Str) (m : Msg) (hr : m.raw = false) :
    hasLineEnd (emitText .static Gen.fileTerminator json m) = true ∧
    hasLineEnd (emitText .static Gen.streamTerminator json m) = true := by
  cases hs : m.serialize <;>
    simp [emitText, emitPlain, hr, hs, Gen.templateParts, renderPart, hasLineEnd, Gen.fileTerminator,
      Gen.streamTerminator, Gen.serializeSuffix]

/-! ### (b) file sinks: nothing acked stays in user space -/

/-- after `FileSink.write` of a text with a line end returns, the user-space buffer is empty and the
text is in the OS – with or without a rotation during this very call -/
theorem file_write_leaves_nothing_pending (s : FileSink) (h : Ready s) (rotDue : Bool) (m : Str)
    (hm : hasLineEnd m = true) :
    (s.write rotDue m).pendingText = [] ∧ (s.write rotDue m).durable = s.durable ++ m ∧
    Ready (s.write rotDue m) := by
  have h1 := write_ready s h rotDue m hm
  refine ⟨?_, h1.2, h1.1⟩
  obtain ⟨f, hf, _, _, hp, _⟩ := h1.1
  simp [FileSink.pendingText, hf, hp]

/-- the emitted texts of a sequence of non-raw calls on a static-format file handler -/
def fileCalls (json : Str → Str) (msgs : List (Bool × Msg)) : List Call :=
  msgs.map (fun x => (x.1, emitText .static Gen.fileTerminator json x.2))

/-- MAIN (crash after the k-th call, for all k): for every pre-existing content, every sink
configuration, every sequence of calls (with an arbitrary rotation verdict each) and every message
shape, what a reader finds on disk after the process is killed is exactly the earlier content
followed by the first k emitted texts, whole and in order; nothing is left in user space -/
theorem crash_preserves_acked (existing : Option Str) (rot comp ret : Bool) (json : Str → Str)
    (msgs : List (Bool × Msg)) (hraw : ∀ x ∈ msgs, x.2.raw = false) (k : Nat) :
    let s := runCalls (FileSink.new existing rot comp ret) ((fileCalls json msgs).take k)
    s.durable = existing.getD [] ++ texts ((fileCalls json msgs).take k) ∧ s.pendingText = [] := by
  intro s
  have hall : ∀ c ∈ (fileCalls json msgs).take k, hasLineEnd c.2 = true := by
    intro c hc
    have hc' := List.mem_of_mem_take hc
    simp only [fileCalls, List.mem_map] at hc'
    obtain ⟨x, hx, rfl⟩ := hc'
    exact (static_text_has_line_end json x.2 (hraw x hx)).1
  have hn := new_ready existing rot comp ret
  have h := runCalls_ready _ _ hn.1 hall
  refine ⟨by show (runCalls _ _).durable = _; rw [h.2, hn.2], ?_⟩
  obtain ⟨f, hf, _, _, hp, _⟩ := h.1
  show FileSink.pendingText (runCalls _ _) = []
  simp [FileSink.pendingText, hf, hp]

/-- crash INSIDE call k+1, between any two primitives of `FileSink.write` (open, close, rename,
compression/retention, create, write – i.e. also with a rotation in progress): the disk holds every
acked text, whole and in order, followed by either nothing or the whole text in flight -/
theorem no_torn_acked_record (existing : Option Str) (rot comp ret : Bool) (acked : List Call)
    (hall : ∀ c ∈ acked, hasLineEnd c.2 = true) (c : Call) (hc : hasLineEnd c.2 = true) (j : Nat) :
    let s := runCalls (FileSink.new existing rot comp ret) acked
    let prims := writePrims (c.1 && s.hasRotation) c.2
    (runPrims s (prims.take j)).durable =
      existing.getD [] ++ texts acked ++ (if prims.length ≤ j then c.2 else []) := by
  intro s prims
  have hn := new_ready existing rot comp ret
  have h := runCalls_ready acked _ hn.1 hall
  have := write_prefix s h.1 c.1 c.2 hc j
  rw [this, h.2, hn.2]

/-- restart after a crash: a new sink on the same path keeps what is there (`mode="a"`) -/
theorem restart_preserves_acked (content : Str) (rot comp ret : Bool) :
    (FileSink.new (some content) rot comp ret).durable = content ∧
    Ready (FileSink.new (some content) rot comp ret) := by
  have := new_ready (some content) rot comp ret
  exact ⟨by simpa using this.2, this.1⟩

/-! ### (c) flushable streams -/

/-- `StreamSink.write` on ANY stream with a callable `flush` – block buffered, line buffered,
write-through, whatever is already pending – and ANY text (with or without a line end): nothing
stays in user space when the call returns -/
theorem flushable_stream_flushed_each_message (f : TextFile) (staticFlush lineBufferingAttr writeThrough : Bool)
    (hc : f.closed = false) (m : Str) :
    let s := StreamSink.new f true staticFlush lineBufferingAttr writeThrough
    (s.sinkWrite m).file.pending = [] ∧ (s.sinkWrite m).file.os = f.os ++ f.pending ++ m := by
  intro s
  have hf : s.flushable = true := by simp [s, StreamSink.new, flushable_iff_callable_flush]
  have := stream_write s hf hc m
  exact ⟨this.1, this.2.1⟩

/-- crash after the k-th call on a flushable stream sink of any buffering kind: exactly the first k
texts are in the OS – for ALL texts (no line-end hypothesis: raw messages, dynamic formats) -/
theorem stream_crash_preserves_acked (f : TextFile) (staticFlush lineBufferingAttr writeThrough : Bool)
    (hc : f.closed = false) (hp : f.pending = []) (ms : List Str) (k : Nat) :
    let s := StreamSink.new f true staticFlush lineBufferingAttr writeThrough
    (runStream s (ms.take k)).file.crash = f.os ++ (ms.take k).flatten ∧
    (runStream s (ms.take k)).file.pending = [] := by
  intro s
  have hf : s.flushable = true := by simp [s, StreamSink.new, flushable_iff_callable_flush]
  have := runStream_flushed (ms.take k) s hf hc hp
  exact ⟨this.2.1, this.1⟩

/-- what the flush is needed for: WITHOUT it a line-buffered stream keeps a text without a line end
in user space – line buffered or not – so the decision may not depend on `line_buffering` -/
theorem line_buffered_stream_needs_the_flush (f : TextFile) (hc : f.closed = false)
    (hp : f.pending = []) (m : Str) (hm : hasLineEnd m = false) :
    (f.write m).crash = f.os ∧ (f.write m).pending = m := by
  have := (TextFile.write_open f hc m).2.2.2.2 hm
  simp [TextFile.crash, this.1, this.2, hp]

/-! ### (d) normal interpreter exit -/

/-- running the `atexit` list from any logger state whose handlers are live: no handler stays
registered and every handler has been stopped – flagged stopped, its queue drained into its sink in
FIFO order BEFORE the sink is stopped, the worker joined, nothing hung -/
theorem exit_stops_every_handler (lg : Logger) (hl : ∀ h ∈ lg.handlers, Live h) :
    (interpreterExit lg).handlers = [] ∧
    (interpreterExit lg).removed = lg.removed ++ lg.handlers.map Handler.final ∧
    ∀ h ∈ lg.handlers, h.final.stopped = true ∧ h.final.queue = [] ∧ h.final.hung = false ∧
      h.final.joined = h.enqueue ∧ h.final.sink = (h.queue.foldl Sink.write h.sink).stop := by
  rw [exit_eq lg hl]
  refine ⟨rfl, rfl, ?_⟩
  intro h hh
  obtain ⟨_, _, _, _, e, _⟩ := hl h hh
  simp [Handler.final, e]

/-- the worker thread of an enqueued handler, as the REGENERATED loop body has it: from any sink state
it writes EVERY queued message in FIFO order – whatever the text: empty, whitespace only, without a
line end – and leaves nothing unread; only the sentinel ends the loop, the confirmation token of
`complete()` is consumed without being written -/
theorem worker_writes_every_message (k : Sink) (q : List Call) :
    workerRun Gen.workerOps k q = (q.foldl Sink.write k, []) ∧
    workerIter Gen.workerOps k .sentinel = none ∧ workerIter Gen.workerOps k .confirm = some k :=
  ⟨workerRun_all q k, (workerIter_gen k).2.1, (workerIter_gen k).2.2⟩

/-- REFUTING WITNESS for the broken shape "the sentinel is recognised by `if not message: break`":
a message whose text is empty ends the worker thread, and everything queued after it is never read
(the calls that put it had returned normally) -/
theorem falsy_sentinel_test_loses_messages (k : Sink) (c : Call) (rest : List Call) (he : c.2 = []) :
    workerRun [.get, .confirmIfTrue, .breakIfFalsy, .write] k (c :: rest) = (k, rest) := by
  simp [workerRun, workerIter, he]

/-- REFUTING WITNESS for the broken shape "`stop()` waits for the worker only for a bounded time"
(`self._thread.join(timeout)`): when the backlog outlasts the bound, `stop()` returns, the sink is
stopped, and the queued messages – whose logging calls had returned – are in no sink -/
theorem bounded_join_loses_the_backlog (h : Handler) (he : h.enqueue = true) (ho : h.owner = true) :
    let bounded : List (Bool × StopOp) :=
      [(false, .setStopped), (true, .returnIfNotOwner), (true, .putSentinel), (true, .joinWorkerTimeout),
       (true, .closeQueue), (false, .sinkStop)]
    let h' := (bounded.foldl runStopOp (h, false)).1
    h'.sink = h.sink.stop ∧ h'.queue = h.queue ∧ h'.joined = h.joined := by
  obtain ⟨enq, own, q, sk, st, se, jo, hu⟩ := h
  simp only at he ho; subst he ho
  simp [runStopOp]

/-- the exit clause in a process FORKED after `add()` (daemonisation: the launcher leaves with
`os._exit`, the forked process later exits normally): a handler without `enqueue` that this process
did not create is stopped all the same – its sink is stopped (file closed, end-of-life compression /
retention, stream `stop()`), exactly as in the creating process -/
theorem forked_process_exit_stops_inherited_handlers (lg : Logger)
    (hf : ∀ h ∈ lg.handlers, h.enqueue = false ∧ h.owner = false ∧ h.stopped = false ∧ h.sentinel = false ∧
      h.joined = false ∧ h.hung = false ∧ h.queue = []) :
    (interpreterExit lg).handlers = [] ∧
    (interpreterExit lg).removed = lg.removed ++ lg.handlers.map (fun h => { h with stopped := true, sink := h.sink.stop }) := by
  have hl : ∀ h ∈ lg.handlers, Live h := by
    intro h hh
    obtain ⟨a, _, c, d, e, f, g⟩ := hf h hh
    exact ⟨c, by simp [a], d, e, f, fun _ => g⟩
  rw [exit_eq lg hl]
  refine ⟨rfl, ?_⟩
  show lg.removed ++ List.map Handler.final lg.handlers = _
  congr 1
  apply List.map_congr_left
  intro h hh
  obtain ⟨a, _, _, d, e, _, g⟩ := hf h hh
  obtain ⟨enq, own, q, sk, st, se, jo, hu⟩ := h
  simp only at a d e g; subst a d e g
  simp [Handler.final]

/-- REFUTING WITNESS for the broken shape "owner test hoisted out of `if self._enqueue:`" (only the
creating process finalises a handler): with that statement list a plain handler inherited through
`fork()` keeps its sink untouched – never closed, never compressed -/
theorem owner_guard_must_stay_under_enqueue (h : Handler) (he : h.enqueue = false) (ho : h.owner = false) :
    let hoisted : List (Bool × StopOp) :=
      [(false, .setStopped), (false, .returnIfNotOwner), (true, .putSentinel), (true, .joinWorker),
       (true, .closeQueue), (false, .sinkStop)]
    (hoisted.foldl runStopOp (h, false)).1.sink = h.sink := by
  obtain ⟨enq, own, q, sk, st, se, jo, hu⟩ := h
  simp only at he ho; subst he ho
  simp [runStopOp]

/-- file handler at exit: every queued text is written, then the file is flushed and closed (so even
texts WITHOUT a line end reach the OS), and compression / retention run once more iff no rotation
is configured (`drained` is the sink after the worker has written the queue) -/
theorem exit_flushes_file_sink (h : Handler) (f : FileSink) (hs : h.sink = .file f) (ho : Open f) :
    let drained := runCalls f h.queue
    ∃ f', h.final.sink = .file f' ∧ f'.file = none ∧ f'.pendingText = [] ∧
      f'.durable = f.durable ++ f.pendingText ++ texts h.queue ∧
      f'.compressions = drained.compressions + (if f.hasCompression && !f.hasRotation then 1 else 0) ∧
      f'.retentions = drained.retentions + (if f.hasRetention && !f.hasRotation then 1 else 0) := by
  intro drained
  refine ⟨drained.stop, ?_, ?_⟩
  · simp [Handler.final, hs, sink_fold_file, Sink.stop, drained]
  · have h1 := runCalls_content h.queue f ho
    have h2 := stop_open _ h1.1
    have hcfg := runCalls_config h.queue f
    simp only [FileSink.config, Prod.mk.injEq] at hcfg
    refine ⟨h2.1, h2.2.2.1, ?_, ?_, ?_⟩
    · rw [h2.2.1, h1.2]; rfl
    · rw [h2.2.2.2.1, hcfg.2.1, hcfg.1]
    · rw [h2.2.2.2.2, hcfg.2.2, hcfg.1]

/-- stream handler at exit: the queue is drained in order and flushed, the stream's `stop()` is
called (once) iff it has one -/
theorem exit_drains_stream_sink (h : Handler) (s : Stream) (st : Bool) (n : Nat)
    (hs : h.sink = .stream s st n) (hf : s.flushable = true) (hc : s.file.closed = false)
    (hp : s.file.pending = []) :
    ∃ s', h.final.sink = .stream s' st (if st then n + 1 else n) ∧ s'.file.pending = [] ∧
      s'.file.os = s.file.os ++ texts h.queue := by
  refine ⟨runStream s (h.queue.map (·.2)), ?_, ?_⟩
  · simp [Handler.final, hs, sink_fold_stream, Sink.stop]
  · have := runStream_flushed (h.queue.map (·.2)) s hf hc hp
    exact ⟨this.1, this.2.1⟩

/-! ### (e) finding F7: a text without a line end is NOT durable when the call returns -/

/-- FULL statement of claim (a) for file sinks – every shape of call, raw and dynamic formats
included.  FALSE of the current code (finding F7, not fixed: a flush per write would change the
sink's performance contract). -/
def every_returned_call_is_durable_statement : Prop :=
  ∀ (kind : FormatKind) (existing : Option Str) (msgs : List Msg) (k : Nat),
    let cs : List Call := msgs.map (fun m => (false, emitText kind Gen.fileTerminator id m))
    (runCalls (FileSink.new existing false false false) (cs.take k)).durable =
      existing.getD [] ++ texts (cs.take k)

/-- proved part: `crash_preserves_acked` (static format, non-raw calls).  General shape of the
failure: a text without `\n`/`\r` stays in the user-space buffer, the disk is unchanged -/
theorem no_line_end_stays_pending (s : FileSink) (h : Ready s) (m : Str) (hm : hasLineEnd m = false) :
    (s.write false m).durable = s.durable ∧ (s.write false m).pendingText = m := by
  obtain ⟨f, hf, hc, hl, hp, ha⟩ := h
  obtain ⟨rot, atp, file, hr, hcm, hrt, nc, nr⟩ := s
  simp only at hf ha; subst hf ha
  obtain ⟨os, pe, lb, cl⟩ := f
  simp only at hc hl hp; subst hc hl hp
  unfold FileSink.write
  rw [writePrims_eq]
  simp [runPrims, runPrim, FileSink.durable, FileSink.disk, FileSink.pendingText, TextFile.write, hm]

/-- the witness replayed on the implementation by harness/c09.py:
`info("line1")`, `opt(raw=True).info("raw-no-newline")`, then `os._exit(0)` – the file holds only
`line1\n`, the raw text is still pending -/
theorem raw_without_newline_stays_pending :
    let m1 : Msg := { body := "line1".toList, exc := [], raw := false }
    let m2 : Msg := { body := "raw-no-newline".toList, exc := [], raw := true }
    let s := runCalls (FileSink.new none false false false)
      [(false, emitText .static Gen.fileTerminator id m1), (false, emitText .static Gen.fileTerminator id m2)]
    s.durable = "line1\n".toList ∧ s.pendingText = "raw-no-newline".toList := by
  decide

theorem every_returned_call_is_durable_statement_false : ¬ every_returned_call_is_durable_statement := by
  intro h
  have := h .static none
    [{ body := "line1".toList, exc := [], raw := false }, { body := "raw-no-newline".toList, exc := [], raw := true }] 2
  revert this
  decide

/-! ### non-vacuity -/

example : Ready (FileSink.new none true true false) := (new_ready _ _ _ _).1
example : ∃ h : Handler, Live h ∧ h.enqueue = true ∧ h.queue ≠ [] :=
  ⟨{ enqueue := true, owner := true, queue := [(false, "x\n".toList)],
     sink := .file (FileSink.new none false true false), stopped := false, sentinel := false,
     joined := false, hung := false }, by simp [Live]⟩
example : (writePrims true "a\n".toList).length = 6 := by decide
example : hasLineEnd (emitText .static Gen.fileTerminator id
    { body := "é日本".toList, exc := "Traceback…".toList, raw := false }) = true := by decide

end C09
