import LoguruModel.Retention.Lemmas
import LoguruModel.Retention.Dispatch
/-
C10 – property theorems (only the theorems and their non-vacuity examples live here).
The pattern lists, the wildcard for a field, the sort key, the slice start, the age comparison and
the guard/position of the retention block are the GENERATED ones (`Retention.Gen`), i.e. what
`/repo/loguru/_file_sink.py` says now.
-/
namespace C10
open Py Py.Glob Retention Retention.Spec Retention.Lemmas

/-! ### escaping -/

/-- a pattern produced by `glob.escape` matches exactly the text it was made from – whatever
metacharacters, brackets, `!`, `-` that text contains -/
theorem escape_matches_only_itself (s n : Str) : fnmatch (escape s) n = true ↔ n = s := by
  unfold fnmatch
  have h := translate_escape_append s []
  simp only [List.append_nil] at h
  have h2 : translate [] = [] := rfl
  rw [h, h2]
  have := wild_single_prefix s [] n
  rw [this]
  constructor
  · rintro ⟨m, rfl, hm⟩
    cases m with
    | nil => simp
    | cons c m => simp [wild] at hm
  · rintro rfl; exact ⟨[], by simp, by simp [wild]⟩

/-- the same under glob's hidden-file rule (one path component) -/
theorem escape_component_matches_only_itself (s n : Str) : compMatch (escape s) n = true ↔ n = s := by
  unfold compMatch
  rw [Bool.and_eq_true, escape_matches_only_itself]
  constructor
  · exact fun h => h.1
  · rintro rfl
    refine ⟨rfl, ?_⟩
    cases n with
    | nil => rfl
    | cons c r =>
      by_cases hc : c = '.'
      · subst hc; simp [isHidden, escape, escChar, isMagic]
      · have : isHidden (c :: r) = false := by
          unfold isHidden; split
          · rename_i heq; simp at heq; exact absurd heq.1 hc
          · rfl
        simp [this]

/-- a component without magic characters matches only itself (glob's literal-existence test and
fnmatch agree) -/
theorem fnmatch_nomagic (s n : Str) (h : hasMagic s = false) : fnmatch s n = true ↔ n = s := by
  have : escape s = s := by
    unfold escape
    induction s with
    | nil => rfl
    | cons c s ih =>
      simp only [hasMagic, List.any_cons, Bool.or_eq_false_iff] at h
      simp only [List.flatMap_cons, escChar, h.1]
      simp [ih (by simpa [hasMagic] using h.2)]
  have h2 := escape_matches_only_itself s n
  rwa [this] at h2

/-- "string surgery on an escaped pattern" is sound: `splitext` commutes with `glob.escape` -/
theorem splitext_escape_commute (p : Str) :
    splitext (escape p) = (escape (splitext p).1, escape (splitext p).2) :=
  splitextG_flatMap escChar_compat_sep escChar_compat_dot p

/-- … and with the rendering of a whole template (fields become the generated wildcard) -/
theorem splitext_render_commute (toks : List PTok) :
    splitext (render toks) =
      (render (splitextG isSepT isDotT toks).1, render (splitextG isSepT isDotT toks).2) :=
  splitextG_flatMap renderTok_compat_sep renderTok_compat_dot toks

/-! ### the generated pattern list -/

theorem render_dotAny : render dotAny = ".*".toList := by decide

/-- `_make_glob_patterns` yields exactly the renderings of the specification's variants: the
template, `.`+anything appended, `.`+anything inserted before the extension, both -/
theorem patterns_are_variants (path : Str) (toks : List PTok) (h : parseTemplate path = .ok toks) :
    makeGlobPatterns path = .ok ((variants toks).map render) := by
  unfold makeGlobPatterns variants
  simp only [h, splitext_render_commute]
  have hE : (render (splitextG isSepT isDotT toks).2).isEmpty = (splitextG isSepT isDotT toks).2.isEmpty :=
    flatMap_isEmpty renderTok_compat_dot _
  rw [hE]
  have happ : ∀ a b : List PTok, render (a ++ b) = render a ++ render b := by
    intro a b; simp [render]
  split
  · simp [Gen.patternsNoExt, happ, render_dotAny]
  · simp [Gen.patternsExt, happ, render_dotAny]

/-- one rendered variant selects only names the variant denotes -/
theorem pathMatch_render_sound (v : List PTok) (name : Str) (hm : pathMatch (render v) name = true) :
    tokensMatch v name = true := by
  unfold pathMatch at hm
  unfold tokensMatch
  rw [Bool.and_eq_true] at hm ⊢
  refine ⟨by rw [← isAbs_render]; exact hm.1, ?_⟩
  have h2 := hm.2
  unfold comps at h2
  rw [show compsG isSepC (render v) = (compsG isSepT v).map render from
        compsG_flatMap renderTok_compat_sep v, all2_map_left] at h2
  refine all2_mono _ _ ?_ _ _ h2
  intro c nc hc
  unfold compMatch at hc
  rw [Bool.and_eq_true, fnmatch_render] at hc
  exact hc.1

/-- **Safety half.**  For EVERY configured path and EVERY candidate name: if one of the generated
patterns selects the name, the name belongs to the family of the property statement.  Nothing
outside the family can be selected, whatever metacharacters the path or the name contain. -/
theorem patterns_sound (path name : Str) (ps : List Str) (h : makeGlobPatterns path = .ok ps)
    (p : Str) (hp : p ∈ ps) (hm : pathMatch p name = true) : family path name := by
  unfold makeGlobPatterns at h
  cases hpt : parseTemplate path with
  | error e => simp [hpt] at h
  | ok toks =>
    have h' := patterns_are_variants path toks hpt
    unfold makeGlobPatterns at h'
    rw [h'] at h
    have hps : ps = (variants toks).map render := by injection h with h; exact h.symm
    subst hps
    obtain ⟨v, hv, rfl⟩ := List.mem_map.mp hp
    refine ⟨toks, hpt, ?_⟩
    unfold familyToks
    exact List.any_eq_true.mpr ⟨v, hv, pathMatch_render_sound v name hm⟩

/-- **Completeness half** (side condition: glob's hidden-file rule).  Every family member none of
whose components starts with a dot is selected by one of the generated patterns. -/
theorem patterns_complete (path name : Str) (ps : List Str) (h : makeGlobPatterns path = .ok ps)
    (hf : family path name) (hh : ∀ c ∈ comps name, isHidden c = false) :
    ∃ p ∈ ps, pathMatch p name = true := by
  obtain ⟨toks, hpt, hfam⟩ := hf
  have h' := patterns_are_variants path toks hpt
  rw [h'] at h
  have hps : ps = (variants toks).map render := by injection h with h; exact h.symm
  subst hps
  unfold familyToks at hfam
  obtain ⟨v, hv, hvm⟩ := List.any_eq_true.mp hfam
  refine ⟨render v, List.mem_map.mpr ⟨v, hv, rfl⟩, ?_⟩
  unfold tokensMatch at hvm
  unfold pathMatch
  rw [Bool.and_eq_true] at hvm ⊢
  refine ⟨by rw [isAbs_render]; exact hvm.1, ?_⟩
  unfold comps
  rw [show compsG isSepC (render v) = (compsG isSepT v).map render from
        compsG_flatMap renderTok_compat_sep v, all2_map_left]
  -- strengthen componentwise using the no-hidden hypothesis
  have key : ∀ (l : List (List PTok)) (m : List Str), (∀ c ∈ m, isHidden c = false) →
      all2 sMatch l m = true → all2 (fun a c => compMatch (render a) c) l m = true := by
    intro l
    induction l with
    | nil => intro m _; cases m <;> simp [all2]
    | cons a l ih =>
      intro m hm
      cases m with
      | nil => simp [all2]
      | cons b m =>
        simp only [all2, Bool.and_eq_true]
        rintro ⟨h1, h2⟩
        refine ⟨?_, ih m (fun c hc => hm c (by simp [hc])) h2⟩
        unfold compMatch
        rw [fnmatch_render, h1, hm b (by simp)]
        rfl
  exact key _ _ hh hvm.2

/-! ### paths without fields: the statement in terms of the path itself -/

/-- a path without braces is all literal text -/
theorem parse_literal (path : Str) (h : ∀ c ∈ path, c ≠ '{' ∧ c ≠ '}') :
    parseTemplate path = .ok (path.map PTok.lit) := by
  unfold parseTemplate
  induction path with
  | nil => rfl
  | cons c r ih =>
    have hc := h c (by simp)
    have ih' := ih (fun d hd => h d (by simp [hd]))
    unfold parseGo
    split <;> simp_all [Except.map]

theorem render_literal (path : Str) : render (path.map PTok.lit) = escape path := by
  unfold render escape
  induction path with
  | nil => rfl
  | cons c r ih => simp [renderTok, ih]

/-- for a path without fields the generated patterns are the escaped path, its escaped root and
escaped extension of the UNESCAPED path, glued with `.*` – for every path, whatever it contains -/
theorem literal_path_patterns (path : Str) (h : ∀ c ∈ path, c ≠ '{' ∧ c ≠ '}') :
    makeGlobPatterns path = .ok (
      let e := escape path
      let r := escape (splitext path).1
      let x := escape (splitext path).2
      if (splitext path).2.isEmpty then [e, e ++ ".*".toList]
      else [e, e ++ ".*".toList, r ++ ".*".toList ++ x, r ++ ".*".toList ++ x ++ ".*".toList]) := by
  unfold makeGlobPatterns
  simp only [parse_literal path h, render_literal, splitext_escape_commute]
  have hE : (escape (splitext path).2).isEmpty = (splitext path).2.isEmpty :=
    flatMap_isEmpty escChar_compat_dot _
  rw [hE]
  split <;> simp [Gen.patternsNoExt, Gen.patternsExt]

/-! ### the retention block -/

/-- **The filter of the retention block admits regular files only** – for every file type a
directory entry can have (links followed): not directories, not FIFOs, sockets or device nodes, not
dangling links.  (The filter expression is the generated one.) -/
theorem filter_is_regular (k : Kind) : Gen.retentionFilter k = true ↔ k = .regular := by
  cases k <;> decide

/-- what the shape `os.path.exists(f) and not os.path.isdir(f)` would admit besides regular files:
exactly FIFOs, sockets and device nodes – the refutation of that shape, and which entries the
directory population must contain to expose it -/
theorem exists_not_dir_admits_special (k : Kind) :
    ((k.pathExists && !k.isdir) = true ∧ k ≠ .regular) ↔
      (k = .fifo ∨ k = .socket ∨ k = .charDevice ∨ k = .blockDevice) := by
  cases k <;> decide

/-- only regular files that some pattern selects are handed to the policy, each at most as often
as it occurs in the directory (once) -/
theorem only_regular_files (ps : List Str) (entries : List Entry) :
    (∀ e ∈ selectLogs ps entries, e ∈ entries ∧ e.isFile = true ∧ ∃ p ∈ ps, pathMatch p e.name = true) ∧
    (selectLogs ps entries).Sublist entries := by
  unfold selectLogs
  refine ⟨?_, List.filter_sublist⟩
  intro e he
  rw [List.mem_filter, Bool.and_eq_true, List.any_eq_true] at he
  exact ⟨he.1, by simpa [Entry.isFile] using (filter_is_regular e.kind).mp he.2.2, he.2.1⟩

/-- a callable policy receives exactly the selected regular files, each once (no duplicates when
the directory has none) -/
theorem callable_gets_each_family_file_once (ps : List Str) (entries : List Entry)
    (hnd : entries.Nodup) :
    (selectLogs ps entries).Nodup ∧
    ∀ e, e ∈ selectLogs ps entries ↔ (e ∈ entries ∧ e.isFile = true ∧ ∃ p ∈ ps, pathMatch p e.name = true) := by
  unfold selectLogs
  refine ⟨hnd.filter _, ?_⟩
  intro e
  rw [List.mem_filter, Bool.and_eq_true, List.any_eq_true]
  have hk : Gen.retentionFilter e.kind = true ↔ e.isFile = true := by
    rw [filter_is_regular]; simp [Entry.isFile]
  constructor
  · exact fun he => ⟨he.1, hk.mp he.2.2, he.2.1⟩
  · exact fun he => ⟨he.1, he.2.2, hk.mpr he.2.1⟩

theorem retentionCount_sublist (logs : List Entry) (n : Int) :
    ∀ e ∈ retentionCount logs n, e ∈ logs := by
  intro e he
  unfold retentionCount sliceFrom at he
  have : e ∈ isort entryLe logs := by
    split at he <;> exact List.mem_of_mem_drop he
  exact (isort_perm entryLe logs).mem_iff.mp this

/-- **Safety of a whole retention pass**, for every path, population, policy and clock value:
whatever is removed existed, was a regular file, and belongs to the family of the configured path -/
theorem retention_safe (path : Str) (pol : Policy) (now : Int) (entries del : List Entry)
    (h : retentionOf path pol now entries = .ok del) :
    ∀ e ∈ del, e ∈ entries ∧ e.isFile = true ∧ family path e.name := by
  unfold retentionOf at h
  cases hps : makeGlobPatterns path with
  | error e => simp [hps] at h
  | ok ps =>
    simp only [hps] at h
    injection h with h
    subst h
    intro e he
    have hsel : e ∈ selectLogs ps entries := by
      unfold retentionPass at he
      cases pol with
      | count n => exact retentionCount_sublist _ _ e he
      | age s => unfold retentionAge at he; exact (List.mem_filter.mp he).1
    obtain ⟨h1, h2, p, hp, hm⟩ := (only_regular_files ps entries).1 e hsel
    exact ⟨h1, h2, patterns_sound path e.name ps hps p hp hm⟩

/-! ### count policy -/

theorem entryLe_total (a b : Entry) : entryLe a b = true ∨ entryLe b a = true := keyLe_total _ _
theorem entryLe_trans (a b c : Entry) : entryLe a b = true → entryLe b c = true → entryLe a c = true :=
  keyLe_trans _ _ _

/-- what `entryLe` says in terms of the files: more recent first, ties by name -/
theorem entryLe_meaning (a b : Entry) (h : entryLe a b = true) :
    b.mtime ≤ a.mtime ∧ (a.mtime = b.mtime → strLe a.name b.name = true) := by
  unfold entryLe keyLe entryKey Gen.keyLog at h
  simp only [Bool.or_eq_true, decide_eq_true_eq, Bool.and_eq_true, beq_iff_eq] at h
  rcases h with h | ⟨h1, h2⟩
  · exact ⟨by omega, by intro; omega⟩
  · exact ⟨by omega, fun _ => h2⟩

/-- **Count policy**, for every list of logs and every N ≥ 0: the survivors are the first N of the
order (mtime descending, name ascending) and the removed files the rest; together they are the
logs; |survivors| = min N |logs|; every survivor is at least as recent as every removed file, ties
broken by name -/
theorem count_keeps_N_most_recent (logs : List Entry) (N : Nat) :
    let sorted := isort entryLe logs
    let survivors := sorted.take N
    let deleted := retentionCount logs N
    sorted.Perm logs ∧
    sorted.Pairwise (fun a b => entryLe a b = true) ∧
    survivors ++ deleted = sorted ∧
    survivors.length = min N logs.length ∧
    (∀ s ∈ survivors, ∀ d ∈ deleted,
      d.mtime ≤ s.mtime ∧ (s.mtime = d.mtime → strLe s.name d.name = true)) := by
  intro sorted survivors deleted
  have hperm : sorted.Perm logs := isort_perm entryLe logs
  have hsorted : sorted.Pairwise (fun a b => entryLe a b = true) :=
    isort_sorted entryLe entryLe_total entryLe_trans logs
  have hdel : deleted = sorted.drop N := by
    show retentionCount logs N = _
    unfold retentionCount sliceFrom Gen.countSliceStart
    simp
    rfl
  refine ⟨hperm, hsorted, ?_, ?_, ?_⟩
  · rw [hdel]; exact List.take_append_drop N sorted
  · show (sorted.take N).length = _
    rw [List.length_take, hperm.length_eq]
  · intro s hs d hd
    rw [hdel] at hd
    have := hsorted
    rw [← List.take_append_drop N sorted, List.pairwise_append] at this
    exact entryLe_meaning s d (this.2.2 s hs d hd)

/-- corollary: with N ≥ |logs| nothing is removed; with N = 0 everything is -/
theorem count_extremes (logs : List Entry) :
    (∀ N : Nat, logs.length ≤ N → retentionCount logs N = []) ∧
    (retentionCount logs 0).Perm logs := by
  constructor
  · intro N hN
    unfold retentionCount sliceFrom Gen.countSliceStart
    simp
    rw [(isort_perm entryLe logs).length_eq]; exact hN
  · unfold retentionCount sliceFrom Gen.countSliceStart
    simpa using isort_perm entryLe logs

/-! ### age policy -/

/-- **Age policy**, for every list, clock value and duration: a log is removed iff it was modified
at or before `now − d`; i.e. it survives iff `mtime > now − d` -/
theorem age_keeps_recent (logs : List Entry) (now d : Int) (e : Entry) :
    (e ∈ retentionAge logs now d ↔ e ∈ logs ∧ e.mtime ≤ now - d) ∧
    (e ∈ logs → (e ∉ retentionAge logs now d ↔ e.mtime > now - d)) := by
  unfold retentionAge Gen.ageDeletes
  constructor
  · simp [List.mem_filter]
  · intro he
    simp only [List.mem_filter, decide_eq_true_eq]
    constructor
    · intro h; have : ¬ e.mtime ≤ now - d := fun h' => h ⟨he, h'⟩; omega
    · intro h h'; omega

/-! ### what the `retention=` argument denotes (`_make_retention_function`) -/

/-- an int N is the count policy N (generated `number=` kernel) -/
theorem int_policy_exact (n : Int) : makeRetention (.int n) = .ok (.policy (.count n)) := rfl

/-- a timedelta is the age policy of EXACTLY its length, sub-second part included (generated
`seconds=` kernel; microseconds) -/
theorem timedelta_policy_exact (us : Int) : makeRetention (.timedelta us) = .ok (.policy (.age us)) := rfl

/-- a string in any spelling `parse_duration` accepts is the age policy of exactly the duration it
denotes; a string that is no duration is rejected with ValueError at `add()` -/
theorem duration_string_policy (s : Str) :
    makeRetention (.str s) =
      match Dur.parseDuration s with
      | .ok (some us) => .ok (.policy (.age us))
      | .ok none => .error .valueError
      | .error e => .error e := by
  simp only [makeRetention]
  cases Dur.parseDuration s with
  | error e => rfl
  | ok o => cases o <;> rfl

/-- the generated unit table gives the calendar-independent units their exact length: every
spelling of microsecond, millisecond, second, minute, hour, day, week (in microseconds) -/
theorem duration_units_denote :
    (["us", "microsecond", "microseconds"].all fun u => Dur.unitOf u.toList Gen.durationUnits == some 1) ∧
    (["ms", "millisecond", "milliseconds"].all fun u => Dur.unitOf u.toList Gen.durationUnits == some 1000) ∧
    (["s", "sec", "secs", "second", "seconds", "S", "Seconds"].all fun u =>
      Dur.unitOf u.toList Gen.durationUnits == some 1000000) ∧
    (["min", "mins", "minute", "minutes"].all fun u => Dur.unitOf u.toList Gen.durationUnits == some (60 * 1000000)) ∧
    (["h", "hour", "hours"].all fun u => Dur.unitOf u.toList Gen.durationUnits == some (3600 * 1000000)) ∧
    (["d", "day", "days"].all fun u => Dur.unitOf u.toList Gen.durationUnits == some (86400 * 1000000)) ∧
    (["w", "week", "weeks"].all fun u => Dur.unitOf u.toList Gen.durationUnits == some (7 * 86400 * 1000000)) := by
  decide

/-- whatever the spelling, a sink configured with a duration behaves as the age policy of that
exact duration -/
theorem configured_duration_exact (path s : Str) (us now : Int) (entries : List Entry)
    (h : Dur.parseDuration s = .ok (some us)) :
    retentionConfigured path (.str s) now entries = retentionOf path (.age us) now entries ∧
    retentionConfigured path (.timedelta us) now entries = retentionOf path (.age us) now entries := by
  unfold retentionConfigured
  rw [duration_string_policy, h, timedelta_policy_exact]
  exact ⟨rfl, rfl⟩

/-- **Duration policy end to end**, for every path, spelling, clock value and population: a file is
removed iff it is a selected regular family file modified at or before `now − d`, `d` the exact
duration the string denotes – so every selected file with `mtime > now − d` survives -/
theorem configured_duration_keeps_exactly_within (path s : Str) (us now : Int) (entries del : List Entry)
    (ps : List Str) (hps : makeGlobPatterns path = .ok ps)
    (h : Dur.parseDuration s = .ok (some us))
    (hr : retentionConfigured path (.str s) now entries = .ok del) (e : Entry) :
    e ∈ del ↔ (e ∈ selectLogs ps entries ∧ e.mtime ≤ now - us) := by
  rw [(configured_duration_exact path s us now entries h).1] at hr
  unfold retentionOf at hr
  simp only [hps] at hr
  injection hr with hr
  subst hr
  exact (age_keeps_recent (selectLogs ps entries) now us e).1

/-- what the shape `seconds=int(retention.total_seconds())` would lose: for EVERY duration with a
sub-second part there is a modification time within the duration that the truncated policy removes
(any age in `(floor d, d)`) – the refutation of that shape, and where to look for the failing file -/
theorem truncated_seconds_refuted (us now : Int) (h0 : 0 ≤ us) (hf : us % 1000000 ≠ 0) :
    truncSecondsUs us < us ∧
    ∃ mtime, now - us < mtime ∧ Gen.ageDeletes mtime now (truncSecondsUs us) = true := by
  have ht : truncSecondsUs us = us / 1000000 * 1000000 := by
    unfold truncSecondsUs; rw [Int.tdiv_eq_ediv_of_nonneg h0]
  have hlt : truncSecondsUs us < us := by rw [ht]; omega
  refine ⟨hlt, now - truncSecondsUs us, by omega, ?_⟩
  unfold Gen.ageDeletes
  simp

/-! ### when retention runs -/

/-- **Timing.**  In `_terminate_file` retention runs iff a retention policy exists and (the sink is
rotating or no rotation is configured) – so at stop only without rotation –, at most once, and
whenever a new file is created during a rotation, retention has run before it -/
theorem retention_timing (c : TermCfg) (isRotating : Bool) :
    (Act.retention ∈ terminate c isRotating ↔ (c.hasRetention = true ∧ (isRotating = true ∨ c.hasRotation = false))) ∧
    (terminate c isRotating).count Act.retention ≤ 1 ∧
    (Act.create ∈ terminate c isRotating ↔ isRotating = true) ∧
    (Act.retention ∈ terminate c isRotating → Act.create ∈ terminate c isRotating →
      (terminate c isRotating).idxOf Act.retention < (terminate c isRotating).idxOf Act.create) := by
  obtain ⟨fo, hr, hret, hc, sp⟩ := c
  cases isRotating <;> cases fo <;> cases hr <;> cases hret <;> cases hc <;> cases sp <;> decide

/-! ### non-vacuity -/

/-- the test-suite's `test_symbol_in_filename` situation and worse: `a[b]*.log` -/
example : makeGlobPatterns "a[b]*.log".toList =
    .ok ["a[[]b][*].log".toList, "a[[]b][*].log.*".toList, "a[[]b][*].*.log".toList,
         "a[[]b][*].*.log.*".toList] := by rfl
example : pathMatch "a[[]b][*].*.log".toList "a[b]*.2020.log".toList = true := by decide
example : pathMatch "a[[]b][*].*.log".toList "ab.2020.log".toList = false := by decide
example : familyB "a[b]*.log".toList "a[b]*.2020.log.gz".toList = some true := by decide
example : familyB "a[b]*.log".toList "abb.log".toList = some false := by decide
example : familyB "logs/{time}.log".toList "logs/2020.1.log".toList = some true := by decide
example : familyB "logs/{time}.log".toList "logs/sub/x.log".toList = some false := by decide
example : (retentionCount [⟨"a".toList, .regular, 5⟩, ⟨"b".toList, .regular, 7⟩, ⟨"c".toList, .regular, 5⟩] 1).map (·.name)
    = ["a".toList, "c".toList] := by decide
example : (retentionAge [⟨"a".toList, .regular, 5⟩, ⟨"b".toList, .regular, 7⟩] 10 5).map (·.name) = ["a".toList] := by decide
example : terminate ⟨true, true, true, false, true⟩ true = [.close, .rename, .retention, .create] := by decide
example : terminate ⟨true, true, true, false, true⟩ false = [.close] := by decide

example : Dur.parseDuration "2 s 700 ms".toList = .ok (some 2700000) := by rfl
example : Dur.parseDuration "2.9 s".toList = .ok (some 2900000) := by rfl
example : Dur.parseDuration "900 ms".toList = .ok (some 900000) := by rfl
/-- a file aged 2.1 s survives `retention="2 s 700 ms"`, one aged 3.5 s does not -/
example : (retentionConfigured "a.log".toList (.str "2 s 700 ms".toList) 10000000
      [⟨"a.log.1".toList, .regular, 10000000 - 2100000⟩, ⟨"a.log.2".toList, .regular, 10000000 - 3500000⟩]).map
      (·.map (·.name)) = .ok ["a.log.2".toList] := by rfl

end C10
