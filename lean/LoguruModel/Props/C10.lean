import LoguruModel.Retention.Lemmas
import LoguruModel.Retention.Dispatch
import LoguruModel.Retention.OwnLemmas
import LoguruModel.Retention.HistoryLemmas
import LoguruModel.Retention.Managed
import LoguruModel.Retention.RenameLemmas
/-
C10 – property theorems (only the theorems and their non-vacuity examples live here).
The pattern lists, the wildcard for a field, the sort key, the slice start, the age comparison and
the guard/position of the retention block are the GENERATED ones (`Retention.Gen`), i.e. what
`/repo/loguru/_file_sink.py` says now.
-/
namespace C10
open Py Py.Glob Retention Retention.Spec Retention.Lemmas

/-! ### escaping -/

/-- a pattern produced by `glob.escape` matches exactly the text it was made from – whatever
metacharacters, brackets, `!`, `-` that text contains -/
theorem escape_matches_only_itself (s n : Str) : fnmatch (escape s) n = true ↔ n = s := by
  unfold fnmatch
  have h := translate_escape_append s []
  simp only [List.append_nil] at h
  have h2 : translate [] = [] := rfl
  rw [h, h2]
  have := wild_single_prefix s [] n
  rw [this]
  constructor
  · rintro ⟨m, rfl, hm⟩
    cases m with
    | nil => simp
    | cons c m => simp [wild] at hm
  · rintro rfl; exact ⟨[], by simp, by simp [wild]⟩

/-- the same under glob's hidden-file rule (one path component) -/
theorem escape_component_matches_only_itself (s n : Str) : compMatch (escape s) n = true ↔ n = s := by
  unfold compMatch
  rw [Bool.and_eq_true, escape_matches_only_itself]
  constructor
  · exact fun h => h.1
  · rintro rfl
    refine ⟨rfl, ?_⟩
    cases n with
    | nil => rfl
    | cons c r =>
      by_cases hc : c = '.'
      · subst hc; simp [isHidden, escape, escChar, isMagic]
      · have : isHidden (c :: r) = false := by
          unfold isHidden; split
          · rename_i heq; simp at heq; exact absurd heq.1 hc
          · rfl
        simp [this]

/-- a component without magic characters matches only itself (glob's literal-existence test and
fnmatch agree) -/
theorem fnmatch_nomagic (s n : Str) (h : hasMagic s = false) : fnmatch s n = true ↔ n = s := by
  have : escape s = s := by
    unfold escape
    induction s with
    | nil => rfl
    | cons c s ih =>
      simp only [hasMagic, List.any_cons, Bool.or_eq_false_iff] at h
      simp only [List.flatMap_cons, escChar, h.1]
      simp [ih (by simpa [hasMagic] using h.2)]
  have h2 := escape_matches_only_itself s n
  rwa [this] at h2

/-- "string surgery on an escaped pattern" is sound: `splitext` commutes with `glob.escape` -/
theorem splitext_escape_commute (p : Str) :
    splitext (escape p) = (escape (splitext p).1, escape (splitext p).2) :=
  splitextG_flatMap escChar_compat_sep escChar_compat_dot p

/-- … and with the rendering of a whole template (fields become the generated wildcard) -/
theorem splitext_render_commute (toks : List PTok) :
    splitext (render toks) =
      (render (splitextG isSepT isDotT toks).1, render (splitextG isSepT isDotT toks).2) :=
  splitextG_flatMap renderTok_compat_sep renderTok_compat_dot toks

/-! ### the generated pattern list -/

theorem render_dotAny : render dotAny = ".*".toList := by decide

/-- `_make_glob_patterns` yields exactly the renderings of the specification's variants: the
template, `.`+anything appended, `.`+anything inserted before the extension, both -/
theorem patterns_are_variants (path : Str) (toks : List PTok) (h : parseTemplate path = .ok toks) :
    makeGlobPatterns path = .ok ((variants toks).map render) := by
  unfold makeGlobPatterns variants
  simp only [h, splitext_render_commute]
  have hE : (render (splitextG isSepT isDotT toks).2).isEmpty = (splitextG isSepT isDotT toks).2.isEmpty :=
    flatMap_isEmpty renderTok_compat_dot _
  rw [hE]
  have happ : ∀ a b : List PTok, render (a ++ b) = render a ++ render b := by
    intro a b; simp [render]
  split
  · simp [Gen.patternsNoExt, happ, render_dotAny]
  · simp [Gen.patternsExt, happ, render_dotAny]

/-- one rendered variant selects only names the variant denotes -/
theorem pathMatch_render_sound (v : List PTok) (name : Str) (hm : pathMatch (render v) name = true) :
    tokensMatch v name = true := by
  unfold pathMatch at hm
  unfold tokensMatch
  rw [Bool.and_eq_true] at hm ⊢
  refine ⟨by rw [← isAbs_render]; exact hm.1, ?_⟩
  have h2 := hm.2
  unfold comps at h2
  rw [show compsG isSepC (render v) = (compsG isSepT v).map render from
        compsG_flatMap renderTok_compat_sep v, all2_map_left] at h2
  refine all2_mono _ _ ?_ _ _ h2
  intro c nc hc
  unfold compMatch at hc
  rw [Bool.and_eq_true, fnmatch_render] at hc
  exact hc.1

/-- **Safety half.**  For EVERY configured path and EVERY candidate name: if one of the generated
patterns selects the name, the name belongs to the family of the property statement.  Nothing
outside the family can be selected, whatever metacharacters the path or the name contain. -/
theorem patterns_sound (path name : Str) (ps : List Str) (h : makeGlobPatterns path = .ok ps)
    (p : Str) (hp : p ∈ ps) (hm : pathMatch p name = true) : family path name := by
  unfold makeGlobPatterns at h
  cases hpt : parseTemplate path with
  | error e => simp [hpt] at h
  | ok toks =>
    have h' := patterns_are_variants path toks hpt
    unfold makeGlobPatterns at h'
    rw [h'] at h
    have hps : ps = (variants toks).map render := by injection h with h; exact h.symm
    subst hps
    obtain ⟨v, hv, rfl⟩ := List.mem_map.mp hp
    refine ⟨toks, hpt, ?_⟩
    unfold familyToks
    exact List.any_eq_true.mpr ⟨v, hv, pathMatch_render_sound v name hm⟩

/-- **Completeness half** (side condition: glob's hidden-file rule).  Every family member none of
whose components starts with a dot is selected by one of the generated patterns. -/
theorem patterns_complete (path name : Str) (ps : List Str) (h : makeGlobPatterns path = .ok ps)
    (hf : family path name) (hh : ∀ c ∈ comps name, isHidden c = false) :
    ∃ p ∈ ps, pathMatch p name = true := by
  obtain ⟨toks, hpt, hfam⟩ := hf
  have h' := patterns_are_variants path toks hpt
  rw [h'] at h
  have hps : ps = (variants toks).map render := by injection h with h; exact h.symm
  subst hps
  unfold familyToks at hfam
  obtain ⟨v, hv, hvm⟩ := List.any_eq_true.mp hfam
  refine ⟨render v, List.mem_map.mpr ⟨v, hv, rfl⟩, ?_⟩
  unfold tokensMatch at hvm
  unfold pathMatch
  rw [Bool.and_eq_true] at hvm ⊢
  refine ⟨by rw [isAbs_render]; exact hvm.1, ?_⟩
  unfold comps
  rw [show compsG isSepC (render v) = (compsG isSepT v).map render from
        compsG_flatMap renderTok_compat_sep v, all2_map_left]
  -- strengthen componentwise using the no-hidden hypothesis
  have key : ∀ (l : List (List PTok)) (m : List Str), (∀ c ∈ m, isHidden c = false) →
      all2 sMatch l m = true → all2 (fun a c => compMatch (render a) c) l m = true := by
    intro l
    induction l with
    | nil => intro m _; cases m <;> simp [all2]
    | cons a l ih =>
      intro m hm
      cases m with
      | nil => simp [all2]
      | cons b m =>
        simp only [all2, Bool.and_eq_true]
        rintro ⟨h1, h2⟩
        refine ⟨?_, ih m (fun c hc => hm c (by simp [hc])) h2⟩
        unfold compMatch
        rw [fnmatch_render, h1, hm b (by simp)]
        rfl
  exact key _ _ hh hvm.2

/-! ### paths without fields: the statement in terms of the path itself -/

/-- a path without braces is all literal text -/
theorem parse_literal (path : Str) (h : ∀ c ∈ path, c ≠ '{' ∧ c ≠ '}') :
    parseTemplate path = .ok (path.map PTok.lit) := by
  unfold parseTemplate
  induction path with
  | nil => rfl
  | cons c r ih =>
    have hc := h c (by simp)
    have ih' := ih (fun d hd => h d (by simp [hd]))
    unfold parseGo
    split <;> simp_all [Except.map]

theorem render_literal (path : Str) : render (path.map PTok.lit) = escape path := by
  unfold render escape
  induction path with
  | nil => rfl
  | cons c r ih => simp [renderTok, ih]

/-- for a path without fields the generated patterns are the escaped path, its escaped root and
escaped extension of the UNESCAPED path, glued with `.*` – for every path, whatever it contains -/
theorem literal_path_patterns (path : Str) (h : ∀ c ∈ path, c ≠ '{' ∧ c ≠ '}') :
    makeGlobPatterns path = .ok (
      let e := escape path
      let r := escape (splitext path).1
      let x := escape (splitext path).2
      if (splitext path).2.isEmpty then [e, e ++ ".*".toList]
      else [e, e ++ ".*".toList, r ++ ".*".toList ++ x, r ++ ".*".toList ++ x ++ ".*".toList]) := by
  unfold makeGlobPatterns
  simp only [parse_literal path h, render_literal, splitext_escape_commute]
  have hE : (escape (splitext path).2).isEmpty = (splitext path).2.isEmpty :=
    flatMap_isEmpty escChar_compat_dot _
  rw [hE]
  split <;> simp [Gen.patternsNoExt, Gen.patternsExt]

/-! ### the retention block -/

/-- **The filter of the retention block admits regular files only** – for every file type a
directory entry can have (links followed): not directories, not FIFOs, sockets or device nodes, not
dangling links.  (The filter expression is the generated one.) -/
theorem filter_is_regular (k : Kind) : Gen.retentionFilter k = true ↔ k = .regular := by
  cases k <;> decide

/-- what the shape `os.path.exists(f) and not os.path.isdir(f)` would admit besides regular files:
exactly FIFOs, sockets and device nodes – the refutation of that shape, and which entries the
directory population must contain to expose it -/
theorem exists_not_dir_admits_special (k : Kind) :
    ((k.pathExists && !k.isdir) = true ∧ k ≠ .regular) ↔
      (k = .fifo ∨ k = .socket ∨ k = .charDevice ∨ k = .blockDevice) := by
  cases k <;> decide

/-- only regular files that some pattern selects are handed to the policy, each at most as often
as it occurs in the directory (once) -/
theorem only_regular_files (ps : List Str) (entries : List Entry) :
    (∀ e ∈ selectLogs ps entries, e ∈ entries ∧ e.isFile = true ∧ ∃ p ∈ ps, pathMatch p e.name = true) ∧
    (selectLogs ps entries).Sublist entries := by
  unfold selectLogs
  refine ⟨?_, List.filter_sublist⟩
  intro e he
  rw [List.mem_filter, Bool.and_eq_true, List.any_eq_true] at he
  exact ⟨he.1, by simpa [Entry.isFile] using (filter_is_regular e.kind).mp he.2.2, he.2.1⟩

/-- a callable policy receives exactly the selected regular files, each once (no duplicates when
the directory has none) -/
theorem callable_gets_each_family_file_once (ps : List Str) (entries : List Entry)
    (hnd : entries.Nodup) :
    (selectLogs ps entries).Nodup ∧
    ∀ e, e ∈ selectLogs ps entries ↔ (e ∈ entries ∧ e.isFile = true ∧ ∃ p ∈ ps, pathMatch p e.name = true) := by
  unfold selectLogs
  refine ⟨hnd.filter _, ?_⟩
  intro e
  rw [List.mem_filter, Bool.and_eq_true, List.any_eq_true]
  have hk : Gen.retentionFilter e.kind = true ↔ e.isFile = true := by
    rw [filter_is_regular]; simp [Entry.isFile]
  constructor
  · exact fun he => ⟨he.1, hk.mp he.2.2, he.2.1⟩
  · exact fun he => ⟨he.1, he.2.2, hk.mpr he.2.1⟩

theorem retentionCount_sublist (logs : List Entry) (n : Int) :
    ∀ e ∈ retentionCount logs n, e ∈ logs := by
  intro e he
  unfold retentionCount sliceFrom at he
  have : e ∈ isort entryLe logs := by
    split at he <;> exact List.mem_of_mem_drop he
  exact (isort_perm entryLe logs).mem_iff.mp this

/-- **Safety of a whole retention pass**, for every path, population, policy and clock value:
whatever is removed existed, was a regular file, and belongs to the family of the configured path -/
theorem retention_safe (path : Str) (pol : Policy) (now : Int) (entries del : List Entry)
    (h : retentionOf path pol now entries = .ok del) :
    ∀ e ∈ del, e ∈ entries ∧ e.isFile = true ∧ family path e.name := by
  unfold retentionOf at h
  cases hps : makeGlobPatterns path with
  | error e => simp [hps] at h
  | ok ps =>
    simp only [hps] at h
    injection h with h
    subst h
    intro e he
    have hsel : e ∈ selectLogs ps entries := by
      unfold retentionPass at he
      cases pol with
      | count n => exact retentionCount_sublist _ _ e he
      | age s => unfold retentionAge at he; exact (List.mem_filter.mp he).1
    obtain ⟨h1, h2, p, hp, hm⟩ := (only_regular_files ps entries).1 e hsel
    exact ⟨h1, h2, patterns_sound path e.name ps hps p hp hm⟩

/-! ### count policy -/

theorem entryLe_total (a b : Entry) : entryLe a b = true ∨ entryLe b a = true := keyLe_total _ _
theorem entryLe_trans (a b c : Entry) : entryLe a b = true → entryLe b c = true → entryLe a c = true :=
  keyLe_trans _ _ _

/-- what `entryLe` says in terms of the files: more recent first, ties by name -/
theorem entryLe_meaning (a b : Entry) (h : entryLe a b = true) :
    b.mtime ≤ a.mtime ∧ (a.mtime = b.mtime → strLe a.name b.name = true) := by
  unfold entryLe keyLe entryKey Gen.keyLog at h
  simp only [Bool.or_eq_true, decide_eq_true_eq, Bool.and_eq_true, beq_iff_eq] at h
  rcases h with h | ⟨h1, h2⟩
  · exact ⟨by omega, by intro; omega⟩
  · exact ⟨by omega, fun _ => h2⟩

/-- **Count policy**, for every list of logs and every N ≥ 0: the survivors are the first N of the
order (mtime descending, name ascending) and the removed files the rest; together they are the
logs; |survivors| = min N |logs|; every survivor is at least as recent as every removed file, ties
broken by name -/
theorem count_keeps_N_most_recent (logs : List Entry) (N : Nat) :
    let sorted := isort entryLe logs
    let survivors := sorted.take N
    let deleted := retentionCount logs N
    sorted.Perm logs ∧
    sorted.Pairwise (fun a b => entryLe a b = true) ∧
    survivors ++ deleted = sorted ∧
    survivors.length = min N logs.length ∧
    (∀ s ∈ survivors, ∀ d ∈ deleted,
      d.mtime ≤ s.mtime ∧ (s.mtime = d.mtime → strLe s.name d.name = true)) := by
  intro sorted survivors deleted
  have hperm : sorted.Perm logs := isort_perm entryLe logs
  have hsorted : sorted.Pairwise (fun a b => entryLe a b = true) :=
    isort_sorted entryLe entryLe_total entryLe_trans logs
  have hdel : deleted = sorted.drop N := by
    show retentionCount logs N = _
    unfold retentionCount sliceFrom Gen.countSliceStart
    simp
    rfl
  refine ⟨hperm, hsorted, ?_, ?_, ?_⟩
  · rw [hdel]; exact List.take_append_drop N sorted
  · show (sorted.take N).length = _
    rw [List.length_take, hperm.length_eq]
  · intro s hs d hd
    rw [hdel] at hd
    have := hsorted
    rw [← List.take_append_drop N sorted, List.pairwise_append] at this
    exact entryLe_meaning s d (this.2.2 s hs d hd)

/-- corollary: with N ≥ |logs| nothing is removed; with N = 0 everything is -/
theorem count_extremes (logs : List Entry) :
    (∀ N : Nat, logs.length ≤ N → retentionCount logs N = []) ∧
    (retentionCount logs 0).Perm logs := by
  constructor
  · intro N hN
    unfold retentionCount sliceFrom Gen.countSliceStart
    simp
    rw [(isort_perm entryLe logs).length_eq]; exact hN
  · unfold retentionCount sliceFrom Gen.countSliceStart
    simpa using isort_perm entryLe logs

/-! ### age policy -/

/-- **Age policy**, for every list, clock value and duration: a log is removed iff it was modified
at or before `now − d`; i.e. it survives iff `mtime > now − d` -/
theorem age_keeps_recent (logs : List Entry) (now d : Int) (e : Entry) :
    (e ∈ retentionAge logs now d ↔ e ∈ logs ∧ e.mtime ≤ now - d) ∧
    (e ∈ logs → (e ∉ retentionAge logs now d ↔ e.mtime > now - d)) := by
  unfold retentionAge Gen.ageDeletes
  constructor
  · simp [List.mem_filter]
  · intro he
    simp only [List.mem_filter, decide_eq_true_eq]
    constructor
    · intro h; have : ¬ e.mtime ≤ now - d := fun h' => h ⟨he, h'⟩; omega
    · intro h h'; omega

/-! ### what the `retention=` argument denotes (`_make_retention_function`) -/

/-- an int N is the count policy N (generated `number=` kernel) -/
theorem int_policy_exact (n : Int) : makeRetention (.int n) = .ok (.policy (.count n)) := rfl

/-- a timedelta is the age policy of EXACTLY its length, sub-second part included (generated
`seconds=` kernel; microseconds) -/
theorem timedelta_policy_exact (us : Int) : makeRetention (.timedelta us) = .ok (.policy (.age us)) := rfl

/-- a string in any spelling `parse_duration` accepts is the age policy of exactly the duration it
denotes; a string that is no duration is rejected with ValueError at `add()` -/
theorem duration_string_policy (s : Str) :
    makeRetention (.str s) =
      match Dur.parseDuration s with
      | .ok (some us) => .ok (.policy (.age us))
      | .ok none => .error .valueError
      | .error e => .error e := by
  simp only [makeRetention]
  cases Dur.parseDuration s with
  | error e => rfl
  | ok o => cases o <;> rfl

/-- the generated unit table gives the calendar-independent units their exact length: every
spelling of microsecond, millisecond, second, minute, hour, day, week (in microseconds) -/
theorem duration_units_denote :
    (["us", "microsecond", "microseconds"].all fun u => Dur.unitOf u.toList Gen.durationUnits == some 1) ∧
    (["ms", "millisecond", "milliseconds"].all fun u => Dur.unitOf u.toList Gen.durationUnits == some 1000) ∧
    (["s", "sec", "secs", "second", "seconds", "S", "Seconds"].all fun u =>
      Dur.unitOf u.toList Gen.durationUnits == some 1000000) ∧
    (["min", "mins", "minute", "minutes"].all fun u => Dur.unitOf u.toList Gen.durationUnits == some (60 * 1000000)) ∧
    (["h", "hour", "hours"].all fun u => Dur.unitOf u.toList Gen.durationUnits == some (3600 * 1000000)) ∧
    (["d", "day", "days"].all fun u => Dur.unitOf u.toList Gen.durationUnits == some (86400 * 1000000)) ∧
    (["w", "week", "weeks"].all fun u => Dur.unitOf u.toList Gen.durationUnits == some (7 * 86400 * 1000000)) := by
  decide

/-- whatever the spelling, a sink configured with a duration behaves as the age policy of that
exact duration -/
theorem configured_duration_exact (path s : Str) (us now : Int) (entries : List Entry)
    (h : Dur.parseDuration s = .ok (some us)) :
    retentionConfigured path (.str s) now entries = retentionOf path (.age us) now entries ∧
    retentionConfigured path (.timedelta us) now entries = retentionOf path (.age us) now entries := by
  unfold retentionConfigured
  rw [duration_string_policy, h, timedelta_policy_exact]
  exact ⟨rfl, rfl⟩

/-- **Duration policy end to end**, for every path, spelling, clock value and population: a file is
removed iff it is a selected regular family file modified at or before `now − d`, `d` the exact
duration the string denotes – so every selected file with `mtime > now − d` survives -/
theorem configured_duration_keeps_exactly_within (path s : Str) (us now : Int) (entries del : List Entry)
    (ps : List Str) (hps : makeGlobPatterns path = .ok ps)
    (h : Dur.parseDuration s = .ok (some us))
    (hr : retentionConfigured path (.str s) now entries = .ok del) (e : Entry) :
    e ∈ del ↔ (e ∈ selectLogs ps entries ∧ e.mtime ≤ now - us) := by
  rw [(configured_duration_exact path s us now entries h).1] at hr
  unfold retentionOf at hr
  simp only [hps] at hr
  injection hr with hr
  subst hr
  exact (age_keeps_recent (selectLogs ps entries) now us e).1

/-- what the shape `seconds=int(retention.total_seconds())` would lose: for EVERY duration with a
sub-second part there is a modification time within the duration that the truncated policy removes
(any age in `(floor d, d)`) – the refutation of that shape, and where to look for the failing file -/
theorem truncated_seconds_refuted (us now : Int) (h0 : 0 ≤ us) (hf : us % 1000000 ≠ 0) :
    truncSecondsUs us < us ∧
    ∃ mtime, now - us < mtime ∧ Gen.ageDeletes mtime now (truncSecondsUs us) = true := by
  have ht : truncSecondsUs us = us / 1000000 * 1000000 := by
    unfold truncSecondsUs; rw [Int.tdiv_eq_ediv_of_nonneg h0]
  have hlt : truncSecondsUs us < us := by rw [ht]; omega
  refine ⟨hlt, now - truncSecondsUs us, by omega, ?_⟩
  unfold Gen.ageDeletes
  simp

/-! ### when retention runs -/

/-- **Timing.**  In `_terminate_file` retention runs iff a retention policy exists and (the sink is
rotating or no rotation is configured) – so at stop only without rotation –, at most once, and
whenever a new file is created during a rotation, retention has run before it -/
theorem retention_timing (c : TermCfg) (isRotating : Bool) :
    (Act.retention ∈ terminate c isRotating ↔ (c.hasRetention = true ∧ (isRotating = true ∨ c.hasRotation = false))) ∧
    (terminate c isRotating).count Act.retention ≤ 1 ∧
    (Act.create ∈ terminate c isRotating ↔ isRotating = true) ∧
    (Act.retention ∈ terminate c isRotating → Act.create ∈ terminate c isRotating →
      (terminate c isRotating).idxOf Act.retention < (terminate c isRotating).idxOf Act.create) := by
  obtain ⟨fo, hr, hret, hc, sp⟩ := c
  cases isRotating <;> cases fo <;> cases hr <;> cases hret <;> cases hc <;> cases sp <;> decide

/-! ## Round 5 – the candidate collection as the code writes it -/

/-- **The globbed candidates pass through a set** before the policy sees them (GENERATED from the
collection expression of the retention block, helper method followed) -/
theorem candidates_pass_through_a_set : Gen.collectIsSet = true := by decide

/-- **What the policy receives is exactly what was matched** – the globbed name itself, never a
resolved path (GENERATED from the element of the comprehension): for every `realpath` function -/
theorem policy_receives_matched_names (resolve : Str → Str) (ps : List Str) (entries : List Entry) :
    handedNames resolve ps entries = (collectLogs ps entries).map (·.name) := by
  unfold handedNames Gen.handedName
  rfl

/-- the comprehension → set → list of the source and the plain filter of the population (`selectLogs`,
on which the round-1 theorems are stated) hold the same entries, each once -/
theorem collect_perm_select (ps : List Str) (entries : List Entry) (hnd : entries.Nodup) :
    (collectLogs ps entries).Nodup ∧ (collectLogs ps entries).Perm (selectLogs ps entries) := by
  have hp := collect_perm_select_of_set candidates_pass_through_a_set ps entries hnd
  refine ⟨?_, hp⟩
  have : (selectLogs ps entries).Nodup := by unfold selectLogs; exact List.Pairwise.filter _ hnd
  exact hp.nodup_iff.mpr this

/-- why the set is needed: the bare comprehension lists an entry once per pattern that selects it –
`a.log.log` is selected by `a.log.*` and by `a.*.log` (a callable would receive it twice,
`retention_count` would count it twice and `os.remove` it twice) -/
theorem comprehension_lists_once_per_pattern :
    ∃ ps entries e, makeGlobPatterns "a.log".toList = .ok ps ∧ entries.Nodup ∧
      (comprehension ps entries).count e = 2 ∧ (collectLogs ps entries).count e = 1 := by
  refine ⟨_, [⟨"a.log.log".toList, .regular, 1⟩], ⟨"a.log.log".toList, .regular, 1⟩, rfl, by simp, ?_, ?_⟩ <;> decide

/-- **A callable policy receives exactly the family files, each once** – stated on the family of the
property (not on patterns): for every configured path and every population without duplicates, the
handed names are pairwise distinct; each is the name of a regular family file of the directory; and
every regular family file none of whose components starts with `.` is among them -/
theorem callable_receives_exactly_the_family (path : Str) (ps : List Str) (resolve : Str → Str)
    (entries : List Entry) (h : makeGlobPatterns path = .ok ps) (hnd : entries.Nodup)
    (hu : NamesUnique entries) :
    (handedNames resolve ps entries).Nodup ∧
    (∀ n ∈ handedNames resolve ps entries, ∃ e ∈ entries, e.name = n ∧ e.isFile = true ∧ family path n) ∧
    (∀ e ∈ entries, e.isFile = true → family path e.name → (∀ c ∈ comps e.name, isHidden c = false) →
      e.name ∈ handedNames resolve ps entries) := by
  rw [policy_receives_matched_names]
  have hc := collect_perm_select ps entries hnd
  have hmem : ∀ e, e ∈ collectLogs ps entries ↔ e ∈ selectLogs ps entries := mem_collectLogs ps entries
  have hsel := callable_gets_each_family_file_once ps entries hnd
  refine ⟨?_, ?_, ?_⟩
  · -- distinct entries of a directory have distinct names
    refine nodup_map_name _ hc.1 ?_
    intro a ha b hb hab
    have ha' := ((hsel.2 a).mp ((hmem a).mp ha)).1
    have hb' := ((hsel.2 b).mp ((hmem b).mp hb)).1
    exact hu a ha' b hb' hab
  · intro n hn
    obtain ⟨e, he, rfl⟩ := List.mem_map.mp hn
    obtain ⟨h1, h2, p, hp, hm⟩ := (hsel.2 e).mp ((hmem e).mp he)
    exact ⟨e, h1, rfl, h2, patterns_sound path e.name ps h p hp hm⟩
  · intro e he hf hfam hh
    obtain ⟨p, hp, hm⟩ := patterns_complete path e.name ps h hfam hh
    exact List.mem_map.mpr ⟨e, (hmem e).mpr ((hsel.2 e).mpr ⟨he, hf, p, hp, hm⟩), rfl⟩

/-! ### the count policy does not depend on the order in which the set yields its elements -/

theorem entryLe_antisymm (a b : Entry) (h1 : entryLe a b = true) (h2 : entryLe b a = true) :
    a.mtime = b.mtime ∧ a.name = b.name := by
  have m1 := entryLe_meaning a b h1
  have m2 := entryLe_meaning b a h2
  have hm : a.mtime = b.mtime := by omega
  exact ⟨hm, strLe_antisymm _ _ (m1.2 hm) (m2.2 hm.symm)⟩

/-- **Python's set iteration order cannot influence which files `retention_count` removes**: for
any two orders of the same candidates (names distinct) the removed list is the same – the sort key
(GENERATED: `(-mtime, name)`) is a total order without ties on distinct names.  (With the name dropped
from the key this fails: the key has ties and the survivors depend on the hash order.) -/
theorem count_independent_of_collection_order (l₁ l₂ : List Entry) (n : Int) (hu : NamesUnique l₁)
    (hp : l₁.Perm l₂) : retentionCount l₁ n = retentionCount l₂ n := by
  unfold retentionCount
  rw [isort_eq_of_perm entryLe entryLe_total entryLe_trans l₁ l₂ ?_ hp]
  intro a ha b hb hab hba
  exact hu a ha b hb (entryLe_antisymm a b hab hba).2

/-- … and for the age policy the removed files are the same up to order -/
theorem age_independent_of_collection_order (l₁ l₂ : List Entry) (now d : Int) (hp : l₁.Perm l₂) :
    (retentionAge l₁ now d).Perm (retentionAge l₂ now d) := hp.filter _

/-- one pass of the sink as the code performs it (comprehension, set, policy) removes what the
reference model `retentionPass` (filter of the population, policy) removes: the same list for a
count, the same files for a duration -/
theorem pass_as_written_eq_reference (ps : List Str) (pol : Policy) (now : Int) (entries : List Entry)
    (hnd : entries.Nodup) (hu : NamesUnique entries) :
    (passRemoves ps pol now entries).Perm (retentionPass ps pol now entries) ∧
    (∀ n, pol = .count n → passRemoves ps pol now entries = retentionPass ps pol now entries) := by
  have hp := (collect_perm_select ps entries hnd).2
  have hu' : NamesUnique (collectLogs ps entries) := by
    intro a ha b hb hab
    have ha' := ((mem_selectLogs ps entries a).mp ((mem_collectLogs ps entries a).mp ha)).1
    have hb' := ((mem_selectLogs ps entries b).mp ((mem_collectLogs ps entries b).mp hb)).1
    exact hu a ha' b hb' hab
  constructor
  · cases pol with
    | count n =>
      show (retentionCount _ n).Perm (retentionCount _ n)
      rw [count_independent_of_collection_order _ _ n hu' hp]
    | age s => exact age_independent_of_collection_order _ _ now s hp
  · rintro n rfl
    exact count_independent_of_collection_order _ _ n hu' hp

/-! ### histories: every pass is a function of the directory at that moment -/

/-- **Safety over every history.**  For every configured path, policy, initial directory and every
finite history of outside events (files appearing, changing type or modification time, disappearing)
interleaved with any number of retention passes at any clock values: what is stored under a name
OUTSIDE the family is, at the end, exactly what it would be had retention never run.  No sequence of
passes ever removes (or otherwise affects) a file that is not the sink's own. -/
theorem history_never_touches_names_outside_the_family (path : Str) (ps : List Str)
    (h : makeGlobPatterns path = .ok ps) (pol : Policy) (entries : List Entry) (evs : List Ev)
    (n : Str) (hn : ¬ family path n) :
    (runEvs ps pol entries evs).filter (fun e => e.name == n) =
      (runEvs ps pol entries (outsideOnly evs)).filter (fun e => e.name == n) := by
  have hno : ∀ p ∈ ps, pathMatch p n = false := by
    intro p hp
    cases hm : pathMatch p n with
    | false => rfl
    | true => exact absurd (patterns_sound path n ps h p hp hm) hn
  exact proj_history ps pol n hno evs entries entries rfl

/-- … and whatever a pass removes, at whatever point of whatever history, was at that moment an
entry of the directory, a regular file, and a member of the family -/
theorem history_pass_removes_only_regular_family_files (path : Str) (ps : List Str)
    (h : makeGlobPatterns path = .ok ps) (pol : Policy) (entries : List Entry) (evs : List Ev) (now : Int) :
    let dir := runEvs ps pol entries evs
    ∀ e ∈ passRemoves ps pol now dir, e ∈ dir ∧ e.isFile = true ∧ family path e.name := by
  intro dir e he
  have h1 := (mem_collectLogs ps dir e).mp (mem_of_mem_passRemoves ps pol now dir e he)
  obtain ⟨h2, h3, p, hp, hm⟩ := (only_regular_files ps dir).1 e h1
  exact ⟨h2, h3, patterns_sound path e.name ps h p hp hm⟩

/-- **Count policy at every pass of every history**: after a pass with count N the selected files
left in the directory are exactly the first N of the order (mtime descending, name ascending) of the
selected files as the directory was JUST BEFORE the pass (modification times read then, not
remembered); everything else in the directory is untouched; and a further pass on the unchanged
directory removes nothing.  (The directory holds one entry per name, initially – and then for ever,
`namesNodup_run`.) -/
theorem history_count_pass (ps : List Str) (N : Nat) (entries : List Entry) (evs : List Ev) (now : Int)
    (h0 : (entries.map (·.name)).Nodup) :
    let before := runEvs ps (.count N) entries evs
    let after := runEvs ps (.count N) entries (evs ++ [.pass now])
    (∀ e, e ∈ selectLogs ps after ↔ e ∈ (isort entryLe (selectLogs ps before)).take N) ∧
    (∀ e ∈ before, e ∉ selectLogs ps before → e ∈ after) ∧
    (∀ now', passRemoves ps (.count N) now' after = []) := by
  intro before after
  have hnn : NamesNodup before := namesNodup_run ps (.count N) evs entries h0
  have hb : before.Nodup := nodup_of_namesNodup _ hnn
  have hu : NamesUnique before := namesUnique_of_namesNodup _ hnn
  have hafter : after = removeAll (passRemoves ps (.count N) now before) before := by
    show runEvs ps (.count N) entries (evs ++ [.pass now]) = _
    unfold runEvs
    rw [List.foldl_append]
    rfl
  have hdel : passRemoves ps (.count N) now before = (isort entryLe (selectLogs ps before)).drop N := by
    rw [(pass_as_written_eq_reference ps (.count N) now before hb hu).2 N rfl]
    show retentionCount (selectLogs ps before) N = _
    unfold retentionCount sliceFrom Gen.countSliceStart
    simp
  have hsorted_nd : (isort entryLe (selectLogs ps before)).Nodup :=
    (isort_perm entryLe _).nodup_iff.mpr (by unfold selectLogs; exact List.Pairwise.filter _ hb)
  have hmem : ∀ e, e ∈ selectLogs ps after ↔ e ∈ (isort entryLe (selectLogs ps before)).take N := by
    intro e
    rw [hafter, selectLogs_removeAll, List.mem_filter, mem_take_iff_not_mem_drop _ hsorted_nd, hdel,
      (isort_perm entryLe (selectLogs ps before)).mem_iff]
    simp
  refine ⟨hmem, ?_, ?_⟩
  · intro e he hns
    rw [hafter]
    unfold removeAll
    rw [List.mem_filter]
    refine ⟨he, ?_⟩
    have : e ∉ passRemoves ps (.count N) now before := by
      intro hm
      exact hns ((mem_collectLogs ps before e).mp (mem_of_mem_passRemoves ps _ now before e hm))
    simpa using this
  · intro now'
    have hand : after.Nodup := by rw [hafter]; exact nodup_removeAll _ _ hb
    have hperm : (collectLogs ps after).Perm ((isort entryLe (selectLogs ps before)).take N) := by
      refine (List.perm_ext_iff_of_nodup (collect_perm_select ps after hand).1 ?_).mpr ?_
      · exact List.Pairwise.sublist (List.take_sublist _ _) hsorted_nd
      · intro e; rw [mem_collectLogs]; exact hmem e
    show retentionCount (collectLogs ps after) N = []
    apply (count_extremes (collectLogs ps after)).1 N
    rw [hperm.length_eq, List.length_take]
    omega

/-- **Duration policy at every pass of every history**: after a pass at clock value `now` the selected
files left are exactly those modified after `now − d` (as the directory was just before the pass), and
a further pass at the same clock value removes nothing -/
theorem history_age_pass (ps : List Str) (d : Int) (entries : List Entry) (evs : List Ev) (now : Int) :
    let before := runEvs ps (.age d) entries evs
    let after := runEvs ps (.age d) entries (evs ++ [.pass now])
    (∀ e, e ∈ selectLogs ps after ↔ (e ∈ selectLogs ps before ∧ e.mtime > now - d)) ∧
    passRemoves ps (.age d) now after = [] := by
  intro before after
  have hafter : after = removeAll (passRemoves ps (.age d) now before) before := by
    show runEvs ps (.age d) entries (evs ++ [.pass now]) = _
    unfold runEvs
    rw [List.foldl_append]
    rfl
  have hmem : ∀ e, e ∈ selectLogs ps after ↔ (e ∈ selectLogs ps before ∧ e.mtime > now - d) := by
    intro e
    rw [hafter, selectLogs_removeAll, List.mem_filter]
    constructor
    · rintro ⟨h1, h2⟩
      refine ⟨h1, ?_⟩
      have hnot : e ∉ retentionAge (collectLogs ps before) now d := by simpa [passRemoves] using h2
      exact ((age_keeps_recent (collectLogs ps before) now d e).2 ((mem_collectLogs ps before e).mpr h1)).mp hnot
    · rintro ⟨h1, h2⟩
      refine ⟨h1, ?_⟩
      have hnot : e ∉ retentionAge (collectLogs ps before) now d :=
        ((age_keeps_recent (collectLogs ps before) now d e).2 ((mem_collectLogs ps before e).mpr h1)).mpr h2
      simpa [passRemoves] using hnot
  refine ⟨hmem, ?_⟩
  show retentionAge (collectLogs ps after) now d = []
  rw [List.eq_nil_iff_forall_not_mem]
  intro e he
  have h1 := ((age_keeps_recent (collectLogs ps after) now d e).1.mp he)
  have h2 := (hmem e).mp ((mem_collectLogs ps after e).mp h1.1)
  omega

/-- what a sort key built on a REMEMBERED modification time would do: whenever a kept file `a` has
been modified since its time was remembered (remembered `m` < the other file's mtime < `a`'s mtime),
count 1 removes `a` – the most recently modified file – where the code as it is removes the other -/
theorem remembered_mtime_refuted (a b : Entry) (m : Int) (cache : Str → Option Int)
    (hc : cache a.name = some m) (hb : cache b.name = none) (h1 : m < b.mtime) (h2 : b.mtime < a.mtime) :
    retentionCountCached cache [a, b] 1 = [a] ∧ retentionCount [a, b] 1 = [b] := by
  constructor
  · unfold retentionCountCached sliceFrom Gen.countSliceStart
    have hle : entryLe { a with mtime := (cache a.name).getD a.mtime } { b with mtime := (cache b.name).getD b.mtime } = false := by
      simp only [hc, hb, Option.getD_some, Option.getD_none, entryLe, keyLe, entryKey, Gen.keyLog]
      have e1 : decide (-m < -b.mtime) = false := by simp; omega
      have e2 : (-m == -b.mtime) = false := by simp; omega
      rw [e1, e2]; rfl
    simp [isort, insertBy, hle]
  · unfold retentionCount sliceFrom Gen.countSliceStart
    have hle : entryLe a b = true := by
      unfold entryLe keyLe entryKey Gen.keyLog
      simp only [Bool.or_eq_true, decide_eq_true_eq, Bool.and_eq_true, beq_iff_eq]
      left; omega
    simp [isort, insertBy, hle]

/-! ## Round 5 – exactly which names the patterns select -/

theorem isHidden_render (tc : List PTok) : isHidden (render tc) = startsDotT tc := by
  cases tc with
  | nil => rfl
  | cons t ts =>
    cases t with
    | field => simp [render, renderTok, Gen.fieldGlob, isHidden, startsDotT]
    | lit c =>
      by_cases hc : c = '.'
      · subst hc; simp [render, renderTok, escChar, isMagic, isHidden, startsDotT]
      · have h2 : startsDotT (PTok.lit c :: ts) = false := by simp [startsDotT, hc]
        rw [h2]
        simp only [render, List.flatMap_cons, renderTok, escChar]
        split
        · simp [isHidden]
        · simp only [List.cons_append, List.nil_append]
          unfold isHidden
          split
          · rename_i heq; simp at heq; exact absurd heq.1 hc
          · rfl

/-- one rendered variant selects EXACTLY the names the variant denotes under the hidden-file rule
(an equality of Boolean functions: no side condition) -/
theorem pathMatch_render_eq (v : List PTok) (name : Str) :
    pathMatch (render v) name = tokensMatchH v name := by
  unfold pathMatch tokensMatchH comps
  rw [isAbs_render, show compsG isSepC (render v) = (compsG isSepT v).map render from
        compsG_flatMap renderTok_compat_sep v, all2_map_left]
  have : (fun a c => compMatch (render a) c) = sMatchH := by
    funext a c
    unfold compMatch sMatchH
    rw [fnmatch_render, isHidden_render]
  rw [this]

/-- **What the generated patterns select is exactly the managed family** – the family members glob
can see (no component starting with `.` unless the template component starts with a literal `.`):
for every configured path and every name, with no side condition.  `patterns_sound` and
`patterns_complete` are its two halves against the plain family. -/
theorem selected_iff_managed (path name : Str) (ps : List Str) (h : makeGlobPatterns path = .ok ps) :
    (∃ p ∈ ps, pathMatch p name = true) ↔ managed path name := by
  cases hpt : parseTemplate path with
  | error e => unfold makeGlobPatterns at h; simp [hpt] at h
  | ok toks =>
    have h' := patterns_are_variants path toks hpt
    rw [h'] at h
    have hps : ps = (variants toks).map render := by injection h with h; exact h.symm
    subst hps
    constructor
    · rintro ⟨p, hp, hm⟩
      obtain ⟨v, hv, rfl⟩ := List.mem_map.mp hp
      refine ⟨toks, hpt, ?_⟩
      unfold managedToks
      exact List.any_eq_true.mpr ⟨v, hv, by rw [← pathMatch_render_eq]; exact hm⟩
    · rintro ⟨toks', hpt', hm⟩
      rw [hpt] at hpt'
      injection hpt' with hpt'
      subst hpt'
      unfold managedToks at hm
      obtain ⟨v, hv, hvm⟩ := List.any_eq_true.mp hm
      exact ⟨render v, List.mem_map.mpr ⟨v, hv, rfl⟩, by rw [pathMatch_render_eq]; exact hvm⟩

/-- managed ⊆ family; and a family member without a dot-leading component is managed -/
theorem managed_family (path name : Str) :
    (managed path name → family path name) ∧
    (family path name → (∀ c ∈ comps name, isHidden c = false) → managed path name) := by
  constructor
  · rintro ⟨toks, hpt, hm⟩
    refine ⟨toks, hpt, ?_⟩
    unfold managedToks at hm
    unfold familyToks
    obtain ⟨v, hv, hvm⟩ := List.any_eq_true.mp hm
    refine List.any_eq_true.mpr ⟨v, hv, ?_⟩
    unfold tokensMatchH at hvm
    unfold tokensMatch
    rw [Bool.and_eq_true] at hvm ⊢
    refine ⟨hvm.1, all2_mono _ _ ?_ _ _ hvm.2⟩
    intro a b hab
    unfold sMatchH at hab
    rw [Bool.and_eq_true] at hab
    exact hab.1
  · intro hf hh
    cases hps : makeGlobPatterns path with
    | error e =>
      obtain ⟨toks, hpt, _⟩ := hf
      have := patterns_are_variants path toks hpt
      rw [hps] at this
      cases this
    | ok ps => exact (selected_iff_managed path name ps hps).mp (patterns_complete path name ps hps hf hh)

/-- **The candidates of a retention pass are exactly the regular managed family files of the directory**
(what a count counts, a duration judges, a callable receives) – an iff, for every path and population -/
theorem candidates_are_exactly_the_managed_regular_files (path : Str) (ps : List Str)
    (h : makeGlobPatterns path = .ok ps) (entries : List Entry) (e : Entry) :
    e ∈ collectLogs ps entries ↔ (e ∈ entries ∧ e.isFile = true ∧ managed path e.name) := by
  rw [mem_collectLogs, mem_selectLogs, filter_is_regular, ← selected_iff_managed path e.name ps h]
  simp [Entry.isFile]
  intro _
  exact and_comm

/-! ## Round 5 – the sink's own file names -/

/-- **The file the sink creates is a member of its family** (`_create_path` =
`path.format_map({"time": …})`): for every template and every rendering of its fields by non-empty
text free of `/`, in directory components as well as in the file name -/
theorem created_path_in_family (path : Str) (v : List FTok) (hp : parseTemplate path = .ok (v.map FTok.erase))
    (hv : fillsOk goodFill v) : family path (instantiate v) := by
  refine ⟨_, hp, ?_⟩
  rw [← guarded_eq_plain goodFill v hv]
  unfold familyToks
  rw [List.any_eq_true]
  refine ⟨v.map FTok.erase, ?_, tokensMatch_guarded goodFill goodFill_spec v⟩
  simp only [variants]
  split <;> simp

/-- … so it is among the candidates of every later pass while it is a regular file with no component
starting with `.` (it counts towards N; it is handed to a callable) -/
theorem created_path_is_selected (path : Str) (ps : List Str) (v : List FTok)
    (hp : parseTemplate path = .ok (v.map FTok.erase)) (hps : makeGlobPatterns path = .ok ps)
    (hv : fillsOk goodFill v) (hh : ∀ c ∈ comps (instantiate v), isHidden c = false)
    (entries : List Entry) (e : Entry) (he : e ∈ entries) (hname : e.name = instantiate v)
    (hk : e.kind = .regular) : e ∈ collectLogs ps entries := by
  obtain ⟨p, hpp, hm⟩ := patterns_complete path _ ps hps (created_path_in_family path v hp hv) hh
  rw [mem_collectLogs, mem_selectLogs]
  exact ⟨he, ⟨p, hpp, by rw [hname]; exact hm⟩, (filter_is_regular e.kind).mpr hk⟩

/-- **The name a rotated file is moved to is a member of the family** (`_terminate_file` when the new
file would have the same name: `root, ext = os.path.splitext(old_path)`, then the GENERATED
`"{}.{}{}".format(root, date, ext)` / `"{}.{}.{}{}".format(root, date, counter, ext)`): for every
template whose fields render to non-empty text free of `/` and `.`, every date text and counter text
free of `/` -/
theorem renamed_path_in_family (path : Str) (v : List FTok) (hp : parseTemplate path = .ok (v.map FTok.erase))
    (hv : fillsOk goodFillD v) (date : Str) (counter : Option Str)
    (hd : goodFill date = true) (hk : ∀ k, counter = some k → goodFill k = true) :
    family path (renameTarget (instantiate v) date counter) := by
  refine ⟨_, hp, ?_⟩
  -- the text inserted before the extension
  let ins : Str := match counter with | none => date | some k => date ++ '.' :: k
  have hins : goodFill ins = true := by
    cases counter with
    | none => exact hd
    | some k =>
      have hk' := goodFill_spec k (hk k rfl)
      have hd' := goodFill_spec date hd
      show goodFill (date ++ '.' :: k) = true
      unfold goodFill
      simp only [Bool.and_eq_true, Bool.not_eq_true', List.any_eq_false]
      refine ⟨by cases date <;> simp_all, ?_⟩
      intro c hc
      rw [List.mem_append, List.mem_cons] at hc
      rcases hc with hc | hc | hc
      · simpa using hd'.2 c hc
      · subst hc; decide
      · simpa using hk'.2 c hc
  -- split the template and the rendered name the same way
  have hgD : ∀ s, goodFillD s = true → s ≠ [] ∧ ∀ c ∈ s, isSepC c = false :=
    fun s h => ⟨(goodFillD_spec s h).1, (goodFillD_spec s h).2.1⟩
  have hgD' : ∀ s, goodFillD s = true → s ≠ [] ∧ ∀ c ∈ s, isDotC c = false :=
    fun s h => ⟨(goodFillD_spec s h).1, (goodFillD_spec s h).2.2⟩
  have hsplit := splitextG_flatMap (guarded_compat_sep goodFillD hgD) (guarded_compat_dot goodFillD hgD') v
  rw [guarded_eq_plain goodFillD v hv] at hsplit
  have happ := splitextG_append isSepF isDotF v
  generalize hre : splitextG isSepF isDotF v = re at hsplit happ
  obtain ⟨rv, ev⟩ := re
  simp only at hsplit happ
  have hvS : fillsOk goodFill v := fun s hs => goodFillD_goodFill s (hv s hs)
  have hrv : fillsOk goodFillD rv := fun s hs => hv s (by rw [← happ]; simp [hs])
  have hev : fillsOk goodFillD ev := fun s hs => hv s (by rw [← happ]; simp [hs])
  -- the renamed file is the rendering of `root ++ "." ++ <anything> ++ ext`
  let w : List FTok := rv ++ [.lit '.', .fill ins] ++ ev
  have hw : fillsOk goodFill w := by
    intro s hs
    simp only [w, List.mem_append, List.mem_cons, List.mem_nil_iff, or_false] at hs
    rcases hs with (hs | hs | hs) | hs
    · exact goodFillD_goodFill s (hrv s hs)
    · cases hs
    · cases hs; exact hins
    · exact goodFillD_goodFill s (hev s hs)
  have hname : renameTarget (instantiate v) date counter = instantiate w := by
    unfold renameTarget
    show (match counter with
          | none => Gen.renamedPath (splitext (instantiate v)).1 date (splitext (instantiate v)).2
          | some k => Gen.renamedPathN (splitext (instantiate v)).1 date k (splitext (instantiate v)).2) = _
    unfold splitext
    rw [hsplit, guarded_eq_plain goodFillD rv hrv, guarded_eq_plain goodFillD ev hev]
    cases counter <;>
      simp [Gen.renamedPath, Gen.renamedPathN, instantiate, w, ins, FTok.plain, List.flatMap_append]
  rw [hname, ← guarded_eq_plain goodFill w hw]
  have hm := tokensMatch_guarded goodFill goodFill_spec w
  -- and the template of that rendering is one of the variants
  have hT := splitextG_flatMap erase_compat_sep erase_compat_dot v
  rw [flatMap_singleton_map, hre] at hT
  simp only [flatMap_singleton_map] at hT
  unfold familyToks
  rw [List.any_eq_true]
  refine ⟨w.map FTok.erase, ?_, hm⟩
  have hwmap : w.map FTok.erase = rv.map FTok.erase ++ dotAny ++ ev.map FTok.erase := by
    simp [w, dotAny, FTok.erase]
  rw [hwmap]
  simp only [variants, hT]
  split
  · rename_i hempty
    have : ev = [] := by cases ev <;> simp_all
    subst this
    have : rv = v := by simpa using happ
    subst this
    simp
  · simp

/-- **… for ANY rendering of the fields** (no hypothesis about dots): whether the dot that `splitext`
finds in the rendered name is a literal of the template or lies inside the text a field was rendered to
(`{time:HH.mm}`), `root.<date>[.<n>]ext` is a member of the family – in the second case the field
absorbs the insertion.  Only `/` is excluded from rendered fields, the date and the counter. -/
theorem renamed_path_in_family_any_fields (path : Str) (v : List FTok)
    (hp : parseTemplate path = .ok (v.map FTok.erase)) (hv : fillsOk goodFill v) (date : Str)
    (counter : Option Str) (hd : goodFill date = true) (hk : ∀ k, counter = some k → goodFill k = true) :
    family path (renameTarget (instantiate v) date counter) := by
  refine ⟨_, hp, ?_⟩
  let ins : Str := match counter with | none => date | some k => date ++ '.' :: k
  have hins : goodFill ins = true := by
    cases counter with
    | none => exact hd
    | some k =>
      have hk' := goodFill_spec k (hk k rfl)
      have hd' := goodFill_spec date hd
      show goodFill (date ++ '.' :: k) = true
      unfold goodFill
      simp only [Bool.and_eq_true, Bool.not_eq_true', List.any_eq_false]
      refine ⟨by cases date <;> simp_all, ?_⟩
      intro c hc
      rw [List.mem_append, List.mem_cons] at hc
      rcases hc with hc | hc | hc
      · simpa using hd'.2 c hc
      · subst hc; decide
      · simpa using hk'.2 c hc
  have hname : renameTarget (instantiate v) date counter =
      (splitext (instantiate v)).1 ++ '.' :: ins ++ (splitext (instantiate v)).2 := by
    unfold renameTarget
    cases counter <;> simp [Gen.renamedPath, Gen.renamedPathN, ins]
  rw [hname]
  exact renamed_core v hv ins hins

/-- the GENERATED default format of an empty `{time}` spec renders to text the two theorems above
accept: only numeric strftime directives (each renders at least one digit), literal characters that are
neither `/` nor `.` -/
theorem default_time_format_is_a_good_fill :
    Gen.defaultTimeSpec ≠ [] ∧
    (specDirectives Gen.defaultTimeSpec).all (fun d => "YmdHMSfjUWyIGVu".toList.contains d) = true ∧
    (specLiterals Gen.defaultTimeSpec).all (fun c => !(isSepC c || isDotC c)) = true := by
  refine ⟨by decide, by decide, by decide⟩

/-! ### non-vacuity -/

/-- the test-suite's `test_symbol_in_filename` situation and worse: `a[b]*.log` -/
example : makeGlobPatterns "a[b]*.log".toList =
    .ok ["a[[]b][*].log".toList, "a[[]b][*].log.*".toList, "a[[]b][*].*.log".toList,
         "a[[]b][*].*.log.*".toList] := by rfl
example : pathMatch "a[[]b][*].*.log".toList "a[b]*.2020.log".toList = true := by decide
example : pathMatch "a[[]b][*].*.log".toList "ab.2020.log".toList = false := by decide
example : familyB "a[b]*.log".toList "a[b]*.2020.log.gz".toList = some true := by decide
example : familyB "a[b]*.log".toList "abb.log".toList = some false := by decide
example : familyB "logs/{time}.log".toList "logs/2020.1.log".toList = some true := by decide
example : familyB "logs/{time}.log".toList "logs/sub/x.log".toList = some false := by decide
example : (retentionCount [⟨"a".toList, .regular, 5⟩, ⟨"b".toList, .regular, 7⟩, ⟨"c".toList, .regular, 5⟩] 1).map (·.name)
    = ["a".toList, "c".toList] := by decide
example : (retentionAge [⟨"a".toList, .regular, 5⟩, ⟨"b".toList, .regular, 7⟩] 10 5).map (·.name) = ["a".toList] := by decide
example : terminate ⟨true, true, true, false, true⟩ true = [.close, .rename, .retention, .create] := by decide
example : terminate ⟨true, true, true, false, true⟩ false = [.close] := by decide

example : Dur.parseDuration "2 s 700 ms".toList = .ok (some 2700000) := by rfl
example : Dur.parseDuration "2.9 s".toList = .ok (some 2900000) := by rfl
example : Dur.parseDuration "900 ms".toList = .ok (some 900000) := by rfl
/-- a file aged 2.1 s survives `retention="2 s 700 ms"`, one aged 3.5 s does not -/
example : (retentionConfigured "a.log".toList (.str "2 s 700 ms".toList) 10000000
      [⟨"a.log.1".toList, .regular, 10000000 - 2100000⟩, ⟨"a.log.2".toList, .regular, 10000000 - 3500000⟩]).map
      (·.map (·.name)) = .ok ["a.log.2".toList] := by rfl

/-! round 5 -/
/-- `app.{time}.log` created with the default time format; rotated twice within one microsecond -/
example : familyB "logs/{time}/app.log".toList (instantiate (("logs/".toList.map FTok.lit) ++ [.fill "2026".toList] ++ ("/app.log".toList.map FTok.lit))) = some true := by decide
example : renameTarget "app.log".toList "2026-09-30_04-00-00_000000".toList none = "app.2026-09-30_04-00-00_000000.log".toList := by decide
example : renameTarget "app.log".toList "2026-09-30_04-00-00_000000".toList (some "2".toList) = "app.2026-09-30_04-00-00_000000.2.log".toList := by decide
example : familyB "app.log".toList (renameTarget "app.log".toList "2026-09-30_04-00-00_000000".toList (some "2".toList)) = some true := by decide
/-- two passes with a modification in between: the second pass reads the modification time again -/
example : (runEvs ["a.*".toList] (.count 1) [⟨"a.1".toList, .regular, 5⟩, ⟨"a.2".toList, .regular, 7⟩, ⟨"b".toList, .regular, 1⟩]
    [.put ⟨"a.3".toList, .regular, 6⟩, .pass 0, .put ⟨"a.4".toList, .regular, 3⟩, .put ⟨"a.4".toList, .regular, 9⟩, .pass 0]).map (·.name)
    = ["a.4".toList, "b".toList] := by decide
example : outsideOnly [.pass 0, .del "x".toList, .pass 1] = [.del "x".toList] := by decide
example : (comprehension ["a.log.*".toList, "a.*.log".toList] [⟨"a.log.log".toList, .regular, 1⟩]).length = 2 := by decide

example : managedB "logs/{time}.log".toList "logs/.log".toList = some false := by decide
example : familyB "logs/{time}.log".toList "logs/.log".toList = some true := by decide
example : managedB ".hidden/{time}.log".toList ".hidden/x.1.log".toList = some true := by decide

/-- `{time:HH.mm}`: the extension's dot lies inside the rendered field -/
example : renameTarget (instantiate [.lit 'a', .fill "12.30".toList]) "D".toList none = "a12.D.30".toList := by decide
example : familyB "a{time:HH.mm}".toList "a12.D.30".toList = some true := by decide

end C10
