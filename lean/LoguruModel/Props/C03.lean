import LoguruModel.Queue.Sent
import LoguruModel.Generated.QueueShape
import LoguruModel.Queue.Async
import LoguruModel.Queue.Worker
import LoguruModel.Queue.EnqAsync
/-
C03 – property theorems about the producer / worker protocol of an `enqueue=True` handler
(`Queue.step`), for every assignment of threads to processes and every schedule.
-/
namespace C03
open Queue

/-- all invariants hold in every reachable state -/
theorem inv_run (proc : Tid → Pid) (sched : List (Tid × Lab)) :
    Fifo (run proc {} sched) ∧ Conf (run proc {} sched) ∧ Sent proc (run proc {} sched) ∧ Wr (run proc {} sched) := by
  suffices h : ∀ s, Fifo s → Conf s → Sent proc s → Wr s →
      Fifo (run proc s sched) ∧ Conf (run proc s sched) ∧ Sent proc (run proc s sched) ∧ Wr (run proc s sched) from
    h {} fifo_init conf_init (sent_init proc) wr_init
  induction sched with
  | nil => intro s a b c d; exact ⟨a, b, c, d⟩
  | cons x xs ih =>
    intro s a b c d
    obtain ⟨t, lab⟩ := x
    simp only [run]
    cases hs : step proc s t lab with
    | some s' => exact ih s' (fifo_step a hs) (conf_step a b hs) (sent_step a c hs) (wr_step d hs)
    | none => exact ih s a b c d

/-- a schedule in which no `queue.get()` and no `sink.write()` raises (the model of rounds 1–4) -/
def errorFree (sched : List (Tid × Lab)) : Prop := ∀ x ∈ sched, isErr x.2 = false

/-- in such a schedule everything the worker is done with has been written: the sink IS the handled log -/
theorem error_free_sink (proc : Tid → Pid) (sched : List (Tid × Lab)) (he : errorFree sched) :
    (run proc {} sched).sink = hmsgs (run proc {} sched).handled := by
  have ha : AllW (run proc {} sched) := by
    suffices h : ∀ s, AllW s → AllW (run proc s sched) from h {} allw_init
    induction sched with
    | nil => intro s h; exact h
    | cons x xs ih =>
      intro s h
      obtain ⟨t, lab⟩ := x
      have hx : isErr lab = false := he (t, lab) List.mem_cons_self
      have he' : errorFree xs := fun y hy => he y (List.mem_cons_of_mem _ hy)
      simp only [run]
      cases hs : step proc s t lab with
      | some s' => exact ih he' s' (allw_step hx h hs)
      | none => exact ih he' s h
  have hw := (inv_run proc sched).2.2.2
  unfold Wr at hw
  rw [hw]
  exact writtenOf_allw _ ha

/-- NO LOSS, NO DUPLICATION, WHOLE MESSAGES, GLOBAL PUT ORDER – also when `sink.write` or `queue.get` raise: what the
worker is done with, followed by the message it holds, followed by the queued messages, is exactly the sequence of
all messages ever put, in put order; and the sink holds exactly those handled messages whose write returned (an error
costs the message it happened on – which is reported – and nothing else). -/
theorem queue_fifo_exactly_once (proc : Tid → Pid) (sched : List (Tid × Lab)) :
    let s := run proc {} sched
    hmsgs s.handled ++ heldOf s.w ++ msgsOf s.queue = s.putLog ∧ s.sink = writtenOf s.handled :=
  ⟨(inv_run proc sched).1, (inv_run proc sched).2.2.2⟩

/-- …without errors this is the statement of rounds 1–4 verbatim: written ++ in-flight ++ queued = put log -/
theorem queue_fifo_exactly_once_error_free (proc : Tid → Pid) (sched : List (Tid × Lab)) (he : errorFree sched) :
    let s := run proc {} sched
    s.sink ++ heldOf s.w ++ msgsOf s.queue = s.putLog := by
  intro s
  have h := (queue_fifo_exactly_once proc sched).1
  simp only at h
  rw [← h, error_free_sink proc sched he]

/-- every producer's messages reach the sink in the order that producer put them, each at most once – whatever
errors the worker met: the sink restricted to a producer is a sub-sequence of what that producer put -/
theorem per_producer_order (proc : Tid → Pid) (sched : List (Tid × Lab)) (t : Tid) :
    let s := run proc {} sched
    (s.sink.filter (fun e => e.1 = t)).Sublist (s.putLog.filter (fun e => e.1 = t)) := by
  intro s
  have h := queue_fifo_exactly_once proc sched
  simp only at h
  refine List.Sublist.filter _ ?_
  rw [← h.1, h.2, List.append_assoc]
  exact (writtenOf_sublist _).trans (List.sublist_append_left _ _)

/-- …and without errors the sink restricted to a producer is a PREFIX of what it put (rounds 1–4 verbatim) -/
theorem per_producer_order_error_free (proc : Tid → Pid) (sched : List (Tid × Lab)) (he : errorFree sched) (t : Tid) :
    let s := run proc {} sched
    ∃ rest, s.putLog.filter (fun e => e.1 = t) = s.sink.filter (fun e => e.1 = t) ++ rest := by
  intro s
  have h := queue_fifo_exactly_once_error_free proc sched he
  refine ⟨(heldOf s.w ++ msgsOf s.queue).filter (fun e => e.1 = t), ?_⟩
  simp only at h
  rw [← h, List.append_assoc, List.filter_append]

/-- BARRIER: when `complete_queue()` has returned in a thread (of ANY process: the confirmation lock and event are
shared), the worker is done with the first `k` messages of the put log – everything put before that thread put its
confirmation item: each of them has been written by the sink, or its own `get`/`write` error has been reported -/
theorem complete_is_barrier (proc : Tid → Pid) (sched : List (Tid × Lab)) (t : Tid) (k : Nat)
    (hc : (t, k) ∈ (run proc {} sched).completed) :
    let s := run proc {} sched
    k ≤ s.handled.length ∧ s.putLog.take k = hmsgs (s.handled.take k) ∧
      writtenOf (s.handled.take k) = s.sink.take (writtenOf (s.handled.take k)).length := by
  intro s
  have hk := (inv_run proc sched).2.1.cf3 t k hc
  have hf := queue_fifo_exactly_once proc sched
  simp only at hf
  refine ⟨hk, ?_, ?_⟩
  · rw [← hf.1, List.append_assoc, List.take_append_of_le_length (by simpa using hk)]
    simp only [hmsgs, List.map_take]
    rfl
  · have e : writtenOf (run proc {} sched).handled =
        writtenOf ((run proc {} sched).handled.take k) ++ writtenOf ((run proc {} sched).handled.drop k) := by
      rw [← writtenOf_append, List.take_append_drop]
    show writtenOf ((run proc {} sched).handled.take k) =
      (run proc {} sched).sink.take (writtenOf ((run proc {} sched).handled.take k)).length
    rw [hf.2, e, List.take_left']
    rfl

/-- …message by message, for a completer of any process: whatever was put before its confirmation item – by its own
process or by any other – is in the sink, or was reported as refused by the sink / unreadable by the worker -/
theorem barrier_message_written_or_reported (proc : Tid → Pid) (sched : List (Tid × Lab)) (t : Tid) (k : Nat)
    (hc : (t, k) ∈ (run proc {} sched).completed) (e : Tid × Nat)
    (he : e ∈ (run proc {} sched).putLog.take k) :
    e ∈ (run proc {} sched).sink ∨ ∃ o, o ≠ .written ∧ (e, o) ∈ (run proc {} sched).handled := by
  have h := complete_is_barrier proc sched t k hc
  simp only at h
  rw [h.2.1] at he
  have hw := (inv_run proc sched).2.2.2
  unfold Wr at hw
  rcases mem_hmsgs_cases _ _ he with h1 | ⟨o, ho, hm⟩
  · left
    rw [hw]
    have : (writtenOf ((run proc {} sched).handled.take k)).Sublist (writtenOf (run proc {} sched).handled) := by
      conv => rhs; rw [← List.take_append_drop k (run proc {} sched).handled]
      rw [writtenOf_append]
      exact List.sublist_append_left _ _
    exact this.subset h1
  · exact Or.inr ⟨o, ho, List.mem_of_mem_take hm⟩

/-- …without errors: the first `k` messages of the put log have been WRITTEN (rounds 1–4 verbatim) -/
theorem complete_is_barrier_error_free (proc : Tid → Pid) (sched : List (Tid × Lab)) (he : errorFree sched)
    (t : Tid) (k : Nat) (hc : (t, k) ∈ (run proc {} sched).completed) :
    let s := run proc {} sched
    k ≤ s.sink.length ∧ s.putLog.take k = s.sink.take k := by
  intro s
  have h := complete_is_barrier proc sched t k hc
  have hs := error_free_sink proc sched he
  simp only at h
  refine ⟨by rw [hs]; simpa using h.1, ?_⟩
  rw [h.2.1, hs]; simp [hmsgs, List.map_take]

/-- a waiting completer is never released early: while its confirmation item is still queued the
event is clear -/
theorem completer_waits_for_its_item (proc : Tid → Pid) (sched : List (Tid × Lab)) (t : Tid) (k : Nat)
    (ht : t ≠ workerTid) (hp : (run proc {} sched).pc t = .c2 k)
    (hq : (run proc {} sched).queue.count .confirm = 1) : (run proc {} sched).event = false := by
  have h := (inv_run proc sched).2.1.cf1 t ht (by rw [hp]; rfl)
  rw [hp] at h
  simp only [confInv] at h
  rcases h with h | h | h
  · exact h.2.1
  · omega
  · omega

/-- at most one confirmation item is ever in flight, and the event is set only for its owner -/
theorem no_confirmation_without_completer (proc : Tid → Pid) (sched : List (Tid × Lab))
    (hl : (run proc {} sched).confLock = none) :
    (run proc {} sched).queue.count .confirm = 0 ∧ (run proc {} sched).event = false :=
  let h := (inv_run proc sched).2.1.cf2 hl
  ⟨h.1, h.2.1⟩

/-- CONCURRENT COMPLETERS, whatever processes they run in, are serialised by the shared confirmation lock: at most one
thread is between `put(True)` and the release of the lock -/
theorem completers_are_serialised (proc : Tid → Pid) (sched : List (Tid × Lab)) (t u : Tid)
    (ht : t ≠ workerTid) (hu : u ≠ workerTid)
    (h1 : holdsConf ((run proc {} sched).pc t) = true) (h2 : holdsConf ((run proc {} sched).pc u) = true) : t = u := by
  have hc := (inv_run proc sched).2.1
  have a := hc.k1 t ht h1
  have b := hc.k1 u hu h2
  rw [a] at b
  exact Option.some.inj b

/-- …and a set event always belongs to the one completer that holds the lock: it is waiting for it (`c2`) or has just
been woken by it (`c3`), and the worker has already handled everything put before that completer's item – so the
answer to one process's request can never release another process's `complete()` -/
theorem event_belongs_to_the_lock_holder (proc : Tid → Pid) (sched : List (Tid × Lab))
    (he : (run proc {} sched).event = true) :
    ∃ t k, t ≠ workerTid ∧ (run proc {} sched).confLock = some t ∧
      ((run proc {} sched).pc t = .c2 k ∨ (run proc {} sched).pc t = .c3 k) ∧
      k ≤ (run proc {} sched).handled.length := by
  have hc := (inv_run proc sched).2.1
  cases hl : (run proc {} sched).confLock with
  | none => have := (hc.cf2 hl).2.1; rw [he] at this; cases this
  | some t =>
    obtain ⟨ht, hh⟩ := hc.k2 t hl
    have hi := hc.cf1 t ht hh
    cases hp : (run proc {} sched).pc t <;> rw [hp] at hh hi <;> simp [holdsConf] at hh
    · simp [confInv, he] at hi
    · rename_i k
      simp only [confInv, he] at hi
      rcases hi with h | h | h
      · simp at h
      · simp at h
      · exact ⟨t, k, ht, rfl, Or.inl hp, h.2.2.2⟩
    · rename_i k
      simp only [confInv] at hi
      exact ⟨t, k, ht, rfl, Or.inr hp, hi.2.2.2⟩
    · simp [confInv, he] at hi

/-- OWNER REMOVE: when the owner's stop() has returned, the worker is done with everything put before the sentinel
(each such message written, or its own error reported), it has left its loop and the sink is stopped -/
theorem owner_remove_drains (proc : Tid → Pid) (sched : List (Tid × Lab))
    (hr : (run proc {} sched).removed = true) :
    let s := run proc {} sched
    ∃ k, s.sentMark = some k ∧ s.handled.length = k ∧ s.putLog.take k = hmsgs s.handled ∧
      s.sink = writtenOf s.handled ∧ s.w = .done ∧ s.sinkStopped = true := by
  intro s
  have hs := (inv_run proc sched).2.2.1
  have hf := queue_fifo_exactly_once proc sched
  obtain ⟨hw, hss⟩ := hs.a5 hr
  cases hm : s.sentMark with
  | none => exact absurd hw (hs.a1 hm).2
  | some k =>
    rcases hs.a2 k hm with ⟨_, hnd, _⟩ | ⟨_, _, hlen⟩
    · exact absurd hw hnd
    · refine ⟨k, rfl, hlen, ?_, hf.2, hw, hss⟩
      have h1 := hf.1
      simp only at h1
      rw [← h1, List.append_assoc, ← hlen, ← hmsgs_length, List.take_left']
      rfl

/-- …without errors: everything put before the sentinel has been WRITTEN (rounds 1–4 verbatim) -/
theorem owner_remove_drains_error_free (proc : Tid → Pid) (sched : List (Tid × Lab)) (he : errorFree sched)
    (hr : (run proc {} sched).removed = true) :
    let s := run proc {} sched
    ∃ k, s.sentMark = some k ∧ s.sink.length = k ∧ s.putLog.take k = s.sink ∧
      s.w = .done ∧ s.sinkStopped = true := by
  intro s
  obtain ⟨k, h1, h2, h3, _, h5, h6⟩ := owner_remove_drains proc sched hr
  have hs := error_free_sink proc sched he
  exact ⟨k, h1, by rw [hs]; simpa using h2, by rw [hs]; exact h3, h5, h6⟩

/-- THE WORKER SURVIVES ERRORS: for every schedule – with any number of `queue.get()` calls that raise (with or
without consuming the item) and `sink.write()` calls that raise – the worker has left its loop only if the owner's
stop() put the sentinel and the worker consumed it -/
theorem worker_survives_errors (proc : Tid → Pid) (sched : List (Tid × Lab))
    (hw : (run proc {} sched).w = .done) :
    ∃ k, (run proc {} sched).sentMark = some k ∧ (run proc {} sched).stopCalled 0 = true ∧
      (run proc {} sched).queue.count .sentinel = 0 := by
  have hs := (inv_run proc sched).2.2.1
  cases hm : (run proc {} sched).sentMark with
  | none => exact absurd hw (hs.a1 hm).2
  | some k =>
    rcases hs.a2 k hm with ⟨_, hnd, _⟩ | ⟨hc, _, _⟩
    · exact absurd hw hnd
    · exact ⟨k, rfl, hs.a7 k hm, hc⟩

/-- …step by step: each of the three error transitions leaves the worker in its loop, consumes at most the one
message it happened on and records it as reported – nothing else changes -/
theorem worker_error_step (s s' : St) (lab : Lab) (he : lab = .getRaise ∨ lab = .writeFail ∨ ∃ i, lab = .getFail i)
    (hs : stepW s lab = some s') :
    s'.w = .loop ∧ s'.sink = s.sink ∧ s'.event = s.event ∧
      (s'.handled = s.handled ∨ ∃ e o, o ≠ .written ∧ s'.handled = s.handled ++ [(e, o)]) := by
  rcases he with rfl | rfl | ⟨i, rfl⟩ <;> w_arms hs <;> simp_all

/-- tie G (regenerated from the AST of `Handler._queued_writer`): the loop runs for ever; every `except` clause around
`queue.get()` and around `sink.write()` reports under the queue lock and goes on with the next iteration, and one of
them names `Exception`; `None` and `True` are recognised by identity, in that order; there is no other `break`,
`return` or `raise` in the loop – the sentinel is the only way out -/
theorem worker_loop_of_source_is_safe : safeLoop Queue.ShapeGen.workerLoop = true := by decide

/-- for EVERY exception class deriving from `Exception` (given by its MRO – `OSError` and `EOFError` families, pickling
errors, anything a record's reconstruction can raise), the loop of the CURRENT SOURCE answers an error of
`queue.get()` and an error of `sink.write()` by a report and the next iteration -/
theorem worker_loop_survives_every_exception (mro : List String) (he : "Exception" ∈ mro) :
    onRaise Queue.ShapeGen.workerLoop.getClauses mro = .next ∧
    reportsOnRaise Queue.ShapeGen.workerLoop.getClauses mro = true ∧
    onRaise Queue.ShapeGen.workerLoop.writeClauses mro = .next ∧
    reportsOnRaise Queue.ShapeGen.workerLoop.writeClauses mro = true := by
  have hl := worker_loop_of_source_is_safe
  simp only [safeLoop, Bool.and_eq_true] at hl
  obtain ⟨⟨⟨⟨⟨⟨_, hg⟩, _⟩, _⟩, hw⟩, _⟩, _⟩ := hl
  exact ⟨(safe_onRaise _ hg mro he).1, (safe_onRaise _ hg mro he).2, (safe_onRaise _ hw mro he).1,
    (safe_onRaise _ hw mro he).2⟩

/-- the error transitions of `Queue.stepW` ARE the source's: for every exception class deriving from `Exception`, the
worker state after `getFail` / `getRaise` / `writeFail` is the one Python's clause selection gives on the loop read
from the source (so `inv_run`, `worker_survives_errors` and the barrier theorems speak about the code as it is) -/
theorem model_error_steps_follow_source (mro : List String) (he : "Exception" ∈ mro) (s s' : St) :
    (∀ i, stepW s (.getFail i) = some s' → s'.w = wpcOf (onRaise Queue.ShapeGen.workerLoop.getClauses mro)) ∧
    (stepW s .getRaise = some s' → s'.w = wpcOf (onRaise Queue.ShapeGen.workerLoop.getClauses mro)) ∧
    (stepW s .writeFail = some s' → s'.w = wpcOf (onRaise Queue.ShapeGen.workerLoop.writeClauses mro)) :=
  stepW_errors_follow_loop _ worker_loop_of_source_is_safe mro he s s'

/-- NO LOSS THROUGH A DEAD WORKER: in every reachable state and for every exception class deriving from `Exception`
that `queue.get()` (which also un-pickles the record) or `sink.write()` may raise – the source's loop goes on, and
the worker of the model has left its loop only by consuming the owner's sentinel -/
theorem worker_leaves_only_by_sentinel (proc : Tid → Pid) (sched : List (Tid × Lab)) (mro : List String)
    (he : "Exception" ∈ mro) :
    (wpcOf (onRaise Queue.ShapeGen.workerLoop.getClauses mro) = .loop ∧
     wpcOf (onRaise Queue.ShapeGen.workerLoop.writeClauses mro) = .loop ∧
     Queue.ShapeGen.workerLoop.otherExits = 0 ∧ Queue.ShapeGen.workerLoop.sentinelLeaves = true) ∧
    ((run proc {} sched).w = .done → ∃ k, (run proc {} sched).sentMark = some k ∧
      (run proc {} sched).queue.count .sentinel = 0) := by
  have h := worker_loop_survives_every_exception mro he
  refine ⟨⟨by rw [h.1]; rfl, by rw [h.2.2.1]; rfl, by decide, by decide⟩, ?_⟩
  intro hw
  obtain ⟨k, h1, _, h3⟩ := worker_survives_errors proc sched hw
  exact ⟨k, h1, h3⟩

/-- the clause `except (EOFError, OSError): break` put in front of the generic one is refuted: a record whose
reconstruction raises `FileNotFoundError` would end the thread -/
theorem narrow_break_clause_is_unsafe :
    let bad : List Clause := [⟨["EOFError", "OSError"], false, false, .leave⟩, ⟨["Exception"], true, true, .next⟩]
    let mro := ["FileNotFoundError", "OSError", "Exception", "BaseException", "object"]
    onRaise bad mro = .leave ∧ safeClauses bad = false ∧
      onRaise [⟨["Exception"], true, true, .next⟩] mro = .next :=
  narrow_break_clause_kills_worker

/-- non-vacuity: `FileNotFoundError` derives from `Exception`; the source's loop goes on -/
example : onRaise Queue.ShapeGen.workerLoop.getClauses
    ["FileNotFoundError", "OSError", "Exception", "BaseException", "object"] = .next := by decide

/-- NOTHING IS LOST SILENTLY: every message ever put is, at any time, either written, or reported as refused by the
sink / unreadable by the worker, or still in flight (held by the worker or queued) -/
theorem every_accepted_message_accounted_for (proc : Tid → Pid) (sched : List (Tid × Lab)) (e : Tid × Nat)
    (he : e ∈ (run proc {} sched).putLog) :
    let s := run proc {} sched
    e ∈ s.sink ∨ (∃ o, o ≠ .written ∧ (e, o) ∈ s.handled) ∨ e ∈ heldOf s.w ∨ e ∈ msgsOf s.queue := by
  intro s
  have hf := queue_fifo_exactly_once proc sched
  simp only at hf
  rw [← hf.1] at he
  simp only [List.mem_append] at he
  rcases he with (h | h) | h
  · rw [hf.2]
    rcases mem_hmsgs_cases _ _ h with h | h
    · exact Or.inl h
    · exact Or.inr (Or.inl h)
  · exact Or.inr (Or.inr (Or.inl h))
  · exact Or.inr (Or.inr (Or.inr h))

/-- …and nothing is written afterwards: a worker that has left its loop has no transition -/
theorem nothing_written_after_worker_exit (s : St) (hw : s.w = .done) (lab : Lab) : stepW s lab = none := by
  unfold stepW; rw [hw]

/-- the worker blocks only on an empty queue (it never stops consuming while items are queued) -/
theorem worker_consumes_when_nonempty (s : St) (hw : s.w = .loop) (i : Item) (rest : List Item)
    (hq : s.queue = i :: rest) : (stepW s (.get i)).isSome = true := by
  unfold stepW; rw [hw, hq]; cases i <;> simp

/-- CHILD REMOVE IS LOCAL: a stop() executed in a non-owner process touches nothing but that
process's own `_stopped` flag and lock: no sentinel, the owner's worker and sink are untouched -/
theorem child_stop_is_local (proc : Tid → Pid) (s s' : St) (t : Tid) (lab : Lab)
    (hp : proc t ≠ 0) (hstop : preSent (s.pc t) = true) (hs : stepP proc s t lab = some s') :
    s'.queue = s.queue ∧ s'.sink = s.sink ∧ s'.w = s.w ∧ s'.sinkStopped = s.sinkStopped ∧
    s'.event = s.event ∧ (∀ q, q ≠ proc t → s'.stopped q = s.stopped q) ∧ s'.sentMark = s.sentMark := by
  p_arms hs <;> simp_all [setPc, preSent, upd]

/-- …and a non-owner thread never gets past that local part of stop() (no sentinel, no join, no sink.stop) -/
theorem child_never_past_local_stop (proc : Tid → Pid) (sched : List (Tid × Lab)) (t : Tid)
    (ht : t ≠ workerTid) (hp : proc t ≠ 0) : postSent ((run proc {} sched).pc t) = false := by
  cases h : postSent ((run proc {} sched).pc t)
  · rfl
  · exact absurd ((inv_run proc sched).2.2.1.a6 t ht h) hp

/-- non-vacuity: owner thread 1 logs, child thread 2 (process 1) logs and completes, owner removes -/
example :
    let proc : Tid → Pid := fun t => if t = 2 then 1 else 0
    let sched : List (Tid × Lab) := [
      (1, .startLog 10), (1, .acqL), (1, .rStopped false), (1, .put (.msg 1 10)), (1, .relL),
      (2, .startLog 20), (2, .acqL), (2, .rStopped false), (2, .put (.msg 2 20)), (2, .relL),
      (2, .startComplete), (2, .acqConf), (2, .put .confirm),
      (0, .get (.msg 1 10)), (0, .write), (2, .waitEvent),          -- still blocked: skipped
      (0, .get (.msg 2 20)), (0, .write), (0, .get .confirm), (0, .setEvent),
      (2, .waitEvent), (2, .clearEvent), (2, .relConf),
      (1, .startStop), (1, .acqL), (1, .wStopped), (1, .put .sentinel), (1, .join),   -- join blocked
      (0, .get .sentinel), (1, .join), (1, .sinkStop), (1, .relL)]
    let s := run proc {} sched
    s.sink = [(1, 10), (2, 20)] ∧ s.completed = [(2, 2)] ∧ s.removed = true ∧ s.w = .done ∧
      s.sentMark = some 2 := by
  decide

/-- non-vacuity with errors: the sink refuses the owner's message, the child's first message cannot be un-pickled by
the worker, `queue.get()` fails once without consuming anything; the child's second message is written, its
complete() returns (barrier over 3 handled messages), the owner removes -/
example :
    let proc : Tid → Pid := fun t => if t = 2 then 1 else 0
    let sched : List (Tid × Lab) := [
      (1, .startLog 10), (1, .acqL), (1, .rStopped false), (1, .put (.msg 1 10)), (1, .relL),
      (2, .startLog 20), (2, .acqL), (2, .rStopped false), (2, .put (.msg 2 20)), (2, .relL),
      (2, .startLog 21), (2, .acqL), (2, .rStopped false), (2, .put (.msg 2 21)), (2, .relL),
      (1, .startLog 11), (1, .acqL), (1, .rStopped false), (1, .putFail), (1, .relL),
      (2, .startComplete), (2, .acqConf), (2, .put .confirm),
      (0, .getRaise), (0, .get (.msg 1 10)), (0, .writeFail), (0, .getFail (.msg 2 20)),
      (0, .get (.msg 2 21)), (0, .write), (0, .get .confirm), (0, .setEvent),
      (2, .waitEvent), (2, .clearEvent), (2, .relConf),
      (1, .startStop), (1, .acqL), (1, .wStopped), (1, .put .sentinel),
      (0, .get .sentinel), (1, .join), (1, .sinkStop), (1, .relL)]
    let s := run proc {} sched
    s.sink = [(2, 21)] ∧ s.putLog = [(1, 10), (2, 20), (2, 21)] ∧ s.completed = [(2, 3)] ∧ s.removed = true ∧
      s.handled = [((1, 10), .refused), ((2, 20), .unreadable), ((2, 21), .written)] ∧ s.w = .done := by
  decide

/-- tie G: the statements of `Handler.emit` (critical section), `stop`, `complete_queue` and the control-item
tests of `_queued_writer` are the ones `Queue.step` transcribes: put / wait / clear all inside the confirmation
lock; control items recognised by IDENTITY (`is None`, `is True`), so no message text can be mistaken for one;
`_stopped` set before the owner check, sentinel, join and sink.stop, all under the handler lock. -/
theorem queue_shape_of_source :
    Queue.ShapeGen.completeInsideLock =
      ["self._queue.put(True)", "self._confirmation_event.wait()", "self._confirmation_event.clear()"] ∧
    Queue.ShapeGen.completeAfterLock = [] ∧
    Queue.ShapeGen.workerTests =
      [("message is None", "break"), ("message is True", "self._confirmation_event.set(); continue")] ∧
    Queue.ShapeGen.stopBody =
      ["self._stopped = True", "if self._enqueue:", "  if self._owner_process_pid != os.getpid(): return",
       "  self._queue.put(None)", "  self._thread.join()",
       "  if hasattr(self._queue, 'close'): self._queue.close()", "self._sink.stop()"] ∧
    Queue.ShapeGen.emitCritical =
      ["if self._stopped: return",
       "if self._enqueue: self._queue.put(str_record) else: self._sink.write(str_record)"] := by
  decide

/-- tie G (regenerated from `Handler.__init__`) for the SHARED part of `Queue.St` (`queue`, `event`, `confLock` are one
object for all processes): the three channel objects are multiprocessing primitives that come from one provider (the
`multiprocessing` module or the user's context – never a thread-only queue/event/lock), the owner is the creating
process, and the worker is a daemon thread running `_queued_writer`, started after everything it uses exists -/
theorem init_channel_of_source :
    Queue.ShapeGen.initChannelShared = true ∧ Queue.ShapeGen.initOwnerAndWorker = true := by decide

/-- the attributes of a handler that make up the cross-process channel: in a child that received the logger by
pickling they must be the parent's (queue, confirmation event and lock: shared objects; owner pid, `_stopped`,
`_enqueue`: copied values) -/
def channelAttrs : List String :=
  ["_queue", "_confirmation_event", "_confirmation_lock", "_owner_process_pid", "_stopped", "_enqueue"]

/-- tie G (regenerated from `Handler.__getstate__` / `__setstate__`) for the per-process part of `Queue.step`: a
pickled child keeps every channel attribute (none is blanked or re-created), gets a FRESH handler lock (`lock : Pid →
…` is per process), and has neither the sink nor the worker thread (only the owner writes, joins and stops) -/
theorem pickled_child_of_source :
    (∀ a ∈ channelAttrs, a ∉ Queue.ShapeGen.pickleBlanked.map (·.1) ∧ a ∉ Queue.ShapeGen.pickleFresh.map (·.1)) ∧
    ("_lock", "") ∈ Queue.ShapeGen.pickleBlanked ∧
    ("_lock", "create_handler_lock()", "") ∈ Queue.ShapeGen.pickleFresh ∧
    ("_sink", "self._enqueue") ∈ Queue.ShapeGen.pickleBlanked ∧
    ("_thread", "self._enqueue") ∈ Queue.ShapeGen.pickleBlanked := by
  decide

/-- tie G for the premise "an accepted message always enters the queue": `put` pickles the formatted text with its
record; the one field loguru itself has to make picklable is the exception, and both directions fall back to a
value-less `RecordException` for EVERY `Exception` the user's value raises while being pickled / unpickled, and to
a type-less one when the exception CLASS cannot be pickled (a class defined in a function; defect F28, repaired) –
so no exception can make `put` (or the worker's `get`) fail and lose the message. -/
theorem exception_value_never_blocks_the_queue :
    Queue.ShapeGen.reduceGuardsAll = true ∧ Queue.ShapeGen.reduceGuardsType = true ∧
    Queue.ShapeGen.loadGuardsAll = true := by decide

/-- tie G for "no loss when the program simply ends": the clean-up that drains the queue (`logger.remove`, whose
effect on the owner's worker is `owner_remove_drains`) is registered with `atexit` unconditionally at import. -/
theorem exit_drain_registered_unconditionally : Queue.ShapeGen.atexitRemoveUnconditional = true := by decide

/-! ### coroutine sinks (`Queue/Async.lean`) -/

/-- AWAITING the object returned by `logger.complete()` waits for the tasks of the loop it is awaited on – wherever and
whenever `complete()` itself was CALLED (another thread, an executor, a coroutine of another loop, before any loop ran:
`startComplete callLoop` and `beginAwait l` are separate transitions): whenever such an await on loop `l` has returned,
every task created on `l` before the snapshot – i.e. for every message accepted before the call – has finished.  For
every schedule of writes, event-loop progress and concurrent completers on any number of loops; the model is
instantiated with WHERE THE SOURCE READS THE RUNNING LOOP (`asyncLoopReadAtAwait`, regenerated). -/
theorem async_complete_waits_for_its_loop (sf : Bool) (sched : List (Async.Tid × Async.Lab)) (l n : Nat)
    (h : (l, n) ∈ (Async.run sf Queue.ShapeGen.asyncLoopReadAtAwait {} sched).returned) :
    ∀ i, i < n → ((Async.run sf Queue.ShapeGen.asyncLoopReadAtAwait {} sched).task i).loop = l →
      ((Async.run sf Queue.ShapeGen.asyncLoopReadAtAwait {} sched).task i).done = true := by
  have e : Queue.ShapeGen.asyncLoopReadAtAwait = true := by decide
  rw [e] at h ⊢
  exact ((Async.inv_run sf sched).ret l n h).2

/-- …and it never waits for another loop's task: the step over a foreign task is always enabled -/
theorem async_complete_never_waits_for_foreign_loop (la : Bool) (s : Async.St) (t : Async.Tid) (l n pos : Nat)
    (f : Option Nat) (hq : s.pc t = .c l f n pos) (hp : pos < n) (hf : some (s.task pos).loop ≠ f) :
    (Async.step true la s t .await).isSome = true := by
  simp [Async.step, hq, hp, hf]

/-- without the foreign-loop test a completer can be suspended on a task its own loop will never run -/
theorem async_foreign_wait_witness :
    let sched : List (Async.Tid × Async.Lab) := [(1, .write 7), (2, .startComplete none), (2, .beginAwait 0)]
    let s := Async.run false true {} sched
    Async.step false true s 2 .await = none ∧ Async.step false true s 2 .finish = none ∧
    (Async.step true true (Async.run true true {} sched) 2 .await).isSome = true := by
  decide

/-- reading the running loop when `complete()` is CALLED instead (filtering the snapshot at collection time) is refuted:
complete() called where no loop runs (a helper thread, an executor) or in a coroutine of another loop, its result
awaited on loop 0 – the await returns although the task of a message accepted before the call has not run on loop 0 -/
theorem async_loop_read_at_call_witness :
    let s1 := Async.run true false {} [(1, .write 0), (2, .startComplete none), (2, .beginAwait 0), (2, .await), (2, .finish)]
    let s2 := Async.run true false {} [(1, .write 0), (2, .startComplete (some 5)), (2, .beginAwait 0), (2, .await), (2, .finish)]
    let s3 := Async.run true true {} [(1, .write 0), (2, .startComplete none), (2, .beginAwait 0), (2, .await), (2, .finish)]
    s1.returned = [(0, 1)] ∧ (s1.task 0).loop = 0 ∧ (s1.task 0).done = false ∧
    s2.returned = [(0, 1)] ∧ (s2.task 0).done = false ∧
    s3.returned = [] := by
  decide

/-- non-vacuity: two loops; complete() called where no loop runs, awaited on loop 0: waits for its own task, skips the foreign one -/
example :
    let sched : List (Async.Tid × Async.Lab) := [
      (1, .write 0), (1, .write 7), (2, .startComplete none), (2, .beginAwait 0), (2, .await),   -- blocked: task 0 not done
      (9, .run 0), (2, .await), (2, .await), (2, .finish)]
    (Async.run true true {} sched).returned = [(0, 2)] ∧ ((Async.run true true {} sched).task 1).done = false := by
  decide

/-- tie G: the snapshot is taken under the handler lock, `_complete_task` skips foreign loops before awaiting, and the
running loop is read inside `_complete_task` (at await time) while `tasks_to_complete` collects every task unfiltered -/
theorem async_shape_of_source :
    Queue.ShapeGen.asyncSnapshotUnderLock = true ∧ Queue.ShapeGen.asyncSkipsForeignLoop = true ∧
    Queue.ShapeGen.asyncLoopReadAtAwait = true := by decide

/-! ### `enqueue=True` together with a coroutine sink (`Queue/EnqAsync.lean`) -/

/-- tie G (regenerated from `Logger.complete`): for each handler `complete_queue()` is called strictly before
`tasks_to_complete()`, both under the core lock -/
theorem complete_order_of_source : Queue.ShapeGen.completeQueueBeforeTasks = true := by decide

/-- tie G (regenerated from `Handler.tasks_to_complete` and `_queued_writer`) for the atomic `snapshot` transition of
`EnqAsync.step` / `Async.step`: the snapshot takes the lock under which the sink's WRITER runs – the queue lock when the
handler is enqueued (the worker's `sink.write` is the last statement of its loop body, inside `with <queue lock>`),
the handler lock otherwise – and a process that does not own the enqueued handler has no tasks to wait for -/
theorem snapshot_lock_of_source :
    Queue.ShapeGen.tasksSnapshotLockIsWriters = true ∧ Queue.ShapeGen.tasksOwnerOnly = true ∧
    Queue.ShapeGen.workerLoop.writeLast = true := by decide

/-- `await logger.complete()` on a handler that is both enqueued and a coroutine sink, with the order of the two calls
AS READ FROM THE SOURCE: whenever an awaited complete() on loop `l` has returned, the worker is done with every
message accepted before the call (`m < k`), and each of them that got a task on `l` has that task finished – for every
schedule of producers, worker, event loops and concurrent completers. -/
theorem enqueued_async_complete_waits (sched : List (EnqAsync.Tid × EnqAsync.Lab)) (l k : Nat)
    (h : (l, k) ∈ (EnqAsync.run Queue.ShapeGen.completeQueueBeforeTasks {} sched).returned) :
    let s := EnqAsync.run Queue.ShapeGen.completeQueueBeforeTasks {} sched
    k ≤ s.handled ∧ ∀ m i, m < k → s.taskOf m = some i → (s.task i).loop = l → (s.task i).done = true := by
  rw [complete_order_of_source] at h ⊢
  exact (EnqAsync.inv_run sched).ret l k h

/-- the opposite order is refuted: a message still queued when the snapshot is taken is missed – complete() returns
although the task of a message logged before it has not run -/
theorem swapped_order_witness :
    let sched : List (EnqAsync.Tid × EnqAsync.Lab) :=
      [(1, .log), (2, .startComplete 0), (2, .snapshot), (0, .workerWrite 0), (2, .barrier), (2, .finish)]
    let s := EnqAsync.run false {} sched
    s.returned = [(0, 1)] ∧ s.taskOf 0 = some 0 ∧ (s.task 0).loop = 0 ∧ (s.task 0).done = false := by
  decide

/-- non-vacuity: two messages, the second one dropped by the sink (no loop); the completer waits for the first one's task -/
example :
    let sched : List (EnqAsync.Tid × EnqAsync.Lab) :=
      [(1, .log), (1, .log), (2, .startComplete 0), (2, .barrier),            -- blocked: nothing handled yet
       (0, .workerWrite 0), (0, .workerDrop), (2, .barrier), (2, .snapshot), (2, .await),   -- blocked: task 0 not done
       (9, .run 0), (2, .await), (2, .finish)]
    let s := EnqAsync.run true {} sched
    s.returned = [(0, 2)] ∧ s.handled = 2 ∧ s.taskOf 0 = some 0 ∧ s.taskOf 1 = none ∧ (s.task 0).done = true := by
  decide

/-- tie G for "a sink error never stops the worker": whatever `ErrorInterceptor.print` does with `sys.stderr` happens
inside the `try` that swallows `OSError`, so a broken `sys.stderr` cannot make the worker's own error report raise
out of `_queued_writer` (which would end the thread and lose every later message). -/
theorem error_report_never_kills_the_worker : Queue.ShapeGen.reportGuardsStderr = true := by decide

end C03
