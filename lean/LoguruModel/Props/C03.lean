import LoguruModel.Queue.Sent
import LoguruModel.Generated.QueueShape
import LoguruModel.Queue.Async
/-
C03 – property theorems about the producer / worker protocol of an `enqueue=True` handler
(`Queue.step`), for every assignment of threads to processes and every schedule.
-/
namespace C03
open Queue

/-- all invariants hold in every reachable state -/
theorem inv_run (proc : Tid → Pid) (sched : List (Tid × Lab)) :
    Fifo (run proc {} sched) ∧ Conf (run proc {} sched) ∧ Sent proc (run proc {} sched) := by
  suffices h : ∀ s, Fifo s → Conf s → Sent proc s →
      Fifo (run proc s sched) ∧ Conf (run proc s sched) ∧ Sent proc (run proc s sched) from
    h {} fifo_init conf_init (sent_init proc)
  induction sched with
  | nil => intro s a b c; exact ⟨a, b, c⟩
  | cons x xs ih =>
    intro s a b c
    obtain ⟨t, lab⟩ := x
    simp only [run]
    cases hs : step proc s t lab with
    | some s' => exact ih s' (fifo_step a hs) (conf_step a b hs) (sent_step a c hs)
    | none => exact ih s a b c

/-- no loss, no duplication, whole messages, global put order: what the sink has written, followed by
the message the worker holds, followed by the queued messages, is exactly the sequence of all
messages ever put, in put order -/
theorem queue_fifo_exactly_once (proc : Tid → Pid) (sched : List (Tid × Lab)) :
    let s := run proc {} sched
    s.sink ++ heldOf s.w ++ msgsOf s.queue = s.putLog :=
  (inv_run proc sched).1

/-- the sink content is a prefix of the put log: every producer's messages reach the sink in the order
that producer put them, each at most once -/
theorem per_producer_order (proc : Tid → Pid) (sched : List (Tid × Lab)) (t : Tid) :
    let s := run proc {} sched
    ∃ rest, s.putLog.filter (fun e => e.1 = t) = s.sink.filter (fun e => e.1 = t) ++ rest := by
  intro s
  have h := queue_fifo_exactly_once proc sched
  refine ⟨(heldOf s.w ++ msgsOf s.queue).filter (fun e => e.1 = t), ?_⟩
  simp only at h
  rw [← h, List.append_assoc, List.filter_append]

/-- BARRIER: when `complete_queue()` has returned in a thread, the first `k` messages of the put log –
everything put before that thread put its confirmation item – have been written by the sink -/
theorem complete_is_barrier (proc : Tid → Pid) (sched : List (Tid × Lab)) (t : Tid) (k : Nat)
    (hc : (t, k) ∈ (run proc {} sched).completed) :
    let s := run proc {} sched
    k ≤ s.sink.length ∧ s.putLog.take k = s.sink.take k := by
  intro s
  have hk := (inv_run proc sched).2.1.cf3 t k hc
  have hf := queue_fifo_exactly_once proc sched
  refine ⟨hk, ?_⟩
  simp only at hf
  rw [← hf, List.append_assoc, List.take_append_of_le_length hk]

/-- a waiting completer is never released early: while its confirmation item is still queued the
event is clear -/
theorem completer_waits_for_its_item (proc : Tid → Pid) (sched : List (Tid × Lab)) (t : Tid) (k : Nat)
    (ht : t ≠ workerTid) (hp : (run proc {} sched).pc t = .c2 k)
    (hq : (run proc {} sched).queue.count .confirm = 1) : (run proc {} sched).event = false := by
  have h := (inv_run proc sched).2.1.cf1 t ht (by rw [hp]; rfl)
  rw [hp] at h
  simp only [confInv] at h
  rcases h with h | h | h
  · exact h.2.1
  · omega
  · omega

/-- at most one confirmation item is ever in flight, and the event is set only for its owner -/
theorem no_confirmation_without_completer (proc : Tid → Pid) (sched : List (Tid × Lab))
    (hl : (run proc {} sched).confLock = none) :
    (run proc {} sched).queue.count .confirm = 0 ∧ (run proc {} sched).event = false :=
  let h := (inv_run proc sched).2.1.cf2 hl
  ⟨h.1, h.2.1⟩

/-- OWNER REMOVE: when the owner's stop() has returned, everything put before the sentinel has been
written, the worker has left its loop and the sink is stopped -/
theorem owner_remove_drains (proc : Tid → Pid) (sched : List (Tid × Lab))
    (hr : (run proc {} sched).removed = true) :
    let s := run proc {} sched
    ∃ k, s.sentMark = some k ∧ s.sink.length = k ∧ s.putLog.take k = s.sink ∧
      s.w = .done ∧ s.sinkStopped = true := by
  intro s
  have hs := (inv_run proc sched).2.2
  have hf := queue_fifo_exactly_once proc sched
  obtain ⟨hw, hss⟩ := hs.a5 hr
  cases hm : s.sentMark with
  | none => exact absurd hw (hs.a1 hm).2
  | some k =>
    rcases hs.a2 k hm with ⟨_, hnd, _⟩ | ⟨_, _, hlen⟩
    · exact absurd hw hnd
    · refine ⟨k, rfl, hlen, ?_, hw, hss⟩
      simp only at hf
      rw [← hf, List.append_assoc, ← hlen, List.take_left']
      rfl

/-- …and nothing is written afterwards: a worker that has left its loop has no transition -/
theorem nothing_written_after_worker_exit (s : St) (hw : s.w = .done) (lab : Lab) : stepW s lab = none := by
  unfold stepW; rw [hw]

/-- the worker blocks only on an empty queue (it never stops consuming while items are queued) -/
theorem worker_consumes_when_nonempty (s : St) (hw : s.w = .loop) (i : Item) (rest : List Item)
    (hq : s.queue = i :: rest) : (stepW s (.get i)).isSome = true := by
  unfold stepW; rw [hw, hq]; cases i <;> simp

/-- CHILD REMOVE IS LOCAL: a stop() executed in a non-owner process touches nothing but that
process's own `_stopped` flag and lock: no sentinel, the owner's worker and sink are untouched -/
theorem child_stop_is_local (proc : Tid → Pid) (s s' : St) (t : Tid) (lab : Lab)
    (hp : proc t ≠ 0) (hstop : preSent (s.pc t) = true) (hs : stepP proc s t lab = some s') :
    s'.queue = s.queue ∧ s'.sink = s.sink ∧ s'.w = s.w ∧ s'.sinkStopped = s.sinkStopped ∧
    s'.event = s.event ∧ (∀ q, q ≠ proc t → s'.stopped q = s.stopped q) ∧ s'.sentMark = s.sentMark := by
  p_arms hs <;> simp_all [setPc, preSent, upd]

/-- …and a non-owner thread never gets past that local part of stop() (no sentinel, no join, no sink.stop) -/
theorem child_never_past_local_stop (proc : Tid → Pid) (sched : List (Tid × Lab)) (t : Tid)
    (ht : t ≠ workerTid) (hp : proc t ≠ 0) : postSent ((run proc {} sched).pc t) = false := by
  cases h : postSent ((run proc {} sched).pc t)
  · rfl
  · exact absurd ((inv_run proc sched).2.2.a6 t ht h) hp

/-- non-vacuity: owner thread 1 logs, child thread 2 (process 1) logs and completes, owner removes -/
example :
    let proc : Tid → Pid := fun t => if t = 2 then 1 else 0
    let sched : List (Tid × Lab) := [
      (1, .startLog 10), (1, .acqL), (1, .rStopped false), (1, .put (.msg 1 10)), (1, .relL),
      (2, .startLog 20), (2, .acqL), (2, .rStopped false), (2, .put (.msg 2 20)), (2, .relL),
      (2, .startComplete), (2, .acqConf), (2, .put .confirm),
      (0, .get (.msg 1 10)), (0, .write), (2, .waitEvent),          -- still blocked: skipped
      (0, .get (.msg 2 20)), (0, .write), (0, .get .confirm), (0, .setEvent),
      (2, .waitEvent), (2, .clearEvent), (2, .relConf),
      (1, .startStop), (1, .acqL), (1, .wStopped), (1, .put .sentinel), (1, .join),   -- join blocked
      (0, .get .sentinel), (1, .join), (1, .sinkStop), (1, .relL)]
    let s := run proc {} sched
    s.sink = [(1, 10), (2, 20)] ∧ s.completed = [(2, 2)] ∧ s.removed = true ∧ s.w = .done ∧
      s.sentMark = some 2 := by
  decide

/-- tie G: the statements of `Handler.emit` (critical section), `stop`, `complete_queue` and the control-item
tests of `_queued_writer` are the ones `Queue.step` transcribes: put / wait / clear all inside the confirmation
lock; control items recognised by IDENTITY (`is None`, `is True`), so no message text can be mistaken for one;
`_stopped` set before the owner check, sentinel, join and sink.stop, all under the handler lock. -/
theorem queue_shape_of_source :
    Queue.ShapeGen.completeInsideLock =
      ["self._queue.put(True)", "self._confirmation_event.wait()", "self._confirmation_event.clear()"] ∧
    Queue.ShapeGen.completeAfterLock = [] ∧
    Queue.ShapeGen.workerTests =
      [("message is None", "break"), ("message is True", "self._confirmation_event.set(); continue")] ∧
    Queue.ShapeGen.stopBody =
      ["self._stopped = True", "if self._enqueue:", "  if self._owner_process_pid != os.getpid(): return",
       "  self._queue.put(None)", "  self._thread.join()",
       "  if hasattr(self._queue, 'close'): self._queue.close()", "self._sink.stop()"] ∧
    Queue.ShapeGen.emitCritical =
      ["if self._stopped: return",
       "if self._enqueue: self._queue.put(str_record) else: self._sink.write(str_record)"] := by
  decide

/-- tie G for the premise "an accepted message always enters the queue": `put` pickles the formatted text with its
record; the one field loguru itself has to make picklable is the exception, and both directions fall back to a
value-less `RecordException` for EVERY `Exception` the user's value raises while being pickled / unpickled, and to
a type-less one when the exception CLASS cannot be pickled (a class defined in a function; defect F28, repaired) –
so no exception can make `put` (or the worker's `get`) fail and lose the message. -/
theorem exception_value_never_blocks_the_queue :
    Queue.ShapeGen.reduceGuardsAll = true ∧ Queue.ShapeGen.reduceGuardsType = true ∧
    Queue.ShapeGen.loadGuardsAll = true := by decide

/-- tie G for "no loss when the program simply ends": the clean-up that drains the queue (`logger.remove`, whose
effect on the owner's worker is `owner_remove_drains`) is registered with `atexit` unconditionally at import. -/
theorem exit_drain_registered_unconditionally : Queue.ShapeGen.atexitRemoveUnconditional = true := by decide

/-! ### coroutine sinks (`Queue/Async.lean`) -/

/-- `await logger.complete()` waits for the tasks of its loop: whenever a complete() on loop `l` has returned, every
task created on `l` before its snapshot – i.e. for every message accepted before the call – has finished.  For every
schedule of writes, event-loop progress and concurrent completers on any number of loops. -/
theorem async_complete_waits_for_its_loop (sf : Bool) (sched : List (Async.Tid × Async.Lab)) (l n : Nat)
    (h : (l, n) ∈ (Async.run sf {} sched).returned) :
    ∀ i, i < n → ((Async.run sf {} sched).task i).loop = l → ((Async.run sf {} sched).task i).done = true :=
  ((Async.inv_run sf sched).ret l n h).2

/-- …and it never waits for another loop's task: the step over a foreign task is always enabled -/
theorem async_complete_never_waits_for_foreign_loop (s : Async.St) (t : Async.Tid) (l n pos : Nat)
    (hq : s.pc t = .c l n pos) (hp : pos < n) (hf : (s.task pos).loop ≠ l) :
    (Async.step true s t .await).isSome = true := by
  simp [Async.step, hq, hp, hf]

/-- without the foreign-loop test a completer can be suspended on a task its own loop will never run -/
theorem async_foreign_wait_witness :
    let s := Async.run false {} [(1, .write 7), (2, .startComplete 0)]
    Async.step false s 2 .await = none ∧ Async.step false s 2 .finish = none ∧
    (Async.step true (Async.run true {} [(1, .write 7), (2, .startComplete 0)]) 2 .await).isSome = true := by
  decide

/-- non-vacuity: two loops, a completer that waits for its own task and skips the foreign one -/
example :
    let sched : List (Async.Tid × Async.Lab) := [
      (1, .write 0), (1, .write 7), (2, .startComplete 0), (2, .await),      -- blocked: task 0 not done
      (9, .run 0), (2, .await), (2, .await), (2, .finish)]
    (Async.run true {} sched).returned = [(0, 2)] ∧ ((Async.run true {} sched).task 1).done = false := by
  decide

/-- tie G: the snapshot is taken under the handler lock and `_complete_task` skips foreign loops before awaiting -/
theorem async_shape_of_source :
    Queue.ShapeGen.asyncSnapshotUnderLock = true ∧ Queue.ShapeGen.asyncSkipsForeignLoop = true := by decide

/-- tie G for "a sink error never stops the worker": whatever `ErrorInterceptor.print` does with `sys.stderr` happens
inside the `try` that swallows `OSError`, so a broken `sys.stderr` cannot make the worker's own error report raise
out of `_queued_writer` (which would end the thread and lose every later message). -/
theorem error_report_never_kills_the_worker : Queue.ShapeGen.reportGuardsStderr = true := by decide

end C03
