/-
C16 – catch() is transparent unless a matching exception escapes; then logs once (DESIGN §4 C16).

Everything is quantified over ALL body automata (arbitrary state type, arbitrary step function that
may itself touch the logger's world), ALL driver sequences, ALL configurations (arbitrary subclass
oracles, onerror that may raise), ALL environments (callables invoked while a record is produced,
a `_log` that may raise).  Model: Catch/Model.lean over Py/Generators.lean; constants and shapes:
Generated/Catch.lean (regenerated from loguru/_logger.py on every run).
-/
import LoguruModel.Catch.Flag
import LoguruModel.Catch.TowerEscape
import LoguruModel.Catch.Threads
import LoguruModel.Catch.Options

namespace C16
open Catch Py.Gen

/-! ## Tie G: the code still has the shape the model mirrors -/

/-- `type_ is None` is tested first; the guard flag, the subclass test and the exclude test are all present -/
theorem exit_tests_shape :
    Gen.exitTests.head? = some .noneType ∧ ExitTest.guardFlag ∈ Gen.exitTests ∧
    ExitTest.notSubclass ∈ Gen.exitTests ∧ ExitTest.excluded ∈ Gen.exitTests ∧ Gen.exitTests.length = 4 := by
  decide

/-- flag set → `_log` inside `try` → flag reset in `finally` → onerror → `return not reraise` -/
theorem exit_effects_shape :
    Gen.exitEffects = [.setFlag, .logInTry, .resetFlagInFinally, .onerrorIfNotNone, .returnNotReraise] := by
  decide

theorem exit_return_is_not_reraise : ∀ r : Bool, Gen.exitReturn r = !r := by decide

theorem depth_incr_is_one : Gen.depthIncr = 1 := by decide

/-- the depth `__exit__` adds to the logger's depth option (`if from_decorator: depth += 1`, then
    `depth += _frames`): 1 for the decorator wrappers (the frame that called / resumed the wrapper),
    0 for `with logger.catch()` (the frame containing the block), and 1 for `async with` where
    `__aexit__`'s own frame sits between `__exit__` and the block (`_frames=1`) – again the block's frame -/
theorem exit_depths :
    decoratorDepth = 1 ∧ withDepth = 0 ∧ asyncWithDepth = 1 ∧ Gen.syncExitFrames = 0 ∧ Gen.asyncExitFrames = 1 := by
  decide

theorem from_decorator_constants : Gen.decoratorFromDecorator = true ∧ Gen.contextFromDecorator = false := by
  decide

/-- the four branches of `Catcher.__call__`: each is `with catcher:` around a single
    `return await f(…)` / `return (yield from f(…))` / asend-try / `return f(…)`, followed by
    `return default` (resp. `raise StopAsyncIteration`); `athrow` and `aclose` are pass-throughs, `__anext__` is `return self.asend(None)`;
    `__aenter__/__aexit__` delegate -/
theorem wrapper_shapes :
    Gen.shapes = [
      { test := "iscoroutinefunction".toList, isAsync := true, inner := .awaitCall, after := .returnDefault },
      { test := "isgeneratorfunction".toList, isAsync := false, inner := .yieldFromCall, after := .returnDefault },
      { test := "isasyncgenfunction".toList, isAsync := true, inner := .asendTry, after := .raiseStopAsyncIteration },
      { test := [], isAsync := false, inner := .plainCall, after := .returnDefault }] ∧
    Gen.athrowPassThrough = true ∧ Gen.aclosePassThrough = true ∧ Gen.anextIsAsendNone = true ∧
    Gen.asyncContextDelegates = true := by
  decide

/-- the call of onerror is guarded by `onerror is not None` (not by its truth value) -/
theorem onerror_test_is_not_none : Gen.onerrorTest = .isNotNone := by decide

/-- catch() itself is inert: it validates nothing and looks nothing up (a level name is resolved when a
    record is produced, so it may be registered after the decorator was applied) -/
theorem catch_construction_inert : Gen.constructionInert = true := by decide

/-! ## `Catcher.__exit__` -/

/-- no exception: `__exit__` does nothing -/
theorem exit_without_exception (env : Env) (cfg : Cfg) (d : Nat) (g : G) :
    exit env cfg d none g = (.propagate, g) := exit_none env cfg d g

/-- other types, excluded types, or guard flag set: propagate, world untouched (no record, no onerror) -/
theorem exit_non_matching_propagates_unlogged (env : Env) (cfg : Cfg) (d : Nat) (e : Exc) (g : G)
    (h : g.flag = true ∨ cfg.isMatch e = false ∨ cfg.excluded e = true) :
    exit env cfg d (some e) g = (.propagate, g) := exit_uncaught env cfg d e g h

/-- a handled exception: if some handler accepts the configured level, exactly one record at that
    level carrying `e` (with the depth the call site adds) and every callable invoked meanwhile sees its
    own outcome – below the handlers' least level, in particular with NO handler at all, no record;
    flag reset; if `_log` raised, that error replaces `e` (no onerror); otherwise – record or not –
    exactly one `onerror e`, and the callback RECEIVES A WORLD WHOSE GUARD FLAG IS CLEAR (it is arbitrary
    user code: whatever catch()-protected code it calls behaves as anywhere else); its error, if any,
    replaces `e`; then suppressed iff `not reraise` -/
theorem exit_matching_logged_once (env : Env) (cfg : Cfg) (d : Nat) (e : Exc) (g : G)
    (hf : g.flag = false) (hm : cfg.isMatch e = true) (hx : cfg.excluded e = false) :
    exit env cfg d (some e) g =
      let delivered := decide (env.minLevel ≤ cfg.level)
      let g2 : G := { flag := false,
                      trace := g.trace ++ (if delivered then [.log cfg.level e d]
                                 ++ env.probes.map (fun p => .probe p.out) else []) }
      match (if delivered then env.logRaises e else none) with
      | some x => (.raise x, g2)
      | none =>
        match cfg.onerror with
        | none => (if cfg.reraise then .propagate else .suppress, g2)
        | some f =>
          match f e { flag := false, trace := g2.trace ++ [.onerror e] } with
          | (some x, g5) => (.raise x, g5)
          | (none, g5) => (if cfg.reraise then .propagate else .suppress, g5) := by
  rw [exit_caught env cfg d e g ⟨hf, hm, hx⟩]
  unfold caughtResult afterLog logErr logEvents G.push
  by_cases hl : cfg.level < env.minLevel
  · have : ¬ env.minLevel ≤ cfg.level := by omega
    simp only [hl, this, if_true, if_false, decide_false, List.append_nil, Bool.false_eq_true]
    cases cfg.onerror with
    | none => rfl
    | some f => simp only; split <;> rename_i h5 <;> simp [h5]
  · have : env.minLevel ≤ cfg.level := by omega
    simp only [hl, this, if_true, if_false, decide_true, List.append_assoc, List.cons_append, List.nil_append]
    cases env.logRaises e with
    | some y => rfl
    | none =>
      cases cfg.onerror with
      | none => rfl
      | some f => simp only; split <;> rename_i h5 <;> simp [h5]

/-- no handler accepts the level (e.g. `logger.remove()` left none): still exactly one `onerror e`,
    suppression / re-raise as configured, and no record -/
theorem exit_matching_without_handler (env : Env) (cfg : Cfg) (d : Nat) (e : Exc) (g : G)
    (f : Exc → G → Option Exc × G)
    (hf : g.flag = false) (hm : cfg.isMatch e = true) (hx : cfg.excluded e = false)
    (hl : cfg.level < env.minLevel) (ho : cfg.onerror = some f) :
    exit env cfg d (some e) g =
      match f e { flag := false, trace := g.trace ++ [.onerror e] } with
      | (some x, g5) => (.raise x, g5)
      | (none, g5) => (if cfg.reraise then .propagate else .suppress, g5) := by
  rw [exit_caught env cfg d e g ⟨hf, hm, hx⟩]
  unfold caughtResult afterLog logErr logEvents G.push
  simp only [hl, ho, if_true, List.append_nil]
  split <;> rename_i h5 <;> simp [h5]

/-- the truth value of the onerror callable is irrelevant: a FALSY callable (error registry with
    `__len__() == 0`, object with `__bool__() is False`) is called exactly like any other -/
theorem onerror_truth_value_irrelevant (env : Env) (cfg : Cfg) (b : Bool) (d : Nat) (e : Option Exc) (g : G) :
    exit env { cfg with onerrorFalsy := b } d e g = exit env cfg d e g := by
  cases e with
  | none => rw [exit_none, exit_none]
  | some x =>
    rcases caught_or_uncaught cfg g x with h | h
    · have h' : Caught { cfg with onerrorFalsy := b } g x := h
      rw [exit_caught env _ d x g h', exit_caught env cfg d x g h]
      rfl
    · have h' : Uncaught { cfg with onerrorFalsy := b } g x := h
      rw [exit_uncaught env _ d x g h', exit_uncaught env cfg d x g h]

/-- refuting witness for the shape `if onerror:` (seeded regression): under a truthiness test a falsy
    callable would never be called, under the actual `is not None` test it is -/
theorem truthiness_test_would_skip_falsy_onerror (cfg : Cfg) (f : Exc → G → Option Exc × G)
    (ho : cfg.onerror = some f) (hf : cfg.onerrorFalsy = true) :
    onerrorToCall .truthy cfg = none ∧ onerrorToCall .isNotNone cfg = some f ∧
    onerrorToCall Gen.onerrorTest cfg = some f := by
  refine ⟨?_, ?_, ?_⟩
  · simp [onerrorToCall, ho, hf]
  · simp [onerrorToCall, ho]
  · rw [onerrorToCall_generated, ho]

/-- while the flag is set every nested `__exit__` propagates and touches nothing; consequently the
    budget for nested catching is irrelevant: the real (recursive) `__exit__` equals the one in which
    callables invoked during `_log` are never caught -/
theorem no_recursive_catch (env : Env) (n : Nat) (cfg : Cfg) (d : Nat) (e : Option Exc) (g : G) :
    (g.flag = true → exitN n env cfg d e g = (.propagate, g)) ∧
    exitN n env cfg d e g = exitN 0 env cfg d e g := by
  constructor
  · intro hg
    cases e with
    | none => exact exitN_none n env cfg d g
    | some x => exact exitN_uncaught n env cfg d x g (Or.inl hg)
  · cases e with
    | none => rw [exitN_none, exitN_none]
    | some x =>
      rcases caught_or_uncaught cfg g x with h | h
      · rw [exitN_caught n env cfg d x g h, exitN_caught 0 env cfg d x g h]
      · rw [exitN_uncaught n env cfg d x g h, exitN_uncaught 0 env cfg d x g h]

/-- the guard flag is reset on every path (no exception, not handled, handled, `_log` raising,
    onerror raising): `__exit__` leaves it as it found it – provided the user's onerror code, which
    is handed a clear flag, leaves it alone -/
theorem guard_flag_reset_on_every_path (env : Env) (cfg : Cfg) (d : Nat) (e : Option Exc) (g : G)
    (honerr : ∀ f, cfg.onerror = some f → ∀ x g', (f x g').2.flag = g'.flag) :
    (exit env cfg d e g).2.flag = g.flag := exit_flag env cfg d e g honerr

/-! ## plain functions and `with` / `async with` blocks (`runWith`; `callWrapped`, `withBlock` and `asyncWithBlock` are instances) -/

theorem fn_transparent (env : Env) (cfg : Cfg) (d : Nat) (dflt : Val) (body : G → CallRes × G) (g : G)
    (v : Val) (g1 : G) (h : body g = (.ret v, g1)) :
    runWith (exit env) cfg d dflt body g = (.ret v, g1) := by
  simp [runWith, h, exit_none]

theorem fn_non_matching_propagates_unlogged (env : Env) (cfg : Cfg) (d : Nat) (dflt : Val)
    (body : G → CallRes × G) (g : G) (e : Exc) (g1 : G) (h : body g = (.raise e, g1))
    (hu : g1.flag = true ∨ cfg.isMatch e = false ∨ cfg.excluded e = true) :
    runWith (exit env) cfg d dflt body g = (.raise e, g1) := by
  simp [runWith, h, exit_uncaught env cfg d e g1 hu]

/-- decorated function / block whose body raises a handled `e`: the records and calls of
    `exit_matching_logged_once`, then `return default` (block: fall through), or `e` re-raised -/
theorem fn_matching_escape_logged_once (env : Env) (cfg : Cfg) (d : Nat) (dflt : Val)
    (body : G → CallRes × G) (g : G) (e : Exc) (g1 : G) (h : body g = (.raise e, g1))
    (hf : g1.flag = false) (hm : cfg.isMatch e = true) (hx : cfg.excluded e = false) :
    runWith (exit env) cfg d dflt body g =
      match caughtResult env cfg d e g1 with
      | (.suppress, g2) => (.ret dflt, g2)
      | (.propagate, g2) => (.raise e, g2)
      | (.raise x, g2) => (.raise x, g2) := by
  simp only [runWith, h, exit_caught env cfg d e g1 ⟨hf, hm, hx⟩]
  generalize caughtResult env cfg d e g1 = r
  obtain ⟨er, g2⟩ := r
  cases er <;> rfl

/-- the common case spelled out: `_log` and onerror do not raise -/
theorem fn_matching_escape_default (env : Env) (cfg : Cfg) (body : G → CallRes × G) (g : G) (e : Exc) (g1 : G)
    (h : body g = (.raise e, g1)) (hf : g1.flag = false) (hm : cfg.isMatch e = true) (hx : cfg.excluded e = false)
    (hd : env.minLevel ≤ cfg.level)
    (hl : env.logRaises e = none) (ho : cfg.onerror = some (fun _ g => (none, g))) :
    callWrapped (exit env) cfg body g =
      (if cfg.reraise then .raise e else .ret cfg.default,
       { flag := false,
         trace := g1.trace ++ [.log cfg.level e 1] ++ env.probes.map (fun p => .probe p.out) ++ [.onerror e] }) := by
  unfold callWrapped
  rw [fn_matching_escape_logged_once env cfg _ _ body g e g1 h hf hm hx]
  have hnl : ¬ cfg.level < env.minLevel := by omega
  unfold caughtResult afterLog logErr logEvents
  simp only [hl, ho, hnl, if_false, G.push]
  have hdd : decoratorDepth = 1 := by decide
  cases cfg.reraise <;> simp [hdd]

/-- an onerror callback that calls catch()-protected code (a decorated function under its own
    configuration `c2`, raising `e2` which `c2` handles): that code behaves exactly as anywhere else –
    ITS record, ITS onerror, its exception suppressed (then the outer call completes as configured) or
    re-raised (then `e2` escapes the callback and replaces `e`).  This holds because `__exit__` hands the
    callback a world whose guard flag is already clear. -/
theorem onerror_nested_catch_logged_once (env : Env) (c1 c2 : Cfg) (d : Nat) (e e2 : Exc) (g : G)
    (hf : g.flag = false) (hm : c1.isMatch e = true) (hx : c1.excluded e = false)
    (hl : logErr env c1.level e = none)
    (ho : c1.onerror = some (fun _ g' =>
      match callWrapped (exit env) c2 (fun g => (.raise e2, g)) g' with
      | (.ret _, g'') => (none, g'')
      | (.raise x, g'') => (some x, g'')))
    (hm2 : c2.isMatch e2 = true) (hx2 : c2.excluded e2 = false) :
    exit env c1 d (some e) g =
      match caughtResult env c2 decoratorDepth e2 ((afterLog env c1 d e g).push (.onerror e)) with
      | (.suppress, g5) => (if c1.reraise then .propagate else .suppress, g5)
      | (.propagate, g5) => (.raise e2, g5)
      | (.raise x, g5) => (.raise x, g5) := by
  rw [exit_caught env c1 d e g ⟨hf, hm, hx⟩]
  unfold caughtResult
  rw [hl, ho]
  simp only
  have hinner := fn_matching_escape_logged_once env c2 decoratorDepth c2.default (fun g => (.raise e2, g))
    ((afterLog env c1 d e g).push (.onerror e)) e2 _ rfl rfl hm2 hx2
  unfold callWrapped
  rw [hinner]
  unfold caughtResult
  generalize logErr env c2.level e2 = le2
  cases le2 with
  | some y => rfl
  | none =>
    cases c2.onerror with
    | none => cases c2.reraise <;> rfl
    | some f2 =>
      simp only
      generalize f2 e2 _ = r5
      obtain ⟨o5, g5⟩ := r5
      cases o5 with
      | some y => rfl
      | none => cases c2.reraise <;> rfl

/-! ## nested catchers (functions; for generators the theorems below compose, being stated over
    arbitrary automata – the inner wrapper is one) -/

/-- an inner catcher that suppresses hides the exception from the outer one: the outer adds nothing -/
theorem nested_inner_suppresses (env : Env) (c1 c2 : Cfg) (body : G → CallRes × G) (g : G) (e : Exc) (g1 g2 : G)
    (h : body g = (.raise e, g1)) (hc : Caught c1 g1 e)
    (hs : caughtResult env c1 decoratorDepth e g1 = (.suppress, g2)) :
    callWrapped (exit env) c2 (callWrapped (exit env) c1 body) g = (.ret c1.default, g2) := by
  have hinner : callWrapped (exit env) c1 body g = (.ret c1.default, g2) := by
    unfold callWrapped
    rw [fn_matching_escape_logged_once env c1 decoratorDepth _ body g e g1 h hc.1 hc.2.1 hc.2.2, hs]
  unfold callWrapped at hinner ⊢
  exact fn_transparent env c2 _ _ _ g _ g2 hinner

/-- with `reraise` on the inner catcher each catcher logs exactly once, inner first -/
theorem nested_reraise_each_logs_once (env : Env) (c1 c2 : Cfg) (body : G → CallRes × G) (g : G) (e : Exc) (g1 : G)
    (h : body g = (.raise e, g1)) (hf : g1.flag = false)
    (h1 : c1.isMatch e = true ∧ c1.excluded e = false ∧ c1.reraise = true ∧ c1.onerror = none)
    (h2 : c2.isMatch e = true ∧ c2.excluded e = false ∧ c2.onerror = none)
    (hl : env.logRaises e = none) (hd1 : env.minLevel ≤ c1.level) (hd2 : env.minLevel ≤ c2.level) :
    callWrapped (exit env) c2 (callWrapped (exit env) c1 body) g =
      (if c2.reraise then .raise e else .ret c2.default,
       { flag := false,
         trace := g1.trace ++ [.log c1.level e 1] ++ env.probes.map (fun p => .probe p.out)
                    ++ [.log c2.level e 1] ++ env.probes.map (fun p => .probe p.out) }) := by
  obtain ⟨m1, x1, r1, o1⟩ := h1
  obtain ⟨m2, x2, o2⟩ := h2
  have hinner : callWrapped (exit env) c1 body g = (.raise e, afterLog env c1 decoratorDepth e g1) := by
    unfold callWrapped
    rw [fn_matching_escape_logged_once env c1 decoratorDepth _ body g e g1 h hf m1 x1]
    have : ¬ c1.level < env.minLevel := by omega
    simp [caughtResult, logErr, this, hl, o1, r1]
  unfold callWrapped at hinner ⊢
  rw [fn_matching_escape_logged_once env c2 decoratorDepth _ _ g e _ hinner rfl m2 x2]
  have hn1 : ¬ c1.level < env.minLevel := by omega
  have hn2 : ¬ c2.level < env.minLevel := by omega
  simp only [caughtResult, logErr, logEvents, hn1, hn2, if_false, hl, o2, afterLog]
  have hdd : decoratorDepth = 1 := by decide
  cases c2.reraise <;> simp [hdd]

/-! ## generators and coroutines: `with catcher: return (yield from f(…))` / `return await f(…)` -/

/-- MAIN BISIMULATION.  For every body automaton, configuration, environment, start state, world and
    driver sequence: as long as every exception that reaches the catcher is one it does not handle
    (this includes: nothing is raised at all), the driver does not inject a GeneratorExit with
    `throw()` into a suspended object and a suspended object does not answer `close()` with a yield,
    the decorated object yields/returns/raises exactly what the undecorated one does, stays in the
    corresponding state, and the world is the same (no record, no onerror call). -/
theorem transparent_while_uncaught {σ : Type} (k : Kind) (env : Env) (cfg : Cfg) (a : Auto G σ)
    (ops : List Op) (st : GState σ) (g : G)
    (h : quietRun k a (Uncaught cfg) (Uncaught cfg) st ops g) :
    run (wrappedGen k (exit env) cfg a) (emb st) ops g =
      ((run (genObj k a) st ops g).1, emb (run (genObj k a) st ops g).2.1, (run (genObj k a) st ops g).2.2) :=
  wrapped_run_quiet k env cfg a ops st g h

/-- DESIGN's `transparent_while_nothing_escapes`: the body never raises along the run (`fun _ _ => False`
    for its exceptions); `close()` of a suspended object makes `yield from` raise GeneratorExit inside
    the `with`, so the configuration must not handle GeneratorExit if the driver closes (the default
    `Exception` does not) – see `close_logs_generatorexit_witness` for why this cannot be dropped -/
theorem transparent_while_nothing_escapes {σ : Type} (k : Kind) (env : Env) (cfg : Cfg) (a : Auto G σ)
    (ops : List Op) (s0 : σ) (g : G)
    (h : quietRun k a (fun _ _ => False) (Uncaught cfg) (.unstarted s0) ops g) :
    (run (wrappedGen k (exit env) cfg a) (wrappedInit s0) ops g).1 = (run (genObj k a) (.unstarted s0) ops g).1 ∧
    (run (wrappedGen k (exit env) cfg a) (wrappedInit s0) ops g).2.2 = (run (genObj k a) (.unstarted s0) ops g).2.2 := by
  have hq := quietRun_mono k a (P' := Uncaught cfg) (Q' := Uncaught cfg)
    (fun _ _ hF => False.elim hF) (fun _ _ hQ => hQ) ops _ g h
  have := wrapped_run_quiet k env cfg a ops (.unstarted s0) g hq
  rw [show emb (GState.unstarted s0) = wrappedInit s0 from rfl] at this
  rw [this]
  exact ⟨rfl, rfl⟩

/-- a configuration that handles nothing the body can raise (other types / excluded types) never
    logs, whatever the body and the driver do (within the two driver restrictions) -/
theorem non_matching_propagates_unlogged {σ : Type} (k : Kind) (env : Env) (cfg : Cfg) (a : Auto G σ)
    (ops : List Op) (s0 : σ) (g : G)
    (hcfg : ∀ e, cfg.isMatch e = false ∨ cfg.excluded e = true)
    (h : quietRun k a (fun _ _ => True) (fun _ _ => True) (.unstarted s0) ops g) :
    (run (wrappedGen k (exit env) cfg a) (wrappedInit s0) ops g).1 = (run (genObj k a) (.unstarted s0) ops g).1 ∧
    (run (wrappedGen k (exit env) cfg a) (wrappedInit s0) ops g).2.2 = (run (genObj k a) (.unstarted s0) ops g).2.2 := by
  have hq := quietRun_mono k a (P' := Uncaught cfg) (Q' := Uncaught cfg)
    (fun _ e _ => Or.inr (hcfg e)) (fun _ e _ => Or.inr (hcfg e)) ops _ g h
  have := wrapped_run_quiet k env cfg a ops (.unstarted s0) g hq
  rw [show emb (GState.unstarted s0) = wrappedInit s0 from rfl] at this
  rw [this]
  exact ⟨rfl, rfl⟩

/-- `nested_catchers` for generators/coroutines: the theorems of this section are stated over ARBITRARY
    automata, and the inner `catch_wrapper` is one (`wrapAuto … c1 …`), so they compose.  Spelled out
    for transparency: an outer catcher `c2` around an inner one `c1` is a bisimulation of the
    inner-decorated object along every driver sequence in which whatever still escapes the inner
    wrapper (nothing, if the inner catcher suppresses) is not handled by `c2`. -/
theorem nested_generators_outer_transparent {σ : Type} (k : Kind) (env : Env) (c1 c2 : Cfg) (a : Auto G σ)
    (ops : List Op) (st : GState (WState (GState σ))) (g : G)
    (h : quietRun k (wrapAuto (exit env) c1 (genObj k a)) (Uncaught c2) (Uncaught c2) st ops g) :
    run (wrappedGen k (exit env) c2 (wrapAuto (exit env) c1 (genObj k a))) (emb st) ops g =
      ((run (wrappedGen k (exit env) c1 a) st ops g).1, emb (run (wrappedGen k (exit env) c1 a) st ops g).2.1,
       (run (wrappedGen k (exit env) c1 a) st ops g).2.2) :=
  wrapped_run_quiet k env c2 (wrapAuto (exit env) c1 (genObj k a)) ops st g h

/-- result of the decorated generator/coroutine once `__exit__` has decided -/
def escapeRes {τ : Type} (k : Kind) (cfg : Cfg) (e : Exc) : ExitRes × G → Res × GState τ × G
  | (.suppress, g) => (.stop cfg.default, .done, g)
  | (.propagate, g) => (.raise e, .done, g)
  | (.raise x, g) => (.raise (pep479 k x), .done, g)

/-- `matching_escape_logged_once` for generators and coroutines, at ANY point of any run (state
    `emb (suspended s)` is where every quiet prefix leads): the body raises `e` in answer to `send`
    or to an injected non-GeneratorExit `throw`, the catcher handles it ⇒ exactly the record /
    onerror sequence of `exit_matching_logged_once` (closed form `caughtResult`), then
    `StopIteration(default)`, or `e` re-raised iff reraise; the object is finished -/
theorem matching_escape_logged_once {σ : Type} (k : Kind) (env : Env) (cfg : Cfg) (a : Auto G σ)
    (s : σ) (i : Input) (g : G) (e : Exc) (s' : σ) (g' : G)
    (hi : ∀ x, i = .throw x → x.isGenExit = false)
    (hstep : a.step s i g = (.raise e, s', g'))
    (hc : Caught cfg g' (pep479 k e)) :
    (wrappedGen k (exit env) cfg a).step (emb (.suspended s))
        (match i with | .send v => .send v | .throw x => .throw x) g
      = escapeRes k cfg (pep479 k e) (caughtResult env cfg decoratorDepth (pep479 k e) g') := by
  cases i with
  | send v =>
    simp only [wrappedGen, genObj, emb, genStep, wrapAuto, delegate, hstep, settle, dconv, finishWith,
      exit_caught env cfg decoratorDepth _ g' hc]
    generalize caughtResult env cfg decoratorDepth (pep479 k e) g' = r
    obtain ⟨er, g2⟩ := r
    cases er <;> simp [escapeRes, settle, pep479_idem]
  | throw x =>
    have hx := hi x rfl
    simp only [wrappedGen, genObj, emb, genStep, wrapAuto, delegate, hx, Bool.false_eq_true, if_false, hstep, settle,
      dconv, finishWith, exit_caught env cfg decoratorDepth _ g' hc]
    generalize caughtResult env cfg decoratorDepth (pep479 k e) g' = r
    obtain ⟨er, g2⟩ := r
    cases er <;> simp [escapeRes, settle, pep479_idem]

/-- same at the very first resumption (raise before the first yield) -/
theorem matching_escape_before_first_yield {σ : Type} (k : Kind) (env : Env) (cfg : Cfg) (a : Auto G σ)
    (s0 : σ) (g : G) (e : Exc) (s' : σ) (g' : G)
    (hstep : a.step s0 (.send 0) g = (.raise e, s', g'))
    (hc : Caught cfg g' (pep479 k e)) :
    (wrappedGen k (exit env) cfg a).step (wrappedInit s0) (.send 0) g
      = escapeRes k cfg (pep479 k e) (caughtResult env cfg decoratorDepth (pep479 k e) g') := by
  simp only [wrappedGen, wrappedInit, genObj, genStep, wrapAuto, if_true, hstep, settle, dconv, finishWith,
    exit_caught env cfg decoratorDepth _ g' hc]
  generalize caughtResult env cfg decoratorDepth (pep479 k e) g' = r
  obtain ⟨er, g2⟩ := r
  cases er <;> simp [escapeRes, settle, pep479_idem]

/-! ### concrete witnesses for the three driver restrictions (replayed on the implementation by the harness) -/

def cfgDefault : Cfg :=
  { isMatch := fun e => e.cls ≥ 3, excluded := fun _ => false, reraise := false, level := 40, default := 7,
    onerror := none }
def cfgBase : Cfg := { cfgDefault with isMatch := fun _ => true }
def env0 : Env := { probes := [], logRaises := fun _ => none, minLevel := 0 }
def g0 : G := ⟨false, []⟩

/-- `yield 1`, then: on GeneratorExit `onGenExit`, on another throw `raise ⟨8,101⟩`, on send `yield 2` -/
def bodyW (onGenExit : Outcome) : Auto G Nat where
  step s i g :=
    match s, i with
    | 0, _ => (.yield 1, 1, g)
    | _, .send _ => (.yield 2, 1, g)
    | _, .throw x => if x.isGenExit then (onGenExit, 1, g) else (.raise ⟨8, 101⟩, 1, g)

/-- recorded NON-violation (DESIGN §5): a generator that answers `close()` with a yield.  Undecorated:
    the protocol's RuntimeError reaches the driver; decorated: it is raised inside the wrapper's
    `yield from`, matches `Exception`, is logged once and swallowed – `close()` returns None -/
theorem close_ignoring_generator_witness :
    (run (genObj .generator (bodyW (.yield 9))) (.unstarted 0) [.send 0, .close] g0).1
      = [.yield 1, .raise (errIgnored .generator)] ∧
    (run (wrappedGen .generator (exit env0) cfgDefault (bodyW (.yield 9))) (wrappedInit 0) [.send 0, .close] g0).1
      = [.yield 1, .closed] ∧
    (run (wrappedGen .generator (exit env0) cfgDefault (bodyW (.yield 9))) (wrappedInit 0) [.send 0, .close] g0).2.2.trace
      = [.log 40 (errIgnored .generator) 1] := by
  decide

/-- why `throw(GeneratorExit)` is excluded: `yield from` turns it into `close()` of the wrapped
    object (PEP 380); a body that answers it with `return 5` gives StopIteration(5) undecorated,
    GeneratorExit decorated -/
theorem throw_generatorexit_witness :
    (run (genObj .generator (bodyW (.ret 5))) (.unstarted 0) [.send 0, .throw ⟨0, 200⟩] g0).1
      = [.yield 1, .stop 5] ∧
    (run (wrappedGen .generator (exit env0) cfgDefault (bodyW (.ret 5))) (wrappedInit 0) [.send 0, .throw ⟨0, 200⟩] g0).1
      = [.yield 1, .raise ⟨0, 200⟩] := by
  decide

/-- why the configuration must not handle GeneratorExit when the driver closes: with
    `exception=BaseException`, `close()` of a suspended decorated generator logs a GeneratorExit
    record although the body never raises and `close()` returns None in both runs -/
theorem close_logs_generatorexit_witness :
    (run (genObj .generator (bodyW (.ret 0))) (.unstarted 0) [.send 0, .close] g0).1 = [.yield 1, .closed] ∧
    (run (wrappedGen .generator (exit env0) cfgBase (bodyW (.ret 0))) (wrappedInit 0) [.send 0, .close] g0).1
      = [.yield 1, .closed] ∧
    (run (wrappedGen .generator (exit env0) cfgBase (bodyW (.ret 0))) (wrappedInit 0) [.send 0, .close] g0).2.2.trace
      = [.log 40 genExit 1] := by
  decide

/-- the unrestricted statement (every driver sequence, every configuration) -/
def transparent_all_drivers_statement : Prop :=
  ∀ (a : Auto G Nat) (cfg : Cfg) (ops : List Op) (g : G),
    quietRun .generator a (fun _ _ => False) (fun _ _ => True) (.unstarted 0)
      (ops.filter (fun o => match o with | .close => false | _ => true)) g →
    (run (wrappedGen .generator (exit env0) cfg a) (wrappedInit 0) ops g).1 =
      (run (genObj .generator a) (.unstarted 0) ops g).1

/-! ## async generators: `AsyncGenCatchWrapper` -/

def agenW {σ : Type} (env : Env) (cfg : Cfg) (a : Auto G σ) := agWrapStep (exit env) cfg (agenStep a)

/-- `asend` (and `__anext__`): transparent unless the wrapped generator's `asend` raises something the
    catcher handles – for every state, including finished and never-started generators -/
theorem asyncgen_asend_transparent {σ : Type} (env : Env) (cfg : Cfg) (a : Auto G σ) (st : AState σ) (v : Val) (g : G)
    (h : ∀ e st' g', agenStep a st (.asend v) g = (.raise e, st', g') → Uncaught cfg g' e) :
    agenW env cfg a st (.asend v) g = agenStep a st (.asend v) g := by
  unfold agenW agWrapStep
  simp only
  rcases hr : agenStep a st (.asend v) g with ⟨r, st', g'⟩
  cases r with
  | yield y => simp [agAsend, exit_none]
  | stopAsync => simp [agAsend, exit_none]
  | raise e => simp [agAsend, exit_uncaught env cfg decoratorDepth e g' (h e st' g' hr)]
  | closed => simp [agAsend]

/-- `matching_escape_logged_once` on the `asend` path: one record, one onerror, then iteration ends
    (`StopAsyncIteration`) or `e` is re-raised iff reraise -/
theorem asyncgen_asend_matching_escape_logged_once {σ : Type} (env : Env) (cfg : Cfg) (a : Auto G σ)
    (st st' : AState σ) (v : Val) (g g' : G) (e : Exc)
    (hr : agenStep a st (.asend v) g = (.raise e, st', g')) (hc : Caught cfg g' e) :
    agenW env cfg a st (.asend v) g =
      match caughtResult env cfg decoratorDepth e g' with
      | (.suppress, g2) => (.stopAsync, st', g2)
      | (.propagate, g2) => (.raise e, st', g2)
      | (.raise x, g2) => (.raise x, st', g2) := by
  unfold agenW agWrapStep
  simp only [hr, agAsend, exit_caught env cfg decoratorDepth e g' hc]
  generalize caughtResult env cfg decoratorDepth e g' = r
  obtain ⟨er, g2⟩ := r
  cases er <;> rfl

/-- `athrow` is a pass-through: always "transparent" – and therefore never logs (F9) -/
theorem asyncgen_athrow_passthrough {σ : Type} (env : Env) (cfg : Cfg) (a : Auto G σ) (st : AState σ) (x : Exc) (g : G) :
    agenW env cfg a st (.athrow x) g = agenStep a st (.athrow x) g := rfl

/-- `aclose` is a pass-through to the wrapped generator's own `aclose()` (since 4e97932): same result,
    same state, same world, in EVERY state – never-started, suspended, finished, and the state after an
    ignored `aclose()` – and therefore, like `athrow`, it never logs (F9) -/
theorem asyncgen_aclose_passthrough {σ : Type} (env : Env) (cfg : Cfg) (a : Auto G σ) (st : AState σ) (g : G) :
    agenW env cfg a st .aclose g = agenStep a st .aclose g := rfl

/-- one operation is quiet for the async wrapper: only `asend` goes through the catcher -/
def quietA {σ : Type} (cfg : Cfg) (a : Auto G σ) (st : AState σ) (op : AOp) (g : G) : Prop :=
  match op with
  | .asend v => ∀ e st' g', agenStep a st (.asend v) g = (.raise e, st', g') → Uncaught cfg g' e
  | .athrow _ => True
  | .aclose => True

def quietARun {σ : Type} (cfg : Cfg) (a : Auto G σ) : AState σ → List AOp → G → Prop
  | _, [], _ => True
  | st, op :: ops, g =>
    quietA cfg a st op g ∧
    quietARun cfg a (agenStep a st op g).2.1 ops (agenStep a st op g).2.2

theorem asyncgen_step_transparent {σ : Type} (env : Env) (cfg : Cfg) (a : Auto G σ) (st : AState σ) (op : AOp) (g : G)
    (h : quietA cfg a st op g) : agenW env cfg a st op g = agenStep a st op g := by
  cases op with
  | asend v => exact asyncgen_asend_transparent env cfg a st v g h
  | athrow x => rfl
  | aclose => rfl

theorem arun_cons {ω τ : Type} (step : τ → AOp → ω → ARes × τ × ω) (t : τ) (op : AOp) (ops : List AOp) (w : ω) :
    arun step t (op :: ops) w =
      ((step t op w).1 :: (arun step (step t op w).2.1 ops (step t op w).2.2).1,
       (arun step (step t op w).2.1 ops (step t op w).2.2).2.1,
       (arun step (step t op w).2.1 ops (step t op w).2.2).2.2) := rfl

/-- transparency of the async wrapper, FULL (no restriction on `athrow`/`aclose` any more): for every
    automaton, configuration, start state, world and every sequence of `asend/athrow/aclose` in which
    no exception the catcher handles arises on an `asend` – same results, same states, same world. -/
theorem transparent_asyncgen {σ : Type} (env : Env) (cfg : Cfg) (a : Auto G σ) (ops : List AOp) :
    ∀ (st : AState σ) (g : G), quietARun cfg a st ops g →
      arun (agenW env cfg a) st ops g = arun (agenStep a) st ops g := by
  induction ops with
  | nil => intro _ _ _; rfl
  | cons op ops ih =>
    intro st g h
    obtain ⟨h1, h2⟩ := h
    have ih' := ih _ _ h2
    rw [arun_cons, arun_cons, asyncgen_step_transparent env cfg a st op g h1, ih']

/-- a configuration that handles nothing: the decorated async generator is the undecorated one, for
    every body and every driver sequence whatsoever -/
theorem asyncgen_non_matching_propagates_unlogged {σ : Type} (env : Env) (cfg : Cfg) (a : Auto G σ)
    (hcfg : ∀ e, cfg.isMatch e = false ∨ cfg.excluded e = true) (ops : List AOp) (st : AState σ) (g : G) :
    arun (agenW env cfg a) st ops g = arun (agenStep a) st ops g := by
  apply transparent_asyncgen
  induction ops generalizing st g with
  | nil => trivial
  | cons op ops ih =>
    refine ⟨?_, ih _ _⟩
    cases op with
    | asend v => intro e _ _ _; exact Or.inr (hcfg e)
    | athrow x => trivial
    | aclose => trivial

/-- `yield 1` then `return` -/
def bodyOne : Auto G Nat where
  step s _ g := match s with
    | 0 => (.yield 1, 1, g)
    | _ => (.ret 0, 1, g)

/-- REGRESSION of the repaired defect (F15, fixed by 4e97932): `aclose()` of a decorated async
    generator that is already finished returns None, exactly like the undecorated one, and logs nothing
    (before the fix the inherited abc mixin raised RuntimeError("asynchronous generator ignored GeneratorExit")) -/
theorem aclose_after_finish_witness :
    (arun (agenStep bodyOne) (.unstarted 0) [.asend 0, .asend 0, .aclose, .aclose] g0).1
      = [.yield 1, .stopAsync, .closed, .closed] ∧
    (arun (agenW env0 cfgDefault bodyOne) (.unstarted 0) [.asend 0, .asend 0, .aclose, .aclose] g0).1
      = [.yield 1, .stopAsync, .closed, .closed] ∧
    (arun (agenW env0 cfgDefault bodyOne) (.unstarted 0) [.asend 0, .asend 0, .aclose, .aclose] g0).2.2.trace = [] := by
  decide

/-- why the `asend` guard of `quietA` covers protocol errors too (recorded observation, driver misuse):
    `asend(5)` to a never-started decorated async generator – the native TypeError is raised inside
    `with catcher`, matches `Exception`, is logged and becomes StopAsyncIteration -/
theorem asend_non_none_unstarted_witness :
    (arun (agenStep bodyOne) (.unstarted 0) [.asend 5] g0).1 = [.raise errANonNone] ∧
    (arun (agenW env0 cfgDefault bodyOne) (.unstarted 0) [.asend 5] g0).1 = [.stopAsync] ∧
    (arun (agenW env0 cfgDefault bodyOne) (.unstarted 0) [.asend 5] g0).2.2.trace = [.log 40 errANonNone 1] := by
  decide

/-- the full `matching_escape_logged_once` for async generators: whatever operation made the body
    raise a handled exception of its own, a record is produced -/
def matching_escape_asyncgen_statement : Prop :=
  ∀ (a : Auto G Nat) (cfg : Cfg) (st st' : AState Nat) (op : AOp) (g g' : G) (e : Exc),
    agenStep a st op g = (.raise e, st', g') → Caught cfg g' e →
    (∃ s x s', st = .suspended s ∧ (op = .athrow x ∨ (op = .aclose ∧ x = genExit)) ∧
        a.step s (.throw x) g = (.raise e, s', g') ∧ x ≠ e) →
    (agenW env0 cfg a st op g).2.2.trace ≠ g'.trace

/-- F9 (athrow path): the body raises ⟨8,101⟩ (ValueError) itself while handling `athrow(⟨7,200⟩)`
    (KeyError): the decorated async generator hands it to the driver with no record, the decorated SYNC
    generator with the same body logs one record and ends the iteration -/
theorem athrow_raise_unlogged_witness :
    (arun (agenW env0 cfgDefault (bodyW (.ret 0))) (.unstarted 0) [.asend 0, .athrow ⟨7, 200⟩] g0).1
      = [.yield 1, .raise ⟨8, 101⟩] ∧
    (arun (agenW env0 cfgDefault (bodyW (.ret 0))) (.unstarted 0) [.asend 0, .athrow ⟨7, 200⟩] g0).2.2.trace = [] ∧
    (run (wrappedGen .generator (exit env0) cfgDefault (bodyW (.ret 0))) (wrappedInit 0) [.send 0, .throw ⟨7, 200⟩] g0).1
      = [.yield 1, .stop 7] ∧
    (run (wrappedGen .generator (exit env0) cfgDefault (bodyW (.ret 0))) (wrappedInit 0) [.send 0, .throw ⟨7, 200⟩] g0).2.2.trace
      = [.log 40 ⟨8, 101⟩ 1] := by
  decide

/-- F9 (aclose path, still present after 4e97932): the body raises ⟨8,102⟩ itself in its `finally`
    (= in answer to the GeneratorExit of `aclose()`): the decorated async generator's `aclose()` raises
    it to the driver with no record; `close()` of the decorated SYNC generator with the same body logs
    one record and returns None -/
theorem aclose_raise_unlogged_witness :
    (arun (agenW env0 cfgDefault (bodyW (.raise ⟨8, 102⟩))) (.unstarted 0) [.asend 0, .aclose] g0).1
      = [.yield 1, .raise ⟨8, 102⟩] ∧
    (arun (agenW env0 cfgDefault (bodyW (.raise ⟨8, 102⟩))) (.unstarted 0) [.asend 0, .aclose] g0).2.2.trace = [] ∧
    (run (wrappedGen .generator (exit env0) cfgDefault (bodyW (.raise ⟨8, 102⟩))) (wrappedInit 0) [.send 0, .close] g0).1
      = [.yield 1, .closed] ∧
    (run (wrappedGen .generator (exit env0) cfgDefault (bodyW (.raise ⟨8, 102⟩))) (wrappedInit 0) [.send 0, .close] g0).2.2.trace
      = [.log 40 ⟨8, 102⟩ 1] := by
  decide

theorem matching_escape_asyncgen_statement_false : ¬ matching_escape_asyncgen_statement := by
  intro h
  have := h (bodyW (.ret 0)) cfgDefault (.suspended 1) .done (.athrow ⟨7, 200⟩) g0 g0 ⟨8, 101⟩ rfl
    ⟨rfl, rfl, rfl⟩ ⟨1, ⟨7, 200⟩, 1, rfl, Or.inl rfl, rfl, by decide⟩
  exact this (by decide)


/-! ## round 5 – stacked decorators (any number), the guard flag across tasks and threads -/

/-- Tie G (regenerated `Gen.branches`: per branch of `Catcher.__call__` the test as a disjunction of
    `is<kind>function(function)` / `getattr(function, <marker>, False)`, the syntactic kind of the
    `catch_wrapper` defined there, whether the branch marks its wrapper; `Gen.wrapperCopiesDict`:
    `functools.update_wrapper` carries the marker outwards).  Decorating preserves the PROTOCOL: a
    coroutine function gives a coroutine function, a generator function a generator function, a plain
    function a plain function, and an async generator function – or the marked wrapper of one – a marked
    plain function, which the next decorator again sends to the async-generator branch. -/
theorem wrapper_kind_preserved (f : FnObj) (hv : f.marked = true → f.kind = .plain) :
    (decorated f).map proto = some (proto f) := by
  obtain ⟨k, m⟩ := f
  cases k <;> cases m <;> first | decide | exact absurd (hv rfl) (by decide)

/-- the marker is only ever found on plain functions (what the hypothesis of `wrapper_kind_preserved`
    asks) – decorating maintains that -/
theorem decorated_marker_only_on_plain (f f' : FnObj) (hv : f.marked = true → f.kind = .plain)
    (h : decorated f = some f') : f'.marked = true → f'.kind = .plain := by
  obtain ⟨k, m⟩ := f
  cases k <;> cases m <;> first
    | (have := hv rfl; contradiction)
    | (cases h; decide)

/-- the branch taken is the branch modelled: the first branch whose test holds of a function of kind `k`
    (for async generators: also of the marked wrapper of one) has, inside `with catcher:`, the construct
    the model of that kind mirrors -/
theorem dispatch_selects_modelled_shape :
    ((Gen.shapes.zip Gen.branches).find? (fun p => branchTaken ⟨.coroutine, false⟩ p.2)).map (·.1.inner) = some .awaitCall ∧
    ((Gen.shapes.zip Gen.branches).find? (fun p => branchTaken ⟨.generator, false⟩ p.2)).map (·.1.inner) = some .yieldFromCall ∧
    ((Gen.shapes.zip Gen.branches).find? (fun p => branchTaken ⟨.asyncgen, false⟩ p.2)).map (·.1.inner) = some .asendTry ∧
    ((Gen.shapes.zip Gen.branches).find? (fun p => branchTaken ⟨.plain, true⟩ p.2)).map (·.1.inner) = some .asendTry ∧
    ((Gen.shapes.zip Gen.branches).find? (fun p => branchTaken ⟨.plain, false⟩ p.2)).map (·.1.inner) = some .plainCall ∧
    Gen.shapes.length = Gen.branches.length := by
  decide

/-- any number of decorators: the protocol never changes, so EVERY decorator of a stack takes the branch
    of the first (`towerAuto` / `agTower` are what a stack builds) -/
theorem stacked_kind_stable (n : Nat) (f : FnObj) (hv : f.marked = true → f.kind = .plain) :
    ∃ f', stacked n f = some f' ∧ proto f' = proto f ∧ (f'.marked = true → f'.kind = .plain) := by
  induction n with
  | zero => exact ⟨f, rfl, rfl, hv⟩
  | succ n ih =>
    obtain ⟨f1, h1, hp1, hv1⟩ := ih
    have hk := wrapper_kind_preserved f1 hv1
    cases hd : decorated f1 with
    | none => rw [hd] at hk; cases hk
    | some f2 =>
      rw [hd] at hk
      refine ⟨f2, ?_, ?_, decorated_marker_only_on_plain f1 f2 hv1 hd⟩
      · simp [stacked, h1, hd]
      · have : proto f2 = proto f1 := by simpa using hk
        rw [this, hp1]

/-- refutation of the shape before repo commit 2c59ddf (genuine defect found in round 5, key
    `C16-stacked-asyncgen-outer-decorator-inert`, since repaired): without the marker the wrapper of an
    async generator function is a plain function like any other – the next decorator took the plain branch,
    which guards only the CREATION of the object, never its iteration -/
theorem unmarked_asyncgen_wrapper_loses_kind :
    (decoratedWith branchesBefore2c59ddf ⟨.asyncgen, false⟩).map proto = some .plain ∧
    ((decoratedWith branchesBefore2c59ddf ⟨.asyncgen, false⟩).bind (decoratedWith branchesBefore2c59ddf)).map proto
      = some .plain ∧
    ((decorated ⟨.asyncgen, false⟩).bind decorated).map proto = some .asyncgen := by
  decide

/-- STACKED DECORATORS, ANY NUMBER (`nested_generators_outer_transparent` was the case of two): for every
    body automaton, every LIST of configurations, every state and driver sequence – as long as every
    exception that arises is one NONE of the catchers handles (nothing raised at all included), and
    within the three driver restrictions of `transparent_while_uncaught` – the n-fold decorated generator
    / coroutine yields, returns and raises exactly what the undecorated one does, stays in the
    corresponding state, and no catcher of the stack logs or calls onerror.  By induction over the list:
    a quiet wrapper is itself a quiet body for the next decorator (`quiet_lift_run`). -/
theorem stacked_transparent_while_uncaught {σ : Type} (k : Kind) (env : Env) (a : Auto G σ) (cfgs : List Cfg)
    (ops : List Op) (st : GState σ) (g : G)
    (h : quietRun k a (fun g e => ∀ c ∈ cfgs, Uncaught c g e) (fun g e => ∀ c ∈ cfgs, Uncaught c g e) st ops g) :
    run (towerObj k env a cfgs) (embN cfgs st) ops g =
      ((run (genObj k a) st ops g).1, embN cfgs (run (genObj k a) st ops g).2.1, (run (genObj k a) st ops g).2.2) :=
  (tower_run_quiet k env a cfgs (fun c hc _ _ hp => hp c hc) (fun c hc _ _ hq => hq c hc) ops st g h).2

/-- … in particular once the INNERMOST catcher `c` has dealt with an exception (or whenever it lets
    through only what the outer ones do not handle), any number of outer decorators add nothing: the stack
    `outer ++ [c]` behaves as the singly decorated object (the theorem above with the inner wrapper as body) -/
theorem stacked_outer_transparent_over_inner {σ : Type} (k : Kind) (env : Env) (a : Auto G σ) (c : Cfg)
    (outer : List Cfg) (ops : List Op) (st : GState (WState (GState σ))) (g : G)
    (h : quietRun k (wrapAuto (exit env) c (genObj k a)) (fun g e => ∀ c' ∈ outer, Uncaught c' g e)
      (fun g e => ∀ c' ∈ outer, Uncaught c' g e) st ops g) :
    (run (towerObj k env (wrapAuto (exit env) c (genObj k a)) outer) (embN outer st) ops g).1 =
      (run (wrappedGen k (exit env) c a) st ops g).1 ∧
    (run (towerObj k env (wrapAuto (exit env) c (genObj k a)) outer) (embN outer st) ops g).2.2 =
      (run (wrappedGen k (exit env) c a) st ops g).2.2 := by
  have := stacked_transparent_while_uncaught k env (wrapAuto (exit env) c (genObj k a)) outer ops st g h
  rw [this]
  exact ⟨rfl, rfl⟩

/-- `matching_escape_logged_once` THROUGH A STACK: the body of an n-fold decorated generator / coroutine
    raises `e` (on `send`, or on an injected non-GeneratorExit `throw`), the inner decorators `below` do not
    handle it, the decorator `c` above them does: exactly the record / onerror sequence of
    `exit_matching_logged_once` for `c` – and nothing from the decorators below –, then `StopIteration(c.default)`,
    or `e` re-raised iff `c.reraise`, or the error of `_log`/onerror; the object is finished -/
theorem stacked_matching_escape_logged_once {σ : Type} (k : Kind) (env : Env) (a : Auto G σ) (c : Cfg) (below : List Cfg)
    (s s' : σ) (i : Input) (g g' : G) (e : Exc) (hi : plainInput i)
    (hstep : a.step s i g = (.raise e, s', g'))
    (hb : ∀ c' ∈ below, Uncaught c' g' (pep479 k e)) (hc : Caught c g' (pep479 k e)) :
    ((towerObj k env a (c :: below)).step (embN (c :: below) (.suspended s)) (opOf i) g).1 =
      (escapeRes (τ := Unit) k c (pep479 k e) (caughtResult env c decoratorDepth (pep479 k e) g')).1 ∧
    ((towerObj k env a (c :: below)).step (embN (c :: below) (.suspended s)) (opOf i) g).2.2 =
      (escapeRes (τ := Unit) k c (pep479 k e) (caughtResult env c decoratorDepth (pep479 k e) g')).2.2 := by
  rw [towerObj_step_suspended]
  obtain ⟨t', h⟩ := tower_auto_catches k env a c below s s' i g g' e hi hstep hb hc
  rw [h]
  generalize caughtResult env c decoratorDepth (pep479 k e) g' = r
  obtain ⟨er, g2⟩ := r
  cases er <;> simp [escapeOutcome, escapeRes, settle, pep479_idem]

/-- … and if `c` suppresses, ANY decorators stacked outside it (whatever they are configured to handle) see a
    normal return: the driver gets `StopIteration(c.default)` and the world is exactly what `c` left
    (one record, one onerror call: `caughtResult`) -/
theorem stacked_matching_escape_suppressed_any_outer {σ : Type} (k : Kind) (env : Env) (a : Auto G σ)
    (outer : List Cfg) (c : Cfg) (below : List Cfg) (s s' : σ) (i : Input) (g g' g2 : G) (e : Exc) (hi : plainInput i)
    (hstep : a.step s i g = (.raise e, s', g'))
    (hb : ∀ c' ∈ below, Uncaught c' g' (pep479 k e)) (hc : Caught c g' (pep479 k e))
    (hs : caughtResult env c decoratorDepth (pep479 k e) g' = (.suppress, g2)) :
    ((towerObj k env a (outer ++ c :: below)).step (embN (outer ++ c :: below) (.suspended s)) (opOf i) g).1
      = .stop c.default ∧
    ((towerObj k env a (outer ++ c :: below)).step (embN (outer ++ c :: below) (.suspended s)) (opOf i) g).2.2 = g2 := by
  rw [towerObj_step_suspended]
  obtain ⟨t', h⟩ := tower_auto_suppressed_through_outer k env a outer c below s s' i g g' g2 e hi hstep hb hc hs
  rw [h]
  exact ⟨rfl, rfl⟩

/-- the outer configuration of the finding below: handles only class 8 (ValueError), level 30, default 3 -/
def cfgOuter8 : Cfg :=
  { isMatch := fun e => e.cls == 8, excluded := fun _ => false, reraise := false, level := 30, default := 3,
    onerror := none }
/-- the inner one: handles only class 7 (KeyError) -/
def cfgInner7 : Cfg := { cfgDefault with isMatch := fun e => e.cls == 7 }

/-- `yield 1`, then `raise ⟨8,101⟩` -/
def bodyRaise8 : Auto G Nat where
  step s _ g := match s with
    | 0 => (.yield 1, 1, g)
    | _ => (.raise ⟨8, 101⟩, 1, g)

/-- STACKED DECORATORS ON AN ASYNC GENERATOR FUNCTION, ANY NUMBER: for every body, every list of
    configurations, every state and every sequence of `asend/athrow/aclose` in which no exception that ANY
    catcher of the stack handles arises on an `asend` – same results, same states, same world -/
theorem stacked_transparent_asyncgen {σ : Type} (env : Env) (a : Auto G σ) (cfgs : List Cfg) (ops : List AOp)
    (st : AState σ) (g : G) (h : quietAStackRun cfgs (agenStep a) st ops g) :
    arun (agTower env (agenStep a) cfgs) st ops g = arun (agenStep a) st ops g :=
  agTower_run_quiet env (agenStep a) cfgs ops st g h

/-- … and `matching_escape_logged_once` through the stack: an exception the body raises on an `asend`
    that the inner decorators `below` do not handle and the decorator `c` above them does is logged ONCE,
    by `c` (its level, its onerror), and ends the iteration or is re-raised as `c` says -/
theorem stacked_asyncgen_outer_catches {σ : Type} (env : Env) (a : Auto G σ) (c : Cfg) (below : List Cfg)
    (st st' : AState σ) (v : Val) (g g' : G) (e : Exc)
    (hr : agenStep a st (.asend v) g = (.raise e, st', g')) (hb : ∀ c' ∈ below, Uncaught c' g' e) (hc : Caught c g' e) :
    agTower env (agenStep a) (c :: below) st (.asend v) g =
      match caughtResult env c decoratorDepth e g' with
      | (.suppress, g2) => (.stopAsync, st', g2)
      | (.propagate, g2) => (.raise e, st', g2)
      | (.raise x, g2) => (.raise x, st', g2) :=
  agTower_outer_catches env (agenStep a) c below st st' v g g' e hr hb hc

/-- REGRESSION of the repaired defect (found in round 5, fixed by 2c59ddf): `@catch(ValueError, level=30)
    @catch(KeyError)` around `yield 1; raise ValueError` – on the async generator exactly as on the sync
    generator the outer catcher logs one record at level 30 and the iteration ends
    (before the fix the async generator handed ⟨8,101⟩ to the driver with no record) -/
theorem stacked_asyncgen_outer_catches_witness :
    (arun (agTower env0 (agenStep bodyRaise8) [cfgOuter8, cfgInner7]) (.unstarted 0) [.asend 0, .asend 0] g0).1
      = [.yield 1, .stopAsync] ∧
    (arun (agTower env0 (agenStep bodyRaise8) [cfgOuter8, cfgInner7]) (.unstarted 0) [.asend 0, .asend 0] g0).2.2.trace
      = [.log 30 ⟨8, 101⟩ 1] ∧
    (arun (agenW env0 cfgInner7 bodyRaise8) (.unstarted 0) [.asend 0, .asend 0] g0).1
      = [.yield 1, .raise ⟨8, 101⟩] ∧
    (run (towerObj .generator env0 bodyRaise8 [cfgOuter8, cfgInner7]) (embN [cfgOuter8, cfgInner7] (.unstarted 0))
        [.send 0, .send 0] g0).1 = [.yield 1, .stop 3] ∧
    (run (towerObj .generator env0 bodyRaise8 [cfgOuter8, cfgInner7]) (embN [cfgOuter8, cfgInner7] (.unstarted 0))
        [.send 0, .send 0] g0).2.2.trace = [.log 30 ⟨8, 101⟩ 1] := by
  decide

/-- THE GUARD ACROSS TASKS.  The flag is set only while the synchronous `_log` runs: for every body that
    leaves the flag alone, every stack of decorators (onerror callbacks leaving it alone), every wrapper
    state and every driver sequence, whenever the decorated generator / coroutine hands control back to
    its driver – the event loop, free to resume any other task of the thread – the thread's flag is what
    it was.  No task ever runs under another task's guard. -/
theorem flag_clear_at_every_suspension {σ : Type} (k : Kind) (env : Env) (a : Auto G σ) (cfgs : List Cfg)
    (ha : AutoKeepsFlag a) (ho : ∀ c ∈ cfgs, OnerrorKeepsFlag c)
    (ops : List Op) (st : GState (TState σ cfgs)) (g : G) :
    (run (towerObj k env a cfgs) st ops g).2.2.flag = g.flag :=
  run_keeps_flag _ (genObj_keeps_flag k _ (tower_keeps_flag k env a ha cfgs ho)) ops st g

/-- Tie G: the guard flag is an attribute of `logger._core.thread_locals`, and `Core` always makes that a
    `threading.local()` (regenerated `Gen.flagStore`; the storage is READ from the expression `__exit__`
    uses, so a flag moved onto the Core / Logger / Catcher is followed by the model and refuted here) -/
theorem guard_flag_is_thread_local : Gen.flagStore = .threadLocal := by decide

/-- THE GUARD ACROSS THREADS, non-interference: with the storage the code uses, under EVERY schedule of
    any number of threads, what a thread sees of its own `__exit__` (program counter, flag, records and
    onerror calls) is what it would see running alone for as many steps as the schedule gives it -/
theorem threads_do_not_interfere (m : Nat) (lr : Exc → Option Exc) (t : Tid) (sched : List Tid) (w : TWorld) :
    view Gen.flagStore (grun Gen.flagStore m lr sched w) t =
      seqRun m lr (sched.count t) (view Gen.flagStore w t) := by
  rw [guard_flag_is_thread_local]
  exact view_grun_threadLocal m lr t sched w

/-- … hence `matching_escape_logged_once` per thread under every schedule: a thread whose catcher
    handles its exception and that gets its five steps – wherever other threads stand, INSIDE `_log`
    included – logs exactly one record (if a handler accepts the level), calls onerror once, ends with
    the configured result and a clear flag -/
theorem each_thread_logs_once_under_every_schedule (m : Nat) (lr : Exc → Option Exc) (t : Tid) (sched : List Tid)
    (w : TWorld) (a : Activation) (hact : w.acts t = some a) (hpc : a.pc = .tests)
    (hflag : w.flags (slot Gen.flagStore t) = false)
    (hm : a.cfg.isMatch a.exc = true) (hx : a.cfg.excluded a.exc = false) (hn : 5 ≤ sched.count t) :
    view Gen.flagStore (grun Gen.flagStore m lr sched w) t =
      { act := some { a with pc := .done (handledResult m lr a) }, flag := false,
        events := (view Gen.flagStore w t).events ++ handledEvents m lr a } := by
  rw [threads_do_not_interfere]
  obtain ⟨n, hn'⟩ := Nat.exists_eq_add_of_le hn
  rw [hn', seqRun_add]
  have hv : view Gen.flagStore w t =
      { act := some a, flag := false, events := (view Gen.flagStore w t).events } := by
    simp [view, hact, hflag]
  rw [hv, seqRun_handled m lr a _ hpc hm hx]
  exact seqRun_done m lr n _ { a with pc := .done (handledResult m lr a) } _ rfl rfl

/-- … and `non_matching_propagates_unlogged` per thread: other type / excluded type / the thread's OWN
    flag set – propagates after one step, nothing logged, under every schedule -/
theorem each_thread_unhandled_propagates_under_every_schedule (m : Nat) (lr : Exc → Option Exc) (t : Tid)
    (sched : List Tid) (w : TWorld) (a : Activation) (hact : w.acts t = some a) (hpc : a.pc = .tests)
    (h : w.flags (slot Gen.flagStore t) = true ∨ a.cfg.isMatch a.exc = false ∨ a.cfg.excluded a.exc = true)
    (hn : 1 ≤ sched.count t) :
    view Gen.flagStore (grun Gen.flagStore m lr sched w) t =
      { act := some { a with pc := .done .propagate }, flag := w.flags (slot Gen.flagStore t),
        events := (view Gen.flagStore w t).events } := by
  rw [threads_do_not_interfere]
  obtain ⟨n, hn'⟩ := Nat.exists_eq_add_of_le hn
  rw [hn', seqRun_add]
  have hv : view Gen.flagStore w t =
      { act := some a, flag := w.flags (slot Gen.flagStore t), events := (view Gen.flagStore w t).events } := by
    simp [view, hact]
  rw [hv, seqRun_unhandled m lr a _ _ hpc h]
  exact seqRun_done m lr n _ { a with pc := .done .propagate } _ rfl rfl

def tcfgDefault : TCfg :=
  { isMatch := fun e => e.cls ≥ 3, excluded := fun _ => false, reraise := false, level := 40, onerror := some none }

/-- two threads, each in `__exit__` for a handled exception of its own -/
def twoThreads : TWorld :=
  { flags := fun _ => false,
    acts := fun t => if t = 0 then some ⟨tcfgDefault, ⟨8, 101⟩, 1, .tests⟩
                     else if t = 1 then some ⟨tcfgDefault, ⟨7, 102⟩, 1, .tests⟩ else none,
    trace := [] }

/-- why the storage matters (refuting witness for a flag shared by all threads, replayed on the code by
    the thread stream of the harness): thread 0 enters `_log`; thread 1's `__exit__` then finds the flag
    set and lets ITS handled exception propagate unlogged – whereas with the thread-local flag the same
    schedule gives each thread its record and its onerror call -/
theorem shared_flag_loses_record_witness :
    ((grun .shared 0 (fun _ => none) [0, 0, 1, 0, 0, 0, 1, 1, 1, 1] twoThreads).acts 1).map (·.pc)
      = some (.done .propagate) ∧
    (grun .shared 0 (fun _ => none) [0, 0, 1, 0, 0, 0, 1, 1, 1, 1] twoThreads).trace
      = [(0, .log 40 ⟨8, 101⟩ 1), (0, .onerror ⟨8, 101⟩)] ∧
    ((grun .threadLocal 0 (fun _ => none) [0, 0, 1, 0, 0, 0, 1, 1, 1, 1] twoThreads).acts 1).map (·.pc)
      = some (.done .suppress) ∧
    (grun .threadLocal 0 (fun _ => none) [0, 0, 1, 0, 0, 0, 1, 1, 1, 1] twoThreads).trace
      = [(0, .log 40 ⟨8, 101⟩ 1), (0, .onerror ⟨8, 101⟩), (1, .log 40 ⟨7, 102⟩ 1), (1, .onerror ⟨7, 102⟩)] := by
  decide

/-! ## round 5 – the options the record of a caught exception is made with -/

/-- the option names the record of a caught exception INHERITS from the logger `catch()` was called on -/
def inheritedOptionNames : List (List Char) :=
  ["lazy".toList, "colors".toList, "raw".toList, "capture".toList, "patchers".toList, "extra".toList]

/-- Tie G (regenerated `Gen.initOptionNames`, `Gen.logOptionNames`): `Logger.__init__` packs the options
    in the order in which `_log` unpacks them – nine of them, `exception`, `depth`, `record` first -/
theorem option_names_agree :
    Gen.initOptionNames = Gen.logOptionNames ∧ Gen.logOptionNames.length = 9 ∧
    Gen.logOptionNames = ["exception".toList, "depth".toList, "record".toList] ++ inheritedOptionNames := by
  decide

/-- what `_log` is handed by `Catcher.__exit__`, BY NAME, for every logger (any nine option values, any
    depth `d`), exception and depth adjustment: `exception` is the caught triple – whatever `opt(exception=…)`
    the logger had –, `depth` is the logger's own depth plus the adjustment, `record` is True (the message
    template is formatted with `record`), every other option is the logger's own (`bind`, `patch`,
    `opt(colors/raw/lazy/capture)` carry over); the list has the length `_log` unpacks; and the frame the
    record names is `get_frame(d + adj + 2)` (positions: regenerated `Gen.exitDepthPos`, `Gen.exitRestFrom`,
    `Gen.catchSlots`, `Gen.logFrameExtra`) -/
theorem catch_record_options (opts : List OptVal) (e : Exc) (adj d : Nat)
    (hlen : opts.length = Gen.initOptionNames.length)
    (hd : loggerHolds opts "depth".toList = some (.num d)) :
    logSees (catchOptions opts e adj) "exception".toList = some (.triple e) ∧
    logSees (catchOptions opts e adj) "depth".toList = some (.num (d + adj)) ∧
    logSees (catchOptions opts e adj) "record".toList = some (.bool true) ∧
    (∀ n ∈ inheritedOptionNames, logSees (catchOptions opts e adj) n = loggerHolds opts n) ∧
    (catchOptions opts e adj).length = Gen.logOptionNames.length ∧
    recordFrameIndex (catchOptions opts e adj) = some (d + adj + 2) := by
  have h9 : opts.length = 9 := by rw [hlen]; decide
  obtain ⟨o0, o1, o2, o3, o4, o5, o6, o7, o8, rfl⟩ := list_of_length_nine opts h9
  have h1 : o1 = .num d := by
    have : loggerHolds [o0, o1, o2, o3, o4, o5, o6, o7, o8] "depth".toList = some o1 := by rfl
    rw [this] at hd
    exact Option.some.inj hd
  subst h1
  refine ⟨by rfl, ?_, by rfl, ?_, by rfl, ?_⟩
  · rfl
  · intro n hn
    simp only [inheritedOptionNames, List.mem_cons, List.mem_nil_iff, or_false] at hn
    rcases hn with rfl | rfl | rfl | rfl | rfl | rfl <;> rfl
  · rfl

/-- the three call sites: the record of a decorator names the frame that called / resumed the wrapper
    `d` levels further up (index d + 3 counted from `_log`: `_log`, `__exit__`, `catch_wrapper`, caller …),
    of a `with` block the frame containing the block (d + 2), of an `async with` block again the frame
    containing it (d + 3: `__aexit__` lies between) -/
theorem catch_record_frame (opts : List OptVal) (e : Exc) (d : Nat)
    (hlen : opts.length = Gen.initOptionNames.length) (hd : loggerHolds opts "depth".toList = some (.num d)) :
    recordFrameIndex (catchOptions opts e decoratorDepth) = some (d + 3) ∧
    recordFrameIndex (catchOptions opts e withDepth) = some (d + 2) ∧
    recordFrameIndex (catchOptions opts e asyncWithDepth) = some (d + 3) := by
  have h := fun adj => (catch_record_options opts e adj d hlen hd).2.2.2.2.2
  refine ⟨?_, ?_, ?_⟩
  · rw [h]; rfl
  · rw [h]; rfl
  · rw [h]; rfl

/-! ## non-vacuity -/

example : quietRun .generator (bodyW (.raise genExit)) (fun _ _ => False) (Uncaught cfgDefault)
    (.unstarted 0) [.send 0, .send 5, .send 0] g0 := by
  simp [quietRun, quietStep, genObj, genStep, settle, bodyW, raisesOk]

example : quietRun .generator (bodyW (.raise genExit)) (Uncaught cfgDefault) (Uncaught cfgDefault)
    (.unstarted 0) [.send 0, .close] g0 := by
  simp [quietRun, quietStep, genObj, genStep, settle, bodyW, raisesOk, genExit, Exc.isGenExit, clsGeneratorExit,
    Uncaught, cfgDefault]

example : Caught cfgDefault g0 ⟨8, 101⟩ := ⟨rfl, rfl, rfl⟩

example : quietARun cfgDefault (bodyW (.ret 0)) (.unstarted 0) [.asend 0, .asend 3, .aclose] g0 := by
  simp [quietARun, quietA, agenStep, asettle, bodyW, genExit, Exc.isGenExit, clsGeneratorExit]

example : quietRun .generator (bodyW (.raise genExit)) (fun g e => ∀ c ∈ [cfgDefault, cfgOuter8, cfgDefault], Uncaught c g e)
    (fun g e => ∀ c ∈ [cfgDefault, cfgOuter8, cfgDefault], Uncaught c g e) (.unstarted 0) [.send 0, .send 5, .close] g0 := by
  simp [quietRun, quietStep, genObj, genStep, settle, bodyW, raisesOk, genExit, Exc.isGenExit, clsGeneratorExit,
    Uncaught, cfgDefault, cfgOuter8]

example : quietAStackRun [cfgDefault, cfgInner7] (agenStep (bodyW (.ret 0))) (.unstarted 0) [.asend 0, .asend 3, .aclose] g0 := by
  simp [quietAStackRun, quietAStack, agenStep, asettle, bodyW]

example : Caught cfgOuter8 g0 ⟨8, 101⟩ ∧ (∀ c' ∈ [cfgInner7], Uncaught c' g0 ⟨8, 101⟩) := by
  refine ⟨⟨rfl, rfl, rfl⟩, ?_⟩
  intro c' hc'
  simp only [List.mem_singleton] at hc'
  subst hc'
  exact Or.inr (Or.inl rfl)

example : plainInput (.send 3) ∧ plainInput (.throw ⟨7, 200⟩) := by
  constructor
  · intro x h; cases h
  · intro x h; cases h; rfl

example : bodyRaise8.step 1 (.send 0) g0 = (.raise ⟨8, 101⟩, 1, g0) ∧ Caught cfgOuter8 g0 (pep479 .generator ⟨8, 101⟩) ∧
    (∀ c' ∈ [cfgInner7], Uncaught c' g0 (pep479 .generator ⟨8, 101⟩)) ∧
    caughtResult env0 cfgOuter8 decoratorDepth (pep479 .generator ⟨8, 101⟩) g0 = (.suppress, ⟨false, [.log 30 ⟨8, 101⟩ 1]⟩) := by
  refine ⟨rfl, ⟨rfl, rfl, rfl⟩, ?_, by decide⟩
  intro c' hc'
  simp only [List.mem_singleton] at hc'
  subst hc'
  exact Or.inr (Or.inl rfl)

example : AutoKeepsFlag (bodyW (.ret 0)) := by
  intro s i g
  simp only [bodyW]
  split <;> try rfl
  split <;> rfl

example : twoThreads.acts 1 = some ⟨tcfgDefault, ⟨7, 102⟩, 1, .tests⟩ ∧
    twoThreads.flags (slot Gen.flagStore 1) = false ∧ tcfgDefault.isMatch ⟨7, 102⟩ = true ∧
    5 ≤ List.count 1 [0, 0, 1, 0, 0, 0, 1, 1, 1, 1] := by
  refine ⟨rfl, rfl, rfl, by decide⟩

example : loggerHolds [.other 1, .num 2, .bool false, .bool false, .bool true, .bool false, .bool true, .other 7, .other 8]
    "depth".toList = some (.num 2) := by rfl

end C16
