import LoguruModel.Props.C02
import LoguruModel.Conc.ForkQueueLemmas
import LoguruModel.Generated.Locks
import LoguruModel.Conc.ForkWorker
import LoguruModel.Generated.WorkerShape
import LoguruModel.Conc.ForkHooks
/-
C15 – fork(): property theorems about the fork operation of `Conc.step` (acquire_locks in the
forking thread: core lock, then every handler lock in an arbitrary order; `forked`; release_locks).
The child process is a copy of the state at the `forked` transition in which only the forking thread
exists and runs `after_in_child` = release every lock it holds.
-/
namespace C15
open Conc

/-- AT THE FORK POINT every lock created through `_locks_machinery` is held by the forking thread
itself or is free: the core lock and the lock of every handler ever published are its own, the lock of
any other (never published) handler is free.  Hence after `after_in_child` every lock of the child
is free. -/
theorem child_inherits_no_held_lock (sched : List (Tid × Lab)) (t : Tid) (got : List Hid)
    (hk : (run {} sched).pc t = .k2 got) :
    (run {} sched).coreLock = some t ∧
    (∀ h, h ∈ (run {} sched).pub → ((run {} sched).hs h).lock = some t) ∧
    (∀ h, h ∉ (run {} sched).pub → ((run {} sched).hs h).lock = none) := by
  have hl := (C02.inv_run sched).1
  have hd := (C02.inv_run sched).2
  have hp := hd.pcs t
  rw [hk] at hp
  simp only [pcInv] at hp
  refine ⟨hl.c1 t (by rw [hk]; rfl), ?_, hd.g11⟩
  intro h hm
  exact hl.h1 t h (by rw [hk]; simp [heldH]; exact hp.1 h hm)

/-- …and no other thread is inside any critical section at that moment: none holds the core lock or a
handler lock, in particular no sink is in the middle of a write and no `stop()` is half done -/
theorem no_other_thread_in_critical_section (sched : List (Tid × Lab)) (t u : Tid) (got : List Hid)
    (hk : (run {} sched).pc t = .k2 got) (hu : u ≠ t) :
    holdsCore ((run {} sched).pc u) = false ∧ heldH ((run {} sched).pc u) = [] := by
  have hl := (C02.inv_run sched).1
  have hd := (C02.inv_run sched).2
  obtain ⟨hc, hall, hnone⟩ := child_inherits_no_held_lock sched t got hk
  constructor
  · exact not_holdsCore_of_ne hl (by rw [hk]; rfl) hu
  · cases hq : heldH ((run {} sched).pc u) with
    | nil => rfl
    | cons x xs =>
      exfalso
      have hx : x ∈ heldH ((run {} sched).pc u) := by rw [hq]; simp
      have lu := hl.h1 u x hx
      by_cases hm : x ∈ (run {} sched).pub
      · rw [hall x hm] at lu; exact hu (Option.some.inj lu).symm
      · rw [hnone x hm] at lu; cases lu

theorem no_sink_mid_write_at_fork (sched : List (Tid × Lab)) (t u : Tid) (got : List Hid)
    (hk : (run {} sched).pc t = .k2 got) (m : Nat) (h : Hid) (td wr : List Hid) :
    (run {} sched).pc u ≠ .e3 m h td wr := by
  intro he
  by_cases hu : u = t
  · subst hu; rw [hk] at he; cases he
  · have := (no_other_thread_in_critical_section sched t u got hk hu).2
    rw [he] at this; simp [heldH] at this

def inFork : Pc → Bool
  | .k0 | .k1 _ _ | .k2 _ | .k3 _ => true
  | _ => false

/-- PARENT UNAFFECTED: the steps of a fork change nothing but lock ownership and the forking thread's
own program counter -/
theorem fork_steps_only_touch_locks (s s' : St) (t : Tid) (lab : Lab) (hf : inFork (s.pc t) = true)
    (hs : step s t lab = some s') :
    s'.count = s.count ∧ s'.reg = s.reg ∧ s'.pub = s.pub ∧ s'.allocated = s.allocated ∧
    s'.stopDone = s.stopDone ∧ s'.sink = s.sink ∧
    (∀ h, (s'.hs h).stopped = (s.hs h).stopped ∧ (s'.hs h).stops = (s.hs h).stops) ∧
    (∀ u, u ≠ t → s'.pc u = s.pc u) := by
  unfold step at hs
  split at hs <;> (try (simp only [reduceCtorEq] at hs; done)) <;> (repeat' split at hs) <;>
    (try (simp only [reduceCtorEq] at hs; done)) <;>
    (simp only [Option.some.injEq] at hs; subst hs; (try subst_vars)) <;>
    (first
      | (simp_all [inFork]; done)
      | (refine ⟨rfl, rfl, rfl, rfl, rfl, rfl, ?_, ?_⟩
         · intro h; simp only [setPc, upd]; first | (split <;> simp_all; done) | simp
         · intro u hu; simp [setPc, upd, hu]))

/-- when the fork operation is over the forking thread holds nothing -/
theorem fork_releases_everything (sched : List (Tid × Lab)) (t : Tid)
    (hi : (run {} sched).pc t = .idle) :
    (run {} sched).coreLock ≠ some t ∧ ∀ h, ((run {} sched).hs h).lock ≠ some t := by
  have hl := (C02.inv_run sched).1
  constructor
  · intro hc; have := hl.c2 t hc; rw [hi] at this; simp [holdsCore] at this
  · intro h hc; have := hl.h2 t h hc; rw [hi] at this; simp [heldH] at this

/-- NO DEADLOCK with forks in the mix (same statement as C02.no_deadlock, whose model includes fork):
whenever some thread is in the middle of an operation – in particular a forking thread collecting
locks – some thread in the middle of an operation can move. -/
theorem fork_never_deadlocks (sched : List (Tid × Lab)) (t : Tid)
    (hmid : (run {} sched).pc t ≠ .idle) :
    ∃ u lab, (run {} sched).pc u ≠ .idle ∧ (step (run {} sched) u lab).isSome = true :=
  C02.no_deadlock sched t hmid

/-- non-vacuity: thread 1 is inside a sink write when thread 2 forks: the fork waits; at the fork point
the forking thread owns the core lock and both handler locks (acquired in the order 1, 0) -/
example :
    let sched : List (Tid × Lab) := [
      (0, .start .add), (0, .acqCore), (0, .rCount 0), (0, .rCount 0), (0, .wCount 1), (0, .relCore),
      (0, .acqCore), (0, .rReg []), (0, .wReg [0]), (0, .relCore),
      (0, .start .add), (0, .acqCore), (0, .rCount 1), (0, .rCount 1), (0, .wCount 2), (0, .relCore),
      (0, .acqCore), (0, .rReg [0]), (0, .wReg [0, 1]), (0, .relCore),
      (1, .start (.log 7)), (1, .rReg [0, 1]), (1, .rReg [0, 1]), (1, .acqH 0), (1, .rStopped 0 false),
      (1, .wBegin 0),
      (2, .start .fork), (2, .forkAcq [1, 0]), (2, .acqH 1), (2, .acqH 0),      -- blocked: skipped
      (1, .wEnd 0), (1, .relH 0),
      (2, .acqH 0), (2, .forked)]
    let s := run {} sched
    s.pc 2 = .k2 [0, 1] ∧ s.coreLock = some 2 ∧ (s.hs 0).lock = some 2 ∧ (s.hs 1).lock = some 2 ∧
      s.pc 1 = .lL 7 [1] [0] := by
  decide

/-! ### enqueue handler with a bounded pipe (the system of defect F6) -/

section ForkQueue
open ForkQueue

/-- DEADLOCK FREEDOM of the repaired lock order (every handler lock before every queue lock): for any
pipe capacity ≥ 1, any number of emitters and forking threads and any schedule, whenever some thread
has work to do, some thread that has work to do can move. -/
theorem fork_queue_no_deadlock (c : Nat) (hc : 1 ≤ c) (sched : List (ForkQueue.Tid × ForkQueue.Lab))
    (t : ForkQueue.Tid) (hm : mid (ForkQueue.run true { cap := c } sched) t) :
    ∃ u lab, mid (ForkQueue.run true { cap := c } sched) u ∧
      (ForkQueue.step true (ForkQueue.run true { cap := c } sched) u lab).isSome = true := by
  have hi := ForkQueue.inv_run { cap := c } (ForkQueue.inv_init c) sched
  have hcap : (ForkQueue.run true { cap := c } sched).cap = c := ForkQueue.run_cap true _ sched
  generalize ForkQueue.run true { cap := c } sched = s at *
  obtain ⟨pw, c1, c2, h1, h2, q1, q2, q3⟩ := hi
  have wne : ∀ u, s.pc u ≠ .idle → u ≠ workerTid := by
    intro u hu e; rw [e, pw] at hu; exact hu rfl
  have prod : ∀ u lab, u ≠ workerTid → ForkQueue.step true s u lab = stepP true s u lab := by
    intro u lab hu; simp [ForkQueue.step, hu]
  have midp : ∀ u, u ≠ workerTid → s.pc u ≠ .idle → mid s u := by
    intro u hu hp; simp [mid, hu, hp]
  -- case analysis on the queue lock
  cases hq : s.lockQ with
  | some u =>
    rcases q3 u hq with ⟨e, hw⟩ | ⟨hu, hp⟩
    · subst e
      refine ⟨workerTid, .writeRel, by simp [mid, hw], ?_⟩
      simp [ForkQueue.step, stepW, hw]
    · refine ⟨u, .relQ, midp u hu (by rw [hp]; simp), ?_⟩
      rw [prod u _ hu]; simp [stepP, hp]
  | none =>
    -- the queue lock is free
    cases hh : s.lockH with
    | some u =>
      obtain ⟨hu, hhold⟩ := h2 u hh
      have hmid : mid s u := midp u hu (by intro e; rw [e] at hhold; simp [holdsHt] at hhold)
      cases hp : s.pc u <;> rw [hp] at hhold <;> simp [holdsHt] at hhold
      · -- e1: holds _lock, wants to put
        by_cases hfull : s.pipe < s.cap
        · exact ⟨u, .put, hmid, by rw [prod u _ hu]; simp [stepP, hp, hfull]⟩
        · -- pipe full: the writer has something to do and nobody holds the queue lock
          have hpos : 0 < s.pipe := by
            have : s.cap ≤ s.pipe := Nat.le_of_not_lt hfull
            omega
          cases hw : s.w with
          | w0 => exact ⟨workerTid, .get, by simp [mid, hpos], by simp [ForkQueue.step, stepW, hw, hpos]⟩
          | w1 => exact ⟨workerTid, .acqQ, by simp [mid, hw], by simp [ForkQueue.step, stepW, hw, hq]⟩
          | w2 => have := q2 hw; rw [hq] at this; cases this
      · exact ⟨u, .relH, hmid, by rw [prod u _ hu]; simp [stepP, hp]⟩
      · exact ⟨u, .acqSecond, hmid, by rw [prod u _ hu]; simp [stepP, hp, hq]⟩
      · have := q1 u hu hp; rw [hq] at this; cases this
      · exact ⟨u, .relHf, hmid, by rw [prod u _ hu]; simp [stepP, hp]⟩
    | none =>
      -- both sink-side locks are free
      cases hcl : s.coreLock with
      | some u =>
        obtain ⟨hu, hhold⟩ := c2 u hcl
        have hmid : mid s u := midp u hu (by intro e; rw [e] at hhold; simp [holdsC] at hhold)
        cases hp : s.pc u <;> rw [hp] at hhold <;> simp [holdsC] at hhold
        · exact ⟨u, .acqFirst, hmid, by rw [prod u _ hu]; simp [stepP, hp, hh]⟩
        · have := h1 u hu (by rw [hp]; rfl); rw [hh] at this; cases this
        · have := h1 u hu (by rw [hp]; rfl); rw [hh] at this; cases this
        · have := h1 u hu (by rw [hp]; rfl); rw [hh] at this; cases this
        · exact ⟨u, .relCore, hmid, by rw [prod u _ hu]; simp [stepP, hp]⟩
      | none =>
        by_cases ht : t = workerTid
        · subst ht
          simp only [mid, if_true] at hm
          cases hw : s.w with
          | w0 =>
            have hpos : 0 < s.pipe := by rcases hm with h | h; exact absurd hw h; exact h
            exact ⟨workerTid, .get, by simp [mid, hpos], by simp [ForkQueue.step, stepW, hw, hpos]⟩
          | w1 => exact ⟨workerTid, .acqQ, by simp [mid, hw], by simp [ForkQueue.step, stepW, hw, hq]⟩
          | w2 => have := q2 hw; rw [hq] at this; cases this
        · have hp0 : s.pc t ≠ .idle := by simpa [mid, ht] using hm
          cases hp : s.pc t
          · exact absurd hp hp0
          · exact ⟨t, .acqH, hm, by rw [prod t _ ht]; simp [stepP, hp, hh]⟩
          · have := h1 t ht (by rw [hp]; rfl); rw [hh] at this; cases this
          · have := h1 t ht (by rw [hp]; rfl); rw [hh] at this; cases this
          · exact ⟨t, .acqCore, hm, by rw [prod t _ ht]; simp [stepP, hp, hcl]⟩
          · have := c1 t ht (by rw [hp]; rfl); rw [hcl] at this; cases this
          · have := c1 t ht (by rw [hp]; rfl); rw [hcl] at this; cases this
          · have := c1 t ht (by rw [hp]; rfl); rw [hcl] at this; cases this
          · have := c1 t ht (by rw [hp]; rfl); rw [hcl] at this; cases this
          · have := c1 t ht (by rw [hp]; rfl); rw [hcl] at this; cases this

/-- …whereas with the opposite order (queue lock before handler lock – what the WeakSet iteration
could produce before the repair) the wait cycle of defect F6 is reachable: the emitter (thread 2)
holds `_lock` and is blocked on the full pipe, the writer thread (0) has taken a message and waits
for `_queue_lock`, the forking thread (3) holds `_queue_lock` and waits for `_lock`.  All three
have work to do and none of them has any enabled transition. -/
theorem fork_queue_deadlock_witness :
    let sched : List (ForkQueue.Tid × ForkQueue.Lab) := [
      (2, .startEmit), (2, .acqH), (2, .put), (2, .relH),
      (0, .get),
      (2, .startEmit), (2, .acqH), (2, .put), (2, .relH),
      (2, .startEmit), (2, .acqH),
      (3, .startFork), (3, .acqCore), (3, .acqFirst)]
    let s := ForkQueue.run false { cap := 1 } sched
    s.pc 2 = .e1 ∧ s.pc 3 = .f2 ∧ s.w = .w1 ∧ s.pipe = 1 ∧
    (∀ lab ∈ ForkQueue.Lab.all, ForkQueue.step false s 0 lab = none ∧ ForkQueue.step false s 2 lab = none ∧
      ForkQueue.step false s 3 lab = none) := by
  decide

end ForkQueue

/-! ### tie G: what `_locks_machinery.py` and the lock-creating call sites say now -/

/-- the at-fork hooks are the modelled ones, and the order of `acquire_locks` / `release_locks` is the
modelled one: logger locks, handler locks, queue locks – released in the opposite order -/
theorem fork_order :
    Locks.Gen.acquireOrder = ["logger_locks", "handler_locks", "queue_locks"] ∧
    Locks.Gen.releaseOrder = Locks.Gen.acquireOrder.reverse ∧
    Locks.Gen.hookBefore = "acquire_locks" ∧ Locks.Gen.hookAfterInParent = "release_locks" ∧
    Locks.Gen.hookAfterInChild = "release_locks" := by decide

/-- every `threading` lock of the package is created through a registering creator (the only bare
`threading.Lock()` calls are inside the creators themselves), each creator registers in its own set,
`Core.lock` is a logger lock, `Handler._lock` a handler lock, `Handler._queue_lock` a queue lock; the
remaining locks are `multiprocessing` primitives (shared by fork, not copied) -/
theorem all_locks_registered :
    (∀ site ∈ Locks.Gen.lockSites, site.2.2.2 = "bare" → site.1 = "_locks_machinery.py") ∧
    Locks.Gen.creators = [("create_handler_lock", "handler_locks"), ("create_logger_lock", "logger_locks"),
      ("create_queue_lock", "queue_locks")] ∧
    (∀ site ∈ Locks.Gen.lockSites, site.2.1 = "self.lock" → site.2.2.1 = "create_logger_lock") ∧
    (∀ site ∈ Locks.Gen.lockSites, site.2.1 = "self._lock" → site.2.2.1 = "create_handler_lock") ∧
    (∀ site ∈ Locks.Gen.lockSites, site.2.1 = "self._queue_lock" → site.2.2.1 = "create_queue_lock") ∧
    (∀ site ∈ Locks.Gen.lockSites, site.2.2.2 = "mp" → site.2.1 = "self._confirmation_lock") := by
  decide

/-- the lock order of the CURRENT source is the one `fork_queue_no_deadlock` is proved for -/
theorem current_order_is_handler_first : Locks.Gen.handlerFirst = true := by decide

theorem fork_queue_no_deadlock_current (c : Nat) (hc : 1 ≤ c) (sched : List (ForkQueue.Tid × ForkQueue.Lab))
    (t : ForkQueue.Tid) (hm : ForkQueue.mid (ForkQueue.run Locks.Gen.handlerFirst { cap := c } sched) t) :
    ∃ u lab, ForkQueue.mid (ForkQueue.run Locks.Gen.handlerFirst { cap := c } sched) u ∧
      (ForkQueue.step Locks.Gen.handlerFirst (ForkQueue.run Locks.Gen.handlerFirst { cap := c } sched) u lab).isSome
        = true := by
  rw [current_order_is_handler_first] at hm ⊢
  exact fork_queue_no_deadlock c hc sched t hm

/-! ### the enqueue worker's output relative to a fork (`Conc/ForkWorker.lean`) -/

/-- With the error report printed while `_queue_lock` is still held (the code), NO schedule lets a fork happen
while the worker thread is in the middle of output – neither a sink write nor an error report on `sys.stderr`:
the child never inherits a sink or stream interrupted by the worker. -/
theorem fork_never_sees_worker_mid_output (sched : List (ForkWorker.Tid × ForkWorker.Lab)) :
    (ForkWorker.run true {} sched).midOutputAtFork = false :=
  (ForkWorker.inv_run sched).ok

/-- non-vacuity: forks and failing writes do happen in the model -/
example :
    let sched : List (ForkWorker.Tid × ForkWorker.Lab) := [
      (0, .get), (0, .wAcq), (1, .startFork), (1, .acqQ), (0, .writeFails), (0, .reportRel),
      (1, .acqQ), (1, .fork), (1, .relQ)]
    let s := ForkWorker.run true {} sched
    s.pc 1 = .idle ∧ s.w = .w0 ∧ s.lockQ = none ∧ s.midOutputAtFork = false := by
  decide

/-- the report printed after the lock has been released is refuted: a fork lands inside it -/
theorem report_after_release_witness :
    let sched : List (ForkWorker.Tid × ForkWorker.Lab) := [
      (0, .get), (0, .wAcq), (0, .writeFails),            -- lock released, the worker starts its report
      (1, .startFork), (1, .acqQ), (1, .fork)]
    (ForkWorker.run false {} sched).midOutputAtFork = true := by
  decide

/-- tie G: in the current source every output of `_queued_writer` is inside `with <queue lock>` -/
theorem worker_output_under_lock_of_source : Worker.ShapeGen.workerOutputUnderLock = true := by decide

/-! ### the hooks iterate weak sets: the sets must not change under their feet (`Conc/ForkHooks.lean`) -/

/-- With the shape of the code – logger locks acquired first and released last by the hooks, handler and queue
locks registered by `Handler.__init__` under the logger lock – NO schedule of forks and add() calls lets a hook
see `handler_locks` / `queue_locks` change size while it iterates them: no `RuntimeError` inside an at-fork
hook, hence no lock left un-acquired before the fork or un-released after it. -/
theorem hooks_never_see_the_lock_sets_change (sched : List (ForkHooks.Tid × ForkHooks.Lab)) :
    (ForkHooks.run true true true {} sched).iterErr = false :=
  (ForkHooks.inv_run sched).ok

/-- …and during each pass the iterating thread owns the logger lock, the set has the size it had at the start -/
theorem hook_pass_is_under_the_logger_lock (sched : List (ForkHooks.Tid × ForkHooks.Lab)) (t : ForkHooks.Tid)
    (n : Nat) (hp : (ForkHooks.run true true true {} sched).pc t = .fA n ∨
                    (ForkHooks.run true true true {} sched).pc t = .fR n) :
    (ForkHooks.run true true true {} sched).lock = some t ∧ n = (ForkHooks.run true true true {} sched).nlocks := by
  have hi := ForkHooks.inv_run sched
  refine ⟨hi.l1 t ?_, hi.sz t n hp⟩
  rcases hp with hp | hp <;> rw [hp] <;> rfl

/-- tie G: the three facts, regenerated from `_locks_machinery.py` and `Logger.add` -/
theorem hook_shape_of_source :
    Locks.Gen.loggerFirst = true ∧ Locks.Gen.loggerLast = true ∧ Conc.ShapeGen.lockedConstruct = true := by decide

/-- the theorem instantiated with what the source says NOW -/
theorem hooks_never_see_the_lock_sets_change_current (sched : List (ForkHooks.Tid × ForkHooks.Lab)) :
    (ForkHooks.run Locks.Gen.loggerFirst Locks.Gen.loggerLast Conc.ShapeGen.lockedConstruct {} sched).iterErr
      = false := by
  rw [hook_shape_of_source.1, hook_shape_of_source.2.1, hook_shape_of_source.2.2]
  exact hooks_never_see_the_lock_sets_change sched

/-- non-vacuity: an add() that wants to register its lock while a fork is in progress waits; both complete -/
example :
    let sched : List (ForkHooks.Tid × ForkHooks.Lab) := [
      (1, .startFork), (1, .acq), (1, .iterBegin),
      (2, .startAdd), (2, .acq),                                  -- blocked: skipped
      (1, .iterEnd), (1, .fork), (1, .iterBegin), (1, .iterEnd), (1, .rel),
      (2, .acq), (2, .register), (2, .rel)]
    let s := ForkHooks.run true true true {} sched
    s.forks = 1 ∧ s.nlocks = 1 ∧ s.lock = none ∧ s.iterErr = false ∧ s.pc 1 = .idle ∧ s.pc 2 = .idle := by
  decide

/-- each of the three facts is needed.  (1) logger locks released FIRST by `release_locks` (the code before fix
5e74dc0, defect F25): an add() slips in while the handler locks are being released -/
theorem release_logger_first_witness :
    let sched : List (ForkHooks.Tid × ForkHooks.Lab) := [
      (1, .startFork), (1, .acq), (1, .iterBegin), (1, .iterEnd), (1, .fork), (1, .rel), (1, .iterBegin),
      (2, .startAdd), (2, .acq), (2, .register), (2, .rel),
      (1, .iterEnd)]
    (ForkHooks.run true false true {} sched).iterErr = true := by
  decide

/-- (2) handler locks acquired BEFORE the logger locks by `acquire_locks` -/
theorem acquire_logger_last_witness :
    let sched : List (ForkHooks.Tid × ForkHooks.Lab) := [
      (1, .startFork), (1, .iterBegin),
      (2, .startAdd), (2, .acq), (2, .register), (2, .rel),
      (1, .iterEnd)]
    (ForkHooks.run false true true {} sched).iterErr = true := by
  decide

/-- (3) the Handler built (its locks registered) outside the logger lock by `add()` -/
theorem unlocked_registration_witness :
    let sched : List (ForkHooks.Tid × ForkHooks.Lab) := [
      (1, .startFork), (1, .acq), (1, .iterBegin),
      (2, .startAdd), (2, .register),
      (1, .iterEnd)]
    (ForkHooks.run true true false {} sched).iterErr = true := by
  decide

/-- tie G (class of seed C15-o): "the child can log through every inherited handler FROM ANY OF ITS THREADS" needs,
besides free locks (`child_inherits_no_held_lock`), that the re-entrancy guard of `Handler._protected_lock` is
per-thread state that cannot be inherited in another thread's name: a `threading.local()` created with every
handler lock (constructor and unpickling), touched only through attribute access, no thread identity consulted –
and that the guard is set before / reset in a `finally` around the lock.  Regenerated from the AST of `Handler`;
the real fork storm lets every child log from fresh threads (which receive recycled thread identities). -/
theorem reentrancy_guard_is_thread_local_of_source :
    Conc.ScopeGen.guardIsThreadLocal = true ∧ Conc.ScopeGen.protectedLockShape = true := by decide

/-- fork against complete(): complete() holds the logger lock while it takes each handler lock in turn; the
forking thread asks for the logger lock first, so the two never hold locks the other waits for – the fork
point is reached only when no complete() is inside its critical section -/
theorem no_complete_in_progress_at_fork (sched : List (Tid × Lab)) (t u : Tid) (got : List Hid)
    (hk : (run {} sched).pc t = .k2 got) (h : Hid) (todo : List Hid) :
    (run {} sched).pc u ≠ .cH h todo ∧ (run {} sched).pc u ≠ .cL todo ∧ (run {} sched).pc u ≠ .c1 := by
  by_cases hu : u = t
  · subst hu; rw [hk]; simp
  · have := (no_other_thread_in_critical_section sched t u got hk hu).1
    refine ⟨?_, ?_, ?_⟩ <;> intro he <;> rw [he] at this <;> simp [holdsCore] at this

end C15
