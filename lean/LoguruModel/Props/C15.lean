import LoguruModel.Props.C02
/-
C15 – fork(): property theorems about the fork operation of `Conc.step` (acquire_locks in the
forking thread: core lock, then every handler lock in an arbitrary order; `forked`; release_locks).
The child process is a copy of the state at the `forked` transition in which only the forking thread
exists and runs `after_in_child` = release every lock it holds.
-/
namespace C15
open Conc

/-- AT THE FORK POINT every lock created through `_locks_machinery` is held by the forking thread
itself or is free: the core lock and the lock of every handler ever published are its own, the lock of
any other (never published) handler is free.  Hence after `after_in_child` every lock of the child
is free. -/
theorem child_inherits_no_held_lock (sched : List (Tid × Lab)) (t : Tid) (got : List Hid)
    (hk : (run {} sched).pc t = .k2 got) :
    (run {} sched).coreLock = some t ∧
    (∀ h, h ∈ (run {} sched).pub → ((run {} sched).hs h).lock = some t) ∧
    (∀ h, h ∉ (run {} sched).pub → ((run {} sched).hs h).lock = none) := by
  have hl := (C02.inv_run sched).1
  have hd := (C02.inv_run sched).2
  have hp := hd.pcs t
  rw [hk] at hp
  simp only [pcInv] at hp
  refine ⟨hl.c1 t (by rw [hk]; rfl), ?_, hd.g11⟩
  intro h hm
  exact hl.h1 t h (by rw [hk]; simp [heldH]; exact hp.1 h hm)

/-- …and no other thread is inside any critical section at that moment: none holds the core lock or a
handler lock, in particular no sink is in the middle of a write and no `stop()` is half done -/
theorem no_other_thread_in_critical_section (sched : List (Tid × Lab)) (t u : Tid) (got : List Hid)
    (hk : (run {} sched).pc t = .k2 got) (hu : u ≠ t) :
    holdsCore ((run {} sched).pc u) = false ∧ heldH ((run {} sched).pc u) = [] := by
  have hl := (C02.inv_run sched).1
  have hd := (C02.inv_run sched).2
  obtain ⟨hc, hall, hnone⟩ := child_inherits_no_held_lock sched t got hk
  constructor
  · exact not_holdsCore_of_ne hl (by rw [hk]; rfl) hu
  · cases hq : heldH ((run {} sched).pc u) with
    | nil => rfl
    | cons x xs =>
      exfalso
      have hx : x ∈ heldH ((run {} sched).pc u) := by rw [hq]; simp
      have lu := hl.h1 u x hx
      by_cases hm : x ∈ (run {} sched).pub
      · rw [hall x hm] at lu; exact hu (Option.some.inj lu).symm
      · rw [hnone x hm] at lu; cases lu

theorem no_sink_mid_write_at_fork (sched : List (Tid × Lab)) (t u : Tid) (got : List Hid)
    (hk : (run {} sched).pc t = .k2 got) (m : Nat) (h : Hid) (td wr : List Hid) :
    (run {} sched).pc u ≠ .e3 m h td wr := by
  intro he
  by_cases hu : u = t
  · subst hu; rw [hk] at he; cases he
  · have := (no_other_thread_in_critical_section sched t u got hk hu).2
    rw [he] at this; simp [heldH] at this

def inFork : Pc → Bool
  | .k0 | .k1 _ _ | .k2 _ | .k3 _ => true
  | _ => false

/-- PARENT UNAFFECTED: the steps of a fork change nothing but lock ownership and the forking thread's
own program counter -/
theorem fork_steps_only_touch_locks (s s' : St) (t : Tid) (lab : Lab) (hf : inFork (s.pc t) = true)
    (hs : step s t lab = some s') :
    s'.count = s.count ∧ s'.reg = s.reg ∧ s'.pub = s.pub ∧ s'.allocated = s.allocated ∧
    s'.stopDone = s.stopDone ∧ s'.sink = s.sink ∧
    (∀ h, (s'.hs h).stopped = (s.hs h).stopped ∧ (s'.hs h).stops = (s.hs h).stops) ∧
    (∀ u, u ≠ t → s'.pc u = s.pc u) := by
  unfold step at hs
  split at hs <;> (try (simp only [reduceCtorEq] at hs; done)) <;> (repeat' split at hs) <;>
    (try (simp only [reduceCtorEq] at hs; done)) <;>
    (simp only [Option.some.injEq] at hs; subst hs; (try subst_vars)) <;>
    (first
      | (simp_all [inFork]; done)
      | (refine ⟨rfl, rfl, rfl, rfl, rfl, rfl, ?_, ?_⟩
         · intro h; simp only [setPc, upd]; first | (split <;> simp_all; done) | simp
         · intro u hu; simp [setPc, upd, hu]))

/-- when the fork operation is over the forking thread holds nothing -/
theorem fork_releases_everything (sched : List (Tid × Lab)) (t : Tid)
    (hi : (run {} sched).pc t = .idle) :
    (run {} sched).coreLock ≠ some t ∧ ∀ h, ((run {} sched).hs h).lock ≠ some t := by
  have hl := (C02.inv_run sched).1
  constructor
  · intro hc; have := hl.c2 t hc; rw [hi] at this; simp [holdsCore] at this
  · intro h hc; have := hl.h2 t h hc; rw [hi] at this; simp [heldH] at this

/-- NO DEADLOCK with forks in the mix (same statement as C02.no_deadlock, whose model includes fork):
whenever some thread is in the middle of an operation – in particular a forking thread collecting
locks – some thread in the middle of an operation can move. -/
theorem fork_never_deadlocks (sched : List (Tid × Lab)) (t : Tid)
    (hmid : (run {} sched).pc t ≠ .idle) :
    ∃ u lab, (run {} sched).pc u ≠ .idle ∧ (step (run {} sched) u lab).isSome = true :=
  C02.no_deadlock sched t hmid

/-- non-vacuity: thread 1 is inside a sink write when thread 2 forks: the fork waits; at the fork point
the forking thread owns the core lock and both handler locks (acquired in the order 1, 0) -/
example :
    let sched : List (Tid × Lab) := [
      (0, .start .add), (0, .acqCore), (0, .rCount 0), (0, .rCount 0), (0, .wCount 1), (0, .relCore),
      (0, .acqCore), (0, .rReg []), (0, .wReg [0]), (0, .relCore),
      (0, .start .add), (0, .acqCore), (0, .rCount 1), (0, .rCount 1), (0, .wCount 2), (0, .relCore),
      (0, .acqCore), (0, .rReg [0]), (0, .wReg [0, 1]), (0, .relCore),
      (1, .start (.log 7)), (1, .rReg [0, 1]), (1, .rReg [0, 1]), (1, .acqH 0), (1, .rStopped 0 false),
      (1, .wBegin 0),
      (2, .start .fork), (2, .forkAcq [1, 0]), (2, .acqH 1), (2, .acqH 0),      -- blocked: skipped
      (1, .wEnd 0), (1, .relH 0),
      (2, .acqH 0), (2, .forked)]
    let s := run {} sched
    s.pc 2 = .k2 [0, 1] ∧ s.coreLock = some 2 ∧ (s.hs 0).lock = some 2 ∧ (s.hs 1).lock = some 2 ∧
      s.pc 1 = .lL 7 [1] [0] := by
  decide

end C15
