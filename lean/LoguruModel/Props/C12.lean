import LoguruModel.Context.Scope
import LoguruModel.Context.HeapLemmas
import LoguruModel.Context.Kwargs
import LoguruModel.Context.Multi
/-
C12 – property theorems (only the theorems and their non-vacuity examples live here).
The operand orders (`Gen.recordLayers`, `Gen.bindOperands`, `Gen.ctxOperands`, `Gen.patchOperands`),
the phase order `Gen.logPhases` and `Gen.optDefaults` are regenerated from /repo on every run, so the
statements below are about what `loguru/_logger.py` says now.
-/
set_option linter.unusedSectionVars false
namespace C12
open Py Context

variable {K V P : Type} [DecidableEq K] [DecidableEq P]

/-! ### extra layering -/

/-- `extra_layering`: key by key the record's extra is kwargs ▷ bind ▷ contextualize ▷ configure;
with `capture = false` the kwargs layer is absent. -/
theorem extra_layering (core ctx bound kw : Assoc K V) (capture : Bool) (k : K) :
    get? (buildExtra core ctx bound kw capture) k =
      orElse (if capture then get? kw k else none)
        (orElse (get? bound k) (orElse (get? ctx k) (get? core k))) := by
  unfold buildExtra
  cases capture <;>
    simp [Gen.recordLayers, List.foldl, layerVal, get?_merge]

/-- the same, for the extra the first patcher (or, without patchers, every handler) is shown by a
logging call in context `c` of any reachable or unreachable state -/
theorem log_extra_layering (papply : P → Assoc K V → Assoc K V) (s : State K V P) (c : Nat)
    (o : Opts K V P) (kw : Assoc K V) :
    logEvents papply s c o kw =
      (runPatchers papply c (coreCalled s ++ o.patchers)
          (buildExtra s.coreExtra (ctxGet s c) o.extra kw o.flags.capture)).1 ++
        s.handlers.map (fun h => Event.delivered c h
          (applyAll papply (coreCalled s ++ o.patchers)
            (buildExtra s.coreExtra (ctxGet s c) o.extra kw o.flags.capture))) := by
  unfold logEvents
  simp [Gen.logPhases, List.foldl, runPhase, runPatchers_append, runPatchers_snd, applyAll_append]

/-! ### patchers -/

/-- `patch_order_once`: the new events of a logging call are: one `patched` event per element of
`[core.patcher] ++ patchers`, in that order, each shown the extra left by the ones before it; then –
and only then – one `delivered` event per handler, all carrying the final extra. -/
theorem patch_order_once (papply : P → Assoc K V → Assoc K V) (s : State K V P) (c l : Nat)
    (o : Opts K V P) (kw : Assoc K V) (hl : s.loggers[l]? = some o) (hh : s.handlers ≠ []) :
    ∃ ps ds, (step papply s c (.log l kw)).out = s.out ++ ps ++ ds ∧
      ps.filterMap Event.patcher? = coreCalled s ++ o.patchers ∧
      ps.length = (coreCalled s ++ o.patchers).length ∧
      (∀ e ∈ ps, e.isDelivered = false) ∧
      (∀ i p, (coreCalled s ++ o.patchers)[i]? = some p →
        ps[i]? = some (Event.patched c p
          (applyAll papply ((coreCalled s ++ o.patchers).take i)
            (buildExtra s.coreExtra (ctxGet s c) o.extra kw o.flags.capture)))) ∧
      ds = s.handlers.map (fun h => Event.delivered c h
          (applyAll papply (coreCalled s ++ o.patchers)
            (buildExtra s.coreExtra (ctxGet s c) o.extra kw o.flags.capture))) := by
  refine ⟨_, _, ?_, runPatchers_ids papply c _ _, ?_, runPatchers_none_delivered papply c _ _,
    fun i p h => runPatchers_seen papply c _ _ i p h, rfl⟩
  · have : s.handlers.isEmpty = false := by cases h : s.handlers <;> simp_all
    simp [step, hl, this, log_extra_layering, List.append_assoc]
  · have := congrArg List.length (runPatchers_ids papply c (coreCalled s ++ o.patchers)
      (buildExtra s.coreExtra (ctxGet s c) o.extra kw o.flags.capture))
    have h2 : ∀ (ps : List P) (x : Assoc K V), (runPatchers papply c ps x).1.length = ps.length := by
      intro ps; induction ps with
      | nil => intro x; rfl
      | cons p ps ih => intro x; simp [runPatchers, ih]
    exact h2 _ _

/-- a logging call without any handler returns before the record is built: nothing is patched -/
theorem no_handler_no_patch (papply : P → Assoc K V → Assoc K V) (s : State K V P) (c l : Nat)
    (kw : Assoc K V) (hh : s.handlers = []) : step papply s c (.log l kw) = s := by
  simp only [step]; split <;> simp [hh]

/-! ### the configured patcher and its guard in `_log` -/

/-- `configured_patcher_always_called`: the property's clause "patchers run once per logging call – the
configured patcher first", for the configured patcher: whenever one is configured it is called, WHATEVER the
truth value of the patcher object (a callable class may define `__bool__` / `__len__`).  Rests on the
regenerated `Gen.corePatcherGuard`: `_log` must test `if core.patcher is not None:` – with `if core.patcher:`
(the shape repaired by 8d54a52) the statement is false and the build fails. -/
theorem configured_patcher_always_called (s : State K V P) : coreCalled s = s.corePatcher.toList := by
  simp [coreCalled, Gen.corePatcherGuard, coreCalledWith]

/-- under either guard a truthy patcher object (function, lambda, bound method) is called -/
theorem configured_truthy_patcher_called (guard : PatcherGuard) (s : State K V P)
    (h : ∀ p, s.corePatcher = some p → s.truthy p = true) : coreCalledWith guard s = s.corePatcher.toList :=
  coreCalledWith_truthy guard s h

/-- refutation of the truth-value guard (`if core.patcher:`), for EVERY falsy patcher object: after
`configure(patcher=p)` a logging call delivers its record without `p` having been called -/
theorem truthy_guard_refuted (s : State K V P) (p : P) (hp : s.corePatcher = some p) (hf : s.truthy p = false) :
    coreCalledWith .truthy s = [] ∧ coreCalledWith .truthy s ≠ s.corePatcher.toList := by
  refine ⟨coreCalledWith_truthy_falsy s p hp hf, ?_⟩
  rw [coreCalledWith_truthy_falsy s p hp hf, hp]
  simp

/-- the events of `configure(patcher=p); info()` for a falsy `p` in the model as regenerated NOW: `p` is called
(shown the empty extra), then the record is delivered -/
theorem falsy_configured_patcher_called (papply : P → Assoc K V → Assoc K V) (p : P) :
    let s := run papply (initT (fun _ => false) : State K V P) [(0, .addHandler), (0, .configure none (some p))]
    (step papply s 0 (.log 0 [])).out = [Event.patched 0 p [], Event.delivered 0 0 (papply p [])] := by
  simp [run, step, initT, rootOpts, logEvents, Gen.logPhases, runPhase, runPatchers, coreCalled,
    Gen.corePatcherGuard, coreCalledWith, buildExtra, Gen.recordLayers, layerVal, ctxGet,
    ContextVars.get, ContextVars.init, merge, Gen.optDefaults]

/-! ### contextualize: scoping, restoration, isolation -/

/-- every state reachable from the initial one by ANY trace (any programme of any number of
contexts, in any interleaving) satisfies the invariant: all open blocks hold valid tokens and the
variable's value in every context is the one its open blocks determine -/
theorem reachable_inv (papply : P → Assoc K V → Assoc K V) (t : List (Nat × Op K V P))
    (truthy : P → Bool := fun _ => true) :
    Inv (run papply (initT truthy : State K V P) t) :=
  inv_run papply _ t (inv_initT truthy)

/-- `contextualize_scoped`: after any trace, key by key, the context layer seen in context `c` is
given by the blocks of `c` that are entered and not yet left – the innermost one that names the key
wins – and, below them, by the value `c` started with (`spawn_inherits`: a copy of the creator's
value at creation time for a task, nothing for a thread). -/
theorem contextualize_scoped (papply : P → Assoc K V → Assoc K V) (t : List (Nat × Op K V P))
    (c : Nat) (k : K) (truthy : P → Bool := fun _ => true) :
    let s := run papply (initT truthy : State K V P) t
    get? (ctxGet s c) k =
      orElse (firstSome ((s.stacks c).map (fun f => get? f.kw k))) (get? ((s.bases c).getD []) k) := by
  intro s
  have hI : Inv s := reachable_inv papply t truthy
  show get? ((ContextVars.get s.cv c).getD []) k = _
  unfold ContextVars.get
  rw [hI.value c, stackValue_lookup]

/-- the stack of open blocks of `c` is exactly: its `enter`s, minus what `exit`/`raise` popped
(LIFO), untouched by anything any other context does -/
theorem open_blocks_tracked (papply : P → Assoc K V → Assoc K V) (s : State K V P) (c c' : Nat)
    (op : Op K V P) (hc : c < s.cv.n) :
    (c' ≠ c → (step papply s c' op).stacks c = s.stacks c) ∧
    (c' = c → match op with
      | .enter kw => ∃ f, f.kw = kw ∧ (step papply s c op).stacks c = f :: s.stacks c
      | .exit => (step papply s c op).stacks c = (s.stacks c).tail
      | .raise k _ => (step papply s c op).stacks c = (s.stacks c).drop k
      | _ => (step papply s c op).stacks c = s.stacks c) := by
  refine ⟨fun h => (step_other papply s c c' op (Ne.symm h) hc).2, fun _ => step_self_stack papply s c op hc⟩

/-- `restored_on_exit`: whatever context `c` does between two points of a trace, as long as it
leaves – normally (`exit`) or through an exception (`raise k`) – exactly the blocks it entered in
between (`Balanced`), and whatever ALL other contexts do meanwhile, `c` gets back the very value and
the very open blocks it had. -/
theorem restored_on_exit (papply : P → Assoc K V → Assoc K V) (s : State K V P) (c : Nat)
    (t : List (Nat × Op K V P)) (hI : Inv s) (hc : c < s.cv.n) (hb : Balanced c 0 t) :
    (run papply s t).stacks c = s.stacks c ∧ ctxGet (run papply s t) c = ctxGet s c := by
  have hs := balanced_stack papply c t s 0 [] (s.stacks c) hc rfl rfl hb
  refine ⟨hs, ?_⟩
  have hI' := inv_run papply s t hI
  unfold ctxGet ContextVars.get
  rw [hI'.value c, hI.value c, hs, (run_n_bases papply t s).2 c hc]

/-- a `with` block left normally or by an exception OF ANY KIND (`Exception`, or a `BaseException`
such as KeyboardInterrupt / SystemExit / GeneratorExit / asyncio.CancelledError) is balanced when its
body is – so `restored_on_exit` applies to it -/
theorem block_balanced (c : Nat) (kw : Assoc K V) (body : List (Nat × Op K V P)) (kind : ExitKind)
    (hb : Balanced c 0 body) :
    Balanced c 0 ((c, Op.enter kw) :: (body ++ [(c, Op.exit)])) ∧
    Balanced c 0 ((c, Op.enter kw) :: (body ++ [(c, Op.raise 1 kind)])) := by
  have h1 : Balanced (K := K) (V := V) (P := P) c 1 [(c, Op.exit)] := by simp [Balanced]
  have h2 : Balanced (K := K) (V := V) (P := P) c 1 [(c, Op.raise 1 kind)] := by simp [Balanced]
  constructor
  · simp only [Balanced, if_true]; simpa using balanced_append c body _ 0 1 hb h1
  · simp only [Balanced, if_true]; simpa using balanced_append c body _ 0 1 hb h2

/-- `restored_whatever_the_exception`: leaving a block by an exception of ANY kind does to the
context exactly what leaving it normally does – `context.reset(token)` runs on every path
(this is where the regenerated `Gen.resetOn` enters: with `except Exception: reset` instead of
`finally: reset` the statement is false and the build fails) -/
theorem restored_whatever_the_exception (s : State K V P) (c : Nat) (kind : ExitKind) :
    exitOne s c kind = exitOne s c .normal := by
  unfold exitOne
  simp [resets_always kind, resets_always ExitKind.normal]

/-- an exception of any kind propagating out of `k` blocks is `k` times a normal exit -/
theorem raise_eq_exits (papply : P → Assoc K V → Assoc K V) (s : State K V P) (c k : Nat)
    (kind : ExitKind) :
    step papply s c (.raise k kind) = run papply s (List.replicate k (c, Op.exit)) := by
  simp only [step]
  induction k generalizing s with
  | zero => rfl
  | succ k ih =>
    simp only [exitN, List.replicate_succ, run, step]
    rw [restored_whatever_the_exception s c kind]; exact ih _

/-- `exit_never_raises`: in no reachable state does `context.reset(token)` fail (token of another
context, token used twice): no trace ever produces an error event. -/
theorem exit_never_raises (papply : P → Assoc K V → Assoc K V) (t : List (Nat × Op K V P))
    (truthy : P → Bool := fun _ => true) :
    ∀ e ∈ (run papply (initT truthy : State K V P) t).out, e.isError = false := by
  have gen : ∀ (t : List (Nat × Op K V P)) (s : State K V P), Inv s → (∀ e ∈ s.out, e.isError = false) →
      ∀ e ∈ (run papply s t).out, e.isError = false := by
    intro t
    induction t with
    | nil => intro s _ hE; exact hE
    | cons e t ih =>
      intro s hI hE
      exact ih _ (inv_step papply s e.1 e.2 hI) (step_no_error papply s e.1 e.2 hI hE)
  exact gen t _ (inv_initT truthy) (by intro e he; cases he)

/-- `isolation`: a trace in which context `c` executes nothing – whatever the other contexts do:
enter, leave, raise, spawn, configure, log – leaves `c`'s context layer, its open blocks and its
inherited base unchanged. -/
theorem isolation (papply : P → Assoc K V → Assoc K V) (t : List (Nat × Op K V P)) :
    ∀ (s : State K V P) (c : Nat), c < s.cv.n → (∀ e ∈ t, e.1 ≠ c) →
      ctxGet (run papply s t) c = ctxGet s c ∧ (run papply s t).stacks c = s.stacks c ∧
      (run papply s t).bases c = s.bases c := by
  induction t with
  | nil => intro s c _ _; exact ⟨rfl, rfl, rfl⟩
  | cons e t ih =>
    intro s c hc hne
    have h1 : e.1 ≠ c := hne e List.mem_cons_self
    obtain ⟨hv, hs⟩ := step_other papply s c e.1 e.2 (Ne.symm h1) hc
    obtain ⟨hn, hb⟩ := step_n_bases papply s e.1 e.2
    obtain ⟨a, b, d⟩ := ih (step papply s e.1 e.2) c (by omega) (fun e' he' => hne e' (List.mem_cons_of_mem _ he'))
    simp only [run]
    refine ⟨?_, by rw [b, hs], by rw [d, hb c hc]⟩
    rw [a]; unfold ctxGet ContextVars.get; rw [hv]

/-- `spawn_inherits`: a task (`copy`) starts with its creator's current context layer, a thread with
none; both start with no open block; the creator is unaffected. -/
theorem spawn_inherits (papply : P → Assoc K V → Assoc K V) (s : State K V P) (c : Nat) (copy : Bool) :
    let s' := step papply s c (.spawn copy)
    s'.cv.n = s.cv.n + 1 ∧ s'.stacks s.cv.n = [] ∧
    ctxGet s' s.cv.n = (if copy then ctxGet s c else []) ∧
    s'.bases s.cv.n = (if copy then s.cv.vals c else none) ∧
    (c < s.cv.n → ctxGet s' c = ctxGet s c) := by
  refine ⟨?_, ?_, ?_, ?_, ?_⟩
  · simp [step, ContextVars.spawn]
  · simp [step, ContextVars.spawn]
  · cases copy <;> simp [step, ContextVars.spawn, ctxGet, ContextVars.get]
  · simp [step, ContextVars.spawn, ContextVars.get]
  · intro hc
    have : c ≠ s.cv.n := by omega
    simp [step, ContextVars.spawn, ctxGet, ContextVars.get, this]

/-- end to end: after ANY trace from the initial state, a logging call in context `c` through a
logger without patchers (and no configured patcher) hands every handler a record whose extra is, key
by key: kwargs (if captured) ▷ bind ▷ innermost open block of `c` naming the key ▷ … ▷ what `c`
inherited when it was created ▷ configure(extra). -/
theorem record_extra_end_to_end (papply : P → Assoc K V → Assoc K V) (t : List (Nat × Op K V P))
    (c l : Nat) (o : Opts K V P) (kw : Assoc K V) (truthy : P → Bool := fun _ => true) :
    let s := run papply (initT truthy : State K V P) t
    s.loggers[l]? = some o → o.patchers = [] → s.corePatcher = none → s.handlers ≠ [] →
    ∃ x, (step papply s c (.log l kw)).out = s.out ++ s.handlers.map (fun h => Event.delivered c h x) ∧
      ∀ k, get? x k =
        orElse (if o.flags.capture then get? kw k else none)
          (orElse (get? o.extra k)
            (orElse (orElse (firstSome ((s.stacks c).map (fun f => get? f.kw k)))
                      (get? ((s.bases c).getD []) k))
              (get? s.coreExtra k))) := by
  intro s hl hp hcp hh
  refine ⟨buildExtra s.coreExtra (ctxGet s c) o.extra kw o.flags.capture, ?_, ?_⟩
  · have : s.handlers.isEmpty = false := by cases h : s.handlers <;> simp_all
    simp [step, hl, this, log_extra_layering, hp, coreCalled_none s hcp, runPatchers, applyAll]
  · intro k
    rw [extra_layering, contextualize_scoped papply t c k truthy]

/-! ### derived loggers -/

/-- `derived_loggers_fresh`: no trace changes a logger that exists (bind/opt/patch only append a
new one) nor an event already emitted (a delivered record). -/
theorem derived_loggers_fresh (papply : P → Assoc K V → Assoc K V) (s : State K V P)
    (t : List (Nat × Op K V P)) :
    (∀ i, i < s.loggers.length → (run papply s t).loggers[i]? = s.loggers[i]?) ∧
    (∀ i, i < s.out.length → (run papply s t).out[i]? = s.out[i]?) := by
  obtain ⟨⟨l, hl⟩, ⟨o, ho⟩⟩ := run_grows papply t s
  constructor
  · intro i hi; rw [hl, List.getElem?_append_left hi]
  · intro i hi; rw [ho, List.getElem?_append_left hi]

/-- what the new logger of `bind` / `patch` / `opt` is: the receiver with, respectively, its extra
overridden key by key by the kwargs, the patcher appended LAST, all seven flags replaced (patchers
and extra kept). -/
theorem derived_logger_spec (papply : P → Assoc K V → Assoc K V) (s : State K V P) (c l : Nat)
    (o : Opts K V P) (hl : s.loggers[l]? = some o) :
    (∀ kw, ∃ x, (step papply s c (.bind l kw)).loggers = s.loggers ++ [{ o with extra := x }] ∧
        ∀ k, get? x k = orElse (get? kw k) (get? o.extra k)) ∧
    (∀ p, (step papply s c (.patch l p)).loggers = s.loggers ++ [{ o with patchers := o.patchers ++ [p] }]) ∧
    (∀ f, (step papply s c (.opt l f)).loggers = s.loggers ++ [{ o with flags := f }]) := by
  refine ⟨fun kw => ⟨bindExtra o.extra kw, by simp [step, hl], ?_⟩, fun p => ?_, fun f => by simp [step, hl]⟩
  · intro k
    simp [bindExtra, Gen.bindOperands, List.foldl, srcVal, get?_merge]
  · simp [step, hl, patchList, patchListWith, Gen.patchDedup, Gen.patchOperands, List.foldl]

/-- `patch_appends_always`: `patch` appends its argument to the chain even when an equal patcher is
already attached – `patch(f).patch(g).patch(f)` runs f, g, f.  (Rests on the regenerated
`Gen.patchDedup`; fails to build when `patch` skips patchers that are already in the list.) -/
theorem patch_appends_always (old : List P) (p : P) : patchList old p = old ++ [p] := by
  simp [patchList, patchListWith, Gen.patchDedup, Gen.patchOperands, List.foldl]

/-- refutation of the de-duplicating shape, for EVERY chain that already contains the patcher: a
`patch` that skips an attached patcher cannot meet "functions are called in the order they are added"
– the chain stays one element short. -/
theorem patch_dedup_refuted (old : List P) (p : P) (h : p ∈ old) :
    patchListWith true old p ≠ old ++ [p] := by
  have hc : old.contains p = true := by simpa using h
  unfold patchListWith
  rw [hc]
  intro e
  have := congrArg List.length e
  simp at this

/-- and the logging call through such a chain runs fewer patchers than were attached: with
`patch(f).patch(g).patch(f)` the de-duplicating variant calls f, g – the last writer of a key f and g
both set is then g instead of f -/
theorem patch_dedup_witness :
    let f : Nat × Nat × Nat := (1, 0, 10)     -- patcher 1 sets key 0 to 10
    let g : Nat × Nat × Nat := (2, 0, 20)     -- patcher 2 sets key 0 to 20
    let apply := fun (p : Nat × Nat × Nat) (x : Assoc Nat Nat) => merge x [(p.2.1, p.2.2)]
    patchListWith true (patchListWith true (patchListWith true [] f) g) f = [f, g] ∧
    get? (applyAll apply [f, g] []) 0 = some 20 ∧
    get? (applyAll apply (patchList (patchList (patchList [] f) g) f) []) 0 = some 10 := by
  refine ⟨by decide, by decide, by decide⟩

/-! ### keys are unrestricted: signatures of the `**kwargs` entry points -/

/-- can `key` be passed as a keyword argument that lands in `**kwargs` of a method whose own named
parameters are `shadow`?  (Python: otherwise `TypeError: got multiple values for argument`.) -/
def keyAccepted (shadow : List (List Char)) (key : List Char) : Bool := !shadow.contains key

/-- `kwargs_keys_unrestricted`: every method that forwards `**kwargs` into `extra` – `bind`,
`contextualize`, `trace` … `critical`, `exception`, `log` – accepts EVERY key that does not start with
the mangling prefix `_Logger__`: in particular `self`, `message`, `level`, `record`, `kwargs`, `extra`…
(the receiver and message parameters are name-mangled on purpose).  Regenerated from the signatures. -/
theorem kwargs_keys_unrestricted :
    ∀ m ∈ Gen.kwargsShadow, ∀ key : List Char,
      ("_Logger__".toList).isPrefixOf key = false → keyAccepted m.2 key = true := by
  have h : ∀ m ∈ Gen.kwargsShadow, ∀ n ∈ m.2, ("_Logger__".toList).isPrefixOf n = true := by decide
  intro m hm key hk
  unfold keyAccepted
  cases hc : m.2.contains key with
  | false => rfl
  | true =>
    have : key ∈ m.2 := by simpa using hc
    rw [h m hm key this] at hk
    cases hk

/-- the entry points covered are exactly the documented ones -/
theorem kwargs_methods_covered :
    Gen.kwargsShadow.map (fun m => String.ofList m.1) =
      ["bind", "contextualize", "trace", "debug", "info", "success", "warning", "error", "critical",
       "exception", "log"] := by decide

/-- refutation of the un-mangled shape: a method with an ordinary named parameter (`def bind(self,
**kwargs)`) rejects that very name as a key – for every name -/
theorem unmangled_parameter_refuted (name : List Char) (others : List (List Char)) :
    keyAccepted (name :: others) name = false := by
  simp [keyAccepted]

/-- the root logger has `opt()`'s defaults, no patcher, no bound extra; and by default kwargs are
captured -/
theorem root_logger : (init : State K V P).loggers = [{ flags := Gen.optDefaults, patchers := [], extra := [] }] ∧
    Gen.optDefaults.capture = true := ⟨rfl, rfl⟩

/-- `configure(extra=e)` REPLACES the core layer, `configure(patcher=p)` the core patcher; `None`
leaves them as they are -/
theorem configure_spec (papply : P → Assoc K V → Assoc K V) (s : State K V P) (c : Nat)
    (e : Option (Assoc K V)) (p : Option P) :
    let s' := step papply s c (.configure e p)
    s'.coreExtra = (match e with | some x => x | none => s.coreExtra) ∧
    s'.corePatcher = (match p with | some q => some q | none => s.corePatcher) ∧
    s'.loggers = s.loggers ∧ s'.cv = s.cv ∧ s'.out = s.out := by
  cases e <;> cases p <;> simp [step, merge_nil_left]

/-! ### objects the caller keeps: the configure(extra=) dict -/

/-- what `configure(extra=d)` leaves as the base layer: a dict of its own (`owned`, the contents at
the time of the call), or a reference to the caller's dict object (`shared`) -/
inductive BaseLayer (K V : Type) where
  | owned (d : Assoc K V)
  | shared (ref : Nat)

/-- `copies = true`: `core.extra.clear(); core.extra.update(extra)` (or `= dict(extra)`);
`copies = false`: `core.extra = extra` -/
def configureBase (copies : Bool) (heap : Nat → Assoc K V) (ref : Nat) : BaseLayer K V :=
  if copies then .owned (merge [] (heap ref)) else .shared ref

/-- the base layer a later logging call reads, given the caller-owned dicts as they are THEN -/
def readBase (heap : Nat → Assoc K V) : BaseLayer K V → Assoc K V
  | .owned d => d
  | .shared ref => heap ref

/-- `caller_mutation_invisible`: whatever the caller does afterwards to the dict it passed to
`configure(extra=)` (and to any other dict it owns) – add, change, delete keys, `clear()` – the base
layer of every later record is what the dict held at the time of the call.  (Rests on the regenerated
`Gen.configureCopies`.) -/
theorem caller_mutation_invisible (heap heap' : Nat → Assoc K V) (ref : Nat) :
    readBase heap' (configureBase Gen.configureCopies heap ref) = heap ref := by
  simp [configureBase, Gen.configureCopies, readBase, merge_nil_left]

/-- refutation of the aliasing shape (`core.extra = extra`): for EVERY later state of the caller's
dict that differs from the one passed, the base layer read afterwards is the mutated dict, not the
one that was configured -/
theorem configure_alias_refuted (heap heap' : Nat → Assoc K V) (ref : Nat) (h : heap' ref ≠ heap ref) :
    readBase heap' (configureBase false heap ref) ≠ heap ref := by
  simpa [configureBase, readBase] using h

/-! ### several cores: `copy.deepcopy(logger)` – separate core state, ONE context variable

`Context/Multi.lean`: an operation through a logger of core `i` is the single-core `step` on the shared part
(context variable, open blocks, event log) + the fields of core `i`. -/

/-- `context_shared_by_all_cores`: after ANY trace over ANY number of cores (loggers deep-copied at any
moment, blocks entered through loggers of any core, in any interleaving of contexts), the context layer a
logging call in context `c` sees through a logger of ANY core `k` is, key by key, the innermost open block of
`c` naming the key – entered through whichever logger – else what `c` inherited at its creation. -/
theorem context_shared_by_all_cores (papply : P → Assoc K V → Assoc K V) (truthy : P → Bool)
    (t : List (Nat × MOp K V P)) (k : CoreSt K V P) (c : Nat) (key : K) :
    let m := mrun papply (minit truthy) t
    get? (ctxGet (withCore m.shared k) c) key =
      orElse (firstSome ((m.shared.stacks c).map (fun f => get? f.kw key)))
        (get? ((m.shared.bases c).getD []) key) := by
  intro m
  have hI : Inv m.shared := inv_mrun papply t _ (inv_initT truthy)
  show get? ((ContextVars.get m.shared.cv c).getD []) key = _
  unfold ContextVars.get
  rw [hI.value c, stackValue_lookup]

/-- `cores_independent`: whatever is done through core `i` – configure(extra=, patcher=), add/remove handlers,
bind/opt/patch, logging – leaves every other core (its extra, patcher, handlers, loggers) as it was; and a
`deepcopy` changes no existing core. -/
theorem cores_independent (papply : P → Assoc K V → Assoc K V) (m : MState K V P) (c i j : Nat)
    (op : Op K V P) (hij : j ≠ i) (hj : j < m.cores.length) :
    (mstep papply m c (.on i op)).cores[j]? = m.cores[j]? ∧
    (∀ l, (mstep papply m c (.deepcopy i l)).cores[j]? = m.cores[j]?) := by
  constructor
  · simp only [mstep]
    split
    · rfl
    · simp [List.getElem?_set_ne (Ne.symm hij)]
  · intro l
    simp only [mstep]
    split
    · rfl
    · split
      · rfl
      · simp [List.getElem?_append_left hj]

/-- `deepcopy_spec`: the copy is a NEW core with the source core's extra, patcher and handlers as they are at
that moment and one logger with the source logger's options; the shared part (context variable, open blocks,
delivered records) is untouched. -/
theorem deepcopy_spec (papply : P → Assoc K V → Assoc K V) (m : MState K V P) (c i l : Nat)
    (k : CoreSt K V P) (o : Opts K V P) (hk : m.cores[i]? = some k) (ho : k.loggers[l]? = some o) :
    let m' := mstep papply m c (.deepcopy i l)
    m'.cores = m.cores ++ [{ k with loggers := [o] }] ∧ m'.shared = m.shared := by
  simp [mstep, hk, ho]

/-- a logging call through logger `l` of core `i`: the single-core layering / patcher-order theorem with core
`i`'s extra, patcher and handlers and the SHARED context layer of the calling context -/
theorem multi_core_log (papply : P → Assoc K V → Assoc K V) (m : MState K V P) (c i l : Nat)
    (k : CoreSt K V P) (o : Opts K V P) (kw : Assoc K V) (hk : m.cores[i]? = some k)
    (ho : k.loggers[l]? = some o) (hh : k.handlers ≠ []) :
    (mstep papply m c (.on i (.log l kw))).shared.out = m.shared.out ++
      ((runPatchers papply c (coreCalled (withCore m.shared k) ++ o.patchers)
          (buildExtra k.coreExtra (ctxGet m.shared c) o.extra kw o.flags.capture)).1 ++
        k.handlers.map (fun h => Event.delivered c h
          (applyAll papply (coreCalled (withCore m.shared k) ++ o.patchers)
            (buildExtra k.coreExtra (ctxGet m.shared c) o.extra kw o.flags.capture)))) := by
  have hl : (withCore m.shared k).loggers[l]? = some o := ho
  have he : (withCore m.shared k).handlers.isEmpty = false := by
    show k.handlers.isEmpty = false
    cases h : k.handlers <;> simp_all
  simp only [mstep, hk, step, hl, he]
  rw [log_extra_layering]
  rfl

/-- no multi-core trace makes `context.reset(token)` fail: the token of a block entered through a logger of one
core is reset correctly whichever loggers and cores were used in between -/
theorem multi_core_exit_never_raises (papply : P → Assoc K V → Assoc K V) (truthy : P → Bool)
    (t : List (Nat × MOp K V P)) :
    ∀ e ∈ (mrun papply (minit truthy : MState K V P) t).shared.out, e.isError = false := by
  have gen : ∀ (t : List (Nat × MOp K V P)) (m : MState K V P), Inv m.shared →
      (∀ e ∈ m.shared.out, e.isError = false) → ∀ e ∈ (mrun papply m t).shared.out, e.isError = false := by
    intro t
    induction t with
    | nil => intro m _ hE; exact hE
    | cons e t ih =>
      intro m hI hE
      refine ih _ (inv_mstep papply m e.1 e.2 hI) ?_
      rcases e with ⟨c, op⟩
      cases op with
      | on i op =>
        simp only [mstep]
        split
        · exact hE
        · next k hk => exact step_no_error papply (withCore m.shared k) c op (inv_withCore _ _ hI) hE
      | deepcopy i l =>
        simp only [mstep]
        split
        · exact hE
        · split <;> exact hE
  exact gen t _ (inv_initT truthy) (by intro e he; cases he)

/-! ### tasks the LIBRARY creates: coroutine sinks (`AsyncSink.write`)

A coroutine sink's body is user code that may itself use `contextualize()` and log.  Which execution context
its task runs in is regenerated from `AsyncSink.write` (`Gen.sinkTaskContext`). -/

/-- the context id the next sink task runs in, and the state after its creation, by an emitter in context `c`
(`shared0` = the one context captured when the handler was added) -/
def sinkTask (papply : P → Assoc K V → Assoc K V) (mode : TaskCtx) (s : State K V P) (c shared0 : Nat) :
    State K V P × Nat :=
  match mode with
  | .copyOfCaller => (step papply s c (.spawn true), s.cv.n)
  | .shared => (s, shared0)

/-- `sink_task_gets_own_context`: the task `AsyncSink.write` creates runs in a NEW execution context (distinct
from every existing one – the emitter's, other sink tasks', user tasks') that starts as a copy of the emitting
call's context layer (a task "created inside" the emitter's blocks), with no open block of its own. -/
theorem sink_task_gets_own_context (papply : P → Assoc K V → Assoc K V) (s : State K V P) (c shared0 : Nat) :
    let r := sinkTask papply Gen.sinkTaskContext s c shared0
    r.2 = s.cv.n ∧ r.1.cv.n = s.cv.n + 1 ∧ r.1.stacks r.2 = [] ∧ ctxGet r.1 r.2 = ctxGet s c := by
  have h := spawn_inherits papply s c true
  refine ⟨by simp [sinkTask, Gen.sinkTaskContext], ?_, ?_, ?_⟩
  · simpa [sinkTask, Gen.sinkTaskContext] using h.1
  · simpa [sinkTask, Gen.sinkTaskContext] using h.2.1
  · simpa [sinkTask, Gen.sinkTaskContext] using h.2.2.1

/-- `sink_tasks_isolated`: two tasks created by the library for two messages run in different contexts, so by
`isolation` whatever one of them does (enter, leave, raise, log, spawn…) in any interleaving never changes the
context layer or the open blocks the other – or the emitter – observes. -/
theorem sink_tasks_isolated (papply : P → Assoc K V → Assoc K V) (s : State K V P) (c1 c2 sh : Nat)
    (t : List (Nat × Op K V P)) :
    let r1 := sinkTask papply Gen.sinkTaskContext s c1 sh
    let r2 := sinkTask papply Gen.sinkTaskContext r1.1 c2 sh
    r1.2 ≠ r2.2 ∧
    ((∀ e ∈ t, e.1 = r1.2) → ∀ b, b ≠ r1.2 → b < r2.1.cv.n →
      ctxGet (run papply r2.1 t) b = ctxGet r2.1 b ∧ (run papply r2.1 t).stacks b = r2.1.stacks b) := by
  have h1 := sink_task_gets_own_context papply s c1 sh
  have h2 := sink_task_gets_own_context papply (sinkTask papply Gen.sinkTaskContext s c1 sh).1 c2 sh
  refine ⟨by rw [h1.1, h2.1, h1.2.1]; omega, ?_⟩
  intro ht b hb hlt
  have := isolation papply t (sinkTask papply Gen.sinkTaskContext (sinkTask papply Gen.sinkTaskContext s c1 sh).1 c2 sh).1
    b hlt (fun e he => by rw [ht e he]; exact fun h => hb h.symm)
  exact ⟨this.1, this.2.1⟩

/-- refutation of the shared shape (`create_task(coro, context=<one stored Context>)`): all tasks of the handler
run in ONE context, and a value one of them sets with `contextualize()` is what the next one reads -/
theorem shared_sink_context_refuted (papply : P → Assoc K V → Assoc K V) (s : State K V P) (c1 c2 sh : Nat)
    (k : K) (v : V) :
    (sinkTask papply .shared s c1 sh).2 = (sinkTask papply .shared s c2 sh).2 ∧
    get? (ctxGet (step papply s sh (.enter [(k, v)])) sh) k = some v := by
  refine ⟨rfl, ?_⟩
  simp [step, ctxGet, ContextVars.get, ContextVars.set, ctxExtra, Gen.ctxOperands, List.foldl, srcVal, get?_merge,
    get?_cons]

/-! ### keyword arguments of the logging call: lazy evaluation, capture, `record` injection

`Context/Kwargs.lean` interprets the three statements of `_log` in their regenerated order `Gen.kwStages`. -/

/-- `kwargs_captured_as_passed`: without `lazy`, the kwargs layer put into `extra` is exactly the caller's
keyword arguments – the functional model's `merge e kw if capture` – whatever `record` is: the record dict
that `opt(record=True)` adds to kwargs is added AFTER the capture. -/
theorem kwargs_captured_as_passed (capture record : Bool) (recKey : K) (extra0 kw : Assoc K (Slot V)) :
    (kwPipeline false capture record recKey extra0 kw).extra = (if capture then merge extra0 kw else extra0) ∧
    (kwPipeline false capture record recKey extra0 kw).forced = [] := by
  cases capture <;> cases record <;> cases kw <;>
    simp [kwPipeline, Gen.kwStages, List.foldl, kwStage, merge_nil_right]

/-- `lazy_kwargs_called_once_before_capture`: with `opt(lazy=True)` every keyword argument is a callable; each
is called exactly once, in order, BEFORE the capture: `extra` receives the values returned, never the callables. -/
theorem lazy_kwargs_called_once_before_capture (capture record : Bool) (recKey : K) (extra0 : Assoc K (Slot V))
    (kw0 : Assoc K V) :
    let r := kwPipeline true capture record recKey extra0 (kw0.map (fun kv => (kv.1, Slot.thunk kv.2)))
    r.forced = kw0.map (fun kv => kv.1) ∧
    r.extra = (if capture then merge extra0 (kw0.map (fun kv => (kv.1, Slot.value kv.2))) else extra0) := by
  cases capture <;> cases record <;> cases kw0 <;>
    simp [kwPipeline, Gen.kwStages, List.foldl, kwStage, merge_nil_right, Slot.force, Function.comp_def]

/-- `record_never_captured`: whatever the options, the record dict never becomes a value of its own `extra`
(no self-referencing record, nothing for `serialize` / `repr(extra)` to loop on) unless the caller put it there. -/
theorem record_never_captured (lazy capture record : Bool) (recKey : K) (extra0 kw : Assoc K (Slot V))
    (h0 : ∀ kv ∈ extra0, kv.2 ≠ Slot.record) (h1 : ∀ kv ∈ kw, kv.2 ≠ Slot.record) :
    ∀ kv ∈ (kwPipeline lazy capture record recKey extra0 kw).extra, kv.2 ≠ Slot.record := by
  have hforce : ∀ kv ∈ kw.map (fun kv => (kv.1, kv.2.force)), kv.2 ≠ Slot.record := by
    intro kv hkv
    simp only [List.mem_map] at hkv
    obtain ⟨x, hx, rfl⟩ := hkv
    have := h1 x hx
    cases hx2 : x.2 <;> simp_all [Slot.force]
  have hm : ∀ (b : Assoc K (Slot V)), (∀ kv ∈ b, kv.2 ≠ Slot.record) →
      ∀ kv ∈ merge extra0 b, kv.2 ≠ Slot.record := by
    intro b hb kv hkv
    rcases merge_vals extra0 b kv hkv with ⟨x, hx, e⟩ | ⟨x, hx, e⟩
    · rw [← e]; exact h0 x hx
    · rw [← e]; exact hb x hx
  cases lazy <;> cases capture <;> cases record <;>
    simp only [kwPipeline, Gen.kwStages, List.foldl, kwStage, Bool.false_and, Bool.true_and, if_true,
      Bool.false_eq_true, if_false] <;>
    first
    | exact h0
    | (split <;> first | exact h0 | exact hm _ h1 | exact hm _ hforce)

/-! ### object identity: no aliasing between loguru's containers and what patchers, sinks and the caller reach

`Context/Heap.lean`: every dict is a heap cell; `core.extra`, the ContextVar's default, every value handed to
`context.set`, every logger's bound `extra` (shared by `opt()`/`patch()` derivations) are references; patchers,
sinks and the caller mutate IN PLACE, arbitrarily, the `extra` of records they were handed and dicts they own.
The construction sites are evaluated from their regenerated shapes. -/

open Context.Heap in
/-- tie G: `log_record["extra"]`, the `extra` given to `bind`'s logger, the value handed to `context.set` and
the patcher list given to `patch`'s logger are all DISPLAYS (new objects at every evaluation), and
`configure(extra=)` copies.  (Fails to build when one of them becomes a bare name or a conditional with a
bare-name arm, e.g. `{…} if core.extra or context.get() else extra`.) -/
theorem construction_sites_fresh :
    Gen.recordExtraExpr.aliasFree = true ∧ Gen.bindExtraExpr.aliasFree = true ∧
    Gen.ctxValueExpr.aliasFree = true ∧ Gen.patchListExpr.aliasFree = true ∧ Gen.configureCopies = true ∧
    Gen.recordExtraExpr = .display Gen.recordLayers ∧ Gen.bindExtraExpr = .display Gen.bindOperands ∧
    Gen.ctxValueExpr = .display Gen.ctxOperands :=
  ⟨record_site_fresh, bind_site_fresh, ctx_site_fresh, patch_site_fresh, configure_copies,
   record_site_is_layers, bind_site_is_operands, ctx_site_is_operands⟩

open Context.Heap in
/-- `patch_list_is_new_object`: over ANY heap of list objects and however `patch` is reached, the patcher list
handed to the new logger is an object that did not exist before and every existing list object – the receiver's
in particular – is left as it is (the regenerated site `Gen.patchListExpr` evaluated by the generic `eval`). -/
theorem patch_list_is_new_object {α : Type} [Inhabited α] (comb : List α → α) (heap : List α) (env : PSrc → Nat)
    (g : List Bool) :
    ∃ d, eval comb heap env g Gen.patchListExpr = (heap ++ [d], heap.length) :=
  eval_aliasFree comb heap env _ patch_site_fresh g

open Context.Heap in
/-- `heap_separation`: after ANY trace – logging calls whose patchers/sinks do anything to the record's extra,
callers mutating whatever they own or were handed, blocks, tasks, derived loggers – the objects loguru shares
internally are disjoint from `core.extra` and from everything the caller can reach. -/
theorem heap_separation (t : List (Nat × HOp K V)) : Sep (hrun (hinit : HState K V) t) :=
  sep_run t _ sep_init

open Context.Heap in
/-- `record_extra_fresh`: the `extra` of the record of a logging call is an object that did not exist before
the call – so it is not the logger's bound dict, not `core.extra`, not a context value, not another record,
not a dict of the caller – and what the patchers/sinks receive in it is the functional model's `buildExtra`
of the CONTENTS of the three layers (then `pf`, their own in-place effect). -/
theorem record_extra_fresh (s : HState K V) (c l : Nat) (kw : Assoc K V) (pf : Assoc K V → Assoc K V)
    (g : List Bool) (cap : Bool) (b : Nat) (hS : Sep s) (hl : s.loggers[l]? = some (cap, b)) :
    let s' := hstep s c (.log l kw pf g)
    s'.records = s.records ++ [s.heap.length] ∧
    ¬ Shared s s.heap.length ∧ s.heap.length ≠ s.core ∧ ¬ External s s.heap.length ∧
    cell s'.heap s.heap.length =
      pf (buildExtra (cell s.heap s.core) (cell s.heap (current s c)) (cell s.heap b) kw cap) := by
  intro s'
  have hs' : s' = hstep s c (.log l kw pf g) := rfl
  simp only [hstep, hl, record_site_is_layers, eval] at hs'
  refine ⟨by rw [hs'], fun h => Nat.lt_irrefl _ (hS.sharedLt _ h), fun h => ?_,
    fun h => Nat.lt_irrefl _ (hS.extLt _ h), ?_⟩
  · have := hS.coreLt; omega
  · rw [hs']
    simp only []
    rw [cell_set_eq _ _ _ (by simp), cell_append_len]
    unfold buildExtra mergeAll
    rw [List.foldl_map]
    cases cap <;> rfl

open Context.Heap in
/-- `shared_objects_immutable`: an object loguru shares internally – the bound `extra` of an existing logger
(also shared with the loggers `opt()`/`patch()` derived from it), a value the ContextVar holds or will be reset
to (also shared with the tasks that copied the context), the ContextVar's default `{}` – has the same CONTENT
after any trace: no logging call (kwargs captured in place, patchers, sinks), no `bind`/`contextualize`/
`configure`, no mutation by the caller of what it can reach ever writes to it. -/
theorem shared_objects_immutable (s : HState K V) (t : List (Nat × HOp K V)) (hS : Sep s) (r : Nat)
    (h : Shared s r) : cell (hrun s t).heap r = cell s.heap r :=
  (quiet_run t s r (shared_quiet s hS r h)).2

open Context.Heap in
/-- `derived_loggers_immutable_objects`: "bind(), opt() and patch() never alter the logger they were called
on", at object level: after any trace every existing logger still refers to the same dict object and that
object still has the same content. -/
theorem derived_loggers_immutable_objects (s : HState K V) (t : List (Nat × HOp K V)) (hS : Sep s)
    (i : Nat) (p : Bool × Nat) (hi : s.loggers[i]? = some p) :
    (hrun s t).loggers[i]? = some p ∧ cell (hrun s t).heap p.2 = cell s.heap p.2 := by
  obtain ⟨new, hn⟩ := loggers_grow t s
  have hlt : i < s.loggers.length := by
    rcases Nat.lt_or_ge i s.loggers.length with h | h
    · exact h
    · rw [List.getElem?_eq_none h] at hi; cases hi
  refine ⟨by rw [hn, List.getElem?_append_left hlt, hi], ?_⟩
  exact shared_objects_immutable s t hS p.2 (Or.inr (Or.inr (Or.inr ⟨p, List.mem_of_getElem? hi, rfl⟩)))

open Context.Heap in
/-- `delivered_record_immutable`: "… or a record already delivered": the extra of a delivered record is never
written to by any later operation of loguru, of other records' patchers and sinks, or of the caller on OTHER
objects – it changes only when whoever holds it mutates that very record. -/
theorem delivered_record_immutable (s : HState K V) (t : List (Nat × HOp K V)) (hS : Sep s) (r : Nat)
    (hr : r ∈ s.records) (hn : NoMutate r t) : cell (hrun s t).heap r = cell s.heap r :=
  (record_run t s hS r hr hn).2

open Context.Heap in
/-- the other direction (refutation of the aliasing shape): a site that is a bare name hands over the very
object, and the in-place `update(kwargs)` / patcher that follows writes into the receiver's dict -/
theorem alias_site_writes_receiver (heap : Cells K V) (env : Layer → Nat) (o : Layer) (g : List Bool)
    (x : Assoc K V) (h : env o < heap.length) :
    let r := eval mergeAll heap env g (.alias o)
    r.2 = env o ∧ cell (r.1.set r.2 x) (env o) = x := by
  exact ⟨rfl, cell_set_eq _ _ _ h⟩

/-! ### non-vacuity -/

/-- a trace with two contexts, overlapping keys, a block left by an exception while another
context has a block open; the invariant's hypotheses are met and the final layers are as expected -/
example :
    let t : List (Nat × Op Nat Nat Nat) :=
      [(0, .addHandler), (0, .configure (some [(1, 10), (2, 20)]) none), (0, .enter [(1, 11)]),
       (0, .spawn true), (1, .enter [(2, 22)]), (0, .raise 1 .baseException), (0, .bind 0 [(3, 33)]),
       (1, .log 1 [(3, 34)]), (1, .exit), (1, .log 0 []), (0, .log 0 [])]
    (run (fun _ x => x) (init : State Nat Nat Nat) t).out =
      [.delivered 1 0 [(1, 11), (2, 22), (3, 34)], .delivered 1 0 [(1, 11), (2, 20)],
       .delivered 0 0 [(1, 10), (2, 20)]] := by rfl

example : Balanced (K := Nat) (V := Nat) (P := Nat) 0 0
    [(0, .enter [(1, 1)]), (1, .enter [(1, 2)]), (0, .enter [(2, 2)]), (0, .raise 2 .baseException), (1, .exit)] := by
  simp [Balanced]

/-- object level: a logger's dict shared by `opt()`, a record whose patcher writes, the caller clearing the
record and the dict it passed to configure – the bound dict and the context value keep their content -/
example :
    let t : List (Nat × Heap.HOp Nat Nat) :=
      [(0, .alloc [(1, 10)]), (0, .configure 3), (0, .bind 0 [(2, 20)] []), (0, .opt 1 false),
       (0, .enter [(3, 30)] []), (0, .log 1 [(2, 21)] (fun x => merge x [(9, 9)]) []),
       (0, .mutate 8 (fun _ => [])), (0, .mutate 3 (fun _ => [])), (0, .log 2 [(2, 22)] id [])]
    let s := Heap.hrun (Heap.hinit : Heap.HState Nat Nat) t
    s.loggers = [(true, 2), (true, 5), (false, 5)] ∧ Heap.cell s.heap 5 = [(2, 20)] ∧
    s.records = [8, 9] ∧ Heap.cell s.heap 8 = [] ∧ Heap.cell s.heap 9 = [(1, 10), (3, 30), (2, 20)] := by
  decide

/-- two cores: a block entered through the ORIGINAL logger is seen by the deep copy; configure on the copy does
not reach the original -/
example :
    let t : List (Nat × MOp Nat Nat Nat) :=
      [(0, .on 0 .addHandler), (0, .on 0 (.configure (some [(1, 10)]) none)), (0, .on 0 (.bind 0 [(2, 20)])),
       (0, .on 0 (.enter [(3, 30)])), (0, .deepcopy 0 1), (0, .on 1 (.configure (some [(1, 11)]) none)),
       (0, .on 1 (.log 0 [])), (0, .on 0 (.log 0 [])), (0, .on 0 .exit), (0, .on 1 (.log 0 []))]
    (mrun (fun _ x => x) (minit (fun _ => true) : MState Nat Nat Nat) t).shared.out =
      [.delivered 0 0 [(1, 11), (3, 30), (2, 20)], .delivered 0 0 [(1, 10), (3, 30)],
       .delivered 0 0 [(1, 11), (2, 20)]] := by rfl

end C12
