import LoguruModel.Context.Lemmas
/-
C12 – property theorems (only the theorems and their non-vacuity examples live here).
The operand orders (`Gen.recordLayers`, `Gen.bindOperands`, `Gen.ctxOperands`, `Gen.patchOperands`),
the phase order `Gen.logPhases` and `Gen.optDefaults` are regenerated from /repo on every run, so the
statements below are about what `loguru/_logger.py` says now.
-/
set_option linter.unusedSectionVars false
namespace C12
open Py Context

variable {K V P : Type} [DecidableEq K]

/-! ### extra layering -/

/-- `extra_layering`: key by key the record's extra is kwargs ▷ bind ▷ contextualize ▷ configure;
with `capture = false` the kwargs layer is absent. -/
theorem extra_layering (core ctx bound kw : Assoc K V) (capture : Bool) (k : K) :
    get? (buildExtra core ctx bound kw capture) k =
      orElse (if capture then get? kw k else none)
        (orElse (get? bound k) (orElse (get? ctx k) (get? core k))) := by
  unfold buildExtra
  cases capture <;>
    simp [Gen.recordLayers, List.foldl, layerVal, get?_merge]

/-- the same, for the extra the first patcher (or, without patchers, every handler) is shown by a
logging call in context `c` of any reachable or unreachable state -/
theorem log_extra_layering (papply : P → Assoc K V → Assoc K V) (s : State K V P) (c : Nat)
    (o : Opts K V P) (kw : Assoc K V) :
    logEvents papply s c o kw =
      (runPatchers papply c (s.corePatcher.toList ++ o.patchers)
          (buildExtra s.coreExtra (ctxGet s c) o.extra kw o.flags.capture)).1 ++
        s.handlers.map (fun h => Event.delivered c h
          (applyAll papply (s.corePatcher.toList ++ o.patchers)
            (buildExtra s.coreExtra (ctxGet s c) o.extra kw o.flags.capture))) := by
  unfold logEvents
  simp [Gen.logPhases, List.foldl, runPhase, runPatchers_append, runPatchers_snd, applyAll_append]

/-! ### patchers -/

/-- `patch_order_once`: the new events of a logging call are: one `patched` event per element of
`[core.patcher] ++ patchers`, in that order, each shown the extra left by the ones before it; then –
and only then – one `delivered` event per handler, all carrying the final extra. -/
theorem patch_order_once (papply : P → Assoc K V → Assoc K V) (s : State K V P) (c l : Nat)
    (o : Opts K V P) (kw : Assoc K V) (hl : s.loggers[l]? = some o) (hh : s.handlers ≠ []) :
    ∃ ps ds, (step papply s c (.log l kw)).out = s.out ++ ps ++ ds ∧
      ps.filterMap Event.patcher? = s.corePatcher.toList ++ o.patchers ∧
      ps.length = (s.corePatcher.toList ++ o.patchers).length ∧
      (∀ e ∈ ps, e.isDelivered = false) ∧
      (∀ i p, (s.corePatcher.toList ++ o.patchers)[i]? = some p →
        ps[i]? = some (Event.patched c p
          (applyAll papply ((s.corePatcher.toList ++ o.patchers).take i)
            (buildExtra s.coreExtra (ctxGet s c) o.extra kw o.flags.capture)))) ∧
      ds = s.handlers.map (fun h => Event.delivered c h
          (applyAll papply (s.corePatcher.toList ++ o.patchers)
            (buildExtra s.coreExtra (ctxGet s c) o.extra kw o.flags.capture))) := by
  refine ⟨_, _, ?_, runPatchers_ids papply c _ _, ?_, runPatchers_none_delivered papply c _ _,
    fun i p h => runPatchers_seen papply c _ _ i p h, rfl⟩
  · have : s.handlers.isEmpty = false := by cases h : s.handlers <;> simp_all
    simp [step, hl, this, log_extra_layering, List.append_assoc]
  · have := congrArg List.length (runPatchers_ids papply c (s.corePatcher.toList ++ o.patchers)
      (buildExtra s.coreExtra (ctxGet s c) o.extra kw o.flags.capture))
    have h2 : ∀ (ps : List P) (x : Assoc K V), (runPatchers papply c ps x).1.length = ps.length := by
      intro ps; induction ps with
      | nil => intro x; rfl
      | cons p ps ih => intro x; simp [runPatchers, ih]
    exact h2 _ _

/-- a logging call without any handler returns before the record is built: nothing is patched -/
theorem no_handler_no_patch (papply : P → Assoc K V → Assoc K V) (s : State K V P) (c l : Nat)
    (kw : Assoc K V) (hh : s.handlers = []) : step papply s c (.log l kw) = s := by
  simp only [step]; split <;> simp [hh]

end C12
