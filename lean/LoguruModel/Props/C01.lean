import LoguruModel.Dispatch.Lemmas
/-!
C01 – a log call reaches exactly the handlers its level, filter and activation select.
Only property theorems and non-vacuity examples live here (helpers: `Dispatch/Lemmas.lean`).

`run orc Core.init ops` is the model of `loguru/_logger.py` as it is (registry, `min_level`
short-circuit, `enabled` cache, pruned/sorted `activation_list`, `levels_lookup` with int caching);
`runSpec orc SState.init ops` is the history spec (registered handlers in registration order, "the last
relevant enable/disable wins", no caches).  `orc` are the user's callable filters.
-/
namespace C01
open Dispatch Py

/-- **The property as one refinement.**  For every family of callable filters and EVERY finite history of
add / remove / remove() / level / enable / disable / configure / log operations (malformed calls
included), the model produces exactly the observables of the history spec: the same returned ids, the
same error kinds, and for every log call the same ordered list of receiving handlers and the same lazy
evaluation count. -/
theorem dispatch_refines_spec (orc : Oracle) (ops : List Op) :
    run orc Core.init ops = runSpec orc SState.init ops :=
  run_sim orc ops sim_init idInv_init

/-- the invariant the refinement rests on (I1 `min_level` = min of thresholds, I2 rule list, I3 cache
entries = fresh scan, I4 level lookup cache) holds after every history -/
theorem invariant_after_every_history (orc : Oracle) (ops : List Op) :
    Sim (final orc Core.init ops) (finalS orc SState.init ops) :=
  final_sim orc ops sim_init idInv_init

/-- (I1) after every history `core.min_level` is the minimum of the registered thresholds (`inf` when
none), hence the short-circuit `level_no < min_level` skips exactly when no handler admits the level -/
theorem min_level_is_min_threshold (orc : Oracle) (ops : List Op) (no : Int) :
    let c := final orc Core.init ops
    c.minLevel = minOf (c.handlers.map (·.2.threshold)) ∧
    (belowMin no c.minLevel = true ↔ ∀ h ∈ c.handlers, no < h.2.threshold) := by
  have h := (final_sim orc ops sim_init idInv_init).minLevel
  refine ⟨h, ?_⟩
  rw [h, belowMin_minOf]
  simp only [Bool.not_eq_true', List.any_eq_false, List.mem_map, decide_eq_true_eq]
  constructor
  · intro hh x hx
    have := hh x.2.threshold ⟨x, hx, rfl⟩
    omega
  · rintro hh t ⟨x, hx, rfl⟩
    have := hh x hx
    omega

/-- (I3) after every history each entry of the `enabled` cache equals what a fresh scan of the rule
list (resp. `activation_none`) returns for that module -/
theorem cache_agrees_with_fresh_scan (orc : Oracle) (ops : List Op) :
    let c := final orc Core.init ops
    ∀ e ∈ c.enabled, e.2 = scan c e.1 := by
  intro c e he
  have hs := final_sim orc ops sim_init idInv_init
  rw [hs.cache e he]
  rcases e with ⟨M, st⟩
  cases M with
  | none => exact hs.actNone.symm
  | some n => rw [scan_some_eq]; exact (hs.act n).symm

/-- (I2) For EVERY history of `enable/disable` calls on `str` names (most recent first) and every
dotted module name, over an ARBITRARY alphabet (so names that are string prefixes of one another and
empty components are covered): the first-match lookup in the pruned, parent-elided, depth-sorted
`activation_list` is the status of the most recent call whose dotted name is a prefix of the module's
dotted name. -/
theorem activation_refines_spec {α : Type} [DecidableEq α] (dot : α) (h : List (List α × Bool))
    (dm : List α) : lookup (runAct dot h) dm = specEnabled dot h dm :=
  Dispatch.activation_refines_spec dot h dm

/-- the rule list is always sorted deepest-first with at most one rule per (dotted) name -/
theorem activation_list_invariant {α : Type} [DecidableEq α] (dot : α) (h : List (List α × Bool)) :
    AInv dot (runAct dot h) := AInv_run dot h

/-- "M is enabled according to the most recent enable()/disable() call that named M or one of its parent
packages; the empty name is the parent of everything; None only relates to None": the relation the
spec uses is exactly that, and it coincides with the slice comparison of the code -/
theorem relevant_iff_names_module_or_parent (p M : Str) :
    (relevant (some p) (some M) = true ↔ p = [] ∨ M = p ∨ ∃ rest, M = p ++ '.' :: rest) ∧
    (relevant (some p) (some M) = true ↔ dotted '.' p <+: M ++ ['.']) ∧
    relevant none (some M) = false ∧ relevant (some p) none = false ∧ relevant none none = true :=
  ⟨pkgParent_iff p M, pkgParent_iff_dotted p M, rfl, rfl, rfl⟩

/-- a log call delivers to EXACTLY the selected handlers: `id` receives the message iff it is registered,
the module is enabled, its threshold is at or below the severity and its filter accepts -/
theorem delivers_exactly_selected (orc : Oracle) (s : SState) (lv : LevelArg) (M : Option Str) (lazy : Bool)
    (ids : List Nat) (k : Nat) (hne : s.regs ≠ []) (h : sLog orc s lv M lazy = .delivered ids k) :
    ∃ no, levelNoS s.levels lv = .ok no ∧
      ∀ id, id ∈ ids ↔ ∃ hd, (id, hd) ∈ s.regs ∧ enabledS s.acts M = true ∧ hd.threshold ≤ no ∧
        accepts orc hd.filter no M = true := by
  unfold sLog at h
  have : s.regs.isEmpty = false := by cases hr : s.regs with | nil => exact absurd hr hne | cons _ _ => rfl
  simp only [this, Bool.false_eq_true, if_false] at h
  cases hl : levelNoS s.levels lv with
  | error e => rw [hl] at h; cases h
  | ok no =>
    rw [hl] at h
    refine ⟨no, rfl, ?_⟩
    simp only [sLogTail] at h
    split at h
    · rename_i hc
      simp only [Bool.and_eq_true] at hc
      simp only [Out.delivered.injEq] at h
      obtain ⟨rfl, _⟩ := h
      intro id
      simp only [deliverS, List.mem_map, List.mem_filter, Bool.and_eq_true, decide_eq_true_eq]
      constructor
      · rintro ⟨⟨i, hd⟩, ⟨hm, ht, ha⟩, rfl⟩
        exact ⟨hd, hm, hc.1, ht, ha⟩
      · rintro ⟨hd, hm, _, ht, ha⟩
        exact ⟨(id, hd), ⟨hm, ht, ha⟩, rfl⟩
    · rename_i hc
      simp only [Out.delivered.injEq] at h
      obtain ⟨rfl, _⟩ := h
      intro id
      simp only [List.not_mem_nil, false_iff]
      rintro ⟨hd, hm, he, ht, ha⟩
      apply hc
      simp only [Bool.and_eq_true, he, true_and, admitted, List.any_eq_true, decide_eq_true_eq]
      exact ⟨(id, hd), hm, ht⟩

/-- the same on the MODEL (the code's caches, short-circuits and tables included), after EVERY history: a log
call delivers to exactly the registered handlers the history spec selects -/
theorem model_delivers_exactly_selected (orc : Oracle) (ops : List Op) (lv : LevelArg) (M : Option Str)
    (lazy : Bool) (ids : List Nat) (k : Nat) :
    let c := final orc Core.init ops
    let s := finalS orc SState.init ops
    c.handlers ≠ [] → (log orc c lv M lazy).2 = .delivered ids k →
    ∃ no, levelNoS s.levels lv = .ok no ∧
      ∀ id, id ∈ ids ↔ ∃ hd, (id, hd) ∈ c.handlers ∧ enabledS s.acts M = true ∧ hd.threshold ≤ no ∧
        accepts orc hd.filter no M = true := by
  intro c s hne h
  have hs : Sim c s := final_sim orc ops sim_init idInv_init
  rw [(log_sim orc hs lv M lazy).1] at h
  rw [hs.handlers] at hne ⊢
  exact delivers_exactly_selected orc s lv M lazy ids k hne h

/-- after EVERY history: ids are fresh and strictly increasing in registration order, so a log call
delivers in registration order, at most one message per handler, only to registered handlers -/
theorem delivery_in_registration_order (orc : Oracle) (ops : List Op) (lv : LevelArg) (M : Option Str)
    (lazy : Bool) (ids : List Nat) (k : Nat) :
    let s := finalS orc SState.init ops
    sLog orc s lv M lazy = .delivered ids k →
      ids.Sublist (s.regs.map (·.1)) ∧ ids.Pairwise (· < ·) ∧ (s.regs.map (·.1)).Pairwise (· < ·) := by
  intro s h
  have hinv : IdInv s := idInv_final orc ops idInv_init
  have hp : (s.regs.map (·.1)).Pairwise (· < ·) := by
    rw [List.pairwise_map]; exact hinv.2
  have hsub : ids.Sublist (s.regs.map (·.1)) := by
    unfold sLog at h
    split at h
    · simp only [Out.delivered.injEq] at h; rw [← h.1]; exact List.nil_sublist _
    · split at h
      · cases h
      · simp only [sLogTail] at h
        split at h
        · simp only [Out.delivered.injEq] at h
          rw [← h.1]
          exact (List.filter_sublist).map _
        · simp only [Out.delivered.injEq] at h; rw [← h.1]; exact List.nil_sublist _
  exact ⟨hsub, hp.sublist hsub, hp⟩

/-- lazily supplied arguments: in every run of the MODEL (the code's caches and short-circuits included)
each lazy argument is evaluated at most once, never for a non-lazy call, never when the module is
disabled, never when no registered handler's threshold admits the level -/
theorem lazy_at_most_once_and_only_if_admitted (orc : Oracle) (ops : List Op) (lv : LevelArg)
    (M : Option Str) (lazy : Bool) (ids : List Nat) (k : Nat) :
    let c := final orc Core.init ops
    let s := finalS orc SState.init ops
    (log orc c lv M lazy).2 = .delivered ids k →
      k ≤ 1 ∧ (k ≠ 0 → lazy = true ∧ enabledS s.acts M = true ∧
        ∃ no, levelNoS s.levels lv = .ok no ∧ ∃ h ∈ s.regs, h.2.threshold ≤ no) := by
  intro c s h
  have hs : Sim c s := final_sim orc ops sim_init idInv_init
  rw [(log_sim orc hs lv M lazy).1] at h
  unfold sLog at h
  split at h
  · simp only [Out.delivered.injEq] at h; omega
  · split at h
    · cases h
    · rename_i no hl
      simp only [sLogTail] at h
      split at h
      · rename_i hc
        simp only [Out.delivered.injEq, lazyCount] at h
        simp only [Bool.and_eq_true, admitted, List.any_eq_true, decide_eq_true_eq] at hc
        obtain ⟨_, rfl⟩ := h
        cases lazy with
        | false => simp
        | true =>
          refine ⟨by simp, fun _ => ⟨rfl, hc.1, no, hl, ?_⟩⟩
          obtain ⟨x, hx, ht⟩ := hc.2
          exact ⟨x, hx, ht⟩
      · simp only [Out.delivered.injEq] at h; omega

/-- a sink whose `stop()` raises: `remove(id)` reports the error, but the handler IS unregistered and
`min_level` is the minimum over the remaining handlers (the update happens before `stop()`), in any state -/
theorem remove_unregisters_even_if_stop_raises (c : Core) (id : Int) (e : Err)
    (h : (remove c id).2 = .err e) (he : e ≠ .valueError) :
    e = .osError ∧ (∀ x ∈ (remove c id).1.handlers, x.1 ≠ id.toNat) ∧
    (remove c id).1.minLevel = minOf ((remove c id).1.handlers.map (·.2.threshold)) := by
  unfold remove at h ⊢
  by_cases hid : 0 ≤ id
  · simp only [hid, if_true] at h ⊢
    cases hf : c.handlers.find? (fun h => h.1 == id.toNat) with
    | none => rw [hf] at h; simp only [Out.err.injEq] at h; exact absurd h.symm he
    | some hd =>
      rw [hf] at h
      simp only at h ⊢
      unfold stopOut at h
      split at h
      · simp only [Out.err.injEq] at h
        refine ⟨h.symm, ?_, rfl⟩
        intro x hx
        simp only [removeOne, List.mem_filter, bne_iff_ne, ne_eq] at hx
        exact hx.2
      · cases h
  · simp only [hid, if_false, Out.err.injEq] at h; exact absurd h.symm he

/-- `remove()` with failing sinks: handlers go in registration order up to and including the first whose
`stop()` raises; the call succeeds iff no `stop()` raises, and then nothing stays registered -/
theorem remove_all_semantics (l : List (Nat × Handler)) :
    (removeAllS l).1 <:+ l ∧ ((removeAllS l).2 = .ok ↔ ∀ h ∈ l, h.2.stopFails = false) ∧
    ((removeAllS l).2 = .ok → (removeAllS l).1 = []) := by
  induction l with
  | nil => exact ⟨List.suffix_refl _, by simp [removeAllS], fun _ => rfl⟩
  | cons h t ih =>
    unfold removeAllS
    by_cases hf : h.2.stopFails = true
    · simp only [hf, if_true]
      refine ⟨List.suffix_cons _ _, ?_, ?_⟩
      · constructor
        · intro hh; cases hh
        · intro hh; have := hh h List.mem_cons_self; rw [hf] at this; cases this
      · intro hh; cases hh
    · have hf' : h.2.stopFails = false := by simpa using hf
      simp only [hf', Bool.false_eq_true, if_false]
      refine ⟨ih.1.trans (List.suffix_cons _ _), ?_, ih.2.2⟩
      rw [ih.2.1]
      simp [hf']

/-- **Refuting witness for the shape "recompute `min_level` after `handler.stop()`"** (for instance once
after the loop of `remove`): two handlers with thresholds 10 and 40, the first with a sink whose `stop()`
raises; `remove(0)` raises, only the threshold-40 handler remains – and a lazy call at level 20 still
evaluates its argument although no registered handler admits it.  With the real `remove` it does not. -/
theorem late_min_level_update_refuted :
    let orc : Oracle := fun _ _ _ => true
    let c0 := final orc Core.init [.add ⟨.int 10, .none, true, false⟩, .add ⟨.int 40, .none, false, false⟩]
    let bad := (removeLate c0 0).1
    let good := (remove c0 0).1
    (removeLate c0 0).2 = .err .osError ∧ (remove c0 0).2 = .err .osError ∧
    bad.handlers.map (·.1) = [1] ∧ good.handlers.map (·.1) = [1] ∧
    (log orc bad (.int 20) (some "a".toList) true).2 = .delivered [] 1 ∧
    (log orc good (.int 20) (some "a".toList) true).2 = .delivered [] 0 := by
  decide

/-- (I6) after every history every colourising handler (colorize=True, string format) holds a pre-colourised
format for every level that exists – built-in or created at run time, with or without a colour, before
or after the handler – so `Handler.emit`'s `self._precolorized_formats[level_id]` never raises and a call
by level NAME reaches the handler exactly like a call by number (this is part of `Sim`, i.e. what
`dispatch_refines_spec` rests on) -/
theorem precolorized_formats_total (orc : Oracle) (ops : List Op) (id : Nat) (n : Str) :
    let c := final orc Core.init ops
    (c.levels.lookup n).isSome = true → precolorOk c id (some n) = true := by
  intro c hn
  have hs := final_sim orc ops sim_init idInv_init
  exact precolorOk_true hs.pcInv (fun m hm => by cases hm; exact hn) id

/-- **Refuting witness for the shape "refresh the handlers' formats only if the colour changed"**: a
colourising handler, then `level("NOTICE", no=25)` without a colour: with the stale shape a call by NAME
is not delivered (KeyError inside emit) while the call by number 25 is; with the real `level` both are. -/
theorem stale_precolorized_formats_refuted :
    let orc : Oracle := fun _ _ _ => true
    let notice := "NOTICE".toList
    let c0 := final orc Core.init [.add ⟨.int 0, .none, false, true⟩]
    let bad := (levelOpStale c0 notice (.int 25) false).1
    let good := (levelOp c0 notice (.int 25) false).1
    (log orc bad (.name notice) (some "a".toList) false).2 = .delivered [] 0 ∧
    (log orc bad (.int 25) (some "a".toList) false).2 = .delivered [0] 0 ∧
    (log orc good (.name notice) (some "a".toList) false).2 = .delivered [0] 0 ∧
    (log orc good (.int 25) (some "a".toList) false).2 = .delivered [0] 0 := by
  decide

/-- **Overlapped calls.**  After EVERY history – log calls overlapped by a complete `enable()/disable()` of
another thread included (`Op.logDuring`, both yield points) – a call that starts after the change returned
follows the most recent `enable()/disable()`: nothing the overlapped reader wrote survives in the cache.
(The overlapped call itself is judged by `dispatch_refines_spec`: old state at the rules-read point, new
state at the early point.) -/
theorem later_calls_follow_completed_change (orc : Oracle) (ops : List Op) (lv : LevelArg) (M : Option Str)
    (lazy early : Bool) (p : Option Str) (st : Bool) (lv' : LevelArg) (M' : Option Str) (lazy' : Bool) :
    let c := final orc Core.init ops
    let s := finalS orc SState.init ops
    let c' := (logDuring orc c lv M lazy early p st).1
    (log orc c' lv' M' lazy').2 = sLog orc { s with acts := (p, st) :: s.acts } lv' M' lazy' ∧
    (∀ e ∈ c'.enabled, e.2 = enabledS ((p, st) :: s.acts) e.1) := by
  intro c s c'
  have hs : Sim c s := final_sim orc ops sim_init idInv_init
  have h := (logDuring_sim orc hs lv M lazy early p st).2
  exact ⟨(log_sim orc h lv' M' lazy').1, h.cache⟩

/-- **Overlapped calls are linearizable.**  After any history, a log call overlapped by a complete
`enable()/disable()` – at either yield point – is indistinguishable, by its own observable AND by the observables
of EVERY continuation `rest`, from one of the two sequential orders: change-then-call (early point) or
call-then-change (rules-read point). -/
theorem overlapped_call_is_linearizable (orc : Oracle) (ops rest : List Op) (lv : LevelArg) (M : Option Str)
    (lazy early : Bool) (p : Option Str) (st : Bool) :
    let c := final orc Core.init ops
    run orc (final orc Core.init (ops ++ [.logDuring lv M lazy early p st])) rest =
      run orc (final orc Core.init (ops ++ linearized lv M lazy early p st)) rest ∧
    (step orc c (.logDuring lv M lazy early p st)).2 =
      (if early then (log orc (activate c p st) lv M lazy).2 else (log orc c lv M lazy).2) := by
  intro c
  have hs : Sim c (finalS orc SState.init ops) := final_sim orc ops sim_init idInv_init
  have hi : IdInv (finalS orc SState.init ops) := idInv_final orc ops idInv_init
  constructor
  · have h1 := final_sim orc (ops ++ [.logDuring lv M lazy early p st]) sim_init idInv_init
    have h2 := final_sim orc (ops ++ linearized lv M lazy early p st) sim_init idInv_init
    rw [run_sim orc rest h1 (idInv_final orc _ idInv_init), run_sim orc rest h2 (idInv_final orc _ idInv_init),
      finalS_append, finalS_append, finalS_linearized]
  · cases early with
    | true => rfl
    | false =>
      show (logDuringG Gen.cacheFillIntoFetchedDict orc c lv M lazy p st).2 = _
      rw [fill_goes_into_fetched_dict, logDuringG_fetched]
      rfl

/-- **Refuting witness for the shape "re-read `core.enabled` after the rules were read"** (`core.enabled[name] =
status` instead of filling the dict fetched before): one handler, a first log from `a.b` overlapped by a
complete `disable("a")` right after the reader fetched the (empty) rule list.  With the refuted shape the
reader stores `True` – computed from the old rules – in the dict the writer just published, and every later
call from `a.b` is delivered although `disable("a")` returned long before; with the code's order it is not. -/
theorem cache_fill_into_republished_dict_refuted :
    let orc : Oracle := fun _ _ _ => true
    let a := "a".toList; let ab := "a.b".toList; let info := LevelArg.name "INFO".toList
    let c0 := final orc Core.init [.add ⟨.int 0, .none, false, false⟩]
    let bad := (logDuringG false orc c0 info (some ab) false (some a) false).1
    let good := (logDuringG true orc c0 info (some ab) false (some a) false).1
    (log orc bad info (some ab) false).2 = .delivered [0] 0 ∧
    (log orc good info (some ab) false).2 = .delivered [] 0 ∧
    bad.enabled = [(some ab, true)] ∧ scan bad (some ab) = false ∧ good.enabled = [] := by
  decide +kernel

/-- **`add` dispatches on the class of its arguments the documented way.**  The `if/elif` chains over `filter`,
over the values of a `filter={...}` dict and over `level` are regenerated from the source in source order and
interpreted by the model (`mkFilterC`, `mkDictValC`, `mkThresholdC`); although Python's classes overlap
(`""` is a `str`, `True`/`False` are `int`s, `builtins.filter` is callable) they denote the reading by disjoint
kinds the spec uses: `""` is "any named module", not the package `""`; `True` is level 0 and `False` rejects,
neither is the int 1 / 0; `builtins.filter` is refused, not taken for a user callable. -/
theorem add_argument_dispatch (levels : List (Str × Int)) :
    (∀ a, mkFilterC levels a = mkFilter levels a) ∧
    (∀ v, mkDictValC levels v = mkDictVal levels v) ∧
    (∀ l, mkThresholdC levels l = mkThreshold levels l) ∧
    mkFilterC levels (.str []) = .ok .notNone ∧
    mkDictValC levels .true = .ok (some 0) ∧ mkDictValC levels .false = .ok none ∧
    (∃ e, mkFilterC levels .builtinFilter = .error e) :=
  ⟨mkFilterC_eq levels, mkDictValC_eq levels, mkThresholdC_eq levels, rfl, rfl, rfl, ⟨_, rfl⟩⟩

/-- **Level numbers are immutable.**  Whatever happens later (any continuation `ops'` of any history `ops`), a
level name keeps the severity it had: `level()` creates, and updates colour/icon only.  Hence a handler's
threshold given by NAME never drifts from the level, and a handler added WITHOUT `level=` (the default is
regenerated from `_defaults.LOGURU_LEVEL` / `add`'s signature) always gets the threshold of `DEBUG` = 10. -/
theorem level_numbers_are_immutable (orc : Oracle) (ops ops' : List Op) (n : Str) (v : Int) :
    ((finalS orc SState.init ops).levels.lookup n = some v →
      (finalS orc SState.init (ops ++ ops')).levels.lookup n = some v) ∧
    mkThreshold (finalS orc SState.init ops).levels (.name Gen.addDefaultLevelName) = .ok 10 ∧
    (final orc Core.init ops).levels = (finalS orc SState.init ops).levels := by
  refine ⟨fun h => ?_, ?_, (final_sim orc ops sim_init idInv_init).levels⟩
  · rw [finalS_append]; exact lv_final orc ops' h
  · have h : (finalS orc SState.init ops).levels.lookup Gen.addDefaultLevelName = some 10 :=
      lv_final orc ops (by decide)
    simp only [mkThreshold, getLevel, h]
    rfl

/-- **`level()`: read, create, update.**  The outcome table `Gen.levelTable` is obtained by EXECUTING the body of
`Logger.level` over the finite domain (kind of `no`) × (colour given) × (icon given) × (level exists); the model
looks its decision up there (`levelDecisionC`), and it denotes the documented rules: with no other argument the
call reads (unknown name: `ValueError`); a new name needs a non-negative int `no` (absent: `ValueError`, no int:
`TypeError`, negative: `ValueError`); an existing level can only get a colour / an icon – its severity is kept,
giving `no` again is a `ValueError`; a colour and an icon are not distinguished. -/
theorem level_creates_or_updates (levels : List (Str × Int)) (name : Str) (no : NoArg) (other : Bool) :
    levelDecisionC levels name no other = levelDecision levels name no other ∧
    (∀ old, levels.lookup name = some old →
      levelDecisionC levels name .none true = .ok (some old) ∧ levelDecisionC levels name .none false = .ok none ∧
      ∀ i, levelDecisionC levels name (.int i) other = .error .valueError) ∧
    (levels.lookup name = none →
      levelDecisionC levels name .none other = .error .valueError ∧
      levelDecisionC levels name .bad true = .error .typeError ∧
      ∀ i, levelDecisionC levels name (.int i) other = if i < 0 then .error .valueError else .ok (some i)) ∧
    (∀ k ∈ [0, 1, 2, 3], ∀ c i e : Bool,
      Gen.levelTable.lookup (k, c, i, e) = Gen.levelTable.lookup (k, c || i, false, e)) := by
  refine ⟨levelDecisionC_eq _ _ _ _, fun old h => ?_, fun h => ?_, levelTable_symmetric⟩
  · simp only [levelDecisionC_eq, levelDecision, h]
    refine ⟨by simp, by simp, fun i => ?_⟩
    cases other <;> simp
  · simp only [levelDecisionC_eq, levelDecision, h]
    refine ⟨by cases other <;> simp, by simp, fun i => ?_⟩
    cases other <;> simp [Gen.levelRejectsNo]

/-- **`add` is all-or-nothing.**  In any state: a call that raises (no sink, unknown keyword, malformed filter or
level) takes an id and changes NOTHING else – registry, `min_level`, caches, levels; a call that returns
registers exactly one handler, last in the registry, under the id it returns, which is the number of `add`
calls made before. -/
theorem add_all_or_nothing (c : Core) (a : AddArgs) :
    (∀ e, (add c a).2 = .err e → (add c a).1 = { c with handlersCount := c.handlersCount + 1 }) ∧
    (∀ n, (add c a).2 = .id n → n = c.handlersCount ∧ (add c a).1.handlersCount = c.handlersCount + 1 ∧
       ∃ hd, (add c a).1.handlers = c.handlers ++ [(n, hd)]) ∧
    ((∃ e, (add c a).2 = .err e) ∨ (∃ n, (add c a).2 = .id n)) ∧
    (prim (fun _ _ _ => true) c .addBad).1 = { c with handlersCount := c.handlersCount + 1 } := by
  have key : (∃ e, add c a = ({ c with handlersCount := c.handlersCount + 1 }, .err e)) ∨
      (∃ hd c', add c a = (c', .id c.handlersCount) ∧ c'.handlersCount = c.handlersCount + 1 ∧
        c'.handlers = c.handlers ++ [(c.handlersCount, hd)]) := by
    unfold add
    simp only
    cases mkFilterC c.levels a.filter with
    | error e => exact Or.inl ⟨e, rfl⟩
    | ok f =>
      cases mkThresholdC c.levels a.level with
      | error e => exact Or.inl ⟨e, rfl⟩
      | ok t => exact Or.inr ⟨_, _, rfl, rfl, rfl⟩
  rcases key with ⟨e, he⟩ | ⟨hd, c', he, h1, h2⟩
  · rw [he]
    exact ⟨fun _ _ => rfl, fun n h => (by cases h), Or.inl ⟨e, rfl⟩, rfl⟩
  · rw [he]
    refine ⟨fun e h => (by cases h), fun n h => ?_, Or.inr ⟨_, rfl⟩, rfl⟩
    simp only [Out.id.injEq] at h
    subst h
    exact ⟨rfl, h1, hd, h2⟩

/-- **Refuting witness for the order "isinstance(level_, int) before the `is True` test"** in the dict branch:
`True` would be kept as the int 1 instead of level 0 – `{"a": True}` ("everything from `a`") would reject the
records of severity 0; (`False` survives such a reordering only because the assignment keeps the object and
`filter_by_level` tests `level is False` by identity). -/
theorem bool_tested_after_int_refuted :
    let swapped : List (Gen.VTest × Gen.VAct) :=
      [(.isFalse, .reject), (.isStr, .levelByName), (.isInt, .intValue), (.isTrue, .const 0)]
    let rd := fun v => actV [] (firstAct swapped Gen.VAct.typeError (fun t => holdsV t v)) v
    rd .true = .ok (some 1) ∧ rd .false = .ok none ∧
    accepts (fun _ _ _ => true) (.byLevel [(some "a".toList, some 1)]) 0 (some "a".toList) = false ∧
    mkDictValC [] .true = .ok (some 0) ∧
    accepts (fun _ _ _ => true) (.byLevel [(some "a".toList, some 0)]) 0 (some "a".toList) = true := by
  intro swapped rd
  exact ⟨rfl, rfl, by decide, rfl, by decide⟩

/-- **`configure` is its call sequence.**  The order of `configure`'s statements is regenerated from the source
(`Gen.configureOrder`) and is the documented one: `remove()` first when handlers are given, then the levels,
then the enable/disable calls in list order, the handlers LAST; and a `configure` call – from ANY state –
leaves exactly the state of a prefix of that sequence of plain calls: the whole sequence when it returns, the
calls up to and including the first failing one when it raises (it is not atomic). -/
theorem configure_is_its_call_sequence (orc : Oracle) (c : Core) (h : Option (List AddArgs))
    (l : List (Str × NoArg × Bool)) (a : List (Option Str × Bool)) :
    expand h l a = expandS h l a ∧
    ∃ k, k ≤ (expandS h l a).length ∧
      (step orc c (.configure h l a)).1 = final orc c ((expandS h l a).take k) ∧
      ((∀ e, (step orc c (.configure h l a)).2 ≠ .err e) → k = (expandS h l a).length) := by
  refine ⟨expand_eq h l a, ?_⟩
  show ∃ k, k ≤ (expandS h l a).length ∧
      (runBatch (prim orc) c (expand h l a) []).1 = final orc c ((expandS h l a).take k) ∧
      ((∀ e, (runBatch (prim orc) c (expand h l a) []).2 ≠ .err e) → k = (expandS h l a).length)
  rw [expand_eq]
  exact runBatch_final orc (expandS h l a) c [] (expandS_isCall h l a)

/-- `filter="p"` (`p ≠ ""`): the handler accepts the record iff its module is `p` or inside package `p`
(`a.b` does not admit `a.bc`; `None` is never accepted) -/
theorem filter_by_name_iff_package (levels : List (Str × Int)) (orc : Oracle) (p : Str) (hp : p ≠ []) (no : Int) :
    ∃ f, mkFilter levels (.str p) = .ok f ∧ accepts orc f no none = false ∧
      ∀ M : Str, accepts orc f no (some M) = true ↔ M = p ∨ ∃ rest, M = p ++ '.' :: rest := by
  refine ⟨.byName (p ++ ['.']) (Int.ofNat (p ++ ['.']).length), by simp only [mkFilter, hp, if_false], rfl, ?_⟩
  intro M
  simp only [accepts, filterByName_eq, List.isPrefixOf_iff_prefix]
  have h1 := pkgParent_iff_dotted p M
  have h2 := pkgParent_iff p M
  simp only [dotted, hp, if_false] at h1
  rw [← h1, h2]
  simp [hp]

/-- `filter={...}` follows the closest-parent rule: the entry of the LONGEST key that names the module or
one of its parent packages decides (`False` rejects, a level is a minimum severity); no such key: the
record is accepted; a module without name consults the `None` key only.  (The `rfind` loop of
`filter_by_level`, fuel included, against the one-line rule.) -/
theorem filter_by_level_closest_parent (tbl : List (Option Str × Option Int)) (orc : Oracle) (no : Int) (M : Str) :
    (∀ k v, ClosestEntry tbl M k v → accepts orc (.byLevel tbl) no (some M) = entryDecides v no) ∧
    ((∀ k, pkgParent k M = true → tbl.lookup (some k) = none) → accepts orc (.byLevel tbl) no (some M) = true) ∧
    accepts orc (.byLevel tbl) no none = (match tbl.lookup none with | some v => entryDecides v no | none => true) := by
  have h := byLevelLoop_closest tbl no M (M.length + 1) M (Nat.lt_succ_self _) (pkgParent_refl M)
    (fun k' hk' hlen => absurd (pkgParent_prefix hk').length_le (by omega))
  refine ⟨h.1, h.2, ?_⟩
  simp only [accepts, filterByLevel, byLevelLoop]
  cases tbl.lookup none with
  | none => rfl
  | some v => cases v with
    | none => rfl
    | some lv => simp only [entryDecides, levelAdmits_eq]

/-- **The filters, declaratively.**  For every filter `add` registers (`WFFilter`: what `mkFilter` builds), the
code's evaluation – the slice kernel of `filter_by_name`, the `rfind` loop of `filter_by_level` with its fuel –
IS the declarative reading `acceptsD`: `p` accepts the module `p` and the modules inside package `p`; a dict
follows the entry of the LONGEST key naming the module or a parent (`closest`, a plain recursion over the
table); and `closest` is characterised: it returns a `ClosestEntry`, and `none` only if no key names the module. -/
theorem filter_meaning_is_declarative (orc : Oracle) (f : Filter) (hf : WFFilter f) (no : Int) (M : Option Str)
    (tbl : List (Option Str × Option Int)) (N : Str) :
    accepts orc f no M = acceptsD orc f no M ∧
    (∀ k v, closest tbl N = some (k, v) → ClosestEntry tbl N k v) ∧
    (closest tbl N = none → ∀ k, pkgParent k N = true → tbl.lookup (some k) = none) ∧
    (∀ levels a g, mkFilter levels a = .ok g → WFFilter g) :=
  ⟨accepts_eq_acceptsD orc f hf no M, (closest_spec tbl N).1, (closest_spec tbl N).2, fun _ _ _ h => mkFilter_wf h⟩

/-- **The property end to end against the declarative reading.**  After EVERY history every registered handler
holds a filter of the shape `add` builds, and a log call on the MODEL (caches, short-circuits, kernels, loops
and all) yields: nothing when nothing is registered; the error of an unknown level; otherwise – iff the module is
enabled by the most recent relevant `enable()/disable()` and some threshold admits the severity – one message to
each registered handler, in registration order, whose threshold is at or below the severity and whose filter
accepts in the DECLARATIVE sense (`deliverD`: no slice kernel, no loop, no fuel, no cache). -/
theorem dispatch_is_declarative (orc : Oracle) (ops : List Op) (lv : LevelArg) (M : Option Str) (lazy : Bool) :
    let c := final orc Core.init ops
    let s := finalS orc SState.init ops
    FInv s ∧
    (log orc c lv M lazy).2 =
      (if s.regs.isEmpty then .delivered [] 0 else
       match levelNoS s.levels lv with
       | .error e => .err e
       | .ok no => if enabledS s.acts M && admitted s no then .delivered (deliverD orc s no M) (lazyCount lazy)
                   else .delivered [] 0) := by
  intro c s
  have hs : Sim c s := final_sim orc ops sim_init idInv_init
  have hf : FInv s := fInv_final orc ops fInv_init
  refine ⟨hf, ?_⟩
  rw [(log_sim orc hs lv M lazy).1]
  unfold sLog
  split
  · rfl
  · cases levelNoS s.levels lv with
    | error e => rfl
    | ok no => simp only [sLogTail, deliverS_eq_deliverD orc hf]

/-- the closest entry is unique: two keys that both name `M` or a parent and have equal length coincide,
so "the longest" is well defined -/
theorem closest_entry_unique (tbl : List (Option Str × Option Int)) (M k₁ k₂ : Str) (v₁ v₂ : Option Int)
    (h₁ : ClosestEntry tbl M k₁ v₁) (h₂ : ClosestEntry tbl M k₂ v₂) : k₁ = k₂ ∧ v₁ = v₂ := by
  have l1 := h₁.2.2 k₂ h₂.2.1 (by rw [h₂.1]; rfl)
  have l2 := h₂.2.2 k₁ h₁.2.1 (by rw [h₁.1]; rfl)
  have e : k₁ = k₂ :=
    (List.prefix_of_prefix_length_le (pkgParent_prefix h₁.2.1) (pkgParent_prefix h₂.2.1) l2).eq_of_length (by omega)
  subst e
  have := h₁.1.symm.trans h₂.1
  exact ⟨rfl, by simpa using this⟩

/-- `filter=""` accepts exactly the records whose module name is not `None`; `filter=None` accepts all -/
theorem filter_empty_and_none (levels : List (Str × Int)) (orc : Oracle) (no : Int) (M : Option Str) :
    mkFilter levels (.str []) = .ok .notNone ∧ accepts orc .notNone no M = M.isSome ∧
    mkFilter levels .none = .ok .none ∧ accepts orc .none no M = true :=
  ⟨rfl, rfl, rfl, rfl⟩

/-! ### non-vacuity -/

/-- log from `a.b`, disable `a`, log, enable `a.b`, log, remove, log: both sides produce non-empty,
different deliveries -/
example :
    let a := "a".toList; let ab := "a.b".toList; let info := LevelArg.name "INFO".toList
    run (fun _ _ _ => true) Core.init
      [.add ⟨.int 20, .str a, false, false⟩, .add ⟨info, .none, false, false⟩, .log info (some ab) true, .activate (some a) false,
       .log info (some ab) true, .activate (some ab) true, .log (.int 30) (some ab) false, .remove 0,
       .log info (some ab) true, .log (.int 19) (some ab) true]
    = [.id 0, .id 1, .delivered [0, 1] 1, .ok, .delivered [] 0, .ok, .delivered [0, 1] 0, .ok,
       .delivered [1] 1, .delivered [] 0] := by decide

/-- closest parent, concretely: {"": False, "a": 30, "a.b": False} – `a.bc` is governed by `a`, not `a.b` -/
example :
    let tbl := [(some "".toList, none), (some "a".toList, some 30), (some "a.b".toList, none)]
    ClosestEntry tbl "a.bc".toList "a".toList (some 30) ∧
    accepts (fun _ _ _ => true) (.byLevel tbl) 30 (some "a.bc".toList) = true ∧
    accepts (fun _ _ _ => true) (.byLevel tbl) 30 (some "a.b.c".toList) = false ∧
    accepts (fun _ _ _ => true) (.byLevel tbl) 30 (some "b".toList) = false := by
  refine ⟨⟨by decide, by decide, ?_⟩, by decide, by decide, by decide⟩
  intro k' hk' hs
  rcases (pkgParent_iff k' _).mp hk' with rfl | rfl | ⟨t, ht⟩
  · simp
  · revert hs; decide
  · have hp : (k' ++ ['.']) <+: "a.bc".toList := ⟨t, by simp [ht]⟩
    have := dot_prefix_le_trunc hp
    exact this

/-- failing `stop()` through the whole machine: remove(0) raises yet unregisters; remove() stops at the
first failing sink and leaves the later handler registered -/
example :
    run (fun _ _ _ => true) Core.init
      [.add ⟨.int 10, .none, true, false⟩, .add ⟨.int 40, .none, false, false⟩, .remove 0,
       .log (.int 20) (some "a".toList) true, .log (.int 40) (some "a".toList) true,
       .add ⟨.int 0, .none, true, false⟩, .add ⟨.int 5, .none, false, false⟩, .removeAll,
       .log (.int 5) (some "a".toList) true, .removeAll, .log (.int 50) none true]
    = [.id 0, .id 1, .err .osError, .delivered [] 0, .delivered [1] 1, .id 2, .id 3, .err .osError,
       .delivered [3] 1, .ok, .delivered [] 0] := by decide

/-- overlapped calls through the whole machine: first log from `a.b` overlapped by `disable("a")` at the
rules-read point (delivered by the old rules, nothing cached), the next call is not delivered; then a log
overlapped early by `enable("a.b")` is delivered, as is the next -/
example :
    let a := "a".toList; let ab := "a.b".toList; let info := LevelArg.name "INFO".toList
    run (fun _ _ _ => true) Core.init
      [.add ⟨.int 0, .none, false, false⟩, .logDuring info (some ab) true false (some a) false,
       .log info (some ab) true, .logDuring info (some ab) true true (some ab) true, .log info (some ab) false]
    = [.id 0, .delivered [0] 1, .delivered [] 0, .delivered [0] 1, .delivered [0] 0] := by decide +kernel

/-- `configure`: a handler may name a level declared by the same call (levels precede handlers); a call that
fails half-way keeps what it had done – the old handlers are gone, the level exists -/
example :
    let new := "NEW".toList
    run (fun _ _ _ => true) Core.init
      [.add ⟨.int 0, .none, false, false⟩,
       .configure (some [⟨.name new, .none, false, false⟩]) [(new, .int 33, false)] [(some "a".toList, false)],
       .log (.int 33) (some "b".toList) false, .log (.int 33) (some "a".toList) false,
       .configure (some [⟨.int 0, .none, false, false⟩]) [("N2".toList, .int 7, false), (new, .int 34, false)] [],
       .log (.int 50) (some "b".toList) true, .level "N2".toList .none false]
    = [.id 0, .ids [1], .delivered [1] 0, .delivered [] 0, .err .valueError, .delivered [] 0, .ok] := by decide +kernel

/-- the declarative reading, concretely: {"": False, "a": 30, "a.b": False} – `closest` picks `a` for `a.bc`,
`a.b` for `a.b.c`, `""` for `b`; a name filter `a.b` does not admit `a.bc` -/
example :
    let tbl := [(some "".toList, none), (some "a".toList, some 30), (some "a.b".toList, none)]
    closest tbl "a.bc".toList = some ("a".toList, some 30) ∧ closest tbl "a.b.c".toList = some ("a.b".toList, none) ∧
    closest tbl "b".toList = some ("".toList, none) ∧ closest [(some "a".toList, some 30)] "ab".toList = none ∧
    acceptsD (fun _ _ _ => true) (.byName "a.b.".toList 4) 0 (some "a.bc".toList) = false ∧
    acceptsD (fun _ _ _ => true) (.byName "a.b.".toList 4) 0 (some "a.b.c".toList) = true ∧
    WFFilter (.byName "a.b.".toList 4) := by
  refine ⟨by decide, by decide, by decide, by decide, by decide, by decide, ⟨"a.b".toList, by decide, by decide, by decide⟩⟩

example : Sim Core.init SState.init := sim_init

end C01
