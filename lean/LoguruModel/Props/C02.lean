import LoguruModel.Conc.Data
import LoguruModel.Conc.Fifo
import LoguruModel.Conc.Exact
import LoguruModel.Conc.Liveness
import LoguruModel.Conc.ActivationLemmas
import LoguruModel.Conc.LevelsLemmas
import LoguruModel.Generated.ConcShape
import LoguruModel.Generated.ConcScope
/-
C02 – property theorems about the interleaving model `Conc.step` (for EVERY schedule: any number of
threads, any operations, any length).  Real traces are replayed on `Conc.step` by drivers/C02.lean.
-/
namespace C02
open Conc

/-- the two invariants hold in every reachable state -/
theorem inv_run (sched : List (Tid × Lab)) : LockInv (run {} sched) ∧ DataInv (run {} sched) := by
  suffices h : ∀ s, LockInv s → DataInv s → LockInv (run s sched) ∧ DataInv (run s sched) from
    h {} lockInv_init dataInv_init
  induction sched with
  | nil => intro s a b; exact ⟨a, b⟩
  | cons x xs ih =>
    intro s a b
    obtain ⟨t, lab⟩ := x
    simp only [run]
    cases hs : step s t lab with
    | some s' => exact ih s' (lockInv_step a hs) (dataInv_step a b hs)
    | none => exact ih s a b

/-- a sink never executes two writes at the same time -/
theorem sink_mutex (sched : List (Tid × Lab)) (t u : Tid) (h : Hid) (m m' : Nat) (td td' wr wr' : List Hid)
    (ht : (run {} sched).pc t = .e3 m h td wr) (hu : (run {} sched).pc u = .e3 m' h td' wr') : t = u := by
  have hl := (inv_run sched).1
  exact (h_excl hl (x := h) (by rw [ht]; simp [heldH]) (by rw [hu]; simp [heldH])).symm

/-- the handler lock is held by the writer for the whole duration of the write -/
theorem writer_holds_lock (sched : List (Tid × Lab)) (t : Tid) (h : Hid) (m : Nat) (td wr : List Hid)
    (ht : (run {} sched).pc t = .e3 m h td wr) : ((run {} sched).hs h).lock = some t :=
  (inv_run sched).1.h1 t h (by rw [ht]; simp [heldH])

/-- handler identifiers are never reused -/
theorem ids_unique (sched : List (Tid × Lab)) : (run {} sched).allocated.Nodup :=
  (inv_run sched).2.g1

/-- a sink's stop() runs at most once, whatever removes race -/
theorem stop_at_most_once (sched : List (Tid × Lab)) (h : Hid) : ((run {} sched).hs h).stops ≤ 1 :=
  ((inv_run sched).2.g8 h).1

/-- once stop() of a handler has returned (hence once remove() has returned): it ran exactly once,
the handler is unpublished for ever, and no thread is inside – or about to enter – a write to it -/
theorem silent_after_stop (sched : List (Tid × Lab)) (h : Hid) (hd : h ∈ (run {} sched).stopDone) :
    ((run {} sched).hs h).stops = 1 ∧ h ∉ (run {} sched).reg ∧
    (∀ t m td wr, (run {} sched).pc t ≠ .e3 m h td wr) ∧
    (∀ t m td wr, (run {} sched).pc t ≠ .e2 m h td wr false) := by
  have hi := (inv_run sched).2
  obtain ⟨a, _, c, d⟩ := hi.g9 h hd
  refine ⟨d, a, ?_, ?_⟩
  · intro t m td wr ht
    have := hi.pcs t; rw [ht] at this; simp [pcInv] at this
    rw [c] at this; exact absurd this.2.2.2 (by simp)
  · intro t m td wr ht
    have := hi.pcs t; rw [ht] at this; simp [pcInv] at this
    rw [c] at this; exact absurd this.2.2.2 (by simp)

/-- a write happens only after `_stopped` was read as False under the handler's lock -/
theorem write_only_if_not_stopped (sched : List (Tid × Lab)) (t : Tid) (h : Hid) (m : Nat) (td wr : List Hid)
    (ht : (run {} sched).pc t = .e3 m h td wr) : ((run {} sched).hs h).stopped = false := by
  have := (inv_run sched).2.pcs t; rw [ht] at this; simp [pcInv] at this; exact this.2.2.2

/-- within one logging call no handler is written twice, and the handlers still to visit are distinct -/
theorem at_most_once_per_call (sched : List (Tid × Lab)) (t : Tid) (h : Hid) (m : Nat) (td wr : List Hid)
    (ht : (run {} sched).pc t = .e3 m h td wr) : h ∉ wr ∧ h ∉ td ∧ (wr ++ td).Nodup := by
  have := (inv_run sched).2.pcs t; rw [ht] at this; simp [pcInv] at this
  exact ⟨this.1.1.1, this.1.1.2, this.1.2⟩

/-- everything in the published registry is live: not stopped, never stop()ped -/
theorem registered_handlers_live (sched : List (Tid × Lab)) (h : Hid) (hr : h ∈ (run {} sched).reg) :
    ((run {} sched).hs h).stopped = false ∧ ((run {} sched).hs h).stops = 0 :=
  (inv_run sched).2.g7 h hr

/-- PER-THREAD FIFO AND AT MOST ONCE: what a thread has written to the sink of a handler is a SUBSEQUENCE of
the messages of the logging calls that thread has begun, in the order it began them (both lists newest
first) – so each call delivers to each handler at most once and a thread's messages reach a sink in the
order the thread logged them, for every schedule -/
theorem per_thread_fifo_at_most_once (sched : List (Tid × Lab)) (t : Tid) (h : Hid) :
    (seqOf (run {} sched) t h).Sublist ((run {} sched).started t) := by
  have hf := fifoInv_run sched
  cases hm : logMsg ((run {} sched).pc t) with
  | none => exact hf.o3 t h hm
  | some m =>
    obtain ⟨rest, hrest⟩ := hf.hd t m hm
    by_cases hk : h ∈ written ((run {} sched).pc t)
    · obtain ⟨L', hL, hsub⟩ := hf.o1 t h m hm hk
      rw [hL, hrest]; rw [hrest] at hsub; simpa using hsub
    · have := hf.o2 t h m hm hk
      rw [hrest] at this ⊢; simp at this; exact List.Sublist.cons _ this

/-- a handler that is still registered is never skipped for being stopped: if `emit` reads `_stopped = True`
the handler has already been unpublished by a remove() (so "registered before the call and not removed until
after it" implies the write happens, unless level/filter reject it) -/
theorem registered_never_seen_stopped (sched : List (Tid × Lab)) (t : Tid) (m : Nat) (h : Hid) (td wr : List Hid)
    (hp : (run {} sched).pc t = .e2 m h td wr true) : h ∉ (run {} sched).reg := by
  have hd := (inv_run sched).2
  have := hd.pcs t; rw [hp] at this; simp [pcInv] at this
  intro hr
  have := (hd.g7 h hr).1
  simp_all

/-! ### exactly once for stable handlers; every call returns under fairness -/

/-- EXACTLY ONCE IF STABLE (at-least-once half; `per_thread_fifo_at_most_once` and `at_most_once_per_call` are the
at-most-once half).  When a logging call of thread `t` with message `m` is about to return, every handler `h`
that had been published when the call BEGAN and is STILL registered (so: registered before the call began and
not removed until it returns) has received the message – the newest thing `t` wrote to the sink of `h` is `m` –
unless the call skipped it, which the code does exactly when the handler's threshold or filter rejects the
record (the model's free choice `skip`; that logic is C01's).  For every schedule. -/
theorem exactly_once_if_stable (sched : List (Tid × Lab)) (t : Tid) (m : Nat) (wr : List Hid) (h : Hid)
    (hp : (run {} sched).pc t = .lL m [] wr)
    (hbefore : h ∈ (run {} sched).pubAtStart t) (hstill : h ∈ (run {} sched).reg) :
    (h ∈ wr ∧ ∃ L', seqOf (run {} sched) t h = m :: L') ∨ h ∈ (run {} sched).skipped t := by
  have hx := exactInv_run sched
  have hd := (inv_run sched).2
  have hf := fifoInv_run sched
  have hsnap : hasSnap ((run {} sched).pc t) = true := by rw [hp]; rfl
  have hin := hx.x3 t hsnap h hbefore hstill
  have hpart := (hx.x1 t hsnap h).mp hin
  rw [hp] at hpart
  simp only [wrOf, pend] at hpart
  rcases hpart with a | a | a | a
  · left
    refine ⟨a, ?_⟩
    obtain ⟨L', hL, _⟩ := hf.o1 t h m (by rw [hp]; rfl) (by rw [hp]; simpa [written] using a)
    exact ⟨L', hL⟩
  · exact Or.inr a
  · exfalso
    have := hx.x2 t hsnap h a
    rw [(hd.g7 h hstill).1] at this; cases this
  · cases a

/-- the snapshot a call iterates is partitioned into written / skipped / found stopped / still to visit, and a
handler is found stopped only if it has been unpublished by a remove() -/
theorem snapshot_partition (sched : List (Tid × Lab)) (t : Tid) (hs : hasSnap ((run {} sched).pc t) = true) (k : Hid) :
    (k ∈ (run {} sched).snap t ↔ (k ∈ wrOf ((run {} sched).pc t) ∨ k ∈ (run {} sched).skipped t ∨
      k ∈ (run {} sched).gone t ∨ k ∈ pend ((run {} sched).pc t))) ∧
    (k ∈ (run {} sched).gone t → k ∉ (run {} sched).reg) := by
  have hx := exactInv_run sched
  refine ⟨hx.x1 t hs k, ?_⟩
  intro hg hr
  have := hx.x2 t hs k hg
  rw [((inv_run sched).2.g7 k hr).1] at this; cases this

/-- non-vacuity of `exactly_once_if_stable`: handler 0 is stable and written, handler 1 is skipped -/
example :
    let sched : List (Tid × Lab) := [
      (0, .start .add), (0, .acqCore), (0, .rCount 0), (0, .rCount 0), (0, .wCount 1), (0, .relCore),
      (0, .acqCore), (0, .rReg []), (0, .wReg [0]), (0, .relCore),
      (0, .start .add), (0, .acqCore), (0, .rCount 1), (0, .rCount 1), (0, .wCount 2), (0, .relCore),
      (0, .acqCore), (0, .rReg [0]), (0, .wReg [0, 1]), (0, .relCore),
      (1, .start (.log 7)), (1, .rReg [0, 1]), (1, .rReg [0, 1]), (1, .acqH 0), (1, .rStopped 0 false),
      (1, .wBegin 0), (1, .wEnd 0), (1, .relH 0), (1, .skip 1)]
    let s := run {} sched
    s.pc 1 = .lL 7 [] [0] ∧ s.pubAtStart 1 = [1, 0] ∧ s.reg = [0, 1] ∧ s.skipped 1 = [1] ∧ seqOf s 1 0 = [7] := by
  decide

/-- every transition of a thread in the middle of an operation strictly decreases the (phase, remaining) measure
of its program counter, and no other thread's transition changes it: operations are finite programs -/
theorem operation_steps_decrease (s s' : St) (t u : Tid) (lab : Lab) (hs : step s t lab = some s') :
    (s.pc t ≠ .idle → lexLt (mu (s'.pc t)) (mu (s.pc t))) ∧ (u ≠ t → s'.pc u = s.pc u) :=
  ⟨fun hmid => step_decreases hs hmid, fun hu => step_frame hs hu⟩

/-- EVERY CALL RETURNS UNDER FAIRNESS.  Hypothesis, stated explicitly: in the infinite execution `e`, whenever
thread `t` is in the middle of an operation it is eventually given another enabled transition (the scheduler is
fair to it and the lock it waits for is eventually granted – `no_deadlock` says some thread can always move).
Conclusion: from every point of the execution `t` reaches `idle` again: its log / add / remove / complete /
level / enable / disable / fork call returns.  Together with `exactly_once_if_stable` (a statement about the
return point) this gives delivery exactly once to every stable admitting handler. -/
theorem every_call_returns_under_fairness (e : Exec) (t : Tid)
    (fair : ∀ i, (e.σ i).pc t ≠ .idle → ∃ j, i ≤ j ∧ (e.τ j).1 = t) :
    ∀ i, ∃ j, i ≤ j ∧ (e.σ j).pc t = .idle :=
  fair_thread_completes e t fair

/-- non-vacuity: an infinite fair execution exists (thread 0 calling level() for ever) and satisfies the hypothesis -/
example : ∃ j, 1 ≤ j ∧ (demoExec.σ j).pc 0 = .idle :=
  every_call_returns_under_fairness demoExec 0 demo_fair 1

/-! ### deadlock freedom -/

/-- thread `t` is waiting for a lock that somebody holds -/
def blocked (s : St) (t : Tid) : Prop :=
  (waitsCore (s.pc t) = true ∧ s.coreLock ≠ none) ∨ (∃ h, waitsH (s.pc t) = some h ∧ (s.hs h).lock ≠ none)

/-- a thread in the middle of an operation that is not waiting for a held lock can always move -/
theorem progress (s : St) (t : Tid) (hnd : s.pub.Nodup) (hmid : s.pc t ≠ .idle) (hnb : ¬ blocked s t) :
    ∃ lab, (step s t lab).isSome = true := by
  unfold blocked at hnb
  simp only [not_or, not_and, not_exists, Decidable.not_not] at hnb
  obtain ⟨hc, hh⟩ := hnb
  cases hp : s.pc t with
  | idle => exact absurd hp hmid
  | a0 => exact ⟨.acqCore, by simp [step, hp, hc (by rw [hp]; rfl)]⟩
  | a1 => exact ⟨.rCount s.count, by simp [step, hp]⟩
  | a2 n => exact ⟨.rCount s.count, by simp [step, hp]⟩
  | a3 n => exact ⟨.wCount (s.count + 1), by simp [step, hp]⟩
  | a4 n => exact ⟨.relCore, by simp [step, hp]⟩
  | a5 n => exact ⟨.acqCore, by simp [step, hp, hc (by rw [hp]; rfl)]⟩
  | a6 n => exact ⟨.rReg s.reg, by simp [step, hp]⟩
  | a7 n ids => exact ⟨.wReg (ids ++ [n]), by simp [step, hp]⟩
  | a8 n => exact ⟨.relCore, by simp [step, hp]⟩
  | r0 tgt => exact ⟨.acqCore, by simp [step, hp, hc (by rw [hp]; rfl)]⟩
  | o0 => exact ⟨.acqCore, by simp [step, hp, hc (by rw [hp]; rfl)]⟩
  | k0 => exact ⟨.forkAcq s.pub, by simp [step, hp, hc (by rw [hp]; rfl), hnd]⟩
  | k1 todo got =>
    cases todo with
    | nil => exact ⟨.forked, by simp [step, hp]⟩
    | cons h td => exact ⟨.acqH h, by simp [step, hp, hh h (by rw [hp]; rfl)]⟩
  | k2 got =>
    cases got with
    | nil => exact ⟨.relCore, by simp [step, hp]⟩
    | cons h g => exact ⟨.relH h, by simp [step, hp]⟩
  | k3 got =>
    cases got with
    | nil => exact ⟨.relCore, by simp [step, hp]⟩
    | cons h g => exact ⟨.relH h, by simp [step, hp]⟩
  | o1 => exact ⟨.relCore, by simp [step, hp]⟩
  | o2 => exact ⟨.relCore, by simp [step, hp]⟩
  | c0 => exact ⟨.acqCore, by simp [step, hp, hc (by rw [hp]; rfl)]⟩
  | c1 => exact ⟨.rReg s.reg, by simp [step, hp]⟩
  | cL todo =>
    cases todo with
    | nil => exact ⟨.relCore, by simp [step, hp]⟩
    | cons h td => exact ⟨.acqH h, by simp [step, hp, hh h (by rw [hp]; rfl)]⟩
  | cH h todo => exact ⟨.relH h, by simp [step, hp]⟩
  | r1 tgt =>
    cases tgt with
    | none => exact ⟨.rReg s.reg, by simp [step, hp]⟩
    | some h =>
      by_cases hm : h ∈ s.reg
      · exact ⟨.rReg s.reg, by simp [step, hp, hm]⟩
      · exact ⟨.rReg s.reg, by simp [step, hp, hm]⟩
  | rErr => exact ⟨.raise, by simp [step, hp]⟩
  | rL todo =>
    cases todo with
    | nil => exact ⟨.relCore, by simp [step, hp]⟩
    | cons h td => exact ⟨.rReg s.reg, by simp [step, hp]⟩
  | rC h todo snap => exact ⟨.wReg (snap.erase h), by simp [step, hp]⟩
  | rP h todo => exact ⟨.acqH h, by simp [step, hp, hh h (by rw [hp]; rfl)]⟩
  | s1 h todo => exact ⟨.wStopped h, by simp [step, hp]⟩
  | s2 h todo => exact ⟨.sinkStop h, by simp [step, hp]⟩
  | s3 h todo => exact ⟨.relH h, by simp [step, hp]⟩
  | l0 m =>
    by_cases he : s.reg = []
    · exact ⟨.rReg s.reg, by simp [step, hp, he]⟩
    · exact ⟨.rReg s.reg, by simp [step, hp, he]⟩
  | l1 m => exact ⟨.early, by simp [step, hp]⟩
  | lL m todo wr =>
    cases todo with
    | nil => exact ⟨.early, by simp [step, hp]⟩
    | cons h td => exact ⟨.skip h, by simp [step, hp]⟩
  | e1 m h todo wr => exact ⟨.rStopped h (s.hs h).stopped, by simp [step, hp]⟩
  | e2 m h todo wr b =>
    cases b with
    | true => exact ⟨.relH h, by simp [step, hp]⟩
    | false => exact ⟨.wBegin h, by simp [step, hp]⟩
  | e3 m h todo wr => exact ⟨.wEnd h, by simp [step, hp]⟩
  | e4 m h todo wr => exact ⟨.relH h, by simp [step, hp]⟩

/-- a thread that holds a handler lock waits for nothing – unless it is a forking thread (k1), which
may wait for the next handler lock of its list -/
theorem handler_holder_not_blocked (s : St) (u : Tid) (h : Hid) (hu : h ∈ heldH (s.pc u))
    (hk : ∀ td g, s.pc u ≠ .k1 td g) : ¬ blocked s u ∧ s.pc u ≠ .idle := by
  unfold blocked
  cases hp : s.pc u <;> rw [hp] at hu <;> simp [heldH, waitsCore, waitsH] at hu ⊢
  exact absurd hp (hk _ _)

/-- NO DEADLOCK: in every reachable state in which some thread is in the middle of an operation,
some thread that is in the middle of an operation has an enabled transition.  Lock order: core lock,
then handler locks; `emit`/`stop` hold at most one handler lock and request nothing more; a forking
thread holds the core lock while it collects handler locks, so at most one thread ever waits for a
handler lock while holding another. -/
theorem no_deadlock (sched : List (Tid × Lab)) (t : Tid) (hmid : (run {} sched).pc t ≠ .idle) :
    ∃ u lab, (run {} sched).pc u ≠ .idle ∧ (step (run {} sched) u lab).isSome = true := by
  have hl := (inv_run sched).1
  have hd := (inv_run sched).2
  generalize run {} sched = s at *
  have hnd : s.pub.Nodup := hd.pubnd
  -- the holder of a handler lock can move, or is the (unique) forking thread, whose own wait is for a
  -- lock held by a non-forking thread
  have handler : ∀ h w, (s.hs h).lock = some w → ∃ u lab, s.pc u ≠ .idle ∧ (step s u lab).isSome = true := by
    intro h w hw
    have hh := hl.h2 w h hw
    cases hpw : s.pc w with
    | k1 td g =>
      -- w is forking: it holds the core lock
      have ni : s.pc w ≠ .idle := by rw [hpw]; simp
      by_cases hbw : blocked s w
      · rcases hbw with ⟨hwc, _⟩ | ⟨h2, hw2, hlk⟩
        · rw [hpw] at hwc; simp [waitsCore] at hwc
        · cases hl2 : (s.hs h2).lock with
          | none => exact absurd hl2 hlk
          | some v =>
            have hv := hl.h2 v h2 hl2
            -- v is not a forking thread: only one thread holds the core lock
            have hkv : ∀ td g, s.pc v ≠ .k1 td g := by
              intro td' g' hpv
              have cw : holdsCore (s.pc w) = true := by rw [hpw]; rfl
              have cv : holdsCore (s.pc v) = true := by rw [hpv]; rfl
              have e := core_excl hl cw cv
              subst e
              -- v = w would already hold the lock it is waiting for: impossible (todo ∩ got = ∅)
              rw [hpw] at hw2 hv
              cases td with
              | nil => simp [waitsH] at hw2
              | cons a td2 =>
                simp [waitsH] at hw2; subst hw2
                have := (hd.pcs v); rw [hpw] at this
                simp only [pcInv] at this
                simp [heldH] at hv
                exact this.2.2.2.2 a (by simp) hv
            obtain ⟨nb, ni2⟩ := handler_holder_not_blocked s v h2 hv hkv
            obtain ⟨lab, hs⟩ := progress s v hnd ni2 nb
            exact ⟨v, lab, ni2, hs⟩
      · obtain ⟨lab, hs⟩ := progress s w hnd ni hbw
        exact ⟨w, lab, ni, hs⟩
    | _ =>
      have hk : ∀ td g, s.pc w ≠ .k1 td g := by intro td g e; rw [hpw] at e; cases e
      obtain ⟨nb, ni⟩ := handler_holder_not_blocked s w h hh hk
      obtain ⟨lab, hs⟩ := progress s w hnd ni nb
      exact ⟨w, lab, ni, hs⟩
  by_cases hb : blocked s t
  · rcases hb with ⟨_, hc⟩ | ⟨h, _, hlk⟩
    · cases hcl : s.coreLock with
      | none => exact absurd hcl hc
      | some w =>
        have hw := hl.c2 w hcl
        have ni : s.pc w ≠ .idle := by intro e; rw [e] at hw; simp [holdsCore] at hw
        by_cases hbw : blocked s w
        · rcases hbw with ⟨hwc, _⟩ | ⟨h, _, hlk⟩
          · exfalso; cases hp : s.pc w <;> rw [hp] at hw hwc <;> simp [holdsCore, waitsCore] at hw hwc
          · cases hl2 : (s.hs h).lock with
            | none => exact absurd hl2 hlk
            | some v => exact handler h v hl2
        · obtain ⟨lab, hs⟩ := progress s w hnd ni hbw
          exact ⟨w, lab, ni, hs⟩
    · cases hl2 : (s.hs h).lock with
      | none => exact absurd hl2 hlk
      | some v => exact handler h v hl2
  · obtain ⟨lab, hs⟩ := progress s t hnd hmid hb
    exact ⟨t, lab, hmid, hs⟩

/-- non-vacuity: a concrete schedule in which a log call of thread 1 is overtaken by remove(0) of
thread 2 between the registry read and the lock acquisition: the write is skipped (stopped = true). -/
example :
    let sched : List (Tid × Lab) := [
      (0, .start .add), (0, .acqCore), (0, .rCount 0), (0, .rCount 0), (0, .wCount 1), (0, .relCore),
      (0, .acqCore), (0, .rReg []), (0, .wReg [0]), (0, .relCore),
      (1, .start (.log 7)), (1, .rReg [0]), (1, .rReg [0]),
      (2, .start (.remove 0)), (2, .acqCore), (2, .rReg [0]), (2, .rReg [0]), (2, .wReg []),
      (2, .acqH 0), (2, .wStopped 0), (2, .sinkStop 0), (2, .relH 0), (2, .relCore),
      (1, .acqH 0), (1, .rStopped 0 true), (1, .relH 0), (1, .early)]
    let s := run {} sched
    s.stopDone = [0] ∧ s.reg = [] ∧ (s.hs 0).stops = 1 ∧ s.sink 0 = [] ∧ s.pc 1 = .idle ∧ s.allocated = [0] := by
  decide

/-! ### complete() inside the same system, and where shared state is written -/

/-- complete() only ever takes the lock of a handler that is registered and live at that very moment (it
holds the core lock, so no remove() can intervene): it never asks a stopped sink for its tasks -/
theorem complete_visits_only_live_registered (sched : List (Tid × Lab)) (t : Tid) (h : Hid) (todo : List Hid)
    (hp : (run {} sched).pc t = .cH h todo) :
    h ∈ (run {} sched).reg ∧ ((run {} sched).hs h).stopped = false ∧ ((run {} sched).hs h).lock = some t ∧
    (run {} sched).coreLock = some t ∧ ∀ k ∈ todo, k ∈ (run {} sched).reg := by
  have hl := (inv_run sched).1
  have hd := (inv_run sched).2
  have := hd.pcs t; rw [hp] at this; simp only [pcInv] at this
  exact ⟨this.1, (hd.g7 h this.1).1, hl.h1 t h (by rw [hp]; simp [heldH]), hl.c1 t (by rw [hp]; rfl), this.2.2.1⟩

/-- while a thread is inside complete()'s critical section no sink write to the handler it is visiting is in
progress (the sink is asked for its tasks under the handler's own lock) -/
theorem complete_excludes_writers (sched : List (Tid × Lab)) (t u : Tid) (h : Hid) (todo td wr : List Hid) (m : Nat)
    (hp : (run {} sched).pc t = .cH h todo) : (run {} sched).pc u ≠ .e3 m h td wr := by
  intro hu
  have hl := (inv_run sched).1
  have e := h_excl hl (x := h) (t := t) (u := u) (by rw [hp]; simp [heldH]) (by rw [hu]; simp [heldH])
  subst e; rw [hp] at hu; cases hu

/-- SHARED WRITES ONLY UNDER THE CORE LOCK: whatever thread changes `handlers_count` or the published registry
holds the core lock while it does so (model side of `core_writes_under_lock_of_source`) -/
theorem shared_writes_hold_core_lock (s s' : St) (t : Tid) (lab : Lab) (hs : step s t lab = some s')
    (hw : s'.count ≠ s.count ∨ s'.reg ≠ s.reg) : holdsCore (s.pc t) = true ∧ s.coreLock = s'.coreLock := by
  unfold step at hs
  split at hs <;> (try (simp only [reduceCtorEq] at hs; done)) <;> (repeat' split at hs) <;>
    (try (simp only [reduceCtorEq] at hs; done)) <;>
    (simp only [Option.some.injEq] at hs; subst hs) <;>
    (first
      | (exfalso; simp [setPc] at hw; done)
      | (simp_all [holdsCore, setPc]; done))

/-- …hence, in every reachable state, the thread that is about to write them is THE owner of the core lock -/
theorem shared_writer_owns_core_lock (sched : List (Tid × Lab)) (t : Tid) (lab : Lab) (s' : St)
    (hs : step (run {} sched) t lab = some s')
    (hw : s'.count ≠ (run {} sched).count ∨ s'.reg ≠ (run {} sched).reg) :
    (run {} sched).coreLock = some t :=
  (inv_run sched).1.c1 t (shared_writes_hold_core_lock _ _ t lab hs hw).1

/-- tie G (regenerated from the AST of `Logger` and `Handler`): no method of `Logger` other than the lock-free
reader `_log` stores into the Core outside `with core.lock`; `_log` stores only into its two caches; no
published registry is mutated in place; `add` writes exactly `handlers_count`, `min_level`, `handlers` and
`remove` exactly `min_level`, `handlers` – the writes the model's `add`/`remove` perform under the lock -/
theorem core_writes_under_lock_of_source :
    Conc.ScopeGen.unlockedCoreWrites = [] ∧
    Conc.ScopeGen.logUnlockedWrites = ["enabled[]", "levels_lookup[]"] ∧
    Conc.ScopeGen.registryMutatedInPlace = false ∧
    (Conc.ScopeGen.lockedCoreWrites.filter (fun w => w.1 == "add")).map (·.2) =
      ["handlers", "handlers_count", "min_level"] ∧
    (Conc.ScopeGen.lockedCoreWrites.filter (fun w => w.1 == "remove")).map (·.2) = ["handlers", "min_level"] := by
  decide

/-- tie G: `complete()` reads the registry once and visits the handlers under the core lock, awaiting nothing
there; `Handler.tasks_to_complete`, `Handler.stop` and `Handler.emit` work under `_protected_lock`, whose shape
(marker, lock around the yield, reset in `finally`) is the modelled one -/
theorem complete_and_handler_lock_shape_of_source :
    Conc.ScopeGen.completeReadsRegistryUnderLock = true ∧ Conc.ScopeGen.completeVisitsUnderLock = true ∧
    Conc.ScopeGen.completeAwaitsNothingUnderLock = true ∧ Conc.ScopeGen.tasksUnderHandlerLock = true ∧
    Conc.ScopeGen.stopUnderHandlerLock = true ∧ Conc.ScopeGen.emitWritesUnderHandlerLock = true ∧
    Conc.ScopeGen.protectedLockShape = true := by decide

/-- non-vacuity: complete() of thread 2 waits for the handler lock held by a writer (thread 1), then visits the
handler; a remove() started meanwhile (thread 3) waits for the core lock -/
example :
    let sched : List (Tid × Lab) := [
      (0, .start .add), (0, .acqCore), (0, .rCount 0), (0, .rCount 0), (0, .wCount 1), (0, .relCore),
      (0, .acqCore), (0, .rReg []), (0, .wReg [0]), (0, .relCore),
      (1, .start (.log 7)), (1, .rReg [0]), (1, .rReg [0]), (1, .acqH 0), (1, .rStopped 0 false), (1, .wBegin 0),
      (2, .start .complete), (2, .acqCore), (2, .rReg [0]), (2, .acqH 0),          -- blocked: skipped
      (3, .start (.remove 0)), (3, .acqCore),                                       -- blocked: skipped
      (1, .wEnd 0), (1, .relH 0), (2, .acqH 0)]
    let s := run {} sched
    s.pc 2 = .cH 0 [] ∧ s.coreLock = some 2 ∧ (s.hs 0).lock = some 2 ∧ s.pc 3 = .r0 (some 0) ∧ s.sink 0 = [(1, 7)] := by
  decide

/-! ### enable()/disable(): visibility after return (model `Conc/Activation.lean`) -/

/-- ACTIVATION VISIBLE AFTER RETURN: with the publication order of the code (activation_list before
enabled), for every schedule of any number of changing and logging threads, every completed log call used
a rule-set version at least as new as the newest change that had returned when the call began. -/
theorem activation_visible_after_return (sched : List (Activation.Tid × Activation.Lab)) (r v : Nat)
    (h : (r, v) ∈ (Activation.run true {} sched).results) : r ≤ v :=
  (Activation.inv_run sched).j7 r v h

/-- a stale status can never be cached in a dict that is (or will be) published: every cache entry is at
least as new as the rule set its dict was built for -/
theorem no_stale_cache_entry (sched : List (Activation.Tid × Activation.Lab)) (d v : Nat)
    (h : ((Activation.run true {} sched).dicts d).entry = some v) :
    ((Activation.run true {} sched).dicts d).birth ≤ v :=
  (Activation.inv_run sched).j1 d v h

/-- the order matters: publishing `enabled` first lets a logging thread read the new dict and the OLD
rule set and cache the stale status in the live dict; a call made after disable() has returned then still
uses the old rules -/
theorem activation_order_matters :
    let sched : List (Activation.Tid × Activation.Lab) := [
      (1, .startChange), (1, .acq), (1, .copy), (1, .pubEn),          -- enabled published first
      (2, .startLog), (2, .readEn 1), (2, .readEn2 1), (2, .readAct 0), (2, .fill), (2, .done 0),
      (1, .pubAct), (1, .rel),                                        -- the change returns (version 1)
      (3, .startLog), (3, .readEn 1), (3, .done 0)]                   -- cache hit on the stale entry
    (1, 0) ∈ (Activation.run false {} sched).results := by
  decide

/-- tie G: the current source publishes in the proved order, copies under the lock, and the miss path of
`_log` reads `core.enabled` before `core.activation_list` -/
theorem activation_shape_of_source :
    Conc.ShapeGen.actFirst = true ∧ Conc.ShapeGen.copiesEnabledUnderLock = true ∧
    Conc.ShapeGen.missReadsEnabledFirst = true ∧ Conc.ShapeGen.noneBranchPublishes = true := by decide

/-! ### the level table (`Conc/Levels.lean`): no logging call indexes a level a handler does not know -/

/-- With the repaired order of `level()` (handlers updated before the name is published) and `add()` building
the handler under the lock that registers it, NO schedule of level creations, adds, removes and log calls makes
`Handler.emit` index a level the handler has no pre-coloured format for: no internal `KeyError`. -/
theorem no_level_keyerror (sched : List (Levels.Tid × Levels.Lab)) :
    (Levels.run false true {} sched).err = false :=
  (Levels.inv_run sched).ne

/-- …from every state satisfying the invariant (e.g. with handlers and levels already present). -/
theorem no_level_keyerror_from (s : Levels.St) (h : Levels.Inv s) (sched : List (Levels.Tid × Levels.Lab)) :
    (Levels.run false true s sched).err = false :=
  (Levels.inv_run_from s h sched).ne

/-- every registered handler knows every published level, in every reachable state -/
theorem registered_handlers_know_published_levels (sched : List (Levels.Tid × Levels.Lab)) :
    ∀ h ∈ (Levels.run false true {} sched).reg,
      (Levels.run false true {} sched).lookup ≤ (Levels.run false true {} sched).known h :=
  (Levels.inv_run sched).rk

/-- a level a log call has seen stays visible (levels are only added) and is known to every handler it will visit -/
theorem accepted_level_known_to_visited_handlers (sched : List (Levels.Tid × Levels.Lab)) (t : Levels.Tid)
    (l : Nat) (todo : List Levels.Hid) (hq : (Levels.run false true {} sched).pc t = .l2 l todo) :
    ∀ h ∈ todo, l < (Levels.run false true {} sched).known h := by
  have := (Levels.inv_run sched).pcs t
  rw [hq] at this
  exact this

/-- non-vacuity: a run that creates a level, adds a handler, logs at the level and delivers it -/
example :
    let sched : List (Levels.Tid × Levels.Lab) := [
      (1, .startAdd), (1, .acq), (1, .construct), (1, .register), (1, .rel),
      (2, .startLevel), (2, .acq), (2, .setAnsi), (2, .readReg), (2, .upd 0), (2, .pubLookup), (2, .rel),
      (3, .startLog 0), (3, .readLookup 1), (3, .readReg), (3, .emit 0), (3, .done)]
    let s := Levels.run false true {} sched
    s.lookup = 1 ∧ s.known 0 = 1 ∧ s.reg = [0] ∧ s.err = false ∧ s.pc 3 = .idle := by
  decide

/-- the order of the code before fix 545c12a (name published first) is refuted: a log call in the window fails -/
theorem level_published_first_keyerror_witness :
    let sched : List (Levels.Tid × Levels.Lab) := [
      (1, .startAdd), (1, .acq), (1, .construct), (1, .register), (1, .rel),
      (2, .startLevel), (2, .acq), (2, .setAnsi), (2, .pubLookup),     -- name visible, handler 0 not yet updated
      (3, .startLog 0), (3, .readLookup 1), (3, .readReg), (3, .emit 0)]
    (Levels.run true true {} sched).err = true := by
  decide

/-- building the handler outside the lock is refuted too: a level created between construction and registration
is unknown to the new handler for ever -/
theorem unlocked_construct_keyerror_witness :
    let sched : List (Levels.Tid × Levels.Lab) := [
      (1, .startAdd), (1, .construct),                                  -- snapshot of the levels, no lock
      (2, .startLevel), (2, .acq), (2, .setAnsi), (2, .readReg), (2, .pubLookup), (2, .rel),
      (1, .acq), (1, .register), (1, .rel),
      (3, .startLog 0), (3, .readLookup 1), (3, .readReg), (3, .emit 0)]
    (Levels.run false false {} sched).err = true := by
  decide

/-- tie G: the current source updates the handlers before it publishes a level, and builds handlers under the lock -/
theorem levels_shape_of_source :
    Conc.ShapeGen.lookupFirst = false ∧ Conc.ShapeGen.lockedConstruct = true := by decide

end C02
