import LoguruModel.Format.SpecOk
/-! Round 5 – the coloured path against `str.format` WITHOUT the syntactic guard `shallow`.

The only place where `_parse_with_formatting` and `str.format` part ways (finding F21) is the third
nesting level, and there `str.format` always answers `ValueError("Max string recursion exceeded")`.
So the simulation of `Format/Colored.lean` can be carried through for EVERY template if nothing is
claimed about the runs in which the reference raises `ValueError`: `RelV`. -/
set_option linter.unusedSimpArgs false
namespace Format
open Py Py.Fmt

/-- `Rel`, except that nothing is claimed when the reference (`str.format`) raises `ValueError` -/
def RelV {α : Type} (a : Except Err (α × AN)) (b : Except Err (α × Option Nat)) : Prop :=
  a = .error .valueError ∨ Rel a b

theorem Rel.toV {α : Type} {a : Except Err (α × AN)} {b : Except Err (α × Option Nat)} (h : Rel a b) :
    RelV a b := Or.inr h

/-- the two piece loops agree – or the reference raises `ValueError` – as long as the spec expansions
they call do -/
theorem pieces_relV {V} (env : Env V) (hA : env.hasArgs = true)
    (selfP : Str → AN → Except Err (Str × AN))
    (selfL : Str → Option Nat → Except Err (Str × Option Nat))
    (feedL feedV : Str → Except Err Str) (st : Str → Str)
    (ps : List Piece)
    (hL : ∀ p ∈ ps, feedL p.lit = .ok (st p.lit))
    (hV : ∀ s, feedV s = .ok s)
    (hs : ∀ p ∈ ps, ∀ f, p.field = some f → ∀ an au, R an au →
        RelV (if needsExpanding f.spec then selfP f.spec an else .ok (f.spec, an)) (selfL f.spec au)) :
    ∀ an au, R an au →
      RelV (renderPieces selfP env (ps.map (mapLit st)) an) (pwfPieces selfL feedL feedV env ps au) := by
  induction ps with
  | nil => intro an au r; right; simp [renderPieces, pwfPieces, Rel, r]
  | cons p ps ih =>
    intro an au r
    have ih' := ih (fun q hq => hL q (List.mem_cons_of_mem _ hq)) (fun q hq => hs q (List.mem_cons_of_mem _ hq))
    simp only [List.map_cons]
    unfold RelV renderPieces pwfPieces
    rw [hL p (List.mem_cons_self ..)]
    simp only [mapLit]
    cases hf : p.field with
    | none =>
      simp only
      rcases ih' an au r with h3 | h3
      · left; rw [h3]
      · right
        cases hr : renderPieces selfP env (ps.map (mapLit st)) an with
        | error e => rw [hr] at h3; rw [h3.error_left]; simp [Rel]
        | ok w =>
          obtain ⟨x, an'⟩ := w
          rw [hr] at h3
          obtain ⟨au', e, r'⟩ := h3.ok_left
          rw [e]; simp [Rel, r']
    | some f =>
      simp only
      rw [evalField_eq]
      have h1 := head_rel env hA f.name an au r
      cases hg : getFieldObject env an f.name with
      | error e => right; rw [hg] at h1; rw [h1.error_left]; simp [Rel]
      | ok w =>
        obtain ⟨v, an1⟩ := w
        rw [hg] at h1
        obtain ⟨au1, e1, r1⟩ := h1.ok_left
        rw [e1]; simp only
        cases hc : doConv env f.conv v with
        | error e => right; simp [Rel]
        | ok v2 =>
          simp only
          rcases hs p (List.mem_cons_self ..) f hf an1 au1 r1 with h2 | h2
          · left; rw [h2]
          · cases hx : (if needsExpanding f.spec then selfP f.spec an1 else .ok (f.spec, an1)) with
            | error e => right; rw [hx] at h2; rw [h2.error_left]; simp [Rel]
            | ok w2 =>
              obtain ⟨spec, an2⟩ := w2
              rw [hx] at h2
              obtain ⟨au2, e2, r2⟩ := h2.ok_left
              rw [e2]; simp only
              cases hfm : env.format v2 spec with
              | error e => right; simp [Rel]
              | ok sfm =>
                simp only [hV sfm]
                rcases ih' an2 au2 r2 with h3 | h3
                · left; rw [h3]
                · right
                  cases hr : renderPieces selfP env (ps.map (mapLit st)) an2 with
                  | error e => rw [hr] at h3; rw [h3.error_left]; simp [Rel]
                  | ok w3 =>
                    obtain ⟨x, an3⟩ := w3
                    rw [hr] at h3
                    obtain ⟨au3, e3, r3⟩ := h3.ok_left
                    rw [e3]; simp [Rel, r3]

/-- one level (cf. `level_rel`) -/
theorem level_relV {V} (mk : Str → Except Err Str) (env : Env V) (hA : env.hasArgs = true) (d k : Nat)
    (rec : Bool) (st : Str → Str) (t : Str)
    (hL : ∀ p ∈ (parse t).1, feedLit mk (Gen.literalRawWith rec) p.lit = .ok (st p.lit))
    (hs : ∀ f ∈ fieldsOf t, ∀ an au, R an au →
        RelV (if needsExpanding f.spec then buildString env d f.spec an else .ok (f.spec, an))
          (pwf mk env k (Gen.nestedRecursiveWith rec) f.spec au)) :
    ∀ an au, R an au →
      RelV (formatPieces env d ((parse t).1.map (mapLit st), (parse t).2) an) (pwf mk env (k + 1) rec t au) := by
  intro an au r
  have h := pieces_relV env hA (buildString env d) (pwf mk env k (Gen.nestedRecursiveWith rec))
    (feedLit mk (Gen.literalRawWith rec)) (feedLit mk (Gen.formattedRawWith rec)) st (parse t).1 hL
    (fun s => (feed_nested mk rec s).2)
    (fun p hp f hf => hs f (mem_fieldsOf hp hf)) an au r
  unfold RelV formatPieces pwf
  simp only
  rcases h with h | h
  · left; rw [h]
  · cases hr : renderPieces (buildString env d) env ((parse t).1.map (mapLit st)) an with
    | error e => right; rw [hr] at h; rw [h.error_left]; simp [Rel]
    | ok w =>
      obtain ⟨x, an'⟩ := w
      rw [hr] at h
      obtain ⟨au', e, r'⟩ := h.ok_left
      rw [e]
      by_cases hp : (parse t).2.isSome = true
      · left; simp [hp]
      · right; simp [hp, Rel, r']

/-- EVERY template: the coloured path computes what `str.format` computes on the template with its
literal texts replaced by what the markup parser leaves of them – unless `str.format` raises
`ValueError`.  No guard on the shape of the template: the third nesting level (F21) is exactly a case
in which the reference answers "Max string recursion exceeded". -/
theorem colored_relV {V} (mk : Str → Except Err Str) (env : Env V) (hA : env.hasArgs = true)
    (st : Str → Str) (t : Str)
    (hm : ∀ p ∈ (parse t).1, mk p.lit = .ok (st p.lit)) :
    RelV (formatPieces env 1 ((parse t).1.map (mapLit st), (parse t).2) .init) (pwf mk env 3 false t (some 0)) := by
  have h1 := specsOk_all t
  simp only [specsOk, List.all_eq_true, Bool.and_eq_true] at h1
  refine level_relV mk env hA 1 2 false st t (fun p hp => by rw [feed_top]; exact hm p hp) ?_ .init (some 0) R.init
  intro f hf an au r
  by_cases hn : needsExpanding f.spec = true
  · simp only [hn, if_true]
    have hl := level_relV mk env hA 0 1 (Gen.nestedRecursiveWith false) id f.spec
      (fun p _ => (feed_nested mk false p.lit).1) ?_ an au r
    · rw [map_mapLit_id, ← buildString_succ] at hl; exact hl
    · intro g hg an' au' r'
      by_cases hne : needsExpanding g.spec = true
      · left; simp [hne, buildString]
      · have hne' : needsExpanding g.spec = false := by simpa using hne
        have nb := noBrace_of_specOk ((h1 f hf).2 g hg) hne'
        rw [pwf_noBrace mk env 0 _ nb, hne']
        right; simp [Rel, r']
  · have hn' : needsExpanding f.spec = false := by simpa using hn
    have nb := noBrace_of_specOk (h1 f hf).1 hn'
    rw [pwf_noBrace mk env 1 false nb, hn']
    right; simp [Rel, r]

end Format
