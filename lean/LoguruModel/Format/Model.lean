import LoguruModel.Generated.Format
/-!
Model of loguru's formatting paths on MARKUP-FREE text (`AnsiParser.feed`/`strip` are the identity
there; markup belongs to area Markup / C06):

* `prepareFormat`  = `Colorizer.prepare_format(t).strip()`      (`_parse_without_formatting`)
* `coloredFormat`  = `Colorizer.prepare_message(t, args, kwargs).stripped` (`_parse_with_formatting`;
  the markup parser is an oracle `mk`, and which texts reach it is regenerated)
* `logMessage`     = the message branch of `Logger._log`
* `addFormat`, `emitText` = `Logger.add`'s format composition and `Handler.emit`'s formatting chain

Constants, guards, the field re-assembly order and the two branch chains come from
`Generated/Format.lean` (regenerated from /repo on every run).
-/
namespace Format
open Py Py.Fmt

/-- how many nesting levels a `recursion_depth` guard admits (level 1 = the template itself) -/
def levelsFrom (exceeded : Int → Bool) (next : Int → Int) : Nat → Int → Nat
  | 0, _ => 0
  | f + 1, d => if exceeded d then 0 else 1 + levelsFrom exceeded next f (next d)

def levelsWith : Nat := levelsFrom Gen.depthExceededWith Gen.nextDepthWith 16 Gen.recursionDepthWith
def levelsWithout : Nat := levelsFrom Gen.depthExceededWithout Gen.nextDepthWithout 16 Gen.recursionDepthWithout

/-! ### `_parse_without_formatting` (handler formats) -/

/-- `if literal_text and literal_text[-1] in "{}": literal_text += literal_text[-1]` -/
def doubleLast : Str → Str
  | [] => []
  | [c] => if Gen.doubledChars.contains c then [c, c] else [c]
  | c :: d :: ds => c :: doubleLast (d :: ds)

def slotText (f : Field) : Slot → Str
  | .name => f.name
  | .conv => match f.conv with | some c => [c] | none => []
  | .spec => f.spec

/-- Python truthiness of the loop variables (`conversion` is `None` or one character) -/
def slotTruthy (f : Field) : Slot → Bool
  | .name => !f.name.isEmpty
  | .conv => f.conv.isSome
  | .spec => !f.spec.isEmpty

def evalPart (f : Field) : Part → Str
  | .lit s => s
  | .fmt pre slot post guard =>
    if (match guard with | none => true | some g => slotTruthy f g) then pre ++ slotText f slot ++ post else []

/-- the re-assembled field text `{name!c:spec}` -/
def reserField (f : Field) : Str := (Gen.fieldParts.map (evalPart f)).flatten

def reserPiece (p : Piece) : Str :=
  doubleLast p.lit ++ (match p.field with | none => [] | some f => reserField f)

/-- the re-assembled template when no text is touched by the markup parser (markup-free template) -/
def reserialize : List Piece → Str
  | [] => []
  | p :: ps => reserPiece p ++ reserialize ps

/-- does `_parse_without_formatting` run through (every failure is a `ValueError`) -/
def prepCheck : Nat → Str → Bool
  | 0, _ => false                                   -- "Max string recursion exceeded"
  | d + 1, t =>
    (parse t).2.isNone && (parse t).1.all (fun p => match p.field with
      | none => true
      | some f => prepCheck d f.spec)

/-- `parser.feed(text, raw=raw)` followed by `strip`, for ONE text: verbatim when `raw`, otherwise
whatever the markup parser makes of it – `mk` is an oracle (area Markup / C06 owns the tag language;
errors that depend on tags left open across several texts are outside this model) -/
def feedLit (mk : Str → Except Err Str) (raw : Bool) (s : Str) : Except Err Str :=
  if raw then .ok s else mk s

def okB {α : Type} : Except Err α → Bool
  | .ok _ => true
  | .error _ => false

/-- every text `_parse_without_formatting(…, recursive=rec)` hands to the markup parser is accepted by
it; which texts are handed over verbatim is REGENERATED (`Gen.literalRawWithout`, `Gen.fieldRawWithout`,
`Gen.nestedRecursiveWithout`): on the current code only the top-level literal texts are parsed as markup -/
def feedsOk (mk : Str → Except Err Str) : Nat → Bool → Str → Bool
  | 0, _, _ => true
  | d + 1, rec, t =>
    (parse t).1.all (fun p =>
      okB (feedLit mk (Gen.literalRawWithout rec) (doubleLast p.lit)) &&
      match p.field with
      | none => true
      | some f => okB (feedLit mk (Gen.fieldRawWithout rec) (reserField f)) &&
          feedsOk mk d (Gen.nestedRecursiveWithout rec) f.spec)

/-- the TEXT token a fed text leaves (only meaningful when the feed succeeds) -/
def fedText (mk : Str → Except Err Str) (raw : Bool) (s : Str) : Str :=
  match feedLit mk raw s with
  | .ok x => x
  | .error _ => s

def reserPieceM (mk : Str → Except Err Str) (p : Piece) : Str :=
  fedText mk (Gen.literalRawWithout false) (doubleLast p.lit) ++
    (match p.field with | none => [] | some f => fedText mk (Gen.fieldRawWithout false) (reserField f))

/-- concatenation of the TEXT tokens = `ColoredFormat.strip()` -/
def reserializeM (mk : Str → Except Err Str) : List Piece → Str
  | [] => []
  | p :: ps => reserPieceM mk p ++ reserializeM mk ps

/-- `Colorizer.prepare_format(t).strip()`; `mk` = what the markup parser makes of one text -/
def prepareFormat (mk : Str → Except Err Str) (t : Str) : Except Err Str :=
  if prepCheck levelsWithout t && feedsOk mk levelsWithout false t then .ok (reserializeM mk (parse t).1)
  else .error .valueError

/-! ### `_parse_with_formatting` (coloured messages) -/

/-- `Formatter.get_field` after `formatter_field_name_split`: `args[first]` or `kwargs[first]`
(an EMPTY first component would be looked up in kwargs) -/
def getFieldSplit {V} (env : Env V) (sp : First × Steps) : Except Err V :=
  match (match sp.1 with
      | .num i => (match env.args[i]? with | some v => Except.ok v | none => Except.error Err.indexError)
      | .name k => env.kwargs k) with
  | .error e => .error e
  | .ok v => walk env v sp.2

/-- `re.split(r"[.\\[]", field_name, maxsplit=1)[0]`: the text before the first separator -/
def headOf (name : Str) : Str := name.takeWhile (fun c => !Gen.headSeparators.contains c)

/-- the text the numbering tests look at (generated: whole name before d5e7115, first component since) -/
def numberingText (name : Str) : Str :=
  match Gen.numberingSubject with
  | .wholeName => name
  | .firstComponent => headOf name

/-- loguru's auto-numbering; `auto = none` is Python's `False`.  Returns the split name to look up and
the new counter.  In the automatic case the name becomes `str(n) + name` (or `str(n)`), which
`formatter_field_name_split` cuts into `(n, steps of name)` (resp. `(n, [])`) because `name` is empty or
starts with a separator there – a fact about CPython checked by the `split` correspondence stream. -/
def numberField (name : Str) (auto : Option Nat) : Except Err ((First × Steps) × Option Nat) :=
  if (numberingText name).isEmpty then
    match auto with
    | none => .error .valueError
    | some n =>
      .ok ((First.num n, if Gen.autoIndexPrefixesName then (fieldNameSplit name).2 else ([], none)), some (n + 1))
  else if allDigits (numberingText name) then
    match auto with
    | some (_ + 1) => .error .valueError
    | _ => .ok (fieldNameSplit name, none)
  else .ok (fieldNameSplit name, auto)

/-- number the field (loguru's rule), then `Formatter.get_field` -/
def lgGetField {V} (env : Env V) (name : Str) (auto : Option Nat) : Except Err (V × Option Nat) :=
  match numberField name auto with
  | .error e => .error e
  | .ok (sp, auto1) =>
    match getFieldSplit env sp with
    | .error e => .error e
    | .ok v => .ok (v, auto1)

/-- the locals of `_parse_with_formatting` while one replacement field is evaluated -/
structure FieldState (V : Type) where
  obj : Option V          -- `obj` (unset before the lookup)
  spec : Str              -- `format_spec`
  auto : Option Nat       -- `auto_arg_index`
  out : Option Str        -- `formatted` (unset before `format_field`)

/-- one statement of the field evaluation (`Gen.fieldEval` lists them in source order) -/
def fieldStep {V} (self : Str → Option Nat → Except Err (Str × Option Nat)) (feedV : Str → Except Err Str)
    (env : Env V) (f : Field) (s : FieldState V) : EvalStep → Except Err (FieldState V)
  | .lookup =>
    match lgGetField env f.name s.auto with
    | .error e => .error e
    | .ok (v, a) => .ok { s with obj := some v, auto := a }
  | .convert =>
    match s.obj with
    | none => .error .other
    | some v =>
      match doConv env f.conv v with
      | .error e => .error e
      | .ok v' => .ok { s with obj := some v' }
  | .expand =>
    match self s.spec s.auto with
    | .error e => .error e
    | .ok (sp, a) => .ok { s with spec := sp, auto := a }
  | .format =>
    match s.obj with
    | none => .error .other
    | some v =>
      match env.format v s.spec with
      | .error e => .error e
      | .ok x => .ok { s with out := some x }
  | .feed =>
    match s.out with
    | none => .error .other
    | some x =>
      match feedV x with
      | .error e => .error e
      | .ok y => .ok { s with out := some y }

def fieldRun {V} (self : Str → Option Nat → Except Err (Str × Option Nat)) (feedV : Str → Except Err Str)
    (env : Env V) (f : Field) : List EvalStep → FieldState V → Except Err (FieldState V)
  | [], s => .ok s
  | st :: rest, s =>
    match fieldStep self feedV env f s st with
    | .error e => .error e
    | .ok s' => fieldRun self feedV env f rest s'

/-- one replacement field: the statements REGENERATED from /repo (`Gen.fieldEval`), in source order;
returns the text handed to the markup parser's output and the new counter -/
def evalField {V} (self : Str → Option Nat → Except Err (Str × Option Nat)) (feedV : Str → Except Err Str)
    (env : Env V) (f : Field) (auto : Option Nat) : Except Err (Str × Option Nat) :=
  match fieldRun self feedV env f Gen.fieldEval { obj := none, spec := f.spec, auto := auto, out := none } with
  | .error e => .error e
  | .ok s =>
    match s.out with
    | none => .error .other
    | some x => .ok (x, s.auto)

def pwfPieces {V} (self : Str → Option Nat → Except Err (Str × Option Nat))
    (feedL feedV : Str → Except Err Str) (env : Env V) :
    List Piece → Option Nat → Except Err (Str × Option Nat)
  | [], auto => .ok ([], auto)
  | p :: ps, auto =>
    match feedL p.lit with
    | .error e => .error e
    | .ok lit =>
      match p.field with
      | none =>
        match pwfPieces self feedL feedV env ps auto with
        | .ok (r, a) => .ok (lit ++ r, a)
        | .error e => .error e
      | some f =>
        match evalField self feedV env f auto with
        | .error e => .error e
        | .ok (s, auto2) =>
          match pwfPieces self feedL feedV env ps auto2 with
          | .ok (r, a) => .ok (lit ++ s ++ r, a)
          | .error e => .error e

/-- `_parse_with_formatting(…, recursive=rec)` with `levels` nesting levels left; returns the stripped
text.  Which texts go through the markup parser is REGENERATED: the literal text of the template only
when `Gen.literalRawWith rec` is false (top level), the formatted values never; the recursive call on
the format spec runs with `recursive = Gen.nestedRecursiveWith rec`. -/
def pwf {V} (mk : Str → Except Err Str) (env : Env V) : Nat → Bool → Str → Option Nat → Except Err (Str × Option Nat)
  | 0, _, _, _ => .error .valueError
  | d + 1, rec, t, auto =>
    match pwfPieces (pwf mk env d (Gen.nestedRecursiveWith rec)) (feedLit mk (Gen.literalRawWith rec))
        (feedLit mk (Gen.formattedRawWith rec)) env (parse t).1 auto with
    | .error e => .error e
    | .ok r => if (parse t).2.isSome then .error .valueError else .ok r

/-- `Colorizer.prepare_message(t, args, kwargs).stripped`; `mk` = what the markup parser makes of one text -/
def coloredFormat {V} (mk : Str → Except Err Str) (env : Env V) (t : Str) : Except Err Str :=
  (pwf mk env levelsWith false t (some Gen.autoArgIndexDefault)).map (·.1)

/-! ### `Logger._log`, `Logger.add`, `Handler.emit` -/

/-- `record["message"]` -/
def logMessage {V} (mk : Str → Except Err Str) (env : Env V) (colors hasArgs hasKwargs : Bool) (message : Str) :
    Except Err Str :=
  match Gen.messageBranch colors hasArgs hasKwargs with
  | .strFormat => strFormat env message
  | .untouched => .ok message
  | .coloredFormat => coloredFormat mk env message
  | .coloredSimple => mk message

/-- the static format `Logger.add` hands to `prepare_format` -/
def addFormat (mk : Str → Except Err Str) (format terminator : Str) : Except Err Str :=
  prepareFormat mk (Gen.composeFormat format terminator)

/-- `formatted` in `Handler.emit`; `fmt` is the stripped precomputed format (`addFormat` for a static
handler, `prepareFormat (f record)` for a dynamic one), `record` the formatter record as an `Env`
(`hasArgs = false`: `format_map`) -/
def emitText {V} (record : Env V) (isRaw dynamic colorize cmNone : Bool) (fmt : Str) (message : Str) :
    Except Err Str :=
  match Gen.emitBranch isRaw dynamic colorize cmNone with
  | .rawMessage => .ok message
  | .rawColored => .ok message          -- markup-free message: colorize is the identity (area Markup)
  | .formatMap _ _ => strFormat record fmt

end Format
