import LoguruModel.Format.SpecOk
/-! Round 5 – a template `prepare_format` refuses is a template `str.format` / `format_map` cannot render
for ANY record: `add()` (static formats) and `emit` (dynamic formats) refuse nothing Python would format. -/
set_option linter.unusedSimpArgs false
namespace Format
open Py Py.Fmt

def isErr {α : Type} : Except Err α → Bool
  | .error _ => true
  | .ok _ => false

theorem isErr_iff {α : Type} (x : Except Err α) : isErr x = true ↔ ∃ e, x = .error e := by
  cases x <;> simp [isErr]

/-- a field whose format spec has to be expanded and cannot be makes the whole piece loop fail, whatever
the other fields do (they are evaluated first and may fail earlier – the loop fails in any case) -/
theorem renderPieces_fails {V} (self : Str → AN → Except Err (Str × AN)) (env : Env V) (f : Field)
    (hn : needsExpanding f.spec = true) (hs : ∀ an, isErr (self f.spec an) = true) :
    ∀ (ps : List Piece) (p : Piece), p ∈ ps → p.field = some f → ∀ an, isErr (renderPieces self env ps an) = true := by
  intro ps
  induction ps with
  | nil => intro p hp; cases hp
  | cons q qs ih =>
    intro p hp hf an
    unfold renderPieces
    cases hq : q.field with
    | none =>
      have hpq : p ∈ qs := by
        rcases List.mem_cons.1 hp with h | h
        · subst h; rw [hf] at hq; cases hq
        · exact h
      have := ih p hpq hf an
      simp only
      cases hr : renderPieces self env qs an with
      | error e => rfl
      | ok w => rw [hr] at this; cases this
    | some g =>
      simp only
      cases hg : getFieldObject env an g.name with
      | error e => rfl
      | ok w =>
        obtain ⟨v, an1⟩ := w
        simp only
        cases hc : doConv env g.conv v with
        | error e => rfl
        | ok v2 =>
          simp only
          cases hx : (if needsExpanding g.spec then self g.spec an1 else .ok (g.spec, an1)) with
          | error e => rfl
          | ok w2 =>
            obtain ⟨spec, an2⟩ := w2
            simp only
            cases hfm : env.format v2 spec with
            | error e => rfl
            | ok sfm =>
              simp only
              rcases List.mem_cons.1 hp with h | h
              · subst h
                rw [hf] at hq
                injection hq with hq
                subst hq
                rw [hn] at hx
                simp only [if_true] at hx
                have := hs an1
                rw [hx] at this
                cases this
              · have := ih p h hf an2
                cases hr : renderPieces self env qs an2 with
                | error e => rfl
                | ok w3 => rw [hr] at this; cases this

theorem prepCheck_noBrace {s : Str} (h : NoBrace s) (d : Nat) : prepCheck (d + 1) s = true := by
  unfold prepCheck
  rw [parse_noBrace h]
  cases s <;> simp

/-- what loguru's eager check refuses at depth `d + 1`, `build_string` cannot render at depth `d` –
for every environment and every numbering state -/
theorem buildString_fails_of_prepCheck {V} (env : Env V) :
    ∀ (d : Nat) (s : Str), prepCheck (d + 1) s = false → ∀ an, isErr (buildString env d s an) = true := by
  intro d
  induction d with
  | zero => intro s _ an; rfl
  | succ d ih =>
    intro s h an
    unfold prepCheck at h
    unfold buildString
    by_cases hp : (parse s).2.isNone = true
    · simp only [hp, Bool.true_and] at h
      obtain ⟨p, hpm, hpf⟩ := List.all_eq_false.1 h
      cases hf : p.field with
      | none => rw [hf] at hpf; simp at hpf
      | some f =>
        rw [hf] at hpf
        have hpc : prepCheck (d + 1) f.spec = false := by simpa using hpf
        have hne : needsExpanding f.spec = true := by
          cases hne' : needsExpanding f.spec with
          | true => rfl
          | false =>
            have nb := noBrace_of_specOk (specOk_of_mem (mem_fieldsOf hpm hf)) hne'
            rw [prepCheck_noBrace nb d] at hpc
            cases hpc
        have := renderPieces_fails (buildString env d) env f hne (ih f.spec hpc) (parse s).1 p hpm hf an
        cases hr : renderPieces (buildString env d) env (parse s).1 an with
        | error e => rfl
        | ok w => rw [hr] at this; cases this
    · have hs : (parse s).2.isSome = true := by
        cases hq : (parse s).2 with
        | none => rw [hq] at hp; simp at hp
        | some e => rfl
      cases hr : renderPieces (buildString env d) env (parse s).1 an with
      | error e => rfl
      | ok w => simp [hs, isErr]

end Format
