import LoguruModel.Py.VFormat
/-! types shared by the generated tables (Generated/Format.lean) and the model -/
namespace Format
open Py

inductive Slot where | name | conv | spec
  deriving DecidableEq, Repr

/-- one statement of the field re-assembly in `_parse_without_formatting`:
`field (+)= "<pre>%s<post>" % slot` (under `if guard:` when `guard` is given) or `field += "<lit>"` -/
inductive Part where
  | fmt (pre : Str) (slot : Slot) (post : Str) (guard : Option Slot)
  | lit (s : Str)
  deriving DecidableEq, Repr

/-- which precomputed format `Handler.emit` applies `format_map` to -/
inductive Precomputed where | dynStripped | dynColored | staticStripped | staticColored
  deriving DecidableEq, Repr

inductive Branch where
  | rawMessage                 -- `formatted = record["message"]`
  | rawColored                 -- `formatted = colored_message.colorize(ansi_level)`
  | formatMap (p : Precomputed) (coloring : Bool)   -- `precomputed_format.format_map(formatter_record)`
  deriving DecidableEq, Repr

/-- the text `_parse_with_formatting` bases its automatic/manual numbering decision on -/
inductive Subject where
  | wholeName          -- `field_name == ""` / `field_name.isdigit()`            (string.Formatter's rule)
  | firstComponent     -- the part before the first `.` or `[`                  (str.format's rule)
  deriving DecidableEq, Repr

/-- what `Logger._log` does with the message -/
inductive MsgBranch where
  | strFormat        -- `message.format(*args, **kwargs)`
  | untouched        -- `str(message)` as is
  | coloredFormat    -- `Colorizer.prepare_message(message, args, kwargs).stripped`
  | coloredSimple    -- `Colorizer.prepare_simple_message(str(message)).stripped`
  deriving DecidableEq, Repr

end Format
