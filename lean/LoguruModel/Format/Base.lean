import LoguruModel.Py.VFormat
/-! types shared by the generated tables (Generated/Format.lean) and the model -/
namespace Format
open Py

inductive Slot where | name | conv | spec
  deriving DecidableEq, Repr

/-- one statement of the field re-assembly in `_parse_without_formatting`:
`field (+)= "<pre>%s<post>" % slot` (under `if guard:` when `guard` is given) or `field += "<lit>"` -/
inductive Part where
  | fmt (pre : Str) (slot : Slot) (post : Str) (guard : Option Slot)
  | lit (s : Str)
  deriving DecidableEq, Repr

/-- which precomputed format `Handler.emit` applies `format_map` to -/
inductive Precomputed where | dynStripped | dynColored | staticStripped | staticColored
  deriving DecidableEq, Repr

inductive Branch where
  | rawMessage                 -- `formatted = record["message"]`
  | rawColored                 -- `formatted = colored_message.colorize(ansi_level)`
  | formatMap (p : Precomputed) (coloring : Bool)   -- `precomputed_format.format_map(formatter_record)`
  deriving DecidableEq, Repr

/-- the text `_parse_with_formatting` bases its automatic/manual numbering decision on -/
inductive Subject where
  | wholeName          -- `field_name == ""` / `field_name.isdigit()`            (string.Formatter's rule)
  | firstComponent     -- the part before the first `.` or `[`                  (str.format's rule)
  deriving DecidableEq, Repr

/-- what `Logger._log` does with the message -/
inductive MsgBranch where
  | strFormat        -- `message.format(*args, **kwargs)`
  | untouched        -- `str(message)` as is
  | coloredFormat    -- `Colorizer.prepare_message(message, args, kwargs).stripped`
  | coloredSimple    -- `Colorizer.prepare_simple_message(str(message)).stripped`
  deriving DecidableEq, Repr

/-- the argument preparation of `Logger._log` between the creation of the record and the message chain,
one constructor per `if` block of the source (Round 5) -/
inductive PrepStep where
  | forceLazy        -- `if lazy: args = [arg() for arg in args]; kwargs = {key: value() …}`
  | captureExtra     -- `if capture and kwargs: log_record["extra"].update(kwargs)`
  | bindRecord       -- `if record: if "record" in kwargs: raise TypeError; kwargs.update(record=log_record)`
  deriving DecidableEq, Repr

/-- which argument collection a statement of the `lazy` block evaluates -/
inductive LazyPart where | args | kwargs
  deriving DecidableEq, Repr

/-- what `_parse_with_formatting` does with one replacement field, one constructor per statement (Round 5) -/
inductive EvalStep where
  | lookup     -- `obj, _ = formatter.get_field(field_name, args, kwargs)`
  | convert    -- `obj = formatter.convert_field(obj, conversion)`
  | expand     -- `format_spec, auto_arg_index = Colorizer._parse_with_formatting(format_spec, …)`
  | format     -- `formatted = formatter.format_field(obj, format_spec)`
  | feed       -- `parser.feed(formatted, raw=…)`
  deriving DecidableEq, Repr

end Format
