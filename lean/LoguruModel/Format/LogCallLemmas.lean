import LoguruModel.Format.LogCall
/-! Round 5 – the preparation of `Logger._log` in closed form (on the regenerated step order) -/
set_option linter.unusedSimpArgs false
namespace Format
open Py Py.Fmt

/-- what the capture and record blocks do once the arguments are evaluated -/
def finishPrep {V} (o : LogOpts) (recordVal : V) (a : List V) (k : List (Str × V)) (tr : List V) : Except Err (Prep V) :=
  if o.record then
    (if hasKey k Gen.recordKey then .error .typeError
     else .ok { args := a, kwargs := k ++ [(Gen.recordKey, recordVal)],
                extraUpd := (if o.capture && !k.isEmpty then k else []), forced := tr })
  else .ok { args := a, kwargs := k, extraUpd := (if o.capture && !k.isEmpty then k else []), forced := tr }

theorem finish_steps {V} (o : LogOpts) (force : V → Except Err V) (rv : V) (a : List V) (k : List (Str × V)) (tr : List V) :
    prepSteps o force rv [PrepStep.captureExtra, PrepStep.bindRecord] { args := a, kwargs := k, extraUpd := [], forced := tr } =
      finishPrep o rv a k tr := by
  simp only [prepSteps, prepStep, Gen.captureGuard, Gen.recordGuard, finishPrep, List.nil_append]
  cases hc : o.capture <;> cases hk : k.isEmpty <;> cases hr : o.record <;> cases hz : hasKey k Gen.recordKey <;>
    simp only [hz, Bool.false_eq_true, if_false, if_true, Bool.and_false, Bool.and_true, Bool.not_true, Bool.not_false, Bool.false_and, Bool.true_and]

/-- CLOSED FORM of the preparation: lazy arguments are called first (positional ones left to right,
then the keyword ones in call order; the first exception ends the call), then `capture` copies the
EVALUATED keyword arguments into `extra`, and only then `record` is bound – after the conflict check -/
theorem prepare_eq {V} (o : LogOpts) (force : V → Except Err V) (rv : V) (args : List V) (kwargs : List (Str × V)) :
    prepare o force rv args kwargs =
      if o.lazy then
        match forceList force args with
        | .error e => .error e
        | .ok as =>
          match forceList force (kwargs.map (·.2)) with
          | .error e => .error e
          | .ok vs => finishPrep o rv as (zipKeys kwargs vs) (args ++ kwargs.map (·.2))
      else finishPrep o rv args kwargs [] := by
  unfold prepare
  simp only [Gen.logPrep]
  cases hl : o.lazy
  · simp only [prepSteps, prepStep, Gen.lazyGuard, hl, Bool.false_eq_true, if_false]
    exact finish_steps o force rv args kwargs []
  · simp only [prepSteps, prepStep, Gen.lazyGuard, hl, if_true, Gen.lazyOrder, forceParts, forcePart]
    cases h1 : forceList force args with
    | error e => rfl
    | ok as =>
      simp only
      cases h2 : forceList force (kwargs.map (·.2)) with
      | error e => rfl
      | ok vs =>
        simp only [List.nil_append]
        exact finish_steps o force rv as (zipKeys kwargs vs) _

theorem forceList_length {V} (force : V → Except Err V) : ∀ (l vs : List V), forceList force l = .ok vs → vs.length = l.length
  | [], vs, h => by simp [forceList] at h; subst h; rfl
  | a :: as, vs, h => by
    unfold forceList at h
    cases h1 : force a with
    | error e => rw [h1] at h; simp at h
    | ok v =>
      rw [h1] at h; simp only at h
      cases h2 : forceList force as with
      | error e => rw [h2] at h; simp at h
      | ok ws =>
        rw [h2] at h; simp at h; subst h
        simp [forceList_length force as ws h2]

/-- evaluating the keyword arguments keeps the keys (and their order) -/
theorem zipKeys_keys {V} (kw : List (Str × V)) (vs : List V) (h : vs.length = kw.length) :
    (zipKeys kw vs).map (·.1) = kw.map (·.1) := by
  induction kw generalizing vs with
  | nil => cases vs <;> simp [zipKeys]
  | cons p ps ih =>
    cases vs with
    | nil => simp at h
    | cons v vs =>
      simp only [List.length_cons, Nat.add_right_cancel_iff] at h
      have := ih vs h
      simp only [zipKeys, List.zip_cons_cons, List.map_cons] at this ⊢
      rw [this]

theorem zipKeys_isEmpty {V} (kw : List (Str × V)) (vs : List V) (h : vs.length = kw.length) :
    (zipKeys kw vs).isEmpty = kw.isEmpty := by
  cases kw <;> cases vs <;> simp_all [zipKeys]

theorem hasKey_eq {V} (kw : List (Str × V)) (k : Str) : hasKey kw k = (kw.map (·.1)).contains k := by
  induction kw with
  | nil => rfl
  | cons p ps ih =>
    simp only [hasKey, List.any_cons, List.map_cons, List.contains_cons] at ih ⊢
    rw [ih, BEq.comm]

end Format
