import LoguruModel.Format.Model
/-!
Round 5 – `Logger._log` from the creation of the record to `record["message"]`: the argument
preparation (`opt(lazy=…)`, `opt(capture=…)`, `opt(record=…)`) followed by the message chain.

The preparation is an INTERPRETER of the step list regenerated from /repo (`Gen.logPrep`, in source
order, with the generated guards, `Gen.lazyOrder`, `Gen.recordKey`), so reordering two blocks, dropping
one, changing a guard or the order in which lazy arguments are called changes this model and breaks the
theorems of `Props/C05.lean` that pin the behaviour.

The message object is carried as two texts: `data` (what `str.format` / `string.Formatter().parse` read
– the character data of a `str` or of an instance of a `str` subclass) and `strOf` (what `str(message)`
returns – the SAME text for an exact `str`, possibly another one for a subclass overriding `__str__`).
No identity between the two is assumed.
-/
namespace Format
open Py Py.Fmt

structure LogOpts where
  lazy : Bool
  capture : Bool
  record : Bool
  colors : Bool
  deriving DecidableEq, Repr

/-- the arguments while `_log` prepares them -/
structure Prep (V : Type) where
  args : List V
  kwargs : List (Str × V)          -- keyword arguments in call order (a dict: keys are distinct)
  extraUpd : List (Str × V)        -- what `log_record["extra"].update(…)` received
  forced : List V                  -- the lazy arguments called so far, oldest first

/-- `[arg() for arg in args]`: left to right, the first exception ends the call -/
def forceList {V} (force : V → Except Err V) : List V → Except Err (List V)
  | [] => .ok []
  | a :: as =>
    match force a with
    | .error e => .error e
    | .ok v =>
      match forceList force as with
      | .error e => .error e
      | .ok vs => .ok (v :: vs)

def zipKeys {V} (kw : List (Str × V)) (vs : List V) : List (Str × V) :=
  (kw.zip vs).map (fun p => (p.1.1, p.2))

/-- one statement of the `lazy` block -/
def forcePart {V} (force : V → Except Err V) (s : Prep V) : LazyPart → Except Err (Prep V)
  | .args =>
    match forceList force s.args with
    | .error e => .error e
    | .ok vs => .ok { s with args := vs, forced := s.forced ++ s.args }
  | .kwargs =>
    match forceList force (s.kwargs.map (·.2)) with
    | .error e => .error e
    | .ok vs => .ok { s with kwargs := zipKeys s.kwargs vs, forced := s.forced ++ s.kwargs.map (·.2) }

def forceParts {V} (force : V → Except Err V) : List LazyPart → Prep V → Except Err (Prep V)
  | [], s => .ok s
  | p :: ps, s =>
    match forcePart force s p with
    | .error e => .error e
    | .ok s' => forceParts force ps s'

def hasKey {V} (kw : List (Str × V)) (k : Str) : Bool := kw.any (fun p => p.1 == k)

/-- one block of the preparation; the guards are the generated ones, evaluated on the CURRENT arguments -/
def prepStep {V} (o : LogOpts) (force : V → Except Err V) (recordVal : V) (s : Prep V) :
    PrepStep → Except Err (Prep V)
  | .forceLazy =>
    if Gen.lazyGuard o.lazy o.capture o.record o.colors (!s.args.isEmpty) (!s.kwargs.isEmpty) then
      forceParts force Gen.lazyOrder s
    else .ok s
  | .captureExtra =>
    if Gen.captureGuard o.lazy o.capture o.record o.colors (!s.args.isEmpty) (!s.kwargs.isEmpty) then
      .ok { s with extraUpd := s.extraUpd ++ s.kwargs }
    else .ok s
  | .bindRecord =>
    if Gen.recordGuard o.lazy o.capture o.record o.colors (!s.args.isEmpty) (!s.kwargs.isEmpty) then
      if hasKey s.kwargs Gen.recordKey then .error .typeError
      else .ok { s with kwargs := s.kwargs ++ [(Gen.recordKey, recordVal)] }
    else .ok s

def prepSteps {V} (o : LogOpts) (force : V → Except Err V) (recordVal : V) :
    List PrepStep → Prep V → Except Err (Prep V)
  | [], s => .ok s
  | p :: ps, s =>
    match prepStep o force recordVal s p with
    | .error e => .error e
    | .ok s' => prepSteps o force recordVal ps s'

/-- the whole preparation, in the regenerated source order -/
def prepare {V} (o : LogOpts) (force : V → Except Err V) (recordVal : V) (args : List V) (kwargs : List (Str × V)) :
    Except Err (Prep V) :=
  prepSteps o force recordVal Gen.logPrep { args := args, kwargs := kwargs, extraUpd := [], forced := [] }

/-- `kwargs[key]` of a keyword dict -/
def kwLookup {V} (kw : List (Str × V)) (k : Str) : Except Err V :=
  match kw.find? (fun p => p.1 == k) with
  | some p => .ok p.2
  | none => .error .keyError

/-- the formatting environment of the call: the prepared arguments, the object oracles of `base` -/
def argEnv {V} (base : Env V) (args : List V) (kwargs : List (Str × V)) : Env V :=
  { base with args := args, hasArgs := true, kwargs := kwLookup kwargs }

def callEnv {V} (base : Env V) (s : Prep V) : Env V := argEnv base s.args s.kwargs

/-- `record["message"]` after the message chain of `_log`, for prepared arguments -/
def messageOf {V} (mk : Str → Except Err Str) (base : Env V) (colors : Bool) (data strOf : Str) (s : Prep V) :
    Except Err Str :=
  match Gen.messageBranch colors (!s.args.isEmpty) (!s.kwargs.isEmpty) with
  | .strFormat => strFormat (callEnv base s) data
  | .untouched => .ok strOf
  | .coloredFormat => coloredFormat mk (callEnv base s) data
  | .coloredSimple => mk strOf

/-- one logging call up to `record["message"]`: the message, and what happened to the arguments -/
def logCall {V} (mk : Str → Except Err Str) (base : Env V) (o : LogOpts) (force : V → Except Err V) (recordVal : V)
    (data strOf : Str) (args : List V) (kwargs : List (Str × V)) : Except Err (Str × Prep V) :=
  match prepare o force recordVal args kwargs with
  | .error e => .error e
  | .ok s =>
    match messageOf mk base o.colors data strOf s with
    | .error e => .error e
    | .ok m => .ok (m, s)

end Format
