import LoguruModel.Format.Handler
import LoguruModel.Format.LogCallLemmas
/-! Round 5 – lemmas about the regenerated decision tables and the memoised preparation -/
set_option linter.unusedSimpArgs false
namespace Format
open Py Py.Fmt

/-- the regenerated decision table of `Logger._log` IS "format exactly when there is an argument" -/
theorem messageBranch_eq (colors hasArgs hasKwargs : Bool) :
    Gen.messageBranch colors hasArgs hasKwargs =
      if colors then (if hasArgs || hasKwargs then MsgBranch.coloredFormat else MsgBranch.coloredSimple)
      else (if hasArgs || hasKwargs then MsgBranch.strFormat else MsgBranch.untouched) := by
  cases colors <;> cases hasArgs <;> cases hasKwargs <;> rfl

/-- the regenerated decision table of `Handler.emit`: raw ⇒ the message (coloured only when a coloured
message survived and the handler colorizes); otherwise `format_map` of a prepared format -/
theorem emitBranch_eq (isRaw dynamic colorize cmNone : Bool) :
    Gen.emitBranch isRaw dynamic colorize cmNone =
      if isRaw then (if cmNone || !colorize then Branch.rawMessage else Branch.rawColored)
      else Branch.formatMap
        (if dynamic then (if colorize then Precomputed.dynColored else Precomputed.dynStripped)
         else (if colorize then Precomputed.staticColored else Precomputed.staticStripped))
        (colorize && !cmNone) := by
  cases isRaw <;> cases dynamic <;> cases colorize <;> cases cmNone <;> rfl

theorem cmDropped_eq (given differs : Bool) : Gen.cmDropped given differs = (given && differs) := by
  cases given <;> cases differs <;> rfl

/-- invariant of the cache: every entry holds what the memoised function returns for its key -/
def LruOk {K R : Type} (f : K → Except Err R) (cache : List (K × R)) : Prop := ∀ p ∈ cache, f p.1 = .ok p.2

theorem lruGet_transparent {K R : Type} [DecidableEq K] (maxsize : Nat) (f : K → Except Err R)
    (cache : List (K × R)) (k : K) (h : LruOk f cache) :
    (lruGet maxsize f cache k).map (·.1) = f k ∧
    (∀ r c', lruGet maxsize f cache k = .ok (r, c') → LruOk f c') ∧
    (∀ e, lruGet maxsize f cache k = .error e → f k = .error e) := by
  unfold lruGet
  cases hf : cache.find? (fun p => p.1 = k) with
  | some p =>
    have hm := List.mem_of_find?_eq_some hf
    have hk : p.1 = k := by simpa using List.find?_some hf
    have hv := h p hm
    rw [hk] at hv
    refine ⟨by simp [Except.map, hv], ?_, by intro e he; simp at he⟩
    intro r c' he
    simp only [Except.ok.injEq, Prod.mk.injEq] at he
    obtain ⟨_, hc⟩ := he
    subst hc
    intro q hq
    rcases List.mem_cons.1 hq with hq | hq
    · subst hq; exact hv
    · exact h q (List.mem_filter.1 hq).1
  | none =>
    cases hfk : f k with
    | error e => exact ⟨rfl, by intro r c' he; simp at he, by intro e' he; simpa using he⟩
    | ok r =>
      refine ⟨rfl, ?_, by intro e he; simp at he⟩
      intro r' c' he
      simp only [Except.ok.injEq, Prod.mk.injEq] at he
      obtain ⟨_, hc⟩ := he
      subst hc
      intro q hq
      have hq' := List.mem_of_mem_take hq
      rcases List.mem_cons.1 hq' with hq' | hq'
      · subst hq'; exact hfk
      · exact h q hq'

/-- the text one record gets from a dynamic-format handler does not depend on the cache -/
theorem dynEmit_transparent {V} (mk : Str → Except Err Str) (cache : List (Str × Str)) (record : Env V) (template : Str)
    (h : LruOk (prepareFormat mk) cache) :
    (dynEmit mk cache record template).1 =
      (match prepareFormat mk template with | .error e => .error e | .ok fmt => strFormat record fmt) ∧
    LruOk (prepareFormat mk) (dynEmit mk cache record template).2 := by
  have ht := lruGet_transparent Gen.memoizeMaxsize (prepareFormat mk) cache template h
  unfold dynEmit
  cases hl : lruGet Gen.memoizeMaxsize (prepareFormat mk) cache template with
  | error e =>
    have := ht.2.2 e hl
    simp [this, h]
  | ok w =>
    obtain ⟨fmt, c'⟩ := w
    have h1 := ht.1
    rw [hl] at h1
    simp only [Except.map] at h1
    rw [← h1]
    exact ⟨rfl, ht.2.1 fmt c' hl⟩

end Format
