import LoguruModel.Format.Lemmas
/-! `_parse_with_formatting` against the reference `str.format`: the guards under which the two
depth guards coincide, and the simulation lemmas (the auto-numbering rules coincide everywhere since d5e7115). -/
set_option linter.unusedSimpArgs false
namespace Format
open Py Py.Fmt

def fieldsOf (t : Str) : List Field := (parse t).1.filterMap (·.field)

/-- a spec without `{` has no `}` either – true of every spec the parser yields (SpecOk.lean) -/
def specOk (spec : Str) : Bool := spec.contains '{' || !spec.contains '}'

/-- `specOk` on the fields of the template and of its format specs (always true, `specsOk_all`) -/
def specsOk (t : Str) : Bool :=
  (fieldsOf t).all (fun f => specOk f.spec && (fieldsOf f.spec).all (fun g => specOk g.spec))

/-- no third nesting level: a field inside a format spec has no `{` in its own spec -/
def shallow (t : Str) : Bool :=
  (fieldsOf t).all (fun f => (fieldsOf f.spec).all (fun g => !needsExpanding g.spec))

/-- correspondence of the two auto-numbering states -/
inductive R : AN → Option Nat → Prop where
  | init : R .init (some 0)
  | auto (n : Nat) : R (.auto (n + 1)) (some (n + 1))
  | manual : R .manual none

def Rel {α : Type} (a : Except Err (α × AN)) (b : Except Err (α × Option Nat)) : Prop :=
  match a, b with
  | .ok (x, an), .ok (y, au) => x = y ∧ R an au
  | .error e, .error e' => e = e'
  | _, _ => False

/-- the generated rule is the first-component rule of `field_name_split` -/
theorem numberingText_eq (name : Str) : numberingText name = firstOf name := by
  unfold numberingText headOf firstOf
  simp only [Gen.numberingSubject]
  congr 1
  funext c
  by_cases h1 : c = '.' <;> by_cases h2 : c = '[' <;> simp [Gen.headSeparators, notSep, h1, h2]

theorem prefixes : Gen.autoIndexPrefixesName = true := rfl

/-- both numbering rules pick the same object, or fail alike, for EVERY field name -/
theorem head_rel {V} (env : Env V) (hA : env.hasArgs = true) (name : Str)
    (an : AN) (au : Option Nat) (r : R an au) :
    Rel (getFieldObject env an name) (lgGetField env name au) := by
  unfold getFieldObject lgGetField numberField
  rw [numberingText_eq, prefixes]
  cases hfo : firstOf name with
  | nil =>
    have hsp : (fieldNameSplit name).1 = First.name [] := by
      simp [fieldNameSplit, hfo, getInteger, allDigits]
    rw [hsp]
    cases r with
    | init =>
      simp only [lookupFirst, getArg, hA, getFieldSplit, List.isEmpty_nil, if_true]
      cases env.args[0]? with
      | none => simp [Except.map, Rel]
      | some v =>
        simp only [Except.map]
        cases walk env v (fieldNameSplit name).2 with
        | error e => simp [Rel]
        | ok v' => simp [Rel, R.auto 0]
    | auto n =>
      simp only [lookupFirst, getArg, hA, getFieldSplit, List.isEmpty_nil, if_true]
      cases env.args[n + 1]? with
      | none => simp [Except.map, Rel]
      | some v =>
        simp only [Except.map]
        cases walk env v (fieldNameSplit name).2 with
        | error e => simp [Rel]
        | ok v' => simp [Rel, R.auto (n + 1)]
    | manual => simp [lookupFirst, Rel]
  | cons c cs =>
    have hne : (c :: cs).isEmpty = false := rfl
    simp only [hne, Bool.false_eq_true, if_false]
    by_cases hd : allDigits (c :: cs) = true
    · have hsp : (fieldNameSplit name).1 = First.num (digitsVal (c :: cs)) := by
        simp [fieldNameSplit, hfo, getInteger, hd]
      simp only [hd, if_true]
      cases r with
      | init =>
        simp only [hsp, lookupFirst, getArg, hA, getFieldSplit, if_true]
        cases hx : env.args[digitsVal (c :: cs)]? with
        | none => simp [hsp, hx, Except.map, Rel]
        | some v =>
          cases hw : walk env v (fieldNameSplit name).2 with
          | error e => simp [hsp, hx, hw, Except.map, Rel]
          | ok v' => simp [hsp, hx, hw, Except.map, Rel, R.manual]
      | auto n => simp [hsp, lookupFirst, Rel]
      | manual =>
        simp only [hsp, lookupFirst, getArg, hA, getFieldSplit, if_true]
        cases hx : env.args[digitsVal (c :: cs)]? with
        | none => simp [hsp, hx, Except.map, Rel]
        | some v =>
          cases hw : walk env v (fieldNameSplit name).2 with
          | error e => simp [hsp, hx, hw, Except.map, Rel]
          | ok v' => simp [hsp, hx, hw, Except.map, Rel, R.manual]
    · have hd' : allDigits (c :: cs) = false := by simpa using hd
      have hsp : (fieldNameSplit name).1 = First.name (c :: cs) := by
        simp [fieldNameSplit, hfo, getInteger, hd']
      simp only [hd', Bool.false_eq_true, if_false, hsp, lookupFirst, getFieldSplit]
      cases hk : env.kwargs (c :: cs) with
      | error e => simp [hsp, hk, Except.map, Rel]
      | ok v =>
        cases hw : walk env v (fieldNameSplit name).2 with
        | error e => simp [hsp, hk, hw, Except.map, Rel]
        | ok v' => simp [hsp, hk, hw, Except.map, Rel, r]

theorem Rel.error_left {α : Type} {e : Err} {b : Except Err (α × Option Nat)}
    (h : Rel (Except.error e : Except Err (α × AN)) b) : b = .error e := by
  cases b with
  | error e' => simp [Rel] at h; rw [h]
  | ok w => obtain ⟨y, au⟩ := w; simp [Rel] at h

theorem Rel.ok_left {α : Type} {x : α} {an : AN} {b : Except Err (α × Option Nat)}
    (h : Rel (Except.ok (x, an)) b) : ∃ au, b = .ok (x, au) ∧ R an au := by
  cases b with
  | error e' => simp [Rel] at h
  | ok w => obtain ⟨y, au⟩ := w; simp [Rel] at h; exact ⟨au, by rw [h.1], h.2⟩

/-- a piece with its literal text replaced by what the markup parser leaves of it -/
def mapLit (st : Str → Str) (p : Piece) : Piece := { p with lit := st p.lit }

theorem map_mapLit_id (ps : List Piece) : ps.map (mapLit id) = ps := by
  induction ps with
  | nil => rfl
  | cons p ps ih => simp [mapLit, ih]

/-- `build_string` on pieces (so that literals can be rewritten): `buildString env (d+1) t = formatPieces env d (parse t)` -/
def formatPieces {V} (env : Env V) (d : Nat) (pr : Parsed) (an : AN) : Except Err (Str × AN) :=
  match renderPieces (buildString env d) env pr.1 an with
  | .error e => .error e
  | .ok r => if pr.2.isSome then .error .valueError else .ok r

theorem buildString_succ {V} (env : Env V) (d : Nat) (t : Str) (an : AN) :
    buildString env (d + 1) t an = formatPieces env d (parse t) an := by
  unfold buildString formatPieces
  cases renderPieces (buildString env d) env (parse t).1 an <;> rfl

/-- the field evaluation interpreted from the REGENERATED statement list (`Gen.fieldEval`) is: look the
object up (loguru's numbering), convert, expand the spec (sharing the counter), `format_field`, feed –
a reordered, dropped or rewired statement in /repo breaks this lemma -/
theorem evalField_eq {V} (self : Str → Option Nat → Except Err (Str × Option Nat)) (feedV : Str → Except Err Str)
    (env : Env V) (f : Field) (auto : Option Nat) :
    evalField self feedV env f auto =
      match lgGetField env f.name auto with
      | .error e => .error e
      | .ok (v, auto1) =>
        match doConv env f.conv v with
        | .error e => .error e
        | .ok v =>
          match self f.spec auto1 with
          | .error e => .error e
          | .ok (spec, auto2) =>
            match env.format v spec with
            | .error e => .error e
            | .ok s =>
              match feedV s with
              | .error e => .error e
              | .ok s => .ok (s, auto2) := by
  unfold evalField
  simp only [Gen.fieldEval, fieldRun, fieldStep]
  cases lgGetField env f.name auto with
  | error e => rfl
  | ok w =>
    obtain ⟨v, a1⟩ := w
    simp only
    cases doConv env f.conv v with
    | error e => rfl
    | ok v2 =>
      simp only
      cases self f.spec a1 with
      | error e => rfl
      | ok w2 =>
        obtain ⟨sp, a2⟩ := w2
        simp only
        cases env.format v2 sp with
        | error e => rfl
        | ok x =>
          simp only
          cases feedV x with
          | error e => rfl
          | ok y => rfl

/-- the two piece loops agree as long as the spec expansions they call agree, the literal feed leaves
`st lit` of every literal and the value feed is verbatim -/
theorem pieces_rel {V} (env : Env V) (hA : env.hasArgs = true)
    (selfP : Str → AN → Except Err (Str × AN))
    (selfL : Str → Option Nat → Except Err (Str × Option Nat))
    (feedL feedV : Str → Except Err Str) (st : Str → Str)
    (ps : List Piece)
    (hL : ∀ p ∈ ps, feedL p.lit = .ok (st p.lit))
    (hV : ∀ s, feedV s = .ok s)
    (hs : ∀ p ∈ ps, ∀ f, p.field = some f → ∀ an au, R an au →
        Rel (if needsExpanding f.spec then selfP f.spec an else .ok (f.spec, an)) (selfL f.spec au)) :
    ∀ an au, R an au →
      Rel (renderPieces selfP env (ps.map (mapLit st)) an) (pwfPieces selfL feedL feedV env ps au) := by
  induction ps with
  | nil => intro an au r; simp [renderPieces, pwfPieces, Rel, r]
  | cons p ps ih =>
    intro an au r
    have ih' := ih (fun q hq => hL q (List.mem_cons_of_mem _ hq)) (fun q hq => hs q (List.mem_cons_of_mem _ hq))
    simp only [List.map_cons]
    unfold renderPieces pwfPieces
    rw [hL p (List.mem_cons_self ..)]
    simp only [mapLit]
    cases hf : p.field with
    | none =>
      simp only
      have h3 := ih' an au r
      cases hr : renderPieces selfP env (ps.map (mapLit st)) an with
      | error e => rw [hr] at h3; rw [h3.error_left]; simp [Rel]
      | ok w =>
        obtain ⟨x, an'⟩ := w
        rw [hr] at h3
        obtain ⟨au', e, r'⟩ := h3.ok_left
        rw [e]; simp [Rel, r']
    | some f =>
      simp only
      rw [evalField_eq]
      have h1 := head_rel env hA f.name an au r
      cases hg : getFieldObject env an f.name with
      | error e => rw [hg] at h1; rw [h1.error_left]; simp [Rel]
      | ok w =>
        obtain ⟨v, an1⟩ := w
        rw [hg] at h1
        obtain ⟨au1, e1, r1⟩ := h1.ok_left
        rw [e1]; simp only
        cases hc : doConv env f.conv v with
        | error e => simp [Rel]
        | ok v2 =>
          simp only
          have h2 := hs p (List.mem_cons_self ..) f hf an1 au1 r1
          cases hx : (if needsExpanding f.spec then selfP f.spec an1 else .ok (f.spec, an1)) with
          | error e => rw [hx] at h2; rw [h2.error_left]; simp [Rel]
          | ok w2 =>
            obtain ⟨spec, an2⟩ := w2
            rw [hx] at h2
            obtain ⟨au2, e2, r2⟩ := h2.ok_left
            rw [e2]; simp only
            cases hfm : env.format v2 spec with
            | error e => simp [Rel]
            | ok sfm =>
              simp only [hV sfm]
              have h3 := ih' an2 au2 r2
              cases hr : renderPieces selfP env (ps.map (mapLit st)) an2 with
              | error e => rw [hr] at h3; rw [h3.error_left]; simp [Rel]
              | ok w3 =>
                obtain ⟨x, an3⟩ := w3
                rw [hr] at h3
                obtain ⟨au3, e3, r3⟩ := h3.ok_left
                rw [e3]; simp [Rel, r3]

theorem parse_noBrace {s : Str} (h : NoBrace s) :
    parse s = ((match s with | [] => [] | _ :: _ => [{ lit := s, field := none }]), none) := by
  cases s with
  | nil => rfl
  | cons c cs => unfold parse parseFuel; rw [scanLit_noBrace h]

theorem noBrace_of_specOk {spec : Str} (h1 : specOk spec = true) (h2 : needsExpanding spec = false) :
    NoBrace spec := by
  simp only [needsExpanding] at h2
  simp only [specOk, h2, Bool.false_or, Bool.not_eq_true'] at h1
  intro c hc
  constructor
  · intro e; subst e
    have : spec.contains '{' = true := by simp [hc]
    rw [h2] at this; cases this
  · intro e; subst e
    have : spec.contains '}' = true := by simp [hc]
    rw [h1] at this; cases this

/-- inside a format spec (`recursive = true`) nothing goes through the markup parser: the regenerated
`raw=` arguments say so -/
theorem feed_nested (mk : Str → Except Err Str) (rec : Bool) (s : Str) :
    feedLit mk (Gen.literalRawWith (Gen.nestedRecursiveWith rec)) s = .ok s ∧
    feedLit mk (Gen.formattedRawWith rec) s = .ok s := by
  simp [feedLit, Gen.literalRawWith, Gen.nestedRecursiveWith, Gen.formattedRawWith]

theorem feed_top (mk : Str → Except Err Str) (s : Str) :
    feedLit mk (Gen.literalRawWith false) s = mk s := by
  simp [feedLit, Gen.literalRawWith]

/-- loguru's unconditional recursion into a brace-free spec is the identity, WHATEVER the spec
contains (`<`, `>`, tag-looking text, backslashes) and whatever the markup parser would do with it -/
theorem pwf_noBrace {V} (mk : Str → Except Err Str) (env : Env V) (k : Nat) (rec : Bool) {spec : Str}
    (h : NoBrace spec) (au : Option Nat) :
    pwf mk env (k + 1) (Gen.nestedRecursiveWith rec) spec au = .ok (spec, au) := by
  unfold pwf
  rw [parse_noBrace h]
  cases spec with
  | nil => simp [pwfPieces]
  | cons c cs => simp [pwfPieces, (feed_nested mk rec (c :: cs)).1]

theorem mem_fieldsOf {t : Str} {p : Piece} {f : Field} (hp : p ∈ (parse t).1) (hf : p.field = some f) :
    f ∈ fieldsOf t := by
  unfold fieldsOf
  exact List.mem_filterMap.2 ⟨p, hp, hf⟩

/-- one level: if the spec expansions agree on the fields of `t` and the literal feed leaves `st lit`,
`build_string` on the rewritten pieces and `_parse_with_formatting` agree -/
theorem level_rel {V} (mk : Str → Except Err Str) (env : Env V) (hA : env.hasArgs = true) (d k : Nat)
    (rec : Bool) (st : Str → Str) (t : Str)
    (hL : ∀ p ∈ (parse t).1, feedLit mk (Gen.literalRawWith rec) p.lit = .ok (st p.lit))
    (hs : ∀ f ∈ fieldsOf t, ∀ an au, R an au →
        Rel (if needsExpanding f.spec then buildString env d f.spec an else .ok (f.spec, an))
          (pwf mk env k (Gen.nestedRecursiveWith rec) f.spec au)) :
    ∀ an au, R an au →
      Rel (formatPieces env d ((parse t).1.map (mapLit st), (parse t).2) an) (pwf mk env (k + 1) rec t au) := by
  intro an au r
  have h := pieces_rel env hA (buildString env d) (pwf mk env k (Gen.nestedRecursiveWith rec))
    (feedLit mk (Gen.literalRawWith rec)) (feedLit mk (Gen.formattedRawWith rec)) st (parse t).1 hL
    (fun s => (feed_nested mk rec s).2)
    (fun p hp f hf => hs f (mem_fieldsOf hp hf)) an au r
  unfold formatPieces pwf
  simp only
  cases hr : renderPieces (buildString env d) env ((parse t).1.map (mapLit st)) an with
  | error e => rw [hr] at h; rw [h.error_left]; simp [Rel]
  | ok w =>
    obtain ⟨x, an'⟩ := w
    rw [hr] at h
    obtain ⟨au', e, r'⟩ := h.ok_left
    rw [e]
    by_cases hp : (parse t).2.isSome = true <;> simp [hp, Rel, r']

/-- the coloured path computes what `str.format` computes on the template with its literal texts
replaced by what the markup parser leaves of them (`st`), for templates without a third nesting level;
the markup oracle `mk` is only constrained on the TOP-LEVEL literal texts – format specs reach
`__format__` verbatim whatever they contain -/
theorem colored_rel {V} (mk : Str → Except Err Str) (env : Env V) (hA : env.hasArgs = true)
    (st : Str → Str) (t : Str)
    (hm : ∀ p ∈ (parse t).1, mk p.lit = .ok (st p.lit))
    (h1 : specsOk t = true) (h2 : shallow t = true) :
    Rel (formatPieces env 1 ((parse t).1.map (mapLit st), (parse t).2) .init) (pwf mk env 3 false t (some 0)) := by
  simp only [specsOk, List.all_eq_true, Bool.and_eq_true] at h1
  simp only [shallow, List.all_eq_true, Bool.not_eq_true'] at h2
  refine level_rel mk env hA 1 2 false st t (fun p hp => by rw [feed_top]; exact hm p hp) ?_ .init (some 0) R.init
  intro f hf an au r
  by_cases hn : needsExpanding f.spec = true
  · simp only [hn, if_true]
    have hl := level_rel mk env hA 0 1 (Gen.nestedRecursiveWith false) id f.spec
      (fun p _ => (feed_nested mk false p.lit).1) ?_ an au r
    · rw [map_mapLit_id, ← buildString_succ] at hl; exact hl
    · intro g hg an' au' r'
      have hne := h2 f hf g hg
      have nb := noBrace_of_specOk ((h1 f hf).2 g hg) hne
      rw [pwf_noBrace mk env 0 _ nb, hne]
      simp [Rel, r']
  · have hn' : needsExpanding f.spec = false := by simpa using hn
    have nb := noBrace_of_specOk (h1 f hf).1 hn'
    rw [pwf_noBrace mk env 1 false nb, hn']
    simp [Rel, r]

end Format
