import LoguruModel.Format.Lemmas
/-! `_parse_with_formatting` against the reference `str.format`: the guards under which the two
depth guards coincide, and the simulation lemmas (the auto-numbering rules coincide everywhere since d5e7115). -/
set_option linter.unusedSimpArgs false
namespace Format
open Py Py.Fmt

def fieldsOf (t : Str) : List Field := (parse t).1.filterMap (·.field)

/-- a spec without `{` has no `}` either – true of every spec the parser yields (SpecOk.lean) -/
def specOk (spec : Str) : Bool := spec.contains '{' || !spec.contains '}'

/-- `specOk` on the fields of the template and of its format specs (always true, `specsOk_all`) -/
def specsOk (t : Str) : Bool :=
  (fieldsOf t).all (fun f => specOk f.spec && (fieldsOf f.spec).all (fun g => specOk g.spec))

/-- no third nesting level: a field inside a format spec has no `{` in its own spec -/
def shallow (t : Str) : Bool :=
  (fieldsOf t).all (fun f => (fieldsOf f.spec).all (fun g => !needsExpanding g.spec))

/-- correspondence of the two auto-numbering states -/
inductive R : AN → Option Nat → Prop where
  | init : R .init (some 0)
  | auto (n : Nat) : R (.auto (n + 1)) (some (n + 1))
  | manual : R .manual none

def Rel {α : Type} (a : Except Err (α × AN)) (b : Except Err (α × Option Nat)) : Prop :=
  match a, b with
  | .ok (x, an), .ok (y, au) => x = y ∧ R an au
  | .error e, .error e' => e = e'
  | _, _ => False

/-- the generated rule is the first-component rule of `field_name_split` -/
theorem numberingText_eq (name : Str) : numberingText name = firstOf name := by
  unfold numberingText headOf firstOf
  simp only [Gen.numberingSubject]
  congr 1
  funext c
  by_cases h1 : c = '.' <;> by_cases h2 : c = '[' <;> simp [Gen.headSeparators, notSep, h1, h2]

theorem prefixes : Gen.autoIndexPrefixesName = true := rfl

/-- both numbering rules pick the same object, or fail alike, for EVERY field name -/
theorem head_rel {V} (env : Env V) (hA : env.hasArgs = true) (name : Str)
    (an : AN) (au : Option Nat) (r : R an au) :
    Rel (getFieldObject env an name) (lgGetField env name au) := by
  unfold getFieldObject lgGetField numberField
  rw [numberingText_eq, prefixes]
  cases hfo : firstOf name with
  | nil =>
    have hsp : (fieldNameSplit name).1 = First.name [] := by
      simp [fieldNameSplit, hfo, getInteger, allDigits]
    rw [hsp]
    cases r with
    | init =>
      simp only [lookupFirst, getArg, hA, getFieldSplit, List.isEmpty_nil, if_true]
      cases env.args[0]? with
      | none => simp [Except.map, Rel]
      | some v =>
        simp only [Except.map]
        cases walk env v (fieldNameSplit name).2 with
        | error e => simp [Rel]
        | ok v' => simp [Rel, R.auto 0]
    | auto n =>
      simp only [lookupFirst, getArg, hA, getFieldSplit, List.isEmpty_nil, if_true]
      cases env.args[n + 1]? with
      | none => simp [Except.map, Rel]
      | some v =>
        simp only [Except.map]
        cases walk env v (fieldNameSplit name).2 with
        | error e => simp [Rel]
        | ok v' => simp [Rel, R.auto (n + 1)]
    | manual => simp [lookupFirst, Rel]
  | cons c cs =>
    have hne : (c :: cs).isEmpty = false := rfl
    simp only [hne, Bool.false_eq_true, if_false]
    by_cases hd : allDigits (c :: cs) = true
    · have hsp : (fieldNameSplit name).1 = First.num (digitsVal (c :: cs)) := by
        simp [fieldNameSplit, hfo, getInteger, hd]
      simp only [hd, if_true]
      cases r with
      | init =>
        simp only [hsp, lookupFirst, getArg, hA, getFieldSplit, if_true]
        cases hx : env.args[digitsVal (c :: cs)]? with
        | none => simp [hsp, hx, Except.map, Rel]
        | some v =>
          cases hw : walk env v (fieldNameSplit name).2 with
          | error e => simp [hsp, hx, hw, Except.map, Rel]
          | ok v' => simp [hsp, hx, hw, Except.map, Rel, R.manual]
      | auto n => simp [hsp, lookupFirst, Rel]
      | manual =>
        simp only [hsp, lookupFirst, getArg, hA, getFieldSplit, if_true]
        cases hx : env.args[digitsVal (c :: cs)]? with
        | none => simp [hsp, hx, Except.map, Rel]
        | some v =>
          cases hw : walk env v (fieldNameSplit name).2 with
          | error e => simp [hsp, hx, hw, Except.map, Rel]
          | ok v' => simp [hsp, hx, hw, Except.map, Rel, R.manual]
    · have hd' : allDigits (c :: cs) = false := by simpa using hd
      have hsp : (fieldNameSplit name).1 = First.name (c :: cs) := by
        simp [fieldNameSplit, hfo, getInteger, hd']
      simp only [hd', Bool.false_eq_true, if_false, hsp, lookupFirst, getFieldSplit]
      cases hk : env.kwargs (c :: cs) with
      | error e => simp [hsp, hk, Except.map, Rel]
      | ok v =>
        cases hw : walk env v (fieldNameSplit name).2 with
        | error e => simp [hsp, hk, hw, Except.map, Rel]
        | ok v' => simp [hsp, hk, hw, Except.map, Rel, r]

theorem Rel.error_left {α : Type} {e : Err} {b : Except Err (α × Option Nat)}
    (h : Rel (Except.error e : Except Err (α × AN)) b) : b = .error e := by
  cases b with
  | error e' => simp [Rel] at h; rw [h]
  | ok w => obtain ⟨y, au⟩ := w; simp [Rel] at h

theorem Rel.ok_left {α : Type} {x : α} {an : AN} {b : Except Err (α × Option Nat)}
    (h : Rel (Except.ok (x, an)) b) : ∃ au, b = .ok (x, au) ∧ R an au := by
  cases b with
  | error e' => simp [Rel] at h
  | ok w => obtain ⟨y, au⟩ := w; simp [Rel] at h; exact ⟨au, by rw [h.1], h.2⟩

/-- the two piece loops agree as long as the spec expansions they call agree -/
theorem pieces_rel {V} (env : Env V) (hA : env.hasArgs = true)
    (selfP : Str → AN → Except Err (Str × AN))
    (selfL : Str → Option Nat → Except Err (Str × Option Nat))
    (ps : List Piece)
    (hs : ∀ p ∈ ps, ∀ f, p.field = some f → ∀ an au, R an au →
        Rel (if needsExpanding f.spec then selfP f.spec an else .ok (f.spec, an)) (selfL f.spec au)) :
    ∀ an au, R an au → Rel (renderPieces selfP env ps an) (pwfPieces selfL env ps au) := by
  induction ps with
  | nil => intro an au r; simp [renderPieces, pwfPieces, Rel, r]
  | cons p ps ih =>
    intro an au r
    have ih' := ih (fun q hq => hs q (List.mem_cons_of_mem _ hq))
    unfold renderPieces pwfPieces
    cases hf : p.field with
    | none =>
      simp only
      have h3 := ih' an au r
      cases hr : renderPieces selfP env ps an with
      | error e => rw [hr] at h3; rw [h3.error_left]; simp [Rel]
      | ok w =>
        obtain ⟨x, an'⟩ := w
        rw [hr] at h3
        obtain ⟨au', e, r'⟩ := h3.ok_left
        rw [e]; simp [Rel, r']
    | some f =>
      simp only
      have h1 := head_rel env hA f.name an au r
      cases hg : getFieldObject env an f.name with
      | error e => rw [hg] at h1; rw [h1.error_left]; simp [Rel]
      | ok w =>
        obtain ⟨v, an1⟩ := w
        rw [hg] at h1
        obtain ⟨au1, e1, r1⟩ := h1.ok_left
        rw [e1]; simp only
        cases hc : doConv env f.conv v with
        | error e => simp [Rel]
        | ok v2 =>
          simp only
          have h2 := hs p (List.mem_cons_self ..) f hf an1 au1 r1
          cases hx : (if needsExpanding f.spec then selfP f.spec an1 else .ok (f.spec, an1)) with
          | error e => rw [hx] at h2; rw [h2.error_left]; simp [Rel]
          | ok w2 =>
            obtain ⟨spec, an2⟩ := w2
            rw [hx] at h2
            obtain ⟨au2, e2, r2⟩ := h2.ok_left
            rw [e2]; simp only
            cases hfm : env.format v2 spec with
            | error e => simp [Rel]
            | ok sfm =>
              simp only
              have h3 := ih' an2 au2 r2
              cases hr : renderPieces selfP env ps an2 with
              | error e => rw [hr] at h3; rw [h3.error_left]; simp [Rel]
              | ok w3 =>
                obtain ⟨x, an3⟩ := w3
                rw [hr] at h3
                obtain ⟨au3, e3, r3⟩ := h3.ok_left
                rw [e3]; simp [Rel, r3]

theorem parse_noBrace {s : Str} (h : NoBrace s) :
    parse s = ((match s with | [] => [] | _ :: _ => [{ lit := s, field := none }]), none) := by
  cases s with
  | nil => rfl
  | cons c cs => unfold parse parseFuel; rw [scanLit_noBrace h]

theorem noBrace_of_specOk {spec : Str} (h1 : specOk spec = true) (h2 : needsExpanding spec = false) :
    NoBrace spec := by
  simp only [needsExpanding] at h2
  simp only [specOk, h2, Bool.false_or, Bool.not_eq_true'] at h1
  intro c hc
  constructor
  · intro e; subst e
    have : spec.contains '{' = true := by simp [hc]
    rw [h2] at this; cases this
  · intro e; subst e
    have : spec.contains '}' = true := by simp [hc]
    rw [h1] at this; cases this

/-- loguru's unconditional recursion into a brace-free spec is the identity -/
theorem pwf_noBrace {V} (env : Env V) (k : Nat) {spec : Str} (h : NoBrace spec) (au : Option Nat) :
    pwf env (k + 1) spec au = .ok (spec, au) := by
  unfold pwf
  rw [parse_noBrace h]
  cases spec <;> simp [pwfPieces]

theorem mem_fieldsOf {t : Str} {p : Piece} {f : Field} (hp : p ∈ (parse t).1) (hf : p.field = some f) :
    f ∈ fieldsOf t := by
  unfold fieldsOf
  exact List.mem_filterMap.2 ⟨p, hp, hf⟩

/-- one level: if the spec expansions agree on the fields of `t`, so do `build_string` and `_parse_with_formatting` -/
theorem level_rel {V} (env : Env V) (hA : env.hasArgs = true) (d k : Nat) (t : Str)
    (hs : ∀ f ∈ fieldsOf t, ∀ an au, R an au →
        Rel (if needsExpanding f.spec then buildString env d f.spec an else .ok (f.spec, an)) (pwf env k f.spec au)) :
    ∀ an au, R an au → Rel (buildString env (d + 1) t an) (pwf env (k + 1) t au) := by
  intro an au r
  have h := pieces_rel env hA (buildString env d) (pwf env k) (parse t).1
    (fun p hp f hf => hs f (mem_fieldsOf hp hf)) an au r
  unfold buildString pwf
  cases hr : renderPieces (buildString env d) env (parse t).1 an with
  | error e => rw [hr] at h; rw [h.error_left]; simp [Rel]
  | ok w =>
    obtain ⟨x, an'⟩ := w
    rw [hr] at h
    obtain ⟨au', e, r'⟩ := h.ok_left
    rw [e]
    by_cases hp : (parse t).2.isSome = true <;> simp [hp, Rel, r']

/-- the coloured path computes what `str.format` computes on templates without a third nesting level -/
theorem colored_rel {V} (env : Env V) (hA : env.hasArgs = true) (t : Str)
    (h1 : specsOk t = true) (h2 : shallow t = true) :
    Rel (buildString env 2 t .init) (pwf env 3 t (some 0)) := by
  simp only [specsOk, List.all_eq_true, Bool.and_eq_true] at h1
  simp only [shallow, List.all_eq_true, Bool.not_eq_true'] at h2
  refine level_rel env hA 1 2 t ?_ .init (some 0) R.init
  intro f hf an au r
  by_cases hn : needsExpanding f.spec = true
  · simp only [hn, if_true]
    refine level_rel env hA 0 1 f.spec ?_ an au r
    intro g hg an' au' r'
    have hne := h2 f hf g hg
    have nb := noBrace_of_specOk ((h1 f hf).2 g hg) hne
    rw [pwf_noBrace env 0 nb, hne]
    simp [Rel, r']
  · have hn' : needsExpanding f.spec = false := by simpa using hn
    have nb := noBrace_of_specOk (h1 f hf).1 hn'
    rw [pwf_noBrace env 1 nb, hn']
    simp [Rel, r]

end Format
