import LoguruModel.Format.Model
/-!
Round 5 – `Handler.emit` between the arrival of the record and `formatted`:

* the coloured message handed over by `Logger._log` is DISCARDED when a patcher (or a dynamic format
  function, or a filter) replaced `record["message"]` meanwhile (`Gen.cmDropped`, regenerated);
* a dynamic format is prepared through `functools.lru_cache(maxsize=Gen.memoizeMaxsize)`: `Lru` is that
  cache (hit → move to front, miss → compute, insert, evict the least recently used entry; a failing
  computation is not cached), and `dynEmit`/`dynRun` run any history of records through one handler.

`ColoredMsg.colorized` – what `colored_message.colorize(ansi_level)` returns – is an oracle (area Markup).
-/
namespace Format
open Py Py.Fmt

/-- the `ColoredMessage` of a coloured call: its stripped text and its rendering with ANSI codes (oracle) -/
structure ColoredMsg where
  stripped : Str
  colorized : Str
  deriving DecidableEq, Repr

/-- `colored_message is None` when the formatting chain of `emit` starts -/
def cmNoneAtChain (cm : Option ColoredMsg) (recMessage : Str) : Bool :=
  match cm with
  | none => true
  | some c => Gen.cmDropped true (c.stripped != recMessage)

/-- `formatted` of `Handler.emit` for the record message `recMessage` (what `record["message"]` holds when
the handler runs – after the patchers), the coloured message `cm` of the call (if any) and the prepared
format `fmt` of the branch taken -/
def emitFull {V} (record : Env V) (recMessage : Str) (cm : Option ColoredMsg) (isRaw dynamic colorize : Bool)
    (fmt : Str) : Except Err Str :=
  match Gen.emitBranch isRaw dynamic colorize (cmNoneAtChain cm recMessage) with
  | .rawMessage => .ok recMessage
  | .rawColored => (match cm with | some c => .ok c.colorized | none => .ok recMessage)
  | .formatMap _ _ => strFormat record fmt

/-! ### the memoised preparation of dynamic formats -/

/-- `functools.lru_cache(maxsize)` as a most-recently-used-first association list -/
def lruGet {K R : Type} [DecidableEq K] (maxsize : Nat) (f : K → Except Err R) (cache : List (K × R)) (k : K) :
    Except Err (R × List (K × R)) :=
  match cache.find? (fun p => p.1 = k) with
  | some p => .ok (p.2, (k, p.2) :: cache.filter (fun q => q.1 ≠ k))
  | none =>
    match f k with
    | .error e => .error e
    | .ok r => .ok (r, ((k, r) :: cache).take maxsize)

/-- one record through a dynamic-format handler (`colorize = False`): the format function's template for
this record is prepared through the cache, then `format_map` is applied over the record -/
def dynEmit {V} (mk : Str → Except Err Str) (cache : List (Str × Str)) (record : Env V) (template : Str) :
    Except Err Str × List (Str × Str) :=
  match lruGet Gen.memoizeMaxsize (prepareFormat mk) cache template with
  | .error e => (.error e, cache)
  | .ok (fmt, cache') => (strFormat record fmt, cache')

/-- any history of records (each with the template the format function returns for it) through ONE handler -/
def dynRun {V} (mk : Str → Except Err Str) : List (Env V × Str) → List (Str × Str) → List (Except Err Str)
  | [], _ => []
  | (record, template) :: rest, cache =>
    (dynEmit mk cache record template).1 :: dynRun mk rest (dynEmit mk cache record template).2

end Format
