import LoguruModel.Format.Model
/-! helper lemmas for Props/C05: re-scanning lemmas of the CPython field parser -/
namespace Format
open Py Py.Fmt

def NoBrace (s : Str) : Prop := ∀ c ∈ s, c ≠ '{' ∧ c ≠ '}'

theorem NoBrace.nil : NoBrace [] := by intro c h; cases h

theorem NoBrace.cons {c : Char} {s : Str} (h1 : c ≠ '{') (h2 : c ≠ '}') (h : NoBrace s) : NoBrace (c :: s) := by
  intro d hd
  cases hd with
  | head => exact ⟨h1, h2⟩
  | tail _ hd => exact h d hd

theorem NoBrace.tail {c : Char} {s : Str} (h : NoBrace (c :: s)) : NoBrace s :=
  fun d hd => h d (List.mem_cons_of_mem _ hd)

/-! ### literal scan -/

theorem scanLit_done {s l : Str} (h : scanLit s = .done l) : l = s ∧ NoBrace s := by
  induction s generalizing l with
  | nil => simp [scanLit] at h; subst h; exact ⟨rfl, NoBrace.nil⟩
  | cons c cs ih =>
    unfold scanLit at h
    split at h
    · split at h <;> (try split at h) <;> simp at h
    · split at h
      · split at h <;> (try split at h) <;> simp at h
      · rename_i h1 h2
        cases hr : scanLit cs with
        | done l' =>
          rw [hr] at h; simp [LitRes.push] at h
          obtain ⟨e, nb⟩ := ih hr
          subst h; subst e
          exact ⟨rfl, NoBrace.cons h1 h2 nb⟩
        | esc _ _ => rw [hr] at h; simp [LitRes.push] at h
        | field _ _ => rw [hr] at h; simp [LitRes.push] at h
        | err _ => rw [hr] at h; simp [LitRes.push] at h

theorem scanLit_esc {s l r : Str} (h : scanLit s = .esc l r) :
    ∃ l0 b, l = l0 ++ [b] ∧ (b = '{' ∨ b = '}') ∧ NoBrace l0 ∧ s = l0 ++ b :: b :: r := by
  induction s generalizing l with
  | nil => simp [scanLit] at h
  | cons c cs ih =>
    unfold scanLit at h
    split at h
    · rename_i hc
      split at h
      · simp at h
      · split at h
        · rename_i hd
          simp at h; obtain ⟨h1, h2⟩ := h
          subst hc; subst hd; subst h1; subst h2
          exact ⟨[], '{', rfl, Or.inl rfl, NoBrace.nil, rfl⟩
        · simp at h
    · split at h
      · rename_i hc
        split at h
        · simp at h
        · split at h
          · rename_i hd
            simp at h; obtain ⟨h1, h2⟩ := h
            subst hc; subst hd; subst h1; subst h2
            exact ⟨[], '}', rfl, Or.inr rfl, NoBrace.nil, rfl⟩
          · simp at h
      · rename_i h1 h2
        cases hr : scanLit cs with
        | esc l' r' =>
          rw [hr] at h; simp [LitRes.push] at h
          obtain ⟨ha, hb'⟩ := h
          subst ha; subst hb'
          obtain ⟨l0, b, e1, hb, nb, e2⟩ := ih hr
          subst e1; subst e2
          exact ⟨c :: l0, b, rfl, hb, NoBrace.cons h1 h2 nb, rfl⟩
        | done _ => rw [hr] at h; simp [LitRes.push] at h
        | field _ _ => rw [hr] at h; simp [LitRes.push] at h
        | err _ => rw [hr] at h; simp [LitRes.push] at h

theorem scanLit_field {s l r : Str} (h : scanLit s = .field l r) :
    NoBrace l ∧ s = l ++ '{' :: r ∧ ∃ d ds, r = d :: ds ∧ d ≠ '{' := by
  induction s generalizing l with
  | nil => simp [scanLit] at h
  | cons c cs ih =>
    unfold scanLit at h
    split at h
    · rename_i hc
      split at h
      · simp at h
      · split at h
        · simp at h
        · rename_i d ds hd
          simp at h; obtain ⟨h1, h2⟩ := h
          subst hc; subst h1; subst h2
          exact ⟨NoBrace.nil, rfl, d, ds, rfl, hd⟩
    · split at h
      · split at h
        · simp at h
        · split at h <;> simp at h
      · rename_i h1 h2
        cases hr : scanLit cs with
        | field l' r' =>
          rw [hr] at h; simp [LitRes.push] at h
          obtain ⟨ha, hb'⟩ := h
          subst ha; subst hb'
          obtain ⟨nb, e2, hd⟩ := ih hr
          subst e2
          exact ⟨NoBrace.cons h1 h2 nb, rfl, hd⟩
        | done _ => rw [hr] at h; simp [LitRes.push] at h
        | esc _ _ => rw [hr] at h; simp [LitRes.push] at h
        | err _ => rw [hr] at h; simp [LitRes.push] at h

theorem scanLit_noBrace {l : Str} (h : NoBrace l) : scanLit l = .done l := by
  induction l with
  | nil => rfl
  | cons c cs ih =>
    have hc := h c (List.mem_cons_self ..)
    unfold scanLit
    simp [hc.1, hc.2, ih h.tail, LitRes.push]

theorem scanLit_reesc {l0 : Str} (h : NoBrace l0) (b : Char) (hb : b = '{' ∨ b = '}') (X : Str) :
    scanLit (l0 ++ b :: b :: X) = .esc (l0 ++ [b]) X := by
  induction l0 with
  | nil => rcases hb with hb | hb <;> subst hb <;> simp [scanLit]
  | cons c cs ih =>
    have hc := h c (List.mem_cons_self ..)
    simp only [List.cons_append]
    unfold scanLit
    simp [hc.1, hc.2, ih h.tail, LitRes.push]

theorem scanLit_refield {l : Str} (h : NoBrace l) (d : Char) (ds : Str) (hd : d ≠ '{') :
    scanLit (l ++ '{' :: d :: ds) = .field l (d :: ds) := by
  induction l with
  | nil => simp [scanLit, hd]
  | cons c cs ih =>
    have hc := h c (List.mem_cons_self ..)
    simp only [List.cons_append]
    unfold scanLit
    simp [hc.1, hc.2, ih h.tail, LitRes.push]

/-! ### field name / spec scans -/

theorem scanName_rescan {b : Bool} {s n r : Str} {t : Char} (h : scanName b s = .ok (n, t, r)) :
    isTerm t = true ∧ r.length < s.length ∧
    ∀ (t' : Char) (r' : Str), isTerm t' = true → scanName b (n ++ t' :: r') = .ok (n, t', r') := by
  induction s generalizing b n with
  | nil => simp [scanName] at h
  | cons c cs ih =>
    unfold scanName at h
    split at h
    · -- inside brackets
      rename_i hb
      cases hr : scanName (c != ']') cs with
      | error e => rw [hr] at h; simp [push3] at h
      | ok v =>
        obtain ⟨n', t0, r0⟩ := v
        rw [hr] at h; simp [push3] at h
        obtain ⟨e1, e2, e3⟩ := h
        subst e1; subst e2; subst e3
        obtain ⟨ht, hl, hre⟩ := ih hr
        refine ⟨ht, by simp; omega, ?_⟩
        intro t' r' ht'
        simp only [List.cons_append]
        unfold scanName
        simp [hb, hre t' r' ht', push3]
    · rename_i hb
      split at h
      · simp at h
      · rename_i hc
        split at h
        · rename_i hterm
          simp at h
          obtain ⟨e1, e2, e3⟩ := h
          subst e1; subst e2; subst e3
          refine ⟨hterm, by simp, ?_⟩
          intro t' r' ht'
          have : t' ≠ '{' := by
            intro e; subst e; simp [isTerm] at ht'
          simp [scanName, hb, this, ht']
        · rename_i hterm
          cases hr : scanName (c == '[') cs with
          | error e => rw [hr] at h; simp [push3] at h
          | ok v =>
            obtain ⟨n', t0, r0⟩ := v
            rw [hr] at h; simp [push3] at h
            obtain ⟨e1, e2, e3⟩ := h
            subst e1; subst e2; subst e3
            obtain ⟨ht, hl, hre⟩ := ih hr
            refine ⟨ht, by simp; omega, ?_⟩
            intro t' r' ht'
            simp only [List.cons_append]
            unfold scanName
            simp [hb, hc, hterm, hre t' r' ht', push3]

/-- a field name never starts with `{` -/
theorem scanName_head {s n r : Str} {t : Char} (h : scanName false s = .ok (n, t, r)) :
    ∀ c cs, n = c :: cs → c ≠ '{' := by
  intro c cs hn
  cases s with
  | nil => simp [scanName] at h
  | cons d ds =>
    unfold scanName at h
    simp only [Bool.false_eq_true, if_false] at h
    split at h
    · simp at h
    · rename_i hd
      split at h
      · simp at h; rw [h.1] at hn; cases hn
      · cases hr : scanName (d == '[') ds with
        | error e => rw [hr] at h; simp [push3] at h
        | ok v =>
          rw [hr] at h; simp [push3] at h
          rw [← h.1] at hn
          simp at hn
          rw [← hn.1]; exact hd

theorem scanSpec_rescan {e : Nat} {s sp r : Str} (h : scanSpec e s = .ok (sp, r)) :
    r.length < s.length ∧ ∀ r', scanSpec e (sp ++ '}' :: r') = .ok (sp, r') := by
  induction s generalizing e sp with
  | nil => simp [scanSpec] at h
  | cons c cs ih =>
    unfold scanSpec at h
    split at h
    · rename_i hc
      cases hr : scanSpec (e + 1) cs with
      | error _ => rw [hr] at h; simp [push2] at h
      | ok v =>
        rw [hr] at h; simp [push2] at h
        obtain ⟨e1, e2⟩ := h
        subst e1; subst e2
        obtain ⟨hl, hre⟩ := ih hr
        refine ⟨by simp; omega, ?_⟩
        intro r'
        simp only [List.cons_append]
        unfold scanSpec
        simp [hc, hre r', push2]
    · rename_i hc
      split at h
      · rename_i hc2
        split at h
        · simp at h
          obtain ⟨e1, e2⟩ := h
          subst e1; subst e2
          refine ⟨by simp, ?_⟩
          intro r'
          simp [scanSpec]
        · rename_i e'
          cases hr : scanSpec e' cs with
          | error _ => rw [hr] at h; simp [push2] at h
          | ok v =>
            rw [hr] at h; simp [push2] at h
            obtain ⟨e1, e2⟩ := h
            subst e1; subst e2
            obtain ⟨hl, hre⟩ := ih hr
            refine ⟨by simp; omega, ?_⟩
            intro r'
            simp only [List.cons_append]
            unfold scanSpec
            simp [hc2, hre r', push2]
      · rename_i hc2
        cases hr : scanSpec e cs with
        | error _ => rw [hr] at h; simp [push2] at h
        | ok v =>
          rw [hr] at h; simp [push2] at h
          obtain ⟨e1, e2⟩ := h
          subst e1; subst e2
          obtain ⟨hl, hre⟩ := ih hr
          refine ⟨by simp; omega, ?_⟩
          intro r'
          simp only [List.cons_append]
          unfold scanSpec
          simp [hc, hc2, hre r', push2]

/-! ### the re-assembled field -/

/-- the field text after its opening brace: `name[!c][:spec]}` -/
def fieldBody (f : Field) : Str :=
  f.name ++ ((match f.conv with | some c => ['!', c] | none => []) ++
    ((if f.spec.isEmpty then [] else ':' :: f.spec) ++ ['}']))

/-- what the generated assembly order (`Gen.fieldParts`) produces -/
theorem reserField_eq (f : Field) : reserField f = '{' :: fieldBody f := by
  obtain ⟨name, spec, conv⟩ := f
  cases conv <;> cases spec <;>
    simp [reserField, Gen.fieldParts, evalPart, slotTruthy, slotText, fieldBody]

theorem fieldBody_head (f : Field) (hn : ∀ c cs, f.name = c :: cs → c ≠ '{') :
    ∃ d ds, fieldBody f = d :: ds ∧ d ≠ '{' := by
  obtain ⟨name, spec, conv⟩ := f
  cases name with
  | cons c cs => exact ⟨c, _, rfl, hn c cs rfl⟩
  | nil =>
    cases conv with
    | some c => exact ⟨'!', _, rfl, by decide⟩
    | none =>
      cases spec with
      | nil => exact ⟨'}', _, rfl, by decide⟩
      | cons a as => exact ⟨':', _, rfl, by decide⟩

theorem mkConv_some {c d : Char} (h : mkConv c = some d) : d = c ∧ mkConv d = some d := by
  unfold mkConv at h
  split at h
  · simp at h
  · simp at h; subst h; simp [mkConv, *]

theorem parseField_rescan {s r : Str} {f : Field} (h : parseField s = .ok (f, r)) :
    r.length < s.length ∧ (∀ c cs, f.name = c :: cs → c ≠ '{') ∧
    ∀ r', parseField (fieldBody f ++ r') = .ok (f, r') := by
  unfold parseField at h
  cases hn : scanName false s with
  | error e => rw [hn] at h; simp at h
  | ok v =>
    obtain ⟨name, t, rest⟩ := v
    rw [hn] at h
    simp only at h
    obtain ⟨ht, hl, hre⟩ := scanName_rescan hn
    have hhead := scanName_head hn
    split at h
    · -- `}`
      simp at h; obtain ⟨e1, e2⟩ := h; subst e1; subst e2
      refine ⟨hl, hhead, ?_⟩
      intro r'
      simp [fieldBody, parseField, hre '}' r' (by decide)]
    · split at h
      · -- `:`
        cases hs : scanSpec 0 rest with
        | error e => rw [hs] at h; simp at h
        | ok w =>
          obtain ⟨spec, rest'⟩ := w
          rw [hs] at h; simp at h; obtain ⟨e1, e2⟩ := h; subst e1; subst e2
          obtain ⟨hl2, hre2⟩ := scanSpec_rescan hs
          refine ⟨by omega, hhead, ?_⟩
          intro r'
          cases spec with
          | nil => simp [fieldBody, parseField, hre '}' r' (by decide)]
          | cons a as =>
            have := hre ':' ((a :: as) ++ '}' :: r') (by decide)
            simp [fieldBody, parseField] at this ⊢
            have h2 := hre2 r'
            simp only [List.cons_append] at h2
            simp [this, h2]
      · -- `!`
        split at h
        · simp at h
        · split at h
          · simp at h
          · rename_i cv r1 d r2
            split at h
            · simp at h; obtain ⟨e1, e2⟩ := h; subst e1; subst e2
              refine ⟨by simp at hl ⊢; omega, hhead, ?_⟩
              intro r'
              cases hc : mkConv cv with
              | none => simp [fieldBody, parseField, hre '}' r' (by decide)]
              | some c' =>
                obtain ⟨e, hc'⟩ := mkConv_some hc
                subst e
                have := hre '!' (c' :: '}' :: r') (by decide)
                simp [fieldBody, parseField] at this ⊢
                simp [this, hc]
            · split at h
              · cases hs : scanSpec 0 r2 with
                | error e => rw [hs] at h; simp at h
                | ok w =>
                  obtain ⟨spec, rest'⟩ := w
                  rw [hs] at h; simp at h; obtain ⟨e1, e2⟩ := h; subst e1; subst e2
                  obtain ⟨hl2, hre2⟩ := scanSpec_rescan hs
                  refine ⟨by simp at hl hl2 ⊢; omega, hhead, ?_⟩
                  intro r'
                  cases hc : mkConv cv with
                  | none =>
                    cases spec with
                    | nil => simp [fieldBody, parseField, hre '}' r' (by decide)]
                    | cons a as =>
                      have := hre ':' ((a :: as) ++ '}' :: r') (by decide)
                      simp [fieldBody, parseField] at this ⊢
                      have h2 := hre2 r'
                      simp only [List.cons_append] at h2
                      simp [this, h2]
                  | some c' =>
                    obtain ⟨e, hc'⟩ := mkConv_some hc
                    subst e
                    cases spec with
                    | nil =>
                      have := hre '!' (c' :: '}' :: r') (by decide)
                      simp [fieldBody, parseField] at this ⊢
                      simp [this, hc]
                    | cons a as =>
                      have := hre '!' (c' :: ':' :: ((a :: as) ++ '}' :: r')) (by decide)
                      simp [fieldBody, parseField] at this ⊢
                      have h2 := hre2 r'
                      simp only [List.cons_append] at h2
                      simp [this, h2, hc]
              · simp at h

/-! ### brace doubling and the whole round trip -/

theorem doubled_mem (c : Char) : c ∈ Gen.doubledChars ↔ (c = '{' ∨ c = '}') := by
  simp [Gen.doubledChars]

theorem doubleLast_noBrace {l : Str} (h : NoBrace l) : doubleLast l = l := by
  induction l with
  | nil => rfl
  | cons c cs ih =>
    cases cs with
    | nil =>
      have hc := h c (List.mem_cons_self ..)
      have : ¬ (c ∈ Gen.doubledChars) := by
        rw [doubled_mem]; intro hh; rcases hh with hh | hh
        · exact hc.1 hh
        · exact hc.2 hh
      simp [doubleLast, this]
    | cons d ds => simp [doubleLast, ih h.tail]

theorem doubleLast_brace {l0 : Str} (h : NoBrace l0) (b : Char) (hb : b = '{' ∨ b = '}') :
    doubleLast (l0 ++ [b]) = l0 ++ [b, b] := by
  induction l0 with
  | nil => simp [doubleLast, (doubled_mem b).2 hb]
  | cons c cs ih =>
    cases cs with
    | nil => simp [doubleLast, (doubled_mem b).2 hb]
    | cons d ds =>
      have := ih h.tail
      simp only [List.cons_append] at this ⊢
      simp [doubleLast, this]

theorem reparse_fuel : ∀ (n : Nat) (s : Str), s.length < n → ∀ ps, parseFuel n s = (ps, none) →
    ∀ m, (reserialize ps).length < m → parseFuel m (reserialize ps) = (ps, none) := by
  intro n
  induction n with
  | zero => intro s h; omega
  | succ n ih =>
    intro s hlen ps hp m hm
    cases m with
    | zero => omega
    | succ m =>
    unfold parseFuel at hp
    cases hs : scanLit s with
    | err e => rw [hs] at hp; simp at hp
    | done l =>
      rw [hs] at hp
      obtain ⟨e, nb⟩ := scanLit_done hs
      subst e
      cases l with
      | nil =>
        simp at hp; subst hp
        simp [reserialize, parseFuel, scanLit]
      | cons c cs =>
        simp at hp; subst hp
        simp only [reserialize, reserPiece, List.append_nil, doubleLast_noBrace nb]
        unfold parseFuel
        rw [scanLit_noBrace nb]
    | esc l r =>
      rw [hs] at hp; simp only at hp
      obtain ⟨l0, b, e1, hb, nb, e2⟩ := scanLit_esc hs
      cases hr : parseFuel n r with
      | mk ps' e' =>
        rw [hr] at hp
        simp [consP] at hp
        obtain ⟨hp1, hp2⟩ := hp
        subst hp1; subst hp2; subst e1
        have hrl : r.length < n := by subst e2; simp at hlen; omega
        simp only [reserialize, reserPiece, List.append_nil, doubleLast_brace nb b hb] at hm ⊢
        have hm' : (reserialize ps').length < m := by simp at hm; omega
        have := ih r hrl ps' hr m hm'
        unfold parseFuel
        have e : l0 ++ [b, b] ++ reserialize ps' = l0 ++ b :: b :: reserialize ps' := by simp
        rw [e, scanLit_reesc nb b hb]
        simp [consP, this]
    | field l r =>
      rw [hs] at hp; simp only at hp
      obtain ⟨nb, e2, d, ds, hd, hne⟩ := scanLit_field hs
      cases hf : parseField r with
      | error e => rw [hf] at hp; simp at hp
      | ok v =>
        obtain ⟨f, r'⟩ := v
        rw [hf] at hp; simp only at hp
        cases hr : parseFuel n r' with
        | mk ps' e' =>
          rw [hr] at hp
          simp [consP] at hp
          obtain ⟨hp1, hp2⟩ := hp
          subst hp1; subst hp2
          obtain ⟨hl, hhead, hre⟩ := parseField_rescan hf
          have hrl : r'.length < n := by subst e2; simp at hlen; omega
          obtain ⟨d', ds', hbody, hd'⟩ := fieldBody_head f hhead
          simp only [reserialize, reserPiece, reserField_eq, doubleLast_noBrace nb] at hm ⊢
          have hm' : (reserialize ps').length < m := by simp at hm; omega
          have := ih r' hrl ps' hr m hm'
          unfold parseFuel
          have e : l ++ '{' :: fieldBody f ++ reserialize ps' = l ++ '{' :: d' :: (ds' ++ reserialize ps') := by
            simp [hbody]
          rw [e, scanLit_refield nb d' _ hd']
          have e3 : d' :: (ds' ++ reserialize ps') = fieldBody f ++ reserialize ps' := by simp [hbody]
          simp only [e3, hre (reserialize ps')]
          simp [consP, this]

/-! ### what reaches the markup parser in `_parse_without_formatting` -/

/-- inside a format spec every text is handed over verbatim (regenerated `raw=` arguments) -/
theorem feedsOk_nested (mk : Str → Except Err Str) : ∀ (d : Nat) (t : Str), feedsOk mk d true t = true := by
  intro d
  induction d with
  | zero => intro t; rfl
  | succ d ih =>
    intro t
    simp only [feedsOk, List.all_eq_true]
    intro p _
    cases hf : p.field with
    | none => simp [feedLit, okB, Gen.literalRawWithout]
    | some f =>
      have := ih f.spec
      simp [feedLit, okB, Gen.literalRawWithout, Gen.fieldRawWithout, Gen.nestedRecursiveWithout, this]

/-- a template whose (brace-doubled) top-level literal texts the markup parser leaves untouched -/
def MarkupFree (mk : Str → Except Err Str) (t : Str) : Prop :=
  ∀ p ∈ (parse t).1, mk (doubleLast p.lit) = .ok (doubleLast p.lit)

theorem feedsOk_markupFree (mk : Str → Except Err Str) (d : Nat) (t : Str) (h : MarkupFree mk t) :
    feedsOk mk (d + 1) false t = true := by
  simp only [feedsOk, List.all_eq_true]
  intro p hp
  have hl : feedLit mk (Gen.literalRawWithout false) (doubleLast p.lit) = .ok (doubleLast p.lit) := by
    simp [feedLit, Gen.literalRawWithout, h p hp]
  rw [hl]
  cases hf : p.field with
  | none => simp [okB]
  | some f =>
    have := feedsOk_nested mk d f.spec
    simp [okB, feedLit, Gen.fieldRawWithout, Gen.nestedRecursiveWithout, this]

theorem reserializeM_markupFree (mk : Str → Except Err Str) (ps : List Piece)
    (h : ∀ p ∈ ps, mk (doubleLast p.lit) = .ok (doubleLast p.lit)) : reserializeM mk ps = reserialize ps := by
  induction ps with
  | nil => rfl
  | cons p ps ih =>
    have hp := h p (List.mem_cons_self ..)
    have := ih (fun q hq => h q (List.mem_cons_of_mem _ hq))
    cases hf : p.field <;>
      simp [reserializeM, reserialize, reserPieceM, reserPiece, fedText, feedLit, Gen.literalRawWithout,
        Gen.fieldRawWithout, hp, hf, this]

end Format
