import LoguruModel.Format.Colored
/-! every format spec the parser yields is brace-balanced: without `{` it has no `}` (`specOk`), so the
guard of the coloured theorem does not need to mention it -/
namespace Format
open Py Py.Fmt

theorem scanSpec_count {e : Nat} {s sp r : Str} (h : scanSpec e s = .ok (sp, r))
    (hn : sp.contains '{' = false) : sp.count '}' = e := by
  induction s generalizing e sp with
  | nil => simp [scanSpec] at h
  | cons c cs ih =>
    unfold scanSpec at h
    split at h
    · rename_i hc
      cases hr : scanSpec (e + 1) cs with
      | error _ => rw [hr] at h; simp [push2] at h
      | ok v =>
        rw [hr] at h; simp [push2] at h
        obtain ⟨e1, _⟩ := h
        subst e1; subst hc
        simp at hn
    · rename_i hc
      split at h
      · rename_i hc2
        split at h
        · simp at h; rw [h.1]; rfl
        · rename_i e'
          cases hr : scanSpec e' cs with
          | error _ => rw [hr] at h; simp [push2] at h
          | ok v =>
            obtain ⟨sp', r'⟩ := v
            rw [hr] at h; simp [push2] at h
            obtain ⟨e1, e2⟩ := h
            subst e1; subst hc2; subst e2
            have hn' : sp'.contains '{' = false := by
              simp at hn ⊢; exact hn
            have := ih hr hn'
            simp [this]
      · rename_i hc2
        cases hr : scanSpec e cs with
        | error _ => rw [hr] at h; simp [push2] at h
        | ok v =>
          obtain ⟨sp', r'⟩ := v
          rw [hr] at h; simp [push2] at h
          obtain ⟨e1, e2⟩ := h
          subst e1; subst e2
          have hn' : sp'.contains '{' = false := by
            simp at hn ⊢; exact hn.2
          have := ih hr hn'
          rw [List.count_cons_of_ne (by exact fun e => hc2 e)]
          exact this

theorem specOk_of_scanSpec {s sp r : Str} (h : scanSpec 0 s = .ok (sp, r)) : specOk sp = true := by
  unfold specOk
  cases hc : sp.contains '{' with
  | true => rfl
  | false =>
    have := scanSpec_count h hc
    simp only [Bool.false_or, Bool.not_eq_true']
    cases hb : sp.contains '}' with
    | false => rfl
    | true =>
      have hm : '}' ∈ sp := by simpa using hb
      have := List.count_pos_iff.2 hm
      omega

theorem specOk_of_parseField {s r : Str} {f : Field} (h : parseField s = .ok (f, r)) : specOk f.spec = true := by
  unfold parseField at h
  cases hn : scanName false s with
  | error e => rw [hn] at h; simp at h
  | ok v =>
    obtain ⟨name, t, rest⟩ := v
    rw [hn] at h
    simp only at h
    split at h
    · simp at h; rw [← h.1]; rfl
    · split at h
      · cases hs : scanSpec 0 rest with
        | error e => rw [hs] at h; simp at h
        | ok w =>
          rw [hs] at h; simp at h; rw [← h.1]; exact specOk_of_scanSpec hs
      · split at h
        · simp at h
        · split at h
          · simp at h
          · rename_i cv r1 d r2
            split at h
            · simp at h; rw [← h.1]; rfl
            · split at h
              · cases hs : scanSpec 0 r2 with
                | error e => rw [hs] at h; simp at h
                | ok w =>
                  rw [hs] at h; simp at h; rw [← h.1]; exact specOk_of_scanSpec hs
              · simp at h

theorem specOk_of_parseFuel : ∀ (n : Nat) (s : Str) (p : Piece) (f : Field),
    p ∈ (parseFuel n s).1 → p.field = some f → specOk f.spec = true := by
  intro n
  induction n with
  | zero => intro s p f hp; simp [parseFuel] at hp
  | succ n ih =>
    intro s p f hp hf
    unfold parseFuel at hp
    split at hp
    · simp at hp
    · simp at hp; subst hp; simp at hf
    · simp [consP] at hp
      rcases hp with hp | hp
      · subst hp; simp at hf
      · exact ih _ p f hp hf
    · split at hp
      · rename_i f' r' hpf
        simp [consP] at hp
        rcases hp with hp | hp
        · subst hp; simp at hf; subst hf; exact specOk_of_parseField hpf
        · exact ih _ p f hp hf
      · simp at hp
    · simp at hp

theorem specOk_of_mem {t : Str} {f : Field} (h : f ∈ fieldsOf t) : specOk f.spec = true := by
  unfold fieldsOf at h
  obtain ⟨p, hp, hf⟩ := List.mem_filterMap.1 h
  exact specOk_of_parseFuel _ t p f hp hf

/-- the parser invariant the simulation needs holds for every template -/
theorem specsOk_all (t : Str) : specsOk t = true := by
  simp only [specsOk, List.all_eq_true, Bool.and_eq_true]
  intro f hf
  exact ⟨specOk_of_mem hf, fun g hg => specOk_of_mem hg⟩

end Format
