import LoguruModel.Parse.Scanners
/-
`re.finditer` for non-empty matches, over an arbitrary *anchored matcher*: a function that, given
the text from the current position on, says whether a match starts here, how long it is and what
its value is.  Such a matcher sees only the suffix – it has no look-behind.  For every scanner of
this form the restart condition (R) and the span bound are THEOREMS; only prefix stability (P)
remains a condition on the pattern.  This makes precise the property's side condition "matches …
do not depend on look-behind context at a previous match".
-/
namespace Parse

variable {α γ : Type}

/-- anchored matcher: length and value of the match that starts at the beginning of the given
text, if any (it is never shown what precedes) -/
abbrev Matcher (α γ : Type) := List α → Option (Nat × γ)

/-- only non-empty matches that fit in the text count -/
def validMatch (m : Matcher α γ) (t : List α) : Option (Nat × γ) :=
  match m t with
  | some (n, v) => if 1 ≤ n ∧ n ≤ t.length then some (n, v) else none
  | none => none

theorem validMatch_spec (m : Matcher α γ) (t : List α) (n : Nat) (v : γ)
    (h : validMatch m t = some (n, v)) : 1 ≤ n ∧ n ≤ t.length := by
  unfold validMatch at h
  split at h
  · split at h
    · rename_i hv; simp at h; obtain ⟨rfl, rfl⟩ := h; exact hv
    · simp at h
  · simp at h

/-- leftmost, non-overlapping matches, scanning from left to right (fuel = text length) -/
def finditerAux (m : Matcher α γ) : Nat → Nat → List α → List (Span γ)
  | 0, _, _ => []
  | _ + 1, _, [] => []
  | f + 1, off, c :: cs =>
    match validMatch m (c :: cs) with
    | some (n, v) => ⟨off, off + n, v⟩ :: finditerAux m f (off + n) ((c :: cs).drop n)
    | none => finditerAux m f (off + 1) cs

def finditer (m : Matcher α γ) : Scanner α γ := fun t => finditerAux m t.length 0 t

def shift (k : Nat) (s : Span γ) : Span γ := ⟨k + s.s, k + s.e, s.val⟩

theorem aux_shift (m : Matcher α γ) :
    ∀ (f off : Nat) (t : List α), finditerAux m f off t = (finditerAux m f 0 t).map (shift off) := by
  intro f
  induction f with
  | zero => intro off t; simp [finditerAux]
  | succ f ih =>
    intro off t
    cases t with
    | nil => simp [finditerAux]
    | cons c cs =>
      simp only [finditerAux]
      split
      · rename_i n v hv
        rw [ih (off + n), ih (0 + n)]
        simp [shift, List.map_map, Function.comp_def, Nat.add_assoc]
      · rw [ih (off + 1), ih (0 + 1)]
        simp [shift, List.map_map, Function.comp_def, Nat.add_assoc]

theorem aux_fuel (m : Matcher α γ) :
    ∀ (f g off : Nat) (t : List α), t.length ≤ f → t.length ≤ g →
      finditerAux m f off t = finditerAux m g off t := by
  intro f
  induction f with
  | zero =>
    intro g off t hf hg
    have : t = [] := List.eq_nil_of_length_eq_zero (by omega)
    subst this
    cases g <;> simp [finditerAux]
  | succ f ih =>
    intro g off t hf hg
    cases t with
    | nil => cases g <;> simp [finditerAux]
    | cons c cs =>
      cases g with
      | zero => simp at hg
      | succ g =>
        simp only [finditerAux]
        split
        · rename_i n v hv
          have := validMatch_spec m _ n v hv
          rw [ih g (off + n)]
          · simp at hf ⊢; omega
          · simp at hg ⊢; omega
        · rw [ih g (off + 1)]
          · simp at hf; omega
          · simp at hg; omega

theorem map_shift_val (k : Nat) (l : List (Span γ)) : (l.map (shift k)).map (·.val) = l.map (·.val) := by
  simp [List.map_map, Function.comp_def, shift]

theorem aux_bound (m : Matcher α γ) :
    ∀ (f : Nat) (t : List α), ∀ s ∈ finditerAux m f 0 t, s.e ≤ t.length := by
  intro f
  induction f with
  | zero => intro t s h; simp [finditerAux] at h
  | succ f ih =>
    intro t s h
    cases t with
    | nil => simp [finditerAux] at h
    | cons c cs =>
      simp only [finditerAux] at h
      split at h
      · rename_i n v hv
        have hn := validMatch_spec m _ n v hv
        simp only [List.mem_cons] at h
        rcases h with h | h
        · subst h; simp at hn ⊢; omega
        · rw [aux_shift] at h
          simp only [List.mem_map] at h
          obtain ⟨s0, hs0, rfl⟩ := h
          have := ih _ s0 hs0
          simp [shift] at this hn ⊢
          omega
      · rw [aux_shift] at h
        simp only [List.mem_map] at h
        obtain ⟨s0, hs0, rfl⟩ := h
        have := ih _ s0 hs0
        simp [shift] at this ⊢
        omega

theorem aux_restart (m : Matcher α γ) :
    ∀ (f : Nat) (t : List α), t.length ≤ f →
      ∀ i (h : i < (finditerAux m f 0 t).length),
        (finditer m (t.drop ((finditerAux m f 0 t)[i]).e)).map (·.val)
          = ((finditerAux m f 0 t).drop (i + 1)).map (·.val) := by
  intro f
  induction f with
  | zero => intro t _ i h; simp [finditerAux] at h
  | succ f ih =>
    intro t hf i h
    cases t with
    | nil => simp [finditerAux] at h
    | cons c cs =>
      have key : ∀ (k : Nat) (_pre : List (Span γ)) (t' : List α), t' = (c :: cs).drop k → t'.length ≤ f →
          ∀ j (hj : j < ((finditerAux m f 0 t').map (shift k)).length),
          (finditer m ((c :: cs).drop (((finditerAux m f 0 t').map (shift k))[j]).e)).map (·.val)
            = (((finditerAux m f 0 t').map (shift k)).drop (j + 1)).map (·.val) := by
        intro k _ t' ht' hlen j hj
        have hj' : j < (finditerAux m f 0 t').length := by simpa using hj
        have := ih t' hlen j hj'
        simp only [List.getElem_map, shift]
        rw [← List.drop_drop, ← ht', this, ← List.map_drop, map_shift_val]
      cases hv : validMatch m (c :: cs) with
      | none =>
        have hlen : cs.length ≤ f := by simp at hf; omega
        have hS : finditerAux m (f + 1) 0 (c :: cs) = (finditerAux m f 0 cs).map (shift (0 + 1)) := by
          simp only [finditerAux, hv]; rw [aux_shift m f (0 + 1)]
        revert h; rw [hS]; intro h
        exact key (0 + 1) [] cs (by simp) hlen i h
      | some p =>
        obtain ⟨n, v⟩ := p
        have hn := validMatch_spec m _ n v hv
        have hlen : ((c :: cs).drop n).length ≤ f := by simp at hf ⊢; omega
        have hS : finditerAux m (f + 1) 0 (c :: cs)
            = ⟨0, 0 + n, v⟩ :: (finditerAux m f 0 ((c :: cs).drop n)).map (shift (0 + n)) := by
          simp only [finditerAux, hv]; rw [aux_shift m f (0 + n)]
        revert h; rw [hS]; intro h
        cases i with
        | zero =>
          simp only [List.getElem_cons_zero, Nat.zero_add, List.drop_succ_cons, List.drop_zero]
          rw [map_shift_val]
          unfold finditer
          rw [aux_fuel m _ f 0 _ (Nat.le_refl _) hlen]
        | succ i =>
          simp only [List.getElem_cons_succ, List.drop_succ_cons]
          exact key (0 + n) [] ((c :: cs).drop n) (by simp) hlen i (by simpa using h)

/-- (R) and the span bound hold for EVERY scanner that is `finditer` of an anchored matcher:
only prefix stability depends on the pattern -/
theorem finditer_local (m : Matcher α γ)
    (hP : ∀ t u, (finditer m t).dropLast <+: finditer m (t ++ u)) : Local (finditer m) where
  bound := fun t s hs => aux_bound m t.length t s hs
  restart := fun t i h => aux_restart m t.length t (Nat.le_refl _) i h
  prefixStable := hP

/-! ### the line regex as an anchored matcher: the generic `finditer` coincides with `lineScanner` -/

section lines
variable [DecidableEq α]

/-- the first line of a text, terminator included -/
def takeLine (nl : α) : List α → List α
  | [] => []
  | c :: cs => if c = nl then [c] else c :: takeLine nl cs

/-- `[^\n]*\n|[^\n]+` anchored at the current position -/
def lineMatcher (nl : α) : Matcher α (List α) := fun t => some ((takeLine nl t).length, takeLine nl t)

theorem takeLine_length (nl : α) (t : List α) :
    (takeLine nl t).length ≤ t.length ∧ (t ≠ [] → 1 ≤ (takeLine nl t).length) := by
  induction t with
  | nil => simp [takeLine]
  | cons c cs ih =>
    simp only [takeLine]
    split
    · simp
    · simp; exact ih.1

theorem lines_cons_eq (nl : α) (c : α) (cs : List α) :
    lines nl (c :: cs)
      = takeLine nl (c :: cs) :: lines nl ((c :: cs).drop (takeLine nl (c :: cs)).length) := by
  induction cs generalizing c with
  | nil =>
    simp only [lines, takeLine]
    split <;> simp [lines]
  | cons c' cs' ih =>
    have h' := ih c'
    rw [lines, takeLine]
    split
    · simp
    · rw [h']
      simp

theorem finditer_lineMatcher_aux (nl : α) :
    ∀ (f off : Nat) (t : List α), t.length ≤ f →
      finditerAux (lineMatcher nl) f off t = spansOf off (linePieces nl t) := by
  intro f
  induction f with
  | zero =>
    intro off t h
    have : t = [] := List.eq_nil_of_length_eq_zero (by omega)
    subst this; simp [finditerAux, linePieces, lines, spansOf]
  | succ f ih =>
    intro off t h
    cases t with
    | nil => simp [finditerAux, linePieces, lines, spansOf]
    | cons c cs =>
      have hl := takeLine_length nl (c :: cs)
      have hv : validMatch (lineMatcher nl) (c :: cs)
          = some ((takeLine nl (c :: cs)).length, takeLine nl (c :: cs)) := by
        have h1 : 1 ≤ (takeLine nl (c :: cs)).length := hl.2 (by simp)
        have h2 : (takeLine nl (c :: cs)).length ≤ cs.length + 1 := by simpa using hl.1
        simp [validMatch, lineMatcher, h1, h2]
      simp only [finditerAux, hv]
      rw [ih]
      · simp only [linePieces]
        conv => rhs; rw [lines_cons_eq]
        simp [spansOf]
      · have h1 : 1 ≤ (takeLine nl (c :: cs)).length := hl.2 (by simp)
        simp at h ⊢; omega

/-- the generic left-to-right `finditer` of the anchored line matcher IS the tiling `lineScanner` -/
theorem finditer_lineMatcher (nl : α) : finditer (lineMatcher nl) = lineScanner nl := by
  funext t
  simp [finditer, lineScanner, tiling, finditer_lineMatcher_aux nl t.length 0 t (Nat.le_refl _)]

end lines

end Parse
