import LoguruModel.Parse.Lemmas
/-
Parse area (C20), second layer: `Logger.parse` as the *lazy pipeline* it is – a generator that pulls
from the generator `_find_iter`, which pulls from `fileobj.read` – with everything that can end the
iteration: exhaustion, the consumer abandoning it (`generator.close()` after n items), a converter of
`cast` that raises, a `read` that raises, `open()` failing, a pattern whose type does not fit the
file's (str pattern on a bytes buffer).  The observable is the *event trace*

    opened, read, read, yielded d₁, read, yielded d₂, …, closed, raised e?

(an exception leaves the `with` blocks – closing the file – before it reaches the consumer).

The tests of the source that the model is defined through come from Generated/ParseShape.lean:
`Gen.eofTest` (the end-of-input test, a kernel over len(text) and chunk), `Gen.castApplies` (the
test of the cast-dict loop), `Gen.opensStr/opensPathLike/openViaStr` (which arguments are opened, and
how), next to the loop constants already used by `go`.
-/
namespace Parse
open Py

variable {α γ ρ : Type}

/-! ### obligations on the regenerated kernels -/

/-- the loop ends exactly on an empty read – never on a short one (`read(k)` may return less than
`k` items long before the end of the input) -/
theorem eofTest_eq (n k : Nat) : Gen.eofTest n k = (n == 0) := by
  unfold Gen.eofTest
  cases n <;> simp

theorem eofTest_isEmpty (c : List α) (k : Nat) : Gen.eofTest c.length k = c.isEmpty := by
  rw [eofTest_eq]; cases c <;> simp

/-- a converter of a cast dict is applied to every key that is present in the groupdict, whatever
the value (None for a group that did not participate, the empty string, …), and to no other key -/
theorem castApplies_eq (present isNone truthy : Bool) : Gen.castApplies present isNone truthy = present := by
  revert present isNone truthy; decide

/-! ### layer 1: `_find_iter` as a lazy sequence of actions -/

/-- what one call `fileobj.read(chunk)` does: hands over a piece (empty = end of input) or raises -/
abbrev ReadRes (α : Type) := Except Err (List α)

/-- what the generator `_find_iter` does, in order -/
inductive FAct (γ : Type) where
  | read                 -- a call of `fileobj.read`
  | item (v : γ)         -- one match handed to the consumer (`yield from …`)
  | fail (e : Err)       -- an exception leaves the generator
  deriving Repr

/-- `_find_iter` from the top of a loop round with `buffer = buf`.  The list holds the outcomes of the
successive `fileobj.read(chunk)` calls; its end is end of input (an empty read). -/
def goActs (scan : Scanner α γ) (chunk : Nat) (buf : List α) : List (ReadRes α) → List (FAct γ)
  | [] => .read :: (scan buf).map (fun m => .item m.val)
  | .error e :: _ => [.read, .fail e]                        -- text = fileobj.read(chunk) raises
  | .ok c :: cs =>
    .read ::
    (if Gen.eofTest c.length chunk then (scan (buf ++ c)).map (fun m => .item m.val)
     else if Gen.guard (scan (buf ++ c)).length then
       match negIdx (scan (buf ++ c)) Gen.trimBack with
       | none => [.fail .indexError]
       | some m => (dropEnd (scan (buf ++ c)) Gen.yieldHold).map (fun m => .item m.val)
                     ++ goActs scan chunk ((buf ++ c).drop m.e) cs
     else goActs scan chunk (buf ++ c) cs)

/-- `_find_iter(fileobj, regex, chunk)`: `buffer = fileobj.read(0)`, then the loop.  `kindOk = false`:
the pattern is a str pattern and the file hands over bytes (or the other way round) – the first
`regex.finditer(buffer)` raises TypeError. -/
def findIterActs (kindOk : Bool) (scan : Scanner α γ) (chunk : Nat) (reads : List (ReadRes α)) : List (FAct γ) :=
  .read ::
  (if kindOk then goActs scan chunk [] reads
   else match reads with
     | .error e :: _ => [.read, .fail e]
     | _ => [.read, .fail .typeError])

/-- what the consumer of the generator gets: the items before the first failure, and the failure -/
def itemsUntilFail : List (FAct γ) → List γ × Option Err
  | [] => ([], none)
  | .read :: as => itemsUntilFail as
  | .item v :: as => (v :: (itemsUntilFail as).1, (itemsUntilFail as).2)
  | .fail e :: _ => ([], some e)

theorem itemsUntilFail_map_item (l : List (Span γ)) :
    itemsUntilFail (l.map (fun m => FAct.item m.val)) = (l.map (·.val), none) := by
  induction l with
  | nil => rfl
  | cons m l ih => simp [itemsUntilFail, ih]

theorem itemsUntilFail_items_append (l : List (Span γ)) (as : List (FAct γ)) :
    itemsUntilFail (l.map (fun m => FAct.item m.val) ++ as)
      = (l.map (·.val) ++ (itemsUntilFail as).1, (itemsUntilFail as).2) := by
  induction l with
  | nil => simp
  | cons m l ih => simp [itemsUntilFail, ih]

/-- with reads that do not fail, the lazy generator hands over exactly what `go` computes – for
EVERY scanner (no locality needed): the trace model refines the function the main theorems are about -/
theorem goActs_eq_go (scan : Scanner α γ) (chunk : Nat) :
    ∀ (cs : List (List α)) (buf : List α),
      itemsUntilFail (goActs scan chunk buf (cs.map .ok)) = go scan buf cs := by
  intro cs
  induction cs with
  | nil => intro buf; simp [goActs, go, itemsUntilFail, itemsUntilFail_map_item]
  | cons c cs ih =>
    intro buf
    simp only [List.map_cons, goActs, go, itemsUntilFail, eofTest_isEmpty]
    by_cases hc : c.isEmpty = true
    · simp [hc, itemsUntilFail_map_item]
    · simp only [hc, Bool.false_eq_true, ↓reduceIte]
      by_cases hg : Gen.guard (scan (buf ++ c)).length = true
      · simp only [hg, ↓reduceIte]
        cases hn : negIdx (scan (buf ++ c)) Gen.trimBack with
        | none => simp [itemsUntilFail]
        | some m => simp [itemsUntilFail_items_append, ih]
      · simp only [hg, Bool.false_eq_true, ↓reduceIte]
        exact ih _

theorem findIterActs_eq_findIter (scan : Scanner α γ) (chunk : Nat) (cs : List (List α)) :
    itemsUntilFail (findIterActs true scan chunk (cs.map .ok)) = findIter scan cs := by
  simp [findIterActs, itemsUntilFail, goActs_eq_go, findIter]

/-! ### layer 2: `parse` -/

/-- observable events of one use of the generator `parse(...)` -/
inductive TEv (ρ : Type) where
  | opened               -- `open(file)` by the function succeeded
  | read                 -- one `fileobj.read` call
  | yielded (v : ρ)      -- the consumer received a dict
  | raised (e : Err)     -- an exception reached the consumer
  | closed               -- the file the function opened was closed
  deriving DecidableEq, Repr

/-- what the model needs to know of a group value to evaluate the test of the cast-dict loop -/
structure ValView (ν : Type) where
  isNone : ν → Bool
  truthy : ν → Bool

/-- `cast` with converters that may raise -/
inductive CastArgE (κ ν : Type) where
  | dict (d : List (κ × (ν → Except Err ν)))
  | fn (f : List (κ × ν) → Except Err (List (κ × ν)))
  | invalid

section cast
variable {κ ν : Type} [DecidableEq κ]

/-- one round of the cast-dict loop: `if <test>: groups[key] = converter(groups[key])` -/
def setKeyE (vv : ValView ν) (k : κ) (f : ν → Except Err ν) : List (κ × ν) → Except Err (List (κ × ν))
  | [] => if Gen.castApplies false true false then .error .keyError else .ok []
  | (k', v) :: r =>
    if k' = k then
      if Gen.castApplies true (vv.isNone v) (vv.truthy v) then
        match f v with
        | .ok v' => .ok ((k', v') :: r)
        | .error e => .error e
      else .ok ((k', v) :: r)
    else match setKeyE vv k f r with
      | .ok r' => .ok ((k', v) :: r')
      | .error e => .error e

def castDictE (vv : ValView ν) : List (κ × (ν → Except Err ν)) → List (κ × ν) → Except Err (List (κ × ν))
  | [], g => .ok g
  | (k, f) :: d, g =>
    match setKeyE vv k f g with
    | .ok g' => castDictE vv d g'
    | .error e => .error e

def applyCastE (vv : ValView ν) : CastArgE κ ν → List (κ × ν) → Except Err (List (κ × ν))
  | .dict d, g => castDictE vv d g
  | .fn f, g => f g
  | .invalid, g => .ok g

/-- a cast whose converters never raise -/
def CastArg.lift : CastArg κ ν → CastArgE κ ν
  | .dict d => .dict (d.map (fun kf => (kf.1, fun v => .ok (kf.2 v))))
  | .fn f => .fn (fun g => .ok (f g))
  | .invalid => .invalid

theorem setKeyE_pure (vv : ValView ν) (k : κ) (f : ν → ν) (g : List (κ × ν)) :
    setKeyE vv k (fun v => .ok (f v)) g = .ok (setKey k f g) := by
  induction g with
  | nil => simp [setKeyE, setKey, castApplies_eq]
  | cons e g ih =>
    obtain ⟨k', v⟩ := e
    simp only [setKeyE, setKey, castApplies_eq, ↓reduceIte, ih]
    split <;> rfl

theorem castDictE_pure (vv : ValView ν) (d : List (κ × (ν → ν))) (g : List (κ × ν)) :
    castDictE vv (d.map (fun kf => (kf.1, fun v => Except.ok (kf.2 v)))) g = .ok (castDict d g) := by
  induction d generalizing g with
  | nil => rfl
  | cons kf d ih =>
    simp only [List.map_cons, castDictE, setKeyE_pure, castDict, List.foldl_cons]
    exact ih _

theorem applyCastE_lift (vv : ValView ν) (c : CastArg κ ν) (g : List (κ × ν)) :
    applyCastE vv c.lift g = .ok (applyCast c g) := by
  cases c with
  | dict d => exact castDictE_pure vv d g
  | fn f => rfl
  | invalid => rfl

/-- value of key `k` in a groupdict -/
def lookup (k : κ) : List (κ × ν) → Option ν
  | [] => none
  | (k', v) :: r => if k' = k then some v else lookup k r

theorem lookup_setKey_same (k : κ) (f : ν → ν) (g : List (κ × ν)) :
    lookup k (setKey k f g) = (lookup k g).map f := by
  induction g with
  | nil => rfl
  | cons e g ih =>
    obtain ⟨k', v⟩ := e
    by_cases h : k' = k <;> simp [setKey, lookup, h, ih]

theorem lookup_setKey_other (k k2 : κ) (h : k2 ≠ k) (f : ν → ν) (g : List (κ × ν)) :
    lookup k2 (setKey k f g) = lookup k2 g := by
  induction g with
  | nil => rfl
  | cons e g ih =>
    obtain ⟨k', v⟩ := e
    by_cases h1 : k' = k
    · subst h1; simp [setKey, lookup, Ne.symm h]
    · by_cases h2 : k' = k2
      · subst h2; simp [setKey, lookup, h1]
      · simp [setKey, lookup, h1, h2, ih]

/-- the converter listed for `k` in a dict (first entry) -/
def convFor (k : κ) : List (κ × (ν → ν)) → Option (ν → ν)
  | [] => none
  | (k', f) :: d => if k' = k then some f else convFor k d

/-- a cast dict (distinct keys, as in every Python dict) converts the value of each listed key
exactly once, and leaves every other value alone – for every value, `None` and `''` included -/
theorem lookup_castDict (d : List (κ × (ν → ν))) (hd : (d.map (·.1)).Nodup) (g : List (κ × ν)) (k : κ) :
    lookup k (castDict d g) =
      match convFor k d with
      | some f => (lookup k g).map f
      | none => lookup k g := by
  unfold castDict
  induction d generalizing g with
  | nil => rfl
  | cons kf d ih =>
    obtain ⟨k', f⟩ := kf
    simp only [List.map_cons, List.nodup_cons] at hd
    simp only [List.foldl_cons, convFor]
    rw [ih hd.2]
    by_cases h : k' = k
    · subst h
      have hnone : convFor k' d = none := by
        have hk := hd.1
        clear ih hd
        induction d with
        | nil => rfl
        | cons e d ihd =>
          obtain ⟨k2, f2⟩ := e
          simp only [List.map_cons, List.mem_cons, not_or] at hk
          simp [convFor, Ne.symm hk.1, ihd hk.2]
      simp [hnone, lookup_setKey_same]
    · simp only [h, ↓reduceIte]
      rw [lookup_setKey_other k' k (Ne.symm h)]

end cast

/-- the `with` blocks of `parse` are left: the file the function opened is closed -/
def closeEv (ρ : Type) (own : Bool) : List (TEv ρ) :=
  if own && Gen.pathOpenerCloses && Gen.iterationInsideWith then [.closed] else []

/-- the body of `with opener() as fileobj:` driven by a consumer that takes `lim` items and then
calls `close()` (`none`: iterates to exhaustion): per match `groupdict()`, cast, `yield` -/
def consume (cast : γ → Except Err ρ) (own : Bool) : Option Nat → List (FAct γ) → List (TEv ρ)
  | _, [] => closeEv ρ own                                  -- StopIteration of `matches`
  | lim, .read :: as => .read :: consume cast own lim as
  | _, .fail e :: _ => closeEv ρ own ++ [.raised e]         -- propagates through the `with` blocks, then reaches the consumer
  | lim, .item v :: as =>
    match cast v with
    | .error e => closeEv ρ own ++ [.raised e]              -- `cast_function(groups)` raises
    | .ok v' =>
      .yielded v' ::
        (match lim with
         | none => consume cast own none as
         | some n => if n ≤ 1 then closeEv ρ own            -- close(): GeneratorExit at the `yield`
                     else consume cast own (some (n - 1)) as)

/-- one call of `parse` and what it meets -/
structure Src (α : Type) where
  file : FileArg
  /-- `str(file)` names the file too (true for `str` and `pathlib.Path`; false for an object that
  only implements `__fspath__`) -/
  strIsPath : Bool := true
  /-- `open()` raises -/
  openErr : Option Err := none
  /-- pattern and file content are both str or both bytes -/
  kindOk : Bool := true
  patternOk : Bool := true
  chunk : Nat
  reads : List (ReadRes α)

section trace
variable {κ ν : Type} [DecidableEq κ]

/-- is `file` an argument the function opens itself (first branch of `parse`)? -/
def Src.own (s : Src α) : Bool :=
  (s.file == .pathStr && Gen.opensStr) || (s.file == .pathLike && Gen.opensPathLike)

/-- second branch: an object with a callable `read` -/
def Src.fileObj (s : Src α) : Bool := s.file == .textFile || s.file == .binaryFile

/-- does `open(...)` fail?  (`open(str(file))` fails for a path-like whose `str()` is not its path) -/
def Src.openFails (s : Src α) : Option Err :=
  if Gen.openViaStr && s.file == .pathLike && !s.strIsPath then some .osError else s.openErr

/-- the event trace of `g = parse(file, pattern, cast=…, chunk=…)` consumed for `limit` items and then
closed (`none`: to exhaustion).  A generator that is never advanced runs no code at all – not even
the argument checks. -/
def parseTrace (s : Src α) (cast : CastArgE κ ν) (vv : ValView ν) (scan : Scanner α (List (κ × ν)))
    (limit : Option Nat) : List (TEv (List (κ × ν))) :=
  if limit = some 0 then [] else
  if !(s.own || s.fileObj) then [.raised .typeError] else
  match cast with
  | .invalid => [.raised .typeError]
  | cast =>
    if !s.patternOk then [.raised .typeError] else
    if s.own then
      match s.openFails with
      | some e => [.raised e]
      | none => .opened :: consume (applyCastE vv cast) true limit (findIterActs s.kindOk scan s.chunk s.reads)
    else consume (applyCastE vv cast) false limit (findIterActs s.kindOk scan s.chunk s.reads)

end trace

/-! ### facts about traces -/

def yieldsOf : List (TEv ρ) → List ρ
  | [] => []
  | .yielded v :: r => v :: yieldsOf r
  | _ :: r => yieldsOf r

def raisedOf : List (TEv ρ) → Option Err
  | [] => none
  | .raised e :: _ => some e
  | _ :: r => raisedOf r

/-- neither `opened` nor `closed` -/
def TEv.inner : TEv ρ → Bool
  | .opened => false | .closed => false | _ => true

theorem closeEv_own : closeEv ρ true = [.closed] := by
  have h1 : Gen.pathOpenerCloses = true := by decide
  have h2 : Gen.iterationInsideWith = true := by decide
  simp [closeEv, h1, h2]

theorem closeEv_not_own : closeEv ρ false = [] := by simp [closeEv]

/-- whatever ends the iteration – exhaustion, the consumer's `close()`, a converter or a read that
raises, an IndexError of the loop – the body of the `with` block is left exactly once; after that
nothing happens except that the exception, if any, reaches the consumer -/
theorem consume_own_shape (cast : γ → Except Err ρ) :
    ∀ (acts : List (FAct γ)) (lim : Option Nat),
      ∃ mid tail, consume cast true lim acts = mid ++ [.closed] ++ tail ∧ (∀ e ∈ mid, e.inner = true) ∧
        (tail = [] ∨ ∃ e, tail = [.raised e]) := by
  intro acts
  induction acts with
  | nil => intro lim; exact ⟨[], [], by simp [consume, closeEv_own], by simp, Or.inl rfl⟩
  | cons a as ih =>
    intro lim
    cases a with
    | read =>
      obtain ⟨mid, tail, h, hm, ht⟩ := ih lim
      exact ⟨.read :: mid, tail, by simp [consume, h], by
        intro e he; rcases List.mem_cons.mp he with rfl | he
        · rfl
        · exact hm e he, ht⟩
    | fail e =>
      exact ⟨[], [.raised e], by simp [consume, closeEv_own], by simp, Or.inr ⟨e, rfl⟩⟩
    | item v =>
      simp only [consume]
      cases hc : cast v with
      | error e => exact ⟨[], [.raised e], by simp [closeEv_own], by simp, Or.inr ⟨e, rfl⟩⟩
      | ok v' =>
        cases lim with
        | none =>
          obtain ⟨mid, tail, h, hm, ht⟩ := ih none
          exact ⟨.yielded v' :: mid, tail, by simp [h], by
            intro e he; rcases List.mem_cons.mp he with rfl | he
            · rfl
            · exact hm e he, ht⟩
        | some n =>
          by_cases hn : n ≤ 1
          · exact ⟨[.yielded v'], [], by simp [hn, closeEv_own], by simp [TEv.inner], Or.inl rfl⟩
          · obtain ⟨mid, tail, h, hm, ht⟩ := ih (some (n - 1))
            exact ⟨.yielded v' :: mid, tail, by simp [hn, h], by
              intro e he; rcases List.mem_cons.mp he with rfl | he
              · rfl
              · exact hm e he, ht⟩

/-- a caller's file object: nothing is ever opened or closed by the function -/
theorem consume_fileobj_shape (cast : γ → Except Err ρ) :
    ∀ (acts : List (FAct γ)) (lim : Option Nat), ∀ e ∈ consume cast false lim acts, e.inner = true := by
  intro acts
  induction acts with
  | nil => intro lim e he; simp [consume, closeEv_not_own] at he
  | cons a as ih =>
    intro lim e he
    cases a with
    | read =>
      simp only [consume, List.mem_cons] at he
      rcases he with rfl | he
      · rfl
      · exact ih lim e he
    | fail e' =>
      simp only [consume, closeEv_not_own, List.nil_append, List.mem_cons, List.not_mem_nil, or_false] at he
      subst he; rfl
    | item v =>
      simp only [consume] at he
      cases hc : cast v with
      | error e' =>
        simp only [hc, closeEv_not_own, List.nil_append, List.mem_cons, List.not_mem_nil, or_false] at he
        subst he; rfl
      | ok v' =>
        simp only [hc, List.mem_cons] at he
        rcases he with rfl | he
        · rfl
        · cases lim with
          | none => exact ih none e he
          | some n =>
            by_cases hn : n ≤ 1
            · simp [hn, closeEv_not_own] at he
            · simp only [hn, ↓reduceIte] at he
              exact ih _ e he

/-- an exception that reaches the consumer is the last event of the trace (the file the function
opened has been closed before) -/
theorem consume_raise_is_last (cast : γ → Except Err ρ) (own : Bool) :
    ∀ (acts : List (FAct γ)) (lim : Option Nat) (pre post : List (TEv ρ)) (e : Err),
      consume cast own lim acts = pre ++ .raised e :: post → post = [] := by
  have hclose : ∀ (pre post : List (TEv ρ)) (e : Err), closeEv ρ own ≠ pre ++ .raised e :: post := by
    intro pre post e h
    cases own with
    | false => rw [closeEv_not_own] at h; cases pre <;> simp at h
    | true =>
      rw [closeEv_own] at h
      cases pre with
      | nil => simp at h
      | cons x pre => cases pre <;> simp at h
  have hlast : ∀ (pre post : List (TEv ρ)) (e e' : Err),
      closeEv ρ own ++ [.raised e'] = pre ++ .raised e :: post → post = [] := by
    intro pre post e e' h
    cases own with
    | false =>
      rw [closeEv_not_own] at h
      cases pre with
      | nil => simp at h; exact h.2
      | cons x pre => cases pre <;> simp at h
    | true =>
      rw [closeEv_own] at h
      cases pre with
      | nil => simp at h
      | cons x pre =>
        cases pre with
        | nil => simp at h; exact h.2.2
        | cons y pre => cases pre <;> simp at h
  intro acts
  induction acts with
  | nil => intro lim pre post e h; exact absurd h (hclose pre post e)
  | cons a as ih =>
    intro lim pre post e h
    cases a with
    | read =>
      simp only [consume] at h
      cases pre with
      | nil => simp at h
      | cons x pre =>
        simp only [List.cons_append, List.cons.injEq] at h
        exact ih lim pre post e h.2
    | fail e' =>
      simp only [consume] at h
      exact hlast pre post e e' h
    | item v =>
      simp only [consume] at h
      cases hc : cast v with
      | error e' =>
        simp only [hc] at h
        exact hlast pre post e e' h
      | ok v' =>
        simp only [hc] at h
        cases pre with
        | nil => simp at h
        | cons x pre =>
          simp only [List.cons_append, List.cons.injEq] at h
          cases lim with
          | none => exact ih none pre post e h.2
          | some n =>
            by_cases hn : n ≤ 1
            · simp only [hn, ↓reduceIte] at h
              exact absurd h.2 (hclose pre post e)
            · simp only [hn, ↓reduceIte] at h
              exact ih _ pre post e h.2

/-- what the consumer receives, as a function of the matches handed over by `_find_iter`: the casts
of the first matches, until a converter raises or the consumer has had `lim` items -/
def deliver (cast : γ → Except Err ρ) : Option Nat → List γ → List ρ
  | _, [] => []
  | lim, v :: vs =>
    match cast v with
    | .error _ => []
    | .ok v' =>
      v' :: (match lim with
             | none => deliver cast none vs
             | some n => if n ≤ 1 then [] else deliver cast (some (n - 1)) vs)

theorem yieldsOf_closeEv (own : Bool) : yieldsOf (closeEv ρ own) = [] := by
  cases own
  · simp [closeEv_not_own, yieldsOf]
  · simp [closeEv_own, yieldsOf]

theorem yieldsOf_append (a b : List (TEv ρ)) : yieldsOf (a ++ b) = yieldsOf a ++ yieldsOf b := by
  induction a with
  | nil => rfl
  | cons x a ih => cases x <;> simp [yieldsOf, ih]

theorem consume_yields (cast : γ → Except Err ρ) (own : Bool) :
    ∀ (acts : List (FAct γ)) (lim : Option Nat),
      yieldsOf (consume cast own lim acts) = deliver cast lim (itemsUntilFail acts).1 := by
  intro acts
  induction acts with
  | nil => intro lim; cases lim <;> simp [consume, yieldsOf_closeEv, itemsUntilFail, deliver]
  | cons a as ih =>
    intro lim
    cases a with
    | read => simp [consume, yieldsOf, itemsUntilFail, ih]
    | fail e => cases lim <;> simp [consume, yieldsOf_append, yieldsOf, yieldsOf_closeEv, itemsUntilFail, deliver]
    | item v =>
      simp only [consume, itemsUntilFail, deliver]
      cases hc : cast v with
      | error e => simp [yieldsOf_append, yieldsOf, yieldsOf_closeEv]
      | ok v' =>
        cases lim with
        | none => simp [yieldsOf, ih]
        | some n =>
          by_cases hn : n ≤ 1
          · simp [yieldsOf, hn, yieldsOf_closeEv]
          · simp [yieldsOf, hn, ih]

/-- the i-th dict the consumer receives is the cast of the i-th match – on every path -/
theorem deliver_pointwise (cast : γ → Except Err ρ) :
    ∀ (xs : List γ) (lim : Option Nat) (i : Nat) (w : ρ), (deliver cast lim xs)[i]? = some w →
      ∃ x, xs[i]? = some x ∧ cast x = .ok w := by
  intro xs
  induction xs with
  | nil => intro lim i w h; simp [deliver] at h
  | cons v vs ih =>
    intro lim i w h
    simp only [deliver] at h
    cases hc : cast v with
    | error e => simp [hc] at h
    | ok v' =>
      simp only [hc] at h
      cases i with
      | zero =>
        simp only [List.getElem?_cons_zero, Option.some.injEq] at h
        subst h
        exact ⟨v, by simp, hc⟩
      | succ i =>
        simp only [List.getElem?_cons_succ] at h ⊢
        cases lim with
        | none => exact ih none i w h
        | some n =>
          by_cases hn : n ≤ 1
          · simp [hn] at h
          · simp only [hn, ↓reduceIte] at h
            exact ih _ i w h

theorem deliver_total (f : γ → ρ) (xs : List γ) : deliver (fun v => .ok (f v)) none xs = xs.map f := by
  induction xs with
  | nil => rfl
  | cons v vs ih => simp [deliver, ih]

theorem deliver_limit (f : γ → ρ) :
    ∀ (xs : List γ) (n : Nat), 1 ≤ n → deliver (fun v => .ok (f v)) (some n) xs = (xs.map f).take n := by
  intro xs
  induction xs with
  | nil => intro n _; simp [deliver]
  | cons v vs ih =>
    intro n hn
    simp only [deliver]
    by_cases h1 : n ≤ 1
    · have : n = 1 := by omega
      subst this; simp
    · simp only [h1, ↓reduceIte]
      rw [ih (n - 1) (by omega)]
      obtain ⟨m, rfl⟩ : ∃ m, n = m + 1 := ⟨n - 1, by omega⟩
      simp

/-- a converter that raises on the match number `i` (and none before): exactly `i` dicts arrive -/
theorem deliver_stops_at_failure (cast : γ → Except Err ρ) :
    ∀ (xs : List γ) (i : Nat) (hi : i < xs.length) (e : Err), cast xs[i] = .error e →
      (∀ j (hj : j < i), ∃ w, cast (xs[j]'(by omega)) = .ok w) →
      (deliver cast none xs).length = i := by
  intro xs
  induction xs with
  | nil => intro i hi; simp at hi
  | cons v vs ih =>
    intro i hi e he hbefore
    cases i with
    | zero => simp at he; simp [deliver, he]
    | succ i =>
      obtain ⟨w, hw⟩ := hbefore 0 (by omega)
      simp at hw
      simp only [deliver, hw, List.length_cons, Nat.add_right_cancel_iff]
      refine ih i (by simpa using hi) e (by simpa using he) ?_
      intro j hj
      obtain ⟨w', hw'⟩ := hbefore (j + 1) (by omega)
      exact ⟨w', by simpa using hw'⟩

/-! ### unfolding `parseTrace` for valid arguments -/

section unfold
variable {κ ν : Type} [DecidableEq κ]

def CastArgE.valid : CastArgE κ ν → Bool
  | .invalid => false
  | _ => true

theorem parseTrace_own (s : Src α) (cast : CastArgE κ ν) (vv : ValView ν)
    (scan : Scanner α (List (κ × ν))) (limit : Option Nat)
    (hown : s.own = true) (hc : cast.valid = true) (hp : s.patternOk = true)
    (ho : s.openFails = none) (hl : limit ≠ some 0) :
    parseTrace s cast vv scan limit
      = .opened :: consume (applyCastE vv cast) true limit (findIterActs s.kindOk scan s.chunk s.reads) := by
  unfold parseTrace
  cases cast with
  | invalid => simp [CastArgE.valid] at hc
  | dict d => simp [hl, hown, hp, ho]
  | fn f => simp [hl, hown, hp, ho]

theorem parseTrace_fileobj (s : Src α) (cast : CastArgE κ ν) (vv : ValView ν)
    (scan : Scanner α (List (κ × ν))) (limit : Option Nat)
    (hown : s.own = false) (hf : s.fileObj = true) (hc : cast.valid = true) (hp : s.patternOk = true)
    (hl : limit ≠ some 0) :
    parseTrace s cast vv scan limit
      = consume (applyCastE vv cast) false limit (findIterActs s.kindOk scan s.chunk s.reads) := by
  unfold parseTrace
  cases cast with
  | invalid => simp [CastArgE.valid] at hc
  | dict d => simp [hl, hown, hf, hp]
  | fn f => simp [hl, hown, hf, hp]

/-- for valid arguments and a file that opens, the dicts the consumer receives depend only on what
`_find_iter` hands over – not on who opened the file -/
theorem parseTrace_yields (s : Src α) (cast : CastArgE κ ν) (vv : ValView ν)
    (scan : Scanner α (List (κ × ν))) (limit : Option Nat)
    (hf : (s.own || s.fileObj) = true) (hc : cast.valid = true) (hp : s.patternOk = true)
    (ho : s.openFails = none) (hl : limit ≠ some 0) :
    yieldsOf (parseTrace s cast vv scan limit)
      = deliver (applyCastE vv cast) limit (itemsUntilFail (findIterActs s.kindOk scan s.chunk s.reads)).1 := by
  by_cases hown : s.own = true
  · rw [parseTrace_own s cast vv scan limit hown hc hp ho hl]
    simp [yieldsOf, consume_yields]
  · have hown' : s.own = false := by simpa using hown
    have hfo : s.fileObj = true := by simpa [hown'] using hf
    rw [parseTrace_fileobj s cast vv scan limit hown' hfo hc hp hl]
    exact consume_yields _ _ _ _

end unfold

/-! ### scanners whose values are groupdicts -/

/-- the same matches with another value (`m.groupdict()` computed from the matched text) -/
def mapVal {γ' : Type} (f : γ → γ') (scan : Scanner α γ) : Scanner α γ' :=
  fun t => (scan t).map (fun m => ⟨m.s, m.e, f m.val⟩)

theorem Local.mapVal {γ' : Type} (f : γ → γ') (scan : Scanner α γ) (H : Local scan) : Local (mapVal f scan) where
  bound := by
    intro t m hm
    simp only [Parse.mapVal, List.mem_map] at hm
    obtain ⟨m0, hm0, rfl⟩ := hm
    exact H.bound t m0 hm0
  restart := by
    intro t i h
    have hi : i < (scan t).length := by simpa [Parse.mapVal] using h
    have := congrArg (List.map f) (H.restart t i hi)
    simpa [Parse.mapVal, List.map_map, Function.comp_def, List.map_drop] using this
  prefixStable := by
    intro t u
    obtain ⟨tl, htl⟩ := H.prefixStable t u
    simp only [Parse.mapVal, ← List.map_dropLast, ← htl, List.map_append]
    exact List.prefix_append _ _

end Parse

/-! ### the buffer of `_find_iter` (state-machine view `run`) -/

namespace Parse
open Py
variable {α γ : Type}

theorem step_of_err (scan : Scanner α γ) (st : St α γ) (c : List α) (e : Err) (h : st.err = some e) :
    step scan st c = st := by
  unfold step; simp [h]

theorem foldl_err_sticky (scan : Scanner α γ) (e : Err) :
    ∀ (cs : List (List α)) (st : St α γ), st.err = some e → (cs.foldl (step scan) st).err = some e := by
  intro cs
  induction cs with
  | nil => intro st h; exact h
  | cons c cs ih => intro st h; simp only [List.foldl_cons]; rw [step_of_err scan st c e h]; exact ih st h

/-- the buffer is always a suffix of the text read so far (trimming only drops a prefix) – for
every scanner -/
theorem foldl_buf_suffix (scan : Scanner α γ) :
    ∀ (cs : List (List α)) (st : St α γ) (T : List α), st.buf <:+ T →
      (cs.foldl (step scan) st).err = none → (cs.foldl (step scan) st).buf <:+ T ++ cs.flatten := by
  intro cs
  induction cs with
  | nil => intro st T h _; simpa using h
  | cons c cs ih =>
    intro st T h hfin
    simp only [List.foldl_cons, List.flatten_cons, ← List.append_assoc] at hfin ⊢
    have hgrow : st.buf ++ c <:+ T ++ c := by
      obtain ⟨p, hp⟩ := h
      exact ⟨p, by rw [← hp, List.append_assoc]⟩
    cases he : st.err with
    | some e =>
      have := foldl_err_sticky scan e cs (step scan st c) (by rw [step_of_err scan st c e he]; exact he)
      rw [this] at hfin; cases hfin
    | none =>
      refine ih (step scan st c) (T ++ c) ?_ hfin
      unfold step
      simp only [he]
      by_cases hg : Gen.guard (scan (st.buf ++ c)).length = true
      · simp only [hg, ↓reduceIte]
        cases hn : negIdx (scan (st.buf ++ c)) Gen.trimBack with
        | none =>
          exfalso
          have : (step scan st c).err = some .indexError := by unfold step; simp [he, hg, hn]
          have := foldl_err_sticky scan _ cs _ this
          rw [this] at hfin; cases hfin
        | some m => exact (List.drop_suffix _ _).trans hgrow
      · simp only [hg, Bool.false_eq_true, ↓reduceIte]
        exact hgrow

end Parse
