import LoguruModel.Py.Basic
import LoguruModel.Generated.ParseShape
/-
Parse area (C20): `Logger._find_iter` and `Logger.parse` of loguru/_logger.py, as written.

The regex engine is a parameter: a *scanner* maps a text to the list of its matches
(`list(regex.finditer(buffer))`); a match carries its span in the scanned text and a value (what
`match.groupdict()` returns – the only thing `parse` looks at).  The constants of the loop (which
match the buffer is trimmed after, how many matches are held back, the guard) come from
`Generated/ParseShape.lean`, i.e. from the current source.
-/
namespace Parse
open Py

/-- one regex match: `m.start()`, `m.end()` (relative to the scanned text), `m.groupdict()` -/
structure Span (γ : Type) where
  s : Nat
  e : Nat
  val : γ
  deriving DecidableEq, Repr

/-- `list(regex.finditer(text))` -/
abbrev Scanner (α γ : Type) := List α → List (Span γ)

/-- Python `l[-k]` (k ≥ 1 a literal): `IndexError` (here `none`) when `k > len(l)` -/
def negIdx {β : Type} (l : List β) (k : Nat) : Option β :=
  if 1 ≤ k ∧ k ≤ l.length then l[l.length - k]? else none

/-- Python `l[:-k]` (k ≥ 1 a literal) -/
def dropEnd {β : Type} (l : List β) (k : Nat) : List β := l.take (l.length - k)

variable {α γ : Type}

/-- `_find_iter` from the top of a loop round, with `buffer = buf`; the list holds what the
successive `fileobj.read(chunk)` calls return (any sizes: `read(k)` may return less than `k`).
An empty read – or the end of the list – is end of input.  Result: the values yielded, in order,
and the exception that ended the generator, if any. -/
def go (scan : Scanner α γ) (buf : List α) : List (List α) → List γ × Option Err
  | [] => ((scan buf).map (·.val), none)                    -- text = ''; yield from matches; break
  | c :: cs =>
    let buf' := buf ++ c                                     -- buffer += text
    let ms := scan buf'                                      -- matches = list(regex.finditer(buffer))
    if c.isEmpty then (ms.map (·.val), none)                 -- if not text: yield from matches; break
    else if Gen.guard ms.length then                         -- if len(matches) > 1:
      match negIdx ms Gen.trimBack with                      --   end = matches[-2].end()
      | none => ([], some .indexError)
      | some m =>
        let r := go scan (buf'.drop m.e) cs                  --   buffer = buffer[end:]
        ((dropEnd ms Gen.yieldHold).map (·.val) ++ r.1, r.2) --   yield from matches[:-1]
    else go scan buf' cs

/-- `_find_iter(fileobj, regex, chunk)`: the buffer starts as `fileobj.read(0)`, i.e. empty -/
def findIter (scan : Scanner α γ) (reads : List (List α)) : List γ × Option Err :=
  go scan [] reads

/-- the reads that happen before the first empty one (what the file handed over) -/
def readable (reads : List (List α)) : List (List α) := reads.takeWhile (fun c => !c.isEmpty)

/-- what `fileobj.read(k)` returns, call after call, on a file holding `t` (fuel = |t| rounds) -/
def chunksAux (k : Nat) : Nat → List α → List (List α)
  | 0, _ => []
  | f + 1, t => if t.isEmpty then [] else t.take k :: chunksAux k f (t.drop k)

def chunksOf (k : Nat) (t : List α) : List (List α) := chunksAux k t.length t

/-! ### state-machine view: what has been yielded after some reads (no end of input yet) -/

structure St (α γ : Type) where
  buf : List α
  out : List γ          -- everything yielded so far
  err : Option Err

/-- one loop round on a non-empty read -/
def step (scan : Scanner α γ) (st : St α γ) (c : List α) : St α γ :=
  match st.err with
  | some _ => st
  | none =>
    let buf' := st.buf ++ c
    let ms := scan buf'
    if Gen.guard ms.length then
      match negIdx ms Gen.trimBack with
      | none => { st with err := some .indexError }
      | some m => { buf := buf'.drop m.e, out := st.out ++ (dropEnd ms Gen.yieldHold).map (·.val), err := none }
    else { st with buf := buf' }

def run (scan : Scanner α γ) (cs : List (List α)) : St α γ :=
  cs.foldl (step scan) { buf := [], out := [], err := none }

/-! ### `parse`: argument checks, opener, cast -/

/-- what the caller passed as `file` -/
inductive FileArg where
  | pathStr | pathLike | textFile | binaryFile | other
  deriving DecidableEq, Repr

/-- observable resource events of one `parse` iteration -/
inductive Event where
  | opened      -- `open(file)` by the function
  | read
  | closed      -- the file the function opened is closed
  deriving DecidableEq, Repr

/-- `cast` argument: a dict (insertion-ordered, keys unique), a callable working in place, or
something else (TypeError).  Converters and the callable are user code: parameters. -/
inductive CastArg (κ ν : Type) where
  | dict (d : List (κ × (ν → ν)))
  | fn (f : List (κ × ν) → List (κ × ν))
  | invalid

/-- `groups[key] = converter(groups[key])` -/
def setKey {κ ν : Type} [DecidableEq κ] (k : κ) (f : ν → ν) : List (κ × ν) → List (κ × ν)
  | [] => []
  | (k', v) :: r => if k' = k then (k', f v) :: r else (k', v) :: setKey k f r

/-- `for key, converter in cast.items(): if key in groups: groups[key] = converter(groups[key])`
(a `groupdict()` has unique keys) -/
def castDict {κ ν : Type} [DecidableEq κ] (d : List (κ × (ν → ν))) (g : List (κ × ν)) : List (κ × ν) :=
  d.foldl (fun g kv => setKey kv.1 kv.2 g) g

def applyCast {κ ν : Type} [DecidableEq κ] : CastArg κ ν → List (κ × ν) → List (κ × ν)
  | .dict d, g => castDict d g
  | .fn f, g => f g
  | .invalid, g => g

structure ParseOut (κ ν : Type) where
  events : List Event
  out : List (List (κ × ν))
  err : Option Err

/-- `Logger.parse(file, pattern, cast=…, chunk=…)` iterated to exhaustion.  `patternOk = false`
stands for a pattern `re.compile` rejects with TypeError.  The checks run in the order file, cast,
pattern, before anything is opened. -/
def parse {κ ν : Type} [DecidableEq κ] (file : FileArg) (cast : CastArg κ ν) (patternOk : Bool)
    (scan : Scanner α (List (κ × ν))) (reads : List (List α)) : ParseOut κ ν :=
  if file = .other then ⟨[], [], some .typeError⟩ else
  match cast with
  | .invalid => ⟨[], [], some .typeError⟩
  | cast =>
    if !patternOk then ⟨[], [], some .typeError⟩ else
    let own := file = .pathStr ∨ file = .pathLike
    let r := findIter scan reads
    let nReads := (readable reads).length + 2          -- read(0), the non-empty reads, the empty read
    ⟨(if own then [.opened] else []) ++ List.replicate nReads .read ++
       (if own ∧ Gen.pathOpenerCloses ∧ Gen.iterationInsideWith then [.closed] else []),
     r.1.map (applyCast cast), r.2⟩

end Parse
