import LoguruModel.Parse.Finditer
/-
For an engine without look-behind (`finditer m` of an anchored matcher) prefix stability (P) follows
from its HEAD instance alone:

    (P1)  if the scan of `t` has at least two matches, its first match is the first match of the
          scan of every extension `t ++ u`.

(The first match of a text is final as soon as a second one has been seen.)  Together with
`finditer_local` this reduces the whole side condition of the property, for such engines, to (P1).
-/
namespace Parse

variable {α γ : Type}

theorem shift_shift (a b : Nat) (s : Span γ) : shift a (shift b s) = shift (a + b) s := by
  simp [shift, Nat.add_assoc]

/-- the first match and the rest: the rest is the scan of what follows the first match, shifted -/
theorem aux_cons (m : Matcher α γ) :
    ∀ (f : Nat) (t : List α), t.length ≤ f → ∀ (a : Span γ) (S : List (Span γ)),
      finditerAux m f 0 t = a :: S →
      1 ≤ a.e ∧ a.e ≤ t.length ∧ S = (finditer m (t.drop a.e)).map (shift a.e) := by
  intro f
  induction f with
  | zero => intro t _ a S h; simp [finditerAux] at h
  | succ f ih =>
    intro t hf a S h
    cases t with
    | nil => simp [finditerAux] at h
    | cons c cs =>
      cases hv : validMatch m (c :: cs) with
      | none =>
        have hlen : cs.length ≤ f := by simp at hf; omega
        have hS : finditerAux m (f + 1) 0 (c :: cs) = (finditerAux m f 0 cs).map (shift (0 + 1)) := by
          simp only [finditerAux, hv]; rw [aux_shift m f (0 + 1)]
        rw [hS] at h
        cases hX : finditerAux m f 0 cs with
        | nil => simp [hX] at h
        | cons a0 S0 =>
          rw [hX] at h
          simp only [List.map_cons, List.cons.injEq] at h
          obtain ⟨rfl, rfl⟩ := h
          obtain ⟨h1, h2, h3⟩ := ih cs hlen a0 S0 hX
          refine ⟨by simp [shift], by simp [shift]; omega, ?_⟩
          rw [h3, List.map_map]
          have hd : (c :: cs).drop (shift (0 + 1) a0).e = cs.drop a0.e := by
            simp [shift, Nat.add_comm 1 a0.e]
          rw [hd]
          congr 1
          funext s
          simp [Function.comp, shift]
          omega
      | some p =>
        obtain ⟨n, v⟩ := p
        have hn := validMatch_spec m _ n v hv
        have hlen : ((c :: cs).drop n).length ≤ f := by simp at hf ⊢; omega
        have hS : finditerAux m (f + 1) 0 (c :: cs)
            = ⟨0, 0 + n, v⟩ :: (finditerAux m f 0 ((c :: cs).drop n)).map (shift (0 + n)) := by
          simp only [finditerAux, hv]; rw [aux_shift m f (0 + n)]
        rw [hS] at h
        simp only [List.cons.injEq] at h
        obtain ⟨rfl, rfl⟩ := h
        refine ⟨by simp; omega, by simpa using hn.2, ?_⟩
        simp only [Nat.zero_add]
        unfold finditer
        rw [aux_fuel m _ f 0 _ (Nat.le_refl _) hlen]

theorem finditer_cons (m : Matcher α γ) (t : List α) (a : Span γ) (S : List (Span γ))
    (h : finditer m t = a :: S) :
    1 ≤ a.e ∧ a.e ≤ t.length ∧ S = (finditer m (t.drop a.e)).map (shift a.e) :=
  aux_cons m t.length t (Nat.le_refl _) a S h

/-- head stability: the first of at least two matches is final -/
def HeadStable (m : Matcher α γ) : Prop :=
  ∀ (t u : List α) (a b : Span γ) (rest : List (Span γ)),
    finditer m t = a :: b :: rest → ∃ R, finditer m (t ++ u) = a :: R

theorem prefixStable_of_headStable (m : Matcher α γ) (h1 : HeadStable m) :
    ∀ (n : Nat) (t u : List α), t.length ≤ n → (finditer m t).dropLast <+: finditer m (t ++ u) := by
  intro n
  induction n with
  | zero =>
    intro t u hn
    have : t = [] := List.eq_nil_of_length_eq_zero (by omega)
    subst this
    simp [finditer, finditerAux]
  | succ n ih =>
    intro t u hn
    cases hS : finditer m t with
    | nil => simp
    | cons a S =>
      cases S with
      | nil => simp
      | cons b rest =>
        obtain ⟨R, hR⟩ := h1 t u a b rest hS
        obtain ⟨ha1, hat, hrest⟩ := finditer_cons m t a _ hS
        obtain ⟨_, _, hR'⟩ := finditer_cons m (t ++ u) a R hR
        rw [List.drop_append_of_le_length hat] at hR'
        have hlen : (t.drop a.e).length ≤ n := by simp; omega
        have hih := ih (t.drop a.e) u hlen
        rw [hR, List.dropLast_cons_cons, hrest, hR', ← List.map_dropLast]
        exact (List.cons_prefix_cons).mpr ⟨rfl, List.IsPrefix.map _ hih⟩

/-- for an engine without look-behind, head stability is all that is needed -/
theorem finditer_local_of_headStable (m : Matcher α γ) (h1 : HeadStable m) : Local (finditer m) :=
  finditer_local m (fun t u => prefixStable_of_headStable m h1 t.length t u (Nat.le_refl _))

end Parse
