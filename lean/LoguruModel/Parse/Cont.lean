import LoguruModel.Parse.Scanners
/-
A scanner whose last match can GROW although it does not reach the end of the buffer:

    (?P<m>[^\n]*\n(?: [^\n]*\n)*)        -- a line, followed by all the complete indented lines after it

On the buffer "a\n b" the only match is "a\n" (0..2) and the buffer is 4 long; when the piece "\n"
arrives the match becomes "a\n b\n".  A hold-back rule that yields the last match whenever it ends
before the end of the buffer is wrong on this scanner (`goEager`, refuted in Props/C20); the rule of
`_find_iter` (always hold back the last match) is right: the scanner is `Local`.
-/
namespace Parse

variable {α : Type} [DecidableEq α]

/-- a continuation line: complete (terminated) and starting with the indent character -/
def isCont (nl sp : α) (l : List α) : Bool := l.head? == some sp && terminated nl l

/-- group lines into records: a terminated line and all the continuation lines that follow it;
an unterminated (last) line starts nothing -/
def contGroups (nl sp : α) : List (List α) → List (List α)
  | [] => []
  | l :: rest =>
    if terminated nl l then
      match rest with
      | [] => [l]
      | r :: _ =>
        if isCont nl sp r then
          match contGroups nl sp rest with
          | g :: gs => (l ++ g) :: gs
          | [] => [l]
        else l :: contGroups nl sp rest
    else []

theorem contGroups_single (nl sp : α) (x : List α) :
    contGroups nl sp [x] = if terminated nl x then [x] else [] := by
  simp [contGroups]

/-- the first record is made of the first lines; the other records are the records of the rest -/
theorem contGroups_split (nl sp : α) :
    ∀ (L : List (List α)) (g : List α) (gs : List (List α)), contGroups nl sp L = g :: gs →
      ∃ L1 L2, L = L1 ++ L2 ∧ g = L1.flatten ∧ contGroups nl sp L2 = gs := by
  intro L
  induction L with
  | nil => intro g gs h; simp [contGroups] at h
  | cons l rest ih =>
    intro g gs h
    unfold contGroups at h
    by_cases ht : terminated nl l = true
    · simp only [ht, ↓reduceIte] at h
      cases rest with
      | nil =>
        simp only [List.cons.injEq] at h
        obtain ⟨rfl, rfl⟩ := h
        exact ⟨[l], [], by simp, by simp, by simp [contGroups]⟩
      | cons r rs =>
        simp only at h
        by_cases hc : isCont nl sp r = true
        · simp only [hc, ↓reduceIte] at h
          cases hg : contGroups nl sp (r :: rs) with
          | nil =>
            rw [hg] at h
            simp only [List.cons.injEq] at h
            obtain ⟨rfl, rfl⟩ := h
            exact ⟨[l], r :: rs, by simp, by simp, hg⟩
          | cons g' gs' =>
            rw [hg] at h
            simp only [List.cons.injEq] at h
            obtain ⟨rfl, rfl⟩ := h
            obtain ⟨L1, L2, h1, h2, h3⟩ := ih g' gs' hg
            exact ⟨l :: L1, L2, by simp [h1], by simp [h2], h3⟩
        · simp only [hc, Bool.false_eq_true, ↓reduceIte, List.cons.injEq] at h
          obtain ⟨rfl, rfl⟩ := h
          exact ⟨[l], r :: rs, by simp, by simp, rfl⟩
    · simp [ht] at h

theorem contGroups_flatten_le (nl sp : α) :
    ∀ (L : List (List α)), (contGroups nl sp L).flatten.length ≤ L.flatten.length := by
  intro L
  induction L with
  | nil => simp [contGroups]
  | cons l rest ih =>
    unfold contGroups
    by_cases ht : terminated nl l = true
    · simp only [ht, ↓reduceIte]
      cases rest with
      | nil => simp
      | cons r rs =>
        simp only
        by_cases hc : isCont nl sp r = true
        · simp only [hc, ↓reduceIte]
          cases hg : contGroups nl sp (r :: rs) with
          | nil => simp
          | cons g' gs' =>
            rw [hg] at ih
            simp only [List.flatten_cons, List.length_append] at ih ⊢
            omega
        · simp only [hc, Bool.false_eq_true, ↓reduceIte, List.flatten_cons, List.length_append] at ih ⊢
          omega
    · simp [ht]

theorem lines_drop_flatten (nl : α) :
    ∀ (L1 L2 : List (List α)) (t : List α), lines nl t = L1 ++ L2 →
      lines nl (t.drop L1.flatten.length) = L2 := by
  intro L1
  induction L1 with
  | nil => intro L2 t h; simpa using h
  | cons l L1 ih =>
    intro L2 t h
    have h1 := lines_restart1 nl t l (L1 ++ L2) (by simpa using h)
    have := ih L2 _ h1
    rw [List.drop_drop] at this
    simpa [Nat.add_comm] using this

/-! ### how the lines of a text relate to the lines of an extension of it -/

/-- `Ext L L'`: `L'` are the lines of an extension of the text whose lines are `L` – all lines but
the last are kept; a terminated last line is kept too; an unterminated last line may have grown -/
inductive Ext (nl : α) : List (List α) → List (List α) → Prop
  | nil (L' : List (List α)) : Ext nl [] L'
  | lastTerm (x : List α) (R : List (List α)) : terminated nl x = true → Ext nl [x] (x :: R)
  | lastOpen (x x' : List α) (R : List (List α)) : terminated nl x = false → Ext nl [x] (x' :: R)
  | cons (d : List α) (L L' : List (List α)) : terminated nl d = true → Ext nl L L' → Ext nl (d :: L) (d :: L')

theorem terminated_cons (nl c : α) (d : List α) (h : terminated nl d = true) : terminated nl (c :: d) = true := by
  cases d with
  | nil => simp [terminated] at h
  | cons a d => simpa [terminated, List.getLast?_cons_cons] using h

theorem not_terminated_cons (nl c : α) (hc : c ≠ nl) (d : List α) (h : terminated nl d = false) :
    terminated nl (c :: d) = false := by
  cases d with
  | nil => simp [terminated, hc]
  | cons a d => simpa [terminated, List.getLast?_cons_cons] using h

theorem lines_ext (nl : α) (t u : List α) : Ext nl (lines nl t) (lines nl (t ++ u)) := by
  induction t with
  | nil => exact Ext.nil _
  | cons c cs ih =>
    simp only [List.cons_append, lines]
    by_cases hc : c = nl
    · simp only [hc, ↓reduceIte]
      have hterm : terminated nl [nl] = true := by simp [terminated]
      cases hL : lines nl cs with
      | nil =>
        exact Ext.lastTerm _ _ hterm
      | cons l ls =>
        rw [hL] at ih
        exact Ext.cons _ _ _ hterm ih
    · simp only [hc, ↓reduceIte]
      generalize lines nl cs = L at ih
      generalize lines nl (cs ++ u) = L' at ih
      cases ih with
      | nil L' =>
        have hnt : terminated nl [c] = false := by simp [terminated, hc]
        cases L' with
        | nil => exact Ext.lastOpen _ _ _ hnt
        | cons l ls => exact Ext.lastOpen _ _ _ hnt
      | lastTerm x R hx => exact Ext.lastTerm _ _ (terminated_cons nl c x hx)
      | lastOpen x x' R hx => exact Ext.lastOpen _ _ _ (not_terminated_cons nl c hc x hx)
      | cons d L L' hd h => exact Ext.cons _ _ _ (terminated_cons nl c d hd) h

theorem dropLast_cons_prefix {β : Type} (d : β) (G G' : List β) (h : G.dropLast <+: G') :
    (d :: G).dropLast <+: d :: G' := by
  cases G with
  | nil => simp
  | cons g gs => rw [List.dropLast_cons_cons]; exact (List.cons_prefix_cons).mpr ⟨rfl, h⟩

/-- all records but the last are final: they are the first records of every extension -/
theorem contGroups_ext (nl sp : α) (L L' : List (List α)) (h : Ext nl L L') :
    (contGroups nl sp L).dropLast <+: contGroups nl sp L' := by
  induction h with
  | nil L' => simp [contGroups]
  | lastTerm x R hx => simp [contGroups_single, hx]
  | lastOpen x x' R hx => simp [contGroups_single, hx]
  | cons d L L' hd hin ih =>
    cases hin with
    | nil L' => simp [contGroups_single, hd]
    | lastTerm x R hx =>
      by_cases hc : isCont nl sp x = true
      · simp [contGroups, hd, hx, hc]
      · have hc' : isCont nl sp x = false := by simpa using hc
        simp only [contGroups, hd, hx, hc', ↓reduceIte, Bool.false_eq_true]
        rw [List.dropLast_cons_cons]
        simp
    | lastOpen x x' R hx =>
      have hc : isCont nl sp x = false := by simp [isCont, hx]
      simp [contGroups, hd, hx, hc]
    | cons d2 L2 L2' hd2 hin2 =>
      by_cases hc : isCont nl sp d2 = true
      · have e1 : contGroups nl sp (d :: d2 :: L2)
            = match contGroups nl sp (d2 :: L2) with
              | g :: gs => (d ++ g) :: gs
              | [] => [d] := by
          conv => lhs; unfold contGroups
          simp [hd, hc]
        have e2 : contGroups nl sp (d :: d2 :: L2')
            = match contGroups nl sp (d2 :: L2') with
              | g :: gs => (d ++ g) :: gs
              | [] => [d] := by
          conv => lhs; unfold contGroups
          simp [hd, hc]
        rw [e1, e2]
        generalize contGroups nl sp (d2 :: L2) = G at ih
        generalize contGroups nl sp (d2 :: L2') = G' at ih
        cases G with
        | nil => simp
        | cons g gs =>
          cases gs with
          | nil => simp
          | cons g2 gs =>
            rw [List.dropLast_cons_cons] at ih
            cases G' with
            | nil => simp at ih
            | cons g' gs' =>
              obtain ⟨rfl, ih'⟩ := (List.cons_prefix_cons).mp ih
              simp only
              rw [List.dropLast_cons_cons]
              exact (List.cons_prefix_cons).mpr ⟨rfl, ih'⟩
      · have hc' : isCont nl sp d2 = false := by simpa using hc
        have e1 : contGroups nl sp (d :: d2 :: L2) = d :: contGroups nl sp (d2 :: L2) := by
          conv => lhs; unfold contGroups
          simp [hd, hc']
        have e2 : contGroups nl sp (d :: d2 :: L2') = d :: contGroups nl sp (d2 :: L2') := by
          conv => lhs; unfold contGroups
          simp [hd, hc']
        rw [e1, e2]
        exact dropLast_cons_prefix d _ _ ih

/-! ### the scanner -/

def contPieces (nl sp : α) (t : List α) : List (Nat × List α) :=
  (contGroups nl sp (lines nl t)).map (fun g => (g.length, g))

theorem contPieces_tileLocal (nl sp : α) : TileLocal (contPieces nl sp) where
  fits := by
    intro t
    have := contGroups_flatten_le nl sp (lines nl t)
    rw [lines_flatten] at this
    simpa [contPieces, total_linePieces] using this
  restart1 := by
    intro t p ps h
    simp only [contPieces] at h ⊢
    cases hg : contGroups nl sp (lines nl t) with
    | nil => simp [hg] at h
    | cons g gs =>
      rw [hg] at h
      simp only [List.map_cons, List.cons.injEq] at h
      obtain ⟨rfl, rfl⟩ := h
      obtain ⟨L1, L2, h1, h2, h3⟩ := contGroups_split nl sp _ g gs hg
      subst h2
      simp only
      rw [lines_drop_flatten nl L1 L2 t h1, h3]
  prefixStable := by
    intro t u
    obtain ⟨tl, htl⟩ := contGroups_ext nl sp _ _ (lines_ext nl t u)
    simp only [contPieces, ← List.map_dropLast, ← htl, List.map_append]
    exact List.prefix_append _ _

/-- `re.finditer(r"(?P<m>[^\n]*\n(?: [^\n]*\n)*)", t)`; value = the text of group `m` -/
def contScanner (nl sp : α) : Scanner α (List α) := tiling (contPieces nl sp)

theorem contScanner_local (nl sp : α) : Local (contScanner nl sp) :=
  tiling_local _ (contPieces_tileLocal nl sp)

/-! ### the hold-back rule that looks cheaper, and is wrong -/

variable {γ : Type}

/-- `_find_iter` with the rule "the last match is held back only if it reaches the end of the
buffer – otherwise it is already complete": yield everything that ends before the end of the buffer
and trim after the last match yielded -/
def goEager (scan : Scanner α γ) (buf : List α) : List (List α) → List γ
  | [] => (scan buf).map (·.val)
  | c :: cs =>
    let buf' := buf ++ c
    let ms := scan buf'
    if c.isEmpty then ms.map (·.val)
    else
      let ms' := if (ms.getLast?.map (·.e)) == some buf'.length then ms.dropLast else ms
      match ms'.getLast? with
      | none => goEager scan buf' cs
      | some m => ms'.map (·.val) ++ goEager scan (buf'.drop m.e) cs

/-- `_find_iter` with the rule "a pending match that was not extended by the text just read can no
longer be extended: release it" in front of the usual rule (the last match is yielded, and the
buffer trimmed after it, as soon as it ends at or before the old end of the buffer) -/
def goUnextended (scan : Scanner α γ) (buf : List α) : List (List α) → List γ
  | [] => (scan buf).map (·.val)
  | c :: cs =>
    let buf' := buf ++ c
    let ms := scan buf'
    if c.isEmpty then ms.map (·.val)
    else
      match ms.getLast? with
      | none => goUnextended scan buf' cs
      | some l =>
        if l.e ≤ buf'.length - c.length then ms.map (·.val) ++ goUnextended scan (buf'.drop l.e) cs
        else
          match ms.dropLast.getLast? with
          | some m => ms.dropLast.map (·.val) ++ goUnextended scan (buf'.drop m.e) cs
          | none => goUnextended scan buf' cs

end Parse
