import LoguruModel.Py.Generators
import LoguruModel.Parse.Trace
/-
`Logger.parse` is a generator function.  Here its body is written as an automaton of the shared
generator-protocol library `Py/Generators.lean` (CPython's `send / throw / close`, unstarted and
finished objects, `GeneratorExit` thrown in by `close()` – the model C16 validates against real
CPython generator objects on every run), a consumer (`for d in g: …; break after n items`, then
`g.close()`) drives the generator object, and the event trace that results is PROVED equal to
`parseTrace` of Parse/Trace.lean.  So what Trace.lean writes down about the protocol – nothing runs
before the first `next()`, `close()` of an unstarted generator does nothing, `close()` of a suspended
one raises GeneratorExit at the `yield`, an exception finishes the object – is derived, not assumed.
What remains written by hand is the meaning of the two `with` blocks: on every exit of the body –
normal, by an exception, by GeneratorExit – the file the function opened is closed first.
-/
set_option linter.unusedSimpArgs false
namespace Parse
open Py

variable {α γ ρ : Type}

/-- the model's exception kinds as protocol-level exception objects (classes beyond the reserved ones) -/
def errIdx : Err → Nat
  | .valueError => 0 | .typeError => 1 | .keyError => 2 | .indexError => 3 | .attributeError => 4
  | .runtimeError => 5 | .osError => 6 | .other => 7

def excOf (e : Err) : Gen.Exc := ⟨10 + errIdx e, 0⟩

def errOf (x : Gen.Exc) : Err :=
  match x.cls - 10 with
  | 0 => .valueError | 1 => .typeError | 2 => .keyError | 3 => .indexError | 4 => .attributeError
  | 5 => .runtimeError | 6 => .osError | _ => .other

theorem errOf_excOf (e : Err) : errOf (excOf e) = e := by cases e <;> rfl

theorem excOf_not_special (e : Err) : (excOf e).isStopIteration = false ∧ (excOf e).isGenExit = false := by
  cases e <;> exact ⟨rfl, rfl⟩

/-- where the body of `parse` is: before its first statement, or suspended at `yield groups` with the
rest of what `_find_iter` will do -/
inductive PSt (γ : Type) where
  | start
  | at (acts : List (FAct γ))

/-- run the body of `with opener() as fileobj:` from the current point to the next `yield`, to the
end of the loop, or to an exception; the world is the event log -/
def advance (cast : γ → Except Err ρ) (own : Bool) :
    List (FAct γ) → List (TEv ρ) → Gen.Outcome × PSt γ × List (TEv ρ)
  | [], w => (.ret 0, .at [], w ++ closeEv ρ own)                        -- loop over: both `with` blocks exit
  | .read :: as, w => advance cast own as (w ++ [.read])
  | .fail e :: _, w => (.raise (excOf e), .at [], w ++ closeEv ρ own)     -- propagates out of the `with` blocks
  | .item v :: as, w =>
    match cast v with
    | .error e => (.raise (excOf e), .at [], w ++ closeEv ρ own)
    | .ok v' => (.yield 0, .at as, w ++ [.yielded v'])

section body
variable {κ ν : Type} [DecidableEq κ]

/-- the body of `parse` as an automaton: the argument checks and `open` at the first resumption, then
the loop; an exception thrown in at the `yield` (GeneratorExit of `close()`) leaves the `with` blocks -/
def parseAuto (s : Src α) (cast : CastArgE κ ν) (vv : ValView ν) (scan : Scanner α (List (κ × ν))) :
    Gen.Auto (List (TEv (List (κ × ν)))) (PSt (List (κ × ν))) where
  step := fun st inp w =>
    match st, inp with
    | .start, .send _ =>
      if !(s.own || s.fileObj) then (.raise (excOf .typeError), .at [], w) else
      match cast with
      | .invalid => (.raise (excOf .typeError), .at [], w)
      | cast =>
        if !s.patternOk then (.raise (excOf .typeError), .at [], w) else
        if s.own then
          match s.openFails with
          | some e => (.raise (excOf e), .at [], w)
          | none => advance (applyCastE vv cast) true (findIterActs s.kindOk scan s.chunk s.reads) (w ++ [.opened])
        else advance (applyCastE vv cast) false (findIterActs s.kindOk scan s.chunk s.reads) w
    | .start, .throw e => (.raise e, .at [], w)
    | .at acts, .send _ => advance (applyCastE vv cast) s.own acts w
    | .at _, .throw e => (.raise e, .at [], w ++ closeEv _ s.own)

end body

/-- the consumer: `for d in g:` taking `lim` items (`none`: all), then `g.close()`; an exception that
comes out of `next(g)` is what the consumer observes last.  `fuel` bounds the number of `next` calls. -/
def drive {τ : Type} (o : Gen.Obj (List (TEv ρ)) τ) : Nat → Option Nat → τ → List (TEv ρ) → List (TEv ρ)
  | 0, _, _, w => w
  | f + 1, lim, t, w =>
    if lim = some 0 then (o.step t .close w).2.2
    else
      match o.step t (.send 0) w with
      | (.yield _, t', w') => drive o f (lim.map (· - 1)) t' w'
      | (.stop _, _, w') => w'
      | (.raise e, _, w') => w' ++ [.raised (errOf e)]
      | (.closed, _, w') => w'

section proofs
variable {κ ν : Type} [DecidableEq κ]

theorem pep479_excOf (e : Err) : Gen.pep479 .generator (excOf e) = excOf e := by
  simp [Gen.pep479, (excOf_not_special e).1]

/-- from a suspended generator: the consumer's trace is `consume` of the remaining actions -/
theorem drive_suspended (s : Src α) (cast : CastArgE κ ν) (vv : ValView ν) (scan : Scanner α (List (κ × ν))) :
    ∀ (acts : List (FAct (List (κ × ν)))) (fuel : Nat) (lim : Option Nat) (w : List (TEv (List (κ × ν)))),
      acts.length < fuel → lim ≠ some 0 →
      drive (Gen.genObj .generator (parseAuto s cast vv scan)) fuel lim (.suspended (.at acts)) w
        = w ++ consume (applyCastE vv cast) s.own lim acts := by
  intro acts
  induction acts with
  | nil =>
    intro fuel lim w hf hl
    obtain ⟨f, rfl⟩ : ∃ f, fuel = f + 1 := ⟨fuel - 1, by omega⟩
    simp [drive, hl, Gen.genObj, Gen.genStep, parseAuto, advance, Gen.settle, consume]
  | cons a as ih =>
    intro fuel lim w hf hl
    obtain ⟨f, rfl⟩ : ∃ f, fuel = f + 1 := ⟨fuel - 1, by omega⟩
    simp only [List.length_cons] at hf
    cases a with
    | read =>
      have h1 : drive (Gen.genObj .generator (parseAuto s cast vv scan)) (f + 1) lim (.suspended (.at (.read :: as))) w
          = drive (Gen.genObj .generator (parseAuto s cast vv scan)) (f + 1) lim (.suspended (.at as)) (w ++ [.read]) := by
        simp [drive, hl, Gen.genObj, Gen.genStep, parseAuto, advance]
      rw [h1, ih (f + 1) lim (w ++ [TEv.read]) (by omega) hl]
      simp [consume]
    | fail e =>
      simp [drive, hl, Gen.genObj, Gen.genStep, parseAuto, advance, Gen.settle, consume, pep479_excOf, errOf_excOf]
    | item v =>
      cases hc : applyCastE vv cast v with
      | error e =>
        simp [drive, hl, Gen.genObj, Gen.genStep, parseAuto, advance, Gen.settle, consume, hc, pep479_excOf, errOf_excOf]
      | ok v' =>
        have h1 : drive (Gen.genObj .generator (parseAuto s cast vv scan)) (f + 1) lim (.suspended (.at (.item v :: as))) w
            = drive (Gen.genObj .generator (parseAuto s cast vv scan)) f (lim.map (· - 1)) (.suspended (.at as)) (w ++ [.yielded v']) := by
          simp [drive, hl, Gen.genObj, Gen.genStep, parseAuto, advance, Gen.settle, hc]
        rw [h1]
        cases lim with
        | none =>
          rw [Option.map_none, ih f none _ (by omega) (by simp)]
          simp [consume, hc]
        | some n =>
          by_cases hn : n ≤ 1
          · have hn1 : n = 1 := by
              have : n ≠ 0 := fun h => hl (by rw [h])
              omega
            subst hn1
            obtain ⟨f', rfl⟩ : ∃ f', f = f' + 1 := ⟨f - 1, by omega⟩
            have hge : (Gen.genExit).isGenExit = true := rfl
            simp [drive, Gen.genObj, Gen.genStep, parseAuto, Gen.settleClose, hge, consume, hc]
          · rw [Option.map_some, ih f (some (n - 1)) _ (by omega) (by simp; omega)]
            simp [consume, hc, hn]

/-- **The event trace of `parse` follows from CPython's generator protocol.**  Drive the generator
object whose body is `parseAuto` the way a consumer does (`next` … `next`, `close()`): the events are
exactly `parseTrace`.  Any scanner, any reads, any cast, any limit; enough fuel. -/
theorem drive_eq_parseTrace (s : Src α) (cast : CastArgE κ ν) (vv : ValView ν)
    (scan : Scanner α (List (κ × ν))) (limit : Option Nat) (fuel : Nat)
    (hf : (findIterActs s.kindOk scan s.chunk s.reads).length < fuel) :
    drive (Gen.genObj .generator (parseAuto s cast vv scan)) fuel limit (.unstarted .start) []
      = parseTrace s cast vv scan limit := by
  obtain ⟨f, rfl⟩ : ∃ f, fuel = f + 1 := ⟨fuel - 1, by omega⟩
  by_cases hl : limit = some 0
  · subst hl
    simp [drive, Gen.genObj, Gen.genStep, parseTrace]
  · unfold parseTrace
    simp only [hl, ↓reduceIte]
    by_cases hargs : (s.own || s.fileObj) = true
    · simp only [hargs, Bool.not_true, Bool.false_eq_true, ↓reduceIte]
      cases cast with
      | invalid =>
        simp [drive, hl, Gen.genObj, Gen.genStep, parseAuto, hargs, Gen.settle, pep479_excOf, errOf_excOf]
      | dict d =>
        by_cases hp : s.patternOk = true
        · simp only [hp, Bool.not_true, Bool.false_eq_true, ↓reduceIte]
          by_cases hown : s.own = true
          · simp only [hown, ↓reduceIte]
            cases ho : s.openFails with
            | some e =>
              simp [drive, hl, Gen.genObj, Gen.genStep, parseAuto, hargs, hp, hown, ho, Gen.settle, pep479_excOf, errOf_excOf]
            | none =>
              have h1 : drive (Gen.genObj .generator (parseAuto s (.dict d) vv scan)) (f + 1) limit (.unstarted .start) []
                  = drive (Gen.genObj .generator (parseAuto s (.dict d) vv scan)) (f + 1) limit
                      (.suspended (.at (findIterActs s.kindOk scan s.chunk s.reads))) [.opened] := by
                simp [drive, hl, Gen.genObj, Gen.genStep, parseAuto, hargs, hp, hown, ho]
              rw [h1, drive_suspended s (.dict d) vv scan _ (f + 1) limit _ hf hl, hown]
              rfl
          · have hown' : s.own = false := by simpa using hown
            have hfo : s.fileObj = true := by simpa [hown'] using hargs
            simp only [hown', Bool.false_eq_true, ↓reduceIte]
            have h1 : drive (Gen.genObj .generator (parseAuto s (.dict d) vv scan)) (f + 1) limit (.unstarted .start) []
                = drive (Gen.genObj .generator (parseAuto s (.dict d) vv scan)) (f + 1) limit
                    (.suspended (.at (findIterActs s.kindOk scan s.chunk s.reads))) [] := by
              simp [drive, hl, Gen.genObj, Gen.genStep, parseAuto, hargs, hp, hown', hfo]
            rw [h1, drive_suspended s (.dict d) vv scan _ (f + 1) limit _ hf hl, hown']
            rfl
        · have hp' : s.patternOk = false := by simpa using hp
          simp [drive, hl, Gen.genObj, Gen.genStep, parseAuto, hargs, hp', Gen.settle, pep479_excOf, errOf_excOf]
      | fn g =>
        by_cases hp : s.patternOk = true
        · simp only [hp, Bool.not_true, Bool.false_eq_true, ↓reduceIte]
          by_cases hown : s.own = true
          · simp only [hown, ↓reduceIte]
            cases ho : s.openFails with
            | some e =>
              simp [drive, hl, Gen.genObj, Gen.genStep, parseAuto, hargs, hp, hown, ho, Gen.settle, pep479_excOf, errOf_excOf]
            | none =>
              have h1 : drive (Gen.genObj .generator (parseAuto s (.fn g) vv scan)) (f + 1) limit (.unstarted .start) []
                  = drive (Gen.genObj .generator (parseAuto s (.fn g) vv scan)) (f + 1) limit
                      (.suspended (.at (findIterActs s.kindOk scan s.chunk s.reads))) [.opened] := by
                simp [drive, hl, Gen.genObj, Gen.genStep, parseAuto, hargs, hp, hown, ho]
              rw [h1, drive_suspended s (.fn g) vv scan _ (f + 1) limit _ hf hl, hown]
              rfl
          · have hown' : s.own = false := by simpa using hown
            have hfo : s.fileObj = true := by simpa [hown'] using hargs
            simp only [hown', Bool.false_eq_true, ↓reduceIte]
            have h1 : drive (Gen.genObj .generator (parseAuto s (.fn g) vv scan)) (f + 1) limit (.unstarted .start) []
                = drive (Gen.genObj .generator (parseAuto s (.fn g) vv scan)) (f + 1) limit
                    (.suspended (.at (findIterActs s.kindOk scan s.chunk s.reads))) [] := by
              simp [drive, hl, Gen.genObj, Gen.genStep, parseAuto, hargs, hp, hown', hfo]
            rw [h1, drive_suspended s (.fn g) vv scan _ (f + 1) limit _ hf hl, hown']
            rfl
        · have hp' : s.patternOk = false := by simpa using hp
          simp [drive, hl, Gen.genObj, Gen.genStep, parseAuto, hargs, hp', Gen.settle, pep479_excOf, errOf_excOf]
    · have hargs' : (s.own || s.fileObj) = false := by simpa using hargs
      simp only [hargs', Bool.not_false, ↓reduceIte]
      simp [drive, hl, Gen.genObj, Gen.genStep, parseAuto, hargs', Gen.settle, pep479_excOf, errOf_excOf]

end proofs

end Parse
