import LoguruModel.Parse.GenProto
/-
The two `opener` context managers of `Logger.parse`, as they are written:

    @contextlib.contextmanager                  @contextlib.contextmanager
    def opener():                               def opener():
        with open(file) as fileobj:                 yield file
            yield fileobj

`contextlib.contextmanager` turns a generator function into a context manager whose `__enter__` is
`next(gen)` and whose `__exit__` is `next(gen)` (normal exit: the generator must stop) or
`gen.throw(exc)` (the generator must re-raise or stop).  Here the two bodies are automata of the
shared generator-protocol model `Py/Generators.lean`, `cmEnter` / `cmExit` are contextlib's
`_GeneratorContextManager.__enter__` / `__exit__` over it, and what Trace.lean writes down as
`closeEv` – "leaving `with opener() as fileobj:` in any way closes the file the function opened, and
nothing else; a caller's file object is left alone; the exception is not swallowed" – is PROVED.
What stays an assumption: the `with` statement calls `__exit__` exactly once on every exit of its
body, and `open(file).__exit__` closes the file and does not suppress.
-/
set_option linter.unusedSimpArgs false
namespace Parse
open Py

variable {ρ : Type}

/-- where an `opener()` generator is: before its first statement, or suspended at its `yield` -/
inductive OSt where
  | start
  | inside
  deriving DecidableEq, Repr

/-- the body of `opener` for a path argument (`own = true`: `with open(file) as fileobj: yield fileobj`)
or a file object (`own = false`: `yield file`).  World = the event log. -/
def openerAuto (ρ : Type) (own : Bool) (openErr : Option Err) : Gen.Auto (List (TEv ρ)) OSt where
  step := fun st inp w =>
    match st, inp with
    | .start, .send _ =>
      if own then
        match openErr with
        | some e => (.raise (excOf e), .start, w)                 -- `open(file)` raises
        | none => (.yield 0, .inside, w ++ [.opened])              -- `__enter__` of the file, then `yield fileobj`
      else (.yield 0, .inside, w)                                  -- `yield file`
    | .start, .throw e => (.raise e, .start, w)
    | .inside, .send _ =>                                           -- resumed normally: the inner `with` ends
      (.ret 0, .inside, w ++ (if own && Gen.pathOpenerCloses then [.closed] else []))
    | .inside, .throw e =>                                          -- exception at the `yield`: `open().__exit__`
      (.raise e, .inside, w ++ (if own && Gen.pathOpenerCloses then [.closed] else []))   -- closes, does not suppress

/-- result of `__enter__` / `__exit__` of a generator-based context manager -/
inductive CMRes where
  | ok                      -- `__enter__` returned / `__exit__` returned False: an exception in flight goes on
  | suppressed              -- `__exit__` returned True
  | raised (e : Gen.Exc)    -- the call itself raised
  deriving DecidableEq, Repr

def rtErr : Gen.Exc := ⟨Gen.clsRuntimeError, 60⟩     -- "generator didn't yield" / "didn't stop"

/-- `_GeneratorContextManager.__enter__`: `next(self.gen)` -/
def cmEnter {ω σ : Type} (a : Gen.Auto ω σ) (g : Gen.GState σ) (w : ω) : CMRes × Gen.GState σ × ω :=
  match Gen.genStep .generator a g (.send 0) w with
  | (.yield _, g', w') => (.ok, g', w')
  | (.raise e, g', w') => (.raised e, g', w')
  | (_, g', w') => (.raised rtErr, g', w')

/-- `_GeneratorContextManager.__exit__(typ, value, tb)`; `exc = none`: the body ended normally -/
def cmExit {ω σ : Type} (a : Gen.Auto ω σ) (g : Gen.GState σ) (exc : Option Gen.Exc) (w : ω) :
    CMRes × Gen.GState σ × ω :=
  match exc with
  | none =>
    match Gen.genStep .generator a g (.send 0) w with
    | (.stop _, g', w') => (.ok, g', w')
    | (.raise e, g', w') => (.raised e, g', w')
    | (_, g', w') => (.raised rtErr, g', w')                     -- "generator didn't stop"
  | some x =>
    match Gen.genStep .generator a g (.throw x) w with
    | (.stop _, g', w') => (.suppressed, g', w')
    | (.raise e, g', w') => if e = x then (.ok, g', w') else (.raised e, g', w')
    | (_, g', w') => (.raised rtErr, g', w')                     -- "generator didn't stop after throw()"

/-- entering `with opener() as fileobj:` – the path branch opens the file (or lets `open`'s error
through, nothing opened), the file-object branch does nothing observable -/
theorem opener_enter (own : Bool) (openErr : Option Err) (w : List (TEv ρ)) :
    cmEnter (openerAuto ρ own openErr) (.unstarted .start) w =
      match own, openErr with
      | true, some e => (.raised (excOf e), .done, w)
      | true, none => (.ok, .suspended .inside, w ++ [.opened])
      | false, _ => (.ok, .suspended .inside, w) := by
  cases own <;> cases openErr <;>
    simp [cmEnter, Gen.genStep, openerAuto, Gen.settle, pep479_excOf]

/-- **leaving the block in any way is `closeEv`**: normally (`exc = none`) or with any exception in
flight that is not StopIteration (`GeneratorExit` of `close()` included) – the file the function
opened is closed, a caller's file object is not touched, and the exception is not swallowed -/
theorem opener_exit (own : Bool) (openErr : Option Err) (exc : Option Gen.Exc)
    (hx : ∀ x, exc = some x → x.isStopIteration = false) (w : List (TEv ρ)) :
    cmExit (openerAuto ρ own openErr) (.suspended .inside) exc w
      = (.ok, .done, w ++ (if own && Gen.pathOpenerCloses then [.closed] else [])) := by
  cases exc with
  | none => simp [cmExit, Gen.genStep, openerAuto, Gen.settle]
  | some x =>
    have := hx x rfl
    simp [cmExit, Gen.genStep, openerAuto, Gen.settle, Gen.pep479, this]

/-- … which is exactly what Trace.lean appends at every exit of the body of `parse` (there the
enclosing `with opener()` is `Gen.iterationInsideWith`) -/
theorem opener_exit_eq_closeEv (own : Bool) (openErr : Option Err) (exc : Option Gen.Exc)
    (hx : ∀ x, exc = some x → x.isStopIteration = false) (w : List (TEv ρ)) :
    (cmExit (openerAuto ρ own openErr) (.suspended .inside) exc w).2.2 = w ++ closeEv ρ own := by
  have hiw : Gen.iterationInsideWith = true := by decide
  rw [opener_exit own openErr exc hx w]
  simp [closeEv, hiw]

/-! ### the body of `parse` with the `with opener() as fileobj:` statement spelled out

`parseAutoW` is `parseAuto` of GenProto.lean with every `closeEv` replaced by what the statement
does: `cm = opener()`; `cm.__enter__()`; on every exit of the block `cm.__exit__(…)` – through
contextlib's protocol over the opener automaton – and the exception re-raised unless `__exit__`
says otherwise.  Driving it gives the same event trace (`driveW_eq_parseTrace`), so `closeEv` is no
longer an ingredient of the derivation, only a name for its result. -/

variable {α γ : Type}

/-- suspended at `yield groups`, inside the block: the opener's generator object and the rest of
what `_find_iter` will do -/
inductive PStW (γ : Type) where
  | start
  | at (g : Gen.GState OSt) (acts : List (FAct γ))

/-- the block is left with `exc` in flight (`none`: normally): `__exit__` decides what comes out -/
def leaveWith (own : Bool) (openErr : Option Err) (g : Gen.GState OSt) (exc : Option Gen.Exc)
    (w : List (TEv ρ)) : Gen.Outcome × PStW γ × List (TEv ρ) :=
  match cmExit (openerAuto ρ own openErr) g exc w with
  | (.ok, g', w') =>
    (match exc with
     | none => (.ret 0, .at g' [], w')            -- the generator function ends
     | some x => (.raise x, .at g' [], w'))       -- not suppressed: re-raised
  | (.suppressed, g', w') => (.ret 0, .at g' [], w')
  | (.raised e, g', w') => (.raise e, .at g' [], w')

def advanceW (cast : γ → Except Err ρ) (own : Bool) (openErr : Option Err) (g : Gen.GState OSt) :
    List (FAct γ) → List (TEv ρ) → Gen.Outcome × PStW γ × List (TEv ρ)
  | [], w => leaveWith own openErr g none w
  | .read :: as, w => advanceW cast own openErr g as (w ++ [.read])
  | .fail e :: _, w => leaveWith own openErr g (some (excOf e)) w
  | .item v :: as, w =>
    match cast v with
    | .error e => leaveWith own openErr g (some (excOf e)) w
    | .ok v' => (.yield 0, .at g as, w ++ [.yielded v'])

section bodyW
variable {κ ν : Type} [DecidableEq κ]

def parseAutoW (s : Src α) (cast : CastArgE κ ν) (vv : ValView ν) (scan : Scanner α (List (κ × ν))) :
    Gen.Auto (List (TEv (List (κ × ν)))) (PStW (List (κ × ν))) where
  step := fun st inp w =>
    match st, inp with
    | .start, .send _ =>
      if !(s.own || s.fileObj) then (.raise (excOf .typeError), .at .done [], w) else
      match cast with
      | .invalid => (.raise (excOf .typeError), .at .done [], w)
      | cast =>
        if !s.patternOk then (.raise (excOf .typeError), .at .done [], w) else
        -- with opener() as fileobj:
        match cmEnter (openerAuto _ s.own s.openFails) (.unstarted .start) w with
        | (.ok, g, w') => advanceW (applyCastE vv cast) s.own s.openFails g (findIterActs s.kindOk scan s.chunk s.reads) w'
        | (.raised e, g, w') => (.raise e, .at g [], w')
        | (.suppressed, g, w') => (.raise rtErr, .at g [], w')
    | .start, .throw e => (.raise e, .at .done [], w)
    | .at g acts, .send _ => advanceW (applyCastE vv cast) s.own s.openFails g acts w
    | .at g _, .throw e => leaveWith s.own s.openFails g (some e) w

theorem leaveWith_inside (own : Bool) (openErr : Option Err) (exc : Option Gen.Exc)
    (hx : ∀ x, exc = some x → x.isStopIteration = false) (w : List (TEv ρ)) :
    (leaveWith own openErr (.suspended .inside) exc w : Gen.Outcome × PStW γ × List (TEv ρ))
      = (match exc with | none => .ret 0 | some x => .raise x, .at .done [], w ++ closeEv ρ own) := by
  have hiw : Gen.iterationInsideWith = true := by decide
  unfold leaveWith
  rw [opener_exit own openErr exc hx w]
  cases exc <;> simp [closeEv, hiw]

theorem driveW_suspended (s : Src α) (cast : CastArgE κ ν) (vv : ValView ν) (scan : Scanner α (List (κ × ν))) :
    ∀ (acts : List (FAct (List (κ × ν)))) (fuel : Nat) (lim : Option Nat) (w : List (TEv (List (κ × ν)))),
      acts.length < fuel → lim ≠ some 0 →
      drive (Gen.genObj .generator (parseAutoW s cast vv scan)) fuel lim (.suspended (.at (.suspended .inside) acts)) w
        = w ++ consume (applyCastE vv cast) s.own lim acts := by
  have hS : ∀ e : Err, ∀ x, some (excOf e) = some x → x.isStopIteration = false := by
    intro e x h; cases h; exact (excOf_not_special e).1
  have hN : ∀ x, (none : Option Gen.Exc) = some x → x.isStopIteration = false := by intro x h; cases h
  have hG : ∀ x, some Gen.genExit = some x → x.isStopIteration = false := by intro x h; cases h; rfl
  intro acts
  induction acts with
  | nil =>
    intro fuel lim w hf hl
    obtain ⟨f, rfl⟩ : ∃ f, fuel = f + 1 := ⟨fuel - 1, by omega⟩
    simp [drive, hl, Gen.genObj, Gen.genStep, parseAutoW, advanceW, leaveWith_inside _ _ _ hN, Gen.settle, consume]
  | cons a as ih =>
    intro fuel lim w hf hl
    obtain ⟨f, rfl⟩ : ∃ f, fuel = f + 1 := ⟨fuel - 1, by omega⟩
    simp only [List.length_cons] at hf
    cases a with
    | read =>
      have h1 : drive (Gen.genObj .generator (parseAutoW s cast vv scan)) (f + 1) lim
            (.suspended (.at (.suspended .inside) (.read :: as))) w
          = drive (Gen.genObj .generator (parseAutoW s cast vv scan)) (f + 1) lim
            (.suspended (.at (.suspended .inside) as)) (w ++ [.read]) := by
        simp [drive, hl, Gen.genObj, Gen.genStep, parseAutoW, advanceW]
      rw [h1, ih (f + 1) lim (w ++ [TEv.read]) (by omega) hl]
      simp [consume]
    | fail e =>
      simp [drive, hl, Gen.genObj, Gen.genStep, parseAutoW, advanceW, leaveWith_inside _ _ _ (hS e), Gen.settle,
        consume, pep479_excOf, errOf_excOf]
    | item v =>
      cases hc : applyCastE vv cast v with
      | error e =>
        simp [drive, hl, Gen.genObj, Gen.genStep, parseAutoW, advanceW, leaveWith_inside _ _ _ (hS e), Gen.settle,
          consume, hc, pep479_excOf, errOf_excOf]
      | ok v' =>
        have h1 : drive (Gen.genObj .generator (parseAutoW s cast vv scan)) (f + 1) lim
              (.suspended (.at (.suspended .inside) (.item v :: as))) w
            = drive (Gen.genObj .generator (parseAutoW s cast vv scan)) f (lim.map (· - 1))
              (.suspended (.at (.suspended .inside) as)) (w ++ [.yielded v']) := by
          simp [drive, hl, Gen.genObj, Gen.genStep, parseAutoW, advanceW, Gen.settle, hc]
        rw [h1]
        cases lim with
        | none =>
          rw [Option.map_none, ih f none _ (by omega) (by simp)]
          simp [consume, hc]
        | some n =>
          by_cases hn : n ≤ 1
          · have hn1 : n = 1 := by
              have : n ≠ 0 := fun h => hl (by rw [h])
              omega
            subst hn1
            obtain ⟨f', rfl⟩ : ∃ f', f = f' + 1 := ⟨f - 1, by omega⟩
            have hge : (Gen.genExit).isGenExit = true := rfl
            simp [drive, Gen.genObj, Gen.genStep, parseAutoW, leaveWith_inside _ _ _ hG, Gen.settleClose, hge, consume, hc]
          · rw [Option.map_some, ih f (some (n - 1)) _ (by omega) (by simp; omega)]
            simp [consume, hc, hn]

end bodyW

section topW
variable {α : Type} {κ ν : Type} [DecidableEq κ]

/-- **The event trace with the `with` statement spelled out.**  The generator object whose body
enters and leaves `with opener() as fileobj:` through contextlib's protocol over the opener automata,
driven by a consumer, produces exactly `parseTrace`. -/
theorem driveW_eq_parseTrace (s : Src α) (cast : CastArgE κ ν) (vv : ValView ν)
    (scan : Scanner α (List (κ × ν))) (limit : Option Nat) (fuel : Nat)
    (hf : (findIterActs s.kindOk scan s.chunk s.reads).length < fuel) :
    drive (Gen.genObj .generator (parseAutoW s cast vv scan)) fuel limit (.unstarted .start) []
      = parseTrace s cast vv scan limit := by
  obtain ⟨f, rfl⟩ : ∃ f, fuel = f + 1 := ⟨fuel - 1, by omega⟩
  by_cases hl : limit = some 0
  · subst hl
    simp [drive, Gen.genObj, Gen.genStep, parseTrace]
  · unfold parseTrace
    simp only [hl, ↓reduceIte]
    by_cases hargs : (s.own || s.fileObj) = true
    · simp only [hargs, Bool.not_true, Bool.false_eq_true, ↓reduceIte]
      -- the valid-cast part, common to `.dict` and `.fn`
      have main : ∀ c : CastArgE κ ν, c.valid = true →
          drive (Gen.genObj .generator (parseAutoW s c vv scan)) (f + 1) limit (.unstarted .start) []
            = if !s.patternOk then [.raised .typeError] else
              if s.own then
                match s.openFails with
                | some e => [.raised e]
                | none => .opened :: consume (applyCastE vv c) true limit (findIterActs s.kindOk scan s.chunk s.reads)
              else consume (applyCastE vv c) false limit (findIterActs s.kindOk scan s.chunk s.reads) := by
        intro c hc
        by_cases hp : s.patternOk = true
        · simp only [hp, Bool.not_true, Bool.false_eq_true, ↓reduceIte]
          by_cases hown : s.own = true
          · simp only [hown, ↓reduceIte]
            cases ho : s.openFails with
            | some e =>
              cases c with
              | invalid => simp [CastArgE.valid] at hc
              | dict d =>
                simp [drive, hl, Gen.genObj, Gen.genStep, parseAutoW, hargs, hp, hown, ho, cmEnter, openerAuto,
                  Gen.settle, pep479_excOf, errOf_excOf]
              | fn g =>
                simp [drive, hl, Gen.genObj, Gen.genStep, parseAutoW, hargs, hp, hown, ho, cmEnter, openerAuto,
                  Gen.settle, pep479_excOf, errOf_excOf]
            | none =>
              have h1 : drive (Gen.genObj .generator (parseAutoW s c vv scan)) (f + 1) limit (.unstarted .start) []
                  = drive (Gen.genObj .generator (parseAutoW s c vv scan)) (f + 1) limit
                      (.suspended (.at (.suspended .inside) (findIterActs s.kindOk scan s.chunk s.reads))) [.opened] := by
                cases c with
                | invalid => simp [CastArgE.valid] at hc
                | dict d =>
                  simp [drive, hl, Gen.genObj, Gen.genStep, parseAutoW, hargs, hp, hown, ho, cmEnter, openerAuto, Gen.settle]
                | fn g =>
                  simp [drive, hl, Gen.genObj, Gen.genStep, parseAutoW, hargs, hp, hown, ho, cmEnter, openerAuto, Gen.settle]
              rw [h1, driveW_suspended s c vv scan _ (f + 1) limit _ hf hl, hown]
              rfl
          · have hown' : s.own = false := by simpa using hown
            have hfo : s.fileObj = true := by simpa [hown'] using hargs
            simp only [hown', Bool.false_eq_true, ↓reduceIte]
            have h1 : drive (Gen.genObj .generator (parseAutoW s c vv scan)) (f + 1) limit (.unstarted .start) []
                = drive (Gen.genObj .generator (parseAutoW s c vv scan)) (f + 1) limit
                    (.suspended (.at (.suspended .inside) (findIterActs s.kindOk scan s.chunk s.reads))) [] := by
              cases c with
              | invalid => simp [CastArgE.valid] at hc
              | dict d =>
                simp [drive, hl, Gen.genObj, Gen.genStep, parseAutoW, hargs, hp, hown', hfo, cmEnter, openerAuto, Gen.settle]
              | fn g =>
                simp [drive, hl, Gen.genObj, Gen.genStep, parseAutoW, hargs, hp, hown', hfo, cmEnter, openerAuto, Gen.settle]
            rw [h1, driveW_suspended s c vv scan _ (f + 1) limit _ hf hl, hown']
            rfl
        · have hp' : s.patternOk = false := by simpa using hp
          cases c with
          | invalid => simp [CastArgE.valid] at hc
          | dict d =>
            simp [drive, hl, Gen.genObj, Gen.genStep, parseAutoW, hargs, hp', Gen.settle, pep479_excOf, errOf_excOf]
          | fn g =>
            simp [drive, hl, Gen.genObj, Gen.genStep, parseAutoW, hargs, hp', Gen.settle, pep479_excOf, errOf_excOf]
      cases cast with
      | invalid =>
        simp [drive, hl, Gen.genObj, Gen.genStep, parseAutoW, hargs, Gen.settle, pep479_excOf, errOf_excOf]
      | dict d => exact main (.dict d) rfl
      | fn g => exact main (.fn g) rfl
    · have hargs' : (s.own || s.fileObj) = false := by simpa using hargs
      simp only [hargs', Bool.not_false, ↓reduceIte]
      simp [drive, hl, Gen.genObj, Gen.genStep, parseAutoW, hargs', Gen.settle, pep479_excOf, errOf_excOf]

end topW

end Parse
