import LoguruModel.Parse.GenProto
/-
The two `opener` context managers of `Logger.parse`, as they are written:

    @contextlib.contextmanager                  @contextlib.contextmanager
    def opener():                               def opener():
        with open(file) as fileobj:                 yield file
            yield fileobj

`contextlib.contextmanager` turns a generator function into a context manager whose `__enter__` is
`next(gen)` and whose `__exit__` is `next(gen)` (normal exit: the generator must stop) or
`gen.throw(exc)` (the generator must re-raise or stop).  Here the two bodies are automata of the
shared generator-protocol model `Py/Generators.lean`, `cmEnter` / `cmExit` are contextlib's
`_GeneratorContextManager.__enter__` / `__exit__` over it, and what Trace.lean writes down as
`closeEv` – "leaving `with opener() as fileobj:` in any way closes the file the function opened, and
nothing else; a caller's file object is left alone; the exception is not swallowed" – is PROVED.
What stays an assumption: the `with` statement calls `__exit__` exactly once on every exit of its
body, and `open(file).__exit__` closes the file and does not suppress.
-/
namespace Parse
open Py

variable {ρ : Type}

/-- where an `opener()` generator is: before its first statement, or suspended at its `yield` -/
inductive OSt where
  | start
  | inside
  deriving DecidableEq, Repr

/-- the body of `opener` for a path argument (`own = true`: `with open(file) as fileobj: yield fileobj`)
or a file object (`own = false`: `yield file`).  World = the event log. -/
def openerAuto (ρ : Type) (own : Bool) (openErr : Option Err) : Gen.Auto (List (TEv ρ)) OSt where
  step := fun st inp w =>
    match st, inp with
    | .start, .send _ =>
      if own then
        match openErr with
        | some e => (.raise (excOf e), .start, w)                 -- `open(file)` raises
        | none => (.yield 0, .inside, w ++ [.opened])              -- `__enter__` of the file, then `yield fileobj`
      else (.yield 0, .inside, w)                                  -- `yield file`
    | .start, .throw e => (.raise e, .start, w)
    | .inside, .send _ =>                                           -- resumed normally: the inner `with` ends
      (.ret 0, .inside, w ++ (if own && Gen.pathOpenerCloses then [.closed] else []))
    | .inside, .throw e =>                                          -- exception at the `yield`: `open().__exit__`
      (.raise e, .inside, w ++ (if own && Gen.pathOpenerCloses then [.closed] else []))   -- closes, does not suppress

/-- result of `__enter__` / `__exit__` of a generator-based context manager -/
inductive CMRes where
  | ok                      -- `__enter__` returned / `__exit__` returned False: an exception in flight goes on
  | suppressed              -- `__exit__` returned True
  | raised (e : Gen.Exc)    -- the call itself raised
  deriving DecidableEq, Repr

def rtErr : Gen.Exc := ⟨Gen.clsRuntimeError, 60⟩     -- "generator didn't yield" / "didn't stop"

/-- `_GeneratorContextManager.__enter__`: `next(self.gen)` -/
def cmEnter {ω σ : Type} (a : Gen.Auto ω σ) (g : Gen.GState σ) (w : ω) : CMRes × Gen.GState σ × ω :=
  match Gen.genStep .generator a g (.send 0) w with
  | (.yield _, g', w') => (.ok, g', w')
  | (.raise e, g', w') => (.raised e, g', w')
  | (_, g', w') => (.raised rtErr, g', w')

/-- `_GeneratorContextManager.__exit__(typ, value, tb)`; `exc = none`: the body ended normally -/
def cmExit {ω σ : Type} (a : Gen.Auto ω σ) (g : Gen.GState σ) (exc : Option Gen.Exc) (w : ω) :
    CMRes × Gen.GState σ × ω :=
  match exc with
  | none =>
    match Gen.genStep .generator a g (.send 0) w with
    | (.stop _, g', w') => (.ok, g', w')
    | (.raise e, g', w') => (.raised e, g', w')
    | (_, g', w') => (.raised rtErr, g', w')                     -- "generator didn't stop"
  | some x =>
    match Gen.genStep .generator a g (.throw x) w with
    | (.stop _, g', w') => (.suppressed, g', w')
    | (.raise e, g', w') => if e = x then (.ok, g', w') else (.raised e, g', w')
    | (_, g', w') => (.raised rtErr, g', w')                     -- "generator didn't stop after throw()"

/-- entering `with opener() as fileobj:` – the path branch opens the file (or lets `open`'s error
through, nothing opened), the file-object branch does nothing observable -/
theorem opener_enter (own : Bool) (openErr : Option Err) (w : List (TEv ρ)) :
    cmEnter (openerAuto ρ own openErr) (.unstarted .start) w =
      match own, openErr with
      | true, some e => (.raised (excOf e), .done, w)
      | true, none => (.ok, .suspended .inside, w ++ [.opened])
      | false, _ => (.ok, .suspended .inside, w) := by
  cases own <;> cases openErr <;>
    simp [cmEnter, Gen.genStep, openerAuto, Gen.settle, pep479_excOf]

/-- **leaving the block in any way is `closeEv`**: normally (`exc = none`) or with any exception in
flight that is not StopIteration (`GeneratorExit` of `close()` included) – the file the function
opened is closed, a caller's file object is not touched, and the exception is not swallowed -/
theorem opener_exit (own : Bool) (openErr : Option Err) (exc : Option Gen.Exc)
    (hx : ∀ x, exc = some x → x.isStopIteration = false) (w : List (TEv ρ)) :
    cmExit (openerAuto ρ own openErr) (.suspended .inside) exc w
      = (.ok, .done, w ++ (if own && Gen.pathOpenerCloses then [.closed] else [])) := by
  cases exc with
  | none => simp [cmExit, Gen.genStep, openerAuto, Gen.settle]
  | some x =>
    have := hx x rfl
    simp [cmExit, Gen.genStep, openerAuto, Gen.settle, Gen.pep479, this]

/-- … which is exactly what Trace.lean appends at every exit of the body of `parse` (there the
enclosing `with opener()` is `Gen.iterationInsideWith`) -/
theorem opener_exit_eq_closeEv (own : Bool) (openErr : Option Err) (exc : Option Gen.Exc)
    (hx : ∀ x, exc = some x → x.isStopIteration = false) (w : List (TEv ρ)) :
    (cmExit (openerAuto ρ own openErr) (.suspended .inside) exc w).2.2 = w ++ closeEv ρ own := by
  have hiw : Gen.iterationInsideWith = true := by decide
  rw [opener_exit own openErr exc hx w]
  simp [closeEv, hiw]

end Parse
