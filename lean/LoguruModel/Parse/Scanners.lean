import LoguruModel.Parse.Lemmas
/-
Concrete scanners for the non-vacuity part of C20: executable models of `re.finditer` for two
concrete line-oriented regexes, PROVED to satisfy the locality conditions `Local`.

* `lineScanner nl`  ≙  `(?P<l>[^\n]*\n|[^\n]+)`           (every line, the last one maybe unterminated)
* `blockScanner nl` ≙  `(?P<a>[^\n]*)\n(?P<b>[^\n]*)\n`    (blocks of two terminated lines)

Both are *tiling* scanners: the matches are consecutive pieces of a prefix of the text, so a scan is
given by the list of (piece length, value) and the spans are running sums.  The element type is
generic (`Char` for str files, `UInt8` for bytes files).
-/
namespace Parse

variable {α γ : Type}

/-- spans of consecutive pieces starting at offset `off` -/
def spansOf (off : Nat) : List (Nat × γ) → List (Span γ)
  | [] => []
  | (n, v) :: r => ⟨off, off + n, v⟩ :: spansOf (off + n) r

def total : List (Nat × γ) → Nat
  | [] => 0
  | (n, _) :: r => n + total r

theorem spansOf_map_val (off : Nat) (ps : List (Nat × γ)) :
    (spansOf off ps).map (·.val) = ps.map (·.2) := by
  induction ps generalizing off with
  | nil => rfl
  | cons p r ih => obtain ⟨n, v⟩ := p; simp [spansOf, ih]

theorem spansOf_length (off : Nat) (ps : List (Nat × γ)) : (spansOf off ps).length = ps.length := by
  have := congrArg List.length (spansOf_map_val off ps); simpa using this

theorem spansOf_bound (off : Nat) (ps : List (Nat × γ)) :
    ∀ m ∈ spansOf off ps, m.e ≤ off + total ps := by
  induction ps generalizing off with
  | nil => intro m h; simp [spansOf] at h
  | cons p r ih =>
    obtain ⟨n, v⟩ := p
    intro m h
    simp only [spansOf, List.mem_cons] at h
    rcases h with h | h
    · subst h; simp [total]
    · have := ih (off + n) m h; simp [total]; omega

theorem spansOf_getElem_e (off : Nat) (ps : List (Nat × γ)) (i : Nat) (h : i < (spansOf off ps).length) :
    ((spansOf off ps)[i]).e = off + total (ps.take (i + 1)) := by
  induction ps generalizing off i with
  | nil => simp [spansOf] at h
  | cons p r ih =>
    obtain ⟨n, v⟩ := p
    cases i with
    | zero => simp [spansOf, total]
    | succ i =>
      simp only [spansOf, List.getElem_cons_succ, List.take_succ_cons, total]
      rw [ih]; omega

theorem spansOf_append (off : Nat) (ps qs : List (Nat × γ)) :
    spansOf off (ps ++ qs) = spansOf off ps ++ spansOf (off + total ps) qs := by
  induction ps generalizing off with
  | nil => simp [spansOf, total]
  | cons p r ih => obtain ⟨n, v⟩ := p; simp [spansOf, total, ih, Nat.add_assoc]

theorem spansOf_dropLast (off : Nat) (ps : List (Nat × γ)) :
    (spansOf off ps).dropLast = spansOf off ps.dropLast := by
  induction ps generalizing off with
  | nil => rfl
  | cons p r ih =>
    obtain ⟨n, v⟩ := p
    cases r with
    | nil => simp [spansOf]
    | cons q r' =>
      obtain ⟨n', v'⟩ := q
      have := ih (off + n)
      simp only [spansOf, List.dropLast_cons_cons] at this ⊢
      rw [this]

/-- a scanner given by its pieces -/
def tiling (pieces : List α → List (Nat × γ)) : Scanner α γ := fun t => spansOf 0 (pieces t)

/-- what a piece function must satisfy for its tiling scanner to be `Local` -/
structure TileLocal (pieces : List α → List (Nat × γ)) : Prop where
  fits : ∀ t, total (pieces t) ≤ t.length
  restart1 : ∀ t p ps, pieces t = p :: ps → pieces (t.drop p.1) = ps
  prefixStable : ∀ t u, (pieces t).dropLast <+: pieces (t ++ u)

theorem tile_restart (pieces : List α → List (Nat × γ)) (H : TileLocal pieces) :
    ∀ (i : Nat) (t : List α), i < (pieces t).length →
      pieces (t.drop (total ((pieces t).take (i + 1)))) = (pieces t).drop (i + 1) := by
  intro i
  induction i with
  | zero =>
    intro t h
    match hp : pieces t with
    | [] => simp [hp] at h
    | p :: ps =>
      obtain ⟨n, v⟩ := p
      simp [total]
      exact H.restart1 t _ _ hp
  | succ i ih =>
    intro t h
    match hp : pieces t with
    | [] => simp [hp] at h
    | p :: ps =>
      obtain ⟨n, v⟩ := p
      have h1 := H.restart1 t _ _ hp
      simp only at h1
      have hi : i < (pieces (t.drop n)).length := by rw [h1]; simp [hp] at h; omega
      have := ih (t.drop n) hi
      rw [h1] at this
      simp only [List.take_succ_cons, total, List.drop_succ_cons]
      rw [← this, List.drop_drop]

theorem tiling_local (pieces : List α → List (Nat × γ)) (H : TileLocal pieces) :
    Local (tiling pieces) where
  bound := by
    intro t m hm
    have := spansOf_bound 0 (pieces t) m hm
    have := H.fits t
    omega
  restart := by
    intro t i h
    have hi : i < (pieces t).length := by simpa [tiling, spansOf_length] using h
    simp only [tiling]
    rw [spansOf_getElem_e, spansOf_map_val, List.map_drop, spansOf_map_val, Nat.zero_add,
      tile_restart pieces H i t hi, List.map_drop]
  prefixStable := by
    intro t u
    obtain ⟨tl, htl⟩ := H.prefixStable t u
    simp only [tiling]
    rw [spansOf_dropLast, ← htl, spansOf_append]
    exact List.prefix_append _ _

/-! ### lines -/

variable [DecidableEq α]

/-- the lines of a text, terminator included (the last one may lack it) -/
def lines (nl : α) : List α → List (List α)
  | [] => []
  | c :: cs =>
    if c = nl then [c] :: lines nl cs
    else match lines nl cs with
      | [] => [[c]]
      | l :: ls => (c :: l) :: ls

theorem lines_eq_nil (nl : α) (t : List α) : lines nl t = [] ↔ t = [] := by
  cases t with
  | nil => simp [lines]
  | cons c cs =>
    simp only [lines]
    split
    · simp
    · split <;> simp

theorem lines_flatten (nl : α) (t : List α) : (lines nl t).flatten = t := by
  induction t with
  | nil => rfl
  | cons c cs ih =>
    simp only [lines]
    split
    · simp [ih]
    · split
      · rename_i h; rw [lines_eq_nil] at h; simp [h]
      · rename_i l ls h; rw [h] at ih; simp at ih ⊢; exact ih

theorem lines_restart1 (nl : α) (t : List α) (p : List α) (ps : List (List α))
    (h : lines nl t = p :: ps) : lines nl (t.drop p.length) = ps := by
  induction t generalizing p ps with
  | nil => simp [lines] at h
  | cons c cs ih =>
    simp only [lines] at h
    split at h
    · simp at h; obtain ⟨rfl, rfl⟩ := h; simp
    · split at h
      · rename_i h0
        simp at h; obtain ⟨rfl, rfl⟩ := h
        rw [lines_eq_nil] at h0; simp [h0, lines]
      · rename_i l ls h0
        simp at h; obtain ⟨rfl, rfl⟩ := h
        simpa using ih l ls h0

theorem lines_prefixStable (nl : α) (t u : List α) :
    (lines nl t).dropLast <+: lines nl (t ++ u) := by
  induction t with
  | nil => simp [lines]
  | cons c cs ih =>
    obtain ⟨tl, htl⟩ := ih
    simp only [List.cons_append, lines]
    split
    · cases h : lines nl cs with
      | nil => simp
      | cons l ls =>
        rw [h] at htl
        rw [List.dropLast_cons_cons, ← htl]
        simp
    · cases h : lines nl cs with
      | nil => simp
      | cons l ls =>
        rw [h] at htl
        cases ls with
        | nil => simp
        | cons l2 ls2 =>
          rw [List.dropLast_cons_cons] at htl
          simp only [List.cons_append] at htl
          rw [← htl]
          simp

def linePieces (nl : α) (t : List α) : List (Nat × List α) := (lines nl t).map (fun l => (l.length, l))

omit [DecidableEq α] in
theorem total_linePieces (ls : List (List α)) :
    total (ls.map (fun l => (l.length, l))) = ls.flatten.length := by
  induction ls with
  | nil => rfl
  | cons l r ih => simp [total, ih]

theorem linePieces_tileLocal (nl : α) : TileLocal (linePieces nl) where
  fits := by intro t; simp [linePieces, total_linePieces, lines_flatten]
  restart1 := by
    intro t p ps h
    simp only [linePieces] at h ⊢
    match hl : lines nl t with
    | [] => simp [hl] at h
    | l :: ls =>
      rw [hl] at h
      simp at h
      obtain ⟨rfl, rfl⟩ := h
      simp [lines_restart1 nl t l ls hl]
  prefixStable := by
    intro t u
    obtain ⟨tl, htl⟩ := lines_prefixStable nl t u
    simp only [linePieces, ← List.map_dropLast, ← htl, List.map_append]
    exact List.prefix_append _ _

/-- `re.finditer(r"(?P<l>[^\n]*\n|[^\n]+)", t)`; value = the text of group `l` -/
def lineScanner (nl : α) : Scanner α (List α) := tiling (linePieces nl)

theorem lineScanner_local (nl : α) : Local (lineScanner nl) := tiling_local _ (linePieces_tileLocal nl)

/-! ### blocks of two terminated lines -/

def terminated (nl : α) (l : List α) : Bool := l.getLast? == some nl

/-- pair consecutive lines while both are terminated -/
def pairUp (nl : α) : List (List α) → List (Nat × (List α × List α))
  | l1 :: l2 :: rest =>
    if terminated nl l2 then (l1.length + l2.length, (l1.dropLast, l2.dropLast)) :: pairUp nl rest else []
  | _ => []

def blockPieces (nl : α) (t : List α) : List (Nat × (List α × List α)) := pairUp nl (lines nl t)

theorem total_pairUp (nl : α) (ls : List (List α)) : total (pairUp nl ls) ≤ ls.flatten.length := by
  fun_induction pairUp nl ls with
  | case1 l1 l2 rest h ih => simp [total] at ih ⊢; omega
  | case2 l1 l2 rest h => simp [total]
  | case3 ls h => simp [total]

theorem pairUp_prefix (nl : α) (L L' : List (List α)) (h : L.dropLast <+: L') :
    (pairUp nl L).dropLast <+: pairUp nl L' := by
  fun_induction pairUp nl L generalizing L' with
  | case1 l1 l2 rest ht ih =>
    cases rest with
    | nil => simp [pairUp]
    | cons r rs =>
      obtain ⟨tl, htl⟩ := h
      simp only [List.dropLast_cons_cons, List.cons_append] at htl
      subst htl
      simp only [pairUp, ht, ↓reduceIte]
      have := ih ((r :: rs).dropLast ++ tl) (List.prefix_append _ _)
      cases hp : pairUp nl (r :: rs) with
      | nil => simp
      | cons q qs =>
        rw [hp] at this
        rw [List.dropLast_cons_cons]
        exact (List.cons_prefix_cons).mpr ⟨rfl, this⟩
  | case2 l1 l2 rest ht => simp
  | case3 ls h' => simp

theorem blockPieces_tileLocal (nl : α) : TileLocal (blockPieces nl) where
  fits := by
    intro t
    have := total_pairUp nl (lines nl t)
    rw [lines_flatten] at this
    exact this
  restart1 := by
    intro t p ps h
    simp only [blockPieces] at h ⊢
    match hl : lines nl t with
    | [] => simp [hl, pairUp] at h
    | [l] => simp [hl, pairUp] at h
    | l1 :: l2 :: rest =>
      rw [hl] at h
      simp only [pairUp] at h
      split at h
      · simp at h
        obtain ⟨rfl, rfl⟩ := h
        have h1 := lines_restart1 nl t l1 (l2 :: rest) hl
        have h2 := lines_restart1 nl _ l2 rest h1
        rw [List.drop_drop] at h2
        simp only
        rw [h2]
      · simp at h
  prefixStable := by
    intro t u
    exact pairUp_prefix nl _ _ (lines_prefixStable nl t u)

/-- `re.finditer(r"(?P<a>[^\n]*)\n(?P<b>[^\n]*)\n", t)`; value = (group a, group b) -/
def blockScanner (nl : α) : Scanner α (List α × List α) := tiling (blockPieces nl)

theorem blockScanner_local (nl : α) : Local (blockScanner nl) := tiling_local _ (blockPieces_tileLocal nl)

end Parse
