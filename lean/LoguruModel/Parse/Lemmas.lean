import LoguruModel.Parse.Model
/-
Helper lemmas for Props/C20 (core Lean only).
-/
namespace Parse
open Py

variable {α γ : Type}

/-- The two locality conditions of DESIGN §4 C20 (plus the trivial span bound).
(R) restart: scanning the suffix that starts at the end of any match yields the values of the
remaining matches; (P) prefix stability: all matches of a text except the last are the first
matches of any extension of it. -/
structure Local (scan : Scanner α γ) : Prop where
  bound : ∀ t m, m ∈ scan t → m.e ≤ t.length
  restart : ∀ t i (h : i < (scan t).length),
    (scan (t.drop ((scan t)[i]).e)).map (·.val) = ((scan t).drop (i + 1)).map (·.val)
  prefixStable : ∀ t u, (scan t).dropLast <+: scan (t ++ u)

/-! ### what the generated constants must satisfy for the algorithm to be right -/

theorem guard_sound (n : Nat) (h : Gen.guard n = true) : 2 ≤ n := by
  unfold Gen.guard at h; simp at h; omega

theorem trimBack_eq : Gen.trimBack = 2 := by decide
theorem yieldHold_eq : Gen.yieldHold = 1 := by decide

theorem negIdx_two {β : Type} (l : List β) (h : 2 ≤ l.length) :
    negIdx l 2 = some (l[l.length - 2]'(by omega)) := by
  unfold negIdx
  have : (1 ≤ 2 ∧ 2 ≤ l.length) := ⟨by omega, h⟩
  simp [this]

theorem dropEnd_one {β : Type} (l : List β) : dropEnd l 1 = l.dropLast := by
  unfold dropEnd; simp [List.dropLast_eq_take]

/-- the algebraic heart, from exactly the instances of the hypotheses it needs: trimming after
the second-to-last match and yielding all but the last loses nothing and yields nothing wrong,
whatever text `R` arrives later (`W` = buffer ++ R) -/
theorem step_eq' (scan : Scanner α γ) (B R W : List α) (hW : B ++ R = W)
    (h : 2 ≤ (scan B).length)
    (hP : (scan B).dropLast <+: scan W)
    (hb : ((scan B)[(scan B).length - 2]'(by omega)).e ≤ B.length)
    (hR : ∀ i (hi : i < (scan W).length),
        (scan (W.drop ((scan W)[i]).e)).map (·.val) = ((scan W).drop (i + 1)).map (·.val)) :
    (scan B).dropLast.map (·.val) ++
      (scan (B.drop ((scan B)[(scan B).length - 2]'(by omega)).e ++ R)).map (·.val)
    = (scan W).map (·.val) ∧ (scan B)[(scan B).length - 2]'(by omega) ∈ scan W := by
  subst hW
  obtain ⟨tl, htl⟩ := hP
  have hlen : (scan B).dropLast.length = (scan B).length - 1 := by simp
  have hi : (scan B).length - 2 < (scan B).dropLast.length := by omega
  have hiF : (scan B).length - 2 < (scan (B ++ R)).length := by
    rw [← htl]; simp; omega
  have hget : (scan (B ++ R))[(scan B).length - 2] = (scan B)[(scan B).length - 2]'(by omega) := by
    have : (scan (B ++ R))[(scan B).length - 2]
        = ((scan B).dropLast ++ tl)[(scan B).length - 2]'(by simp; omega) := by
      simp [htl]
    rw [this, List.getElem_append_left hi]
    simp
  refine ⟨?_, by rw [← hget]; exact List.getElem_mem _⟩
  have hdrop : List.drop ((scan B)[(scan B).length - 2]'(by omega)).e B ++ R
      = (B ++ R).drop ((scan (B ++ R))[(scan B).length - 2]).e := by
    rw [hget, List.drop_append_of_le_length hb]
  rw [hdrop, hR _ hiF]
  have : (scan B).length - 2 + 1 = (scan B).dropLast.length := by omega
  rw [this]
  conv => rhs; rw [← List.take_append_drop (scan B).dropLast.length (scan (B ++ R))]
  rw [List.map_append]
  congr 2
  rw [← htl]; simp

theorem step_eq (scan : Scanner α γ) (H : Local scan) (B R : List α)
    (h : 2 ≤ (scan B).length) :
    (scan B).dropLast.map (·.val) ++
      (scan (B.drop ((scan B)[(scan B).length - 2]'(by omega)).e ++ R)).map (·.val)
    = (scan (B ++ R)).map (·.val) :=
  (step_eq' scan B R (B ++ R) rfl h (H.prefixStable B R)
    (H.bound B _ (List.getElem_mem _)) (fun i hi => H.restart (B ++ R) i hi)).1

theorem readable_cons_nonempty (c : List α) (cs : List (List α)) (h : c.isEmpty = false) :
    readable (c :: cs) = c :: readable cs := by
  simp [readable, List.takeWhile, h]

theorem readable_cons_empty (c : List α) (cs : List (List α)) (h : c.isEmpty = true) :
    readable (c :: cs) = [] := by
  simp [readable, List.takeWhile, h]

/-- `_find_iter` from any buffer state equals the scan of buffer ++ everything still readable -/
theorem go_eq_scan (scan : Scanner α γ) (H : Local scan) :
    ∀ (cs : List (List α)) (buf : List α),
      go scan buf cs = ((scan (buf ++ (readable cs).flatten)).map (·.val), none) := by
  intro cs
  induction cs with
  | nil => intro buf; simp [go, readable]
  | cons c cs ih =>
    intro buf
    simp only [go]
    by_cases hc : c.isEmpty = true
    · have : c = [] := List.isEmpty_iff.mp hc
      subst this
      simp [readable]
    · have hc' : c.isEmpty = false := by simpa using hc
      have hF : buf ++ (readable (c :: cs)).flatten = (buf ++ c) ++ (readable cs).flatten := by
        simp [readable_cons_nonempty c cs hc']
      simp only [hc', Bool.false_eq_true, ↓reduceIte]
      by_cases hg : Gen.guard (scan (buf ++ c)).length = true
      · have h2 := guard_sound _ hg
        simp only [hg, ↓reduceIte, trimBack_eq, yieldHold_eq, negIdx_two _ h2, dropEnd_one]
        rw [ih, hF]
        simp only
        rw [step_eq scan H _ _ h2]
      · simp only [hg, Bool.false_eq_true, ↓reduceIte]
        rw [ih, hF]

/-! ### chunking a text into reads of size k -/

theorem chunksAux_flatten (k : Nat) (hk : 1 ≤ k) :
    ∀ (f : Nat) (t : List α), t.length ≤ f → (chunksAux k f t).flatten = t := by
  intro f
  induction f with
  | zero => intro t h; have : t = [] := List.eq_nil_of_length_eq_zero (by omega); simp [chunksAux, this]
  | succ f ih =>
    intro t h
    unfold chunksAux
    cases t with
    | nil => simp
    | cons a t =>
      simp only [List.isEmpty_cons, Bool.false_eq_true, ↓reduceIte, List.flatten_cons]
      rw [ih]
      · simp
      · simp at h ⊢; omega

theorem chunksAux_nonempty (k : Nat) (hk : 1 ≤ k) :
    ∀ (f : Nat) (t : List α), ∀ c ∈ chunksAux k f t, c.isEmpty = false := by
  intro f
  induction f with
  | zero => intro t c h; simp [chunksAux] at h
  | succ f ih =>
    intro t c h
    unfold chunksAux at h
    cases t with
    | nil => simp at h
    | cons a t =>
      simp only [List.isEmpty_cons, Bool.false_eq_true, ↓reduceIte, List.mem_cons] at h
      rcases h with h | h
      · subst h
        cases k with
        | zero => omega
        | succ k => simp
      · exact ih _ _ h

theorem readable_of_all_nonempty (cs : List (List α)) (h : ∀ c ∈ cs, c.isEmpty = false) :
    readable cs = cs := by
  induction cs with
  | nil => rfl
  | cons c cs ih =>
    have hc := h c (by simp)
    rw [readable_cons_nonempty c cs hc, ih (fun d hd => h d (by simp [hd]))]

theorem isEmpty_false_of_ne_nil (cs : List (List α)) (hne : ∀ c ∈ cs, c ≠ []) :
    ∀ c ∈ cs, c.isEmpty = false := by
  intro c hc
  cases c with
  | nil => exact absurd rfl (hne [] hc)
  | cons a r => rfl

theorem readable_append_empty (pre post : List (List α)) (h : ∀ c ∈ pre, c.isEmpty = false) :
    readable (pre ++ [] :: post) = pre := by
  induction pre with
  | nil => simp [readable]
  | cons c cs ih =>
    rw [List.cons_append, readable_cons_nonempty _ _ (h c (by simp)),
      ih (fun d hd => h d (by simp [hd]))]

/-! ### state-machine view -/

/-- loop invariant, for every continuation `R` of the input -/
def Inv (scan : Scanner α γ) (st : St α γ) (T : List α) : Prop :=
  st.err = none ∧
  ∀ R, st.out ++ (scan (st.buf ++ R)).map (·.val) = (scan (T ++ R)).map (·.val)

theorem step_inv (scan : Scanner α γ) (H : Local scan) (st : St α γ) (T c : List α)
    (h : Inv scan st T) : Inv scan (step scan st c) (T ++ c) := by
  obtain ⟨he, hinv⟩ := h
  unfold step
  simp only [he]
  by_cases hg : Gen.guard (scan (st.buf ++ c)).length = true
  · have h2 := guard_sound _ hg
    simp only [hg, ↓reduceIte, trimBack_eq, yieldHold_eq, negIdx_two _ h2, dropEnd_one]
    refine ⟨rfl, fun R => ?_⟩
    simp only
    rw [List.append_assoc, step_eq scan H _ _ h2]
    have := hinv (c ++ R)
    simpa [List.append_assoc] using this
  · simp only [hg, Bool.false_eq_true, ↓reduceIte]
    refine ⟨rfl, fun R => ?_⟩
    simp only
    have := hinv (c ++ R)
    simpa [List.append_assoc] using this

theorem foldl_inv (scan : Scanner α γ) (H : Local scan) :
    ∀ (cs : List (List α)) (st : St α γ) (T : List α), Inv scan st T →
      Inv scan (cs.foldl (step scan) st) (T ++ cs.flatten) := by
  intro cs
  induction cs with
  | nil => intro st T h; simpa using h
  | cons c cs ih =>
    intro st T h
    have := ih (step scan st c) (T ++ c) (step_inv scan H st T c h)
    simpa [List.append_assoc] using this

theorem run_append (scan : Scanner α γ) (cs : List (List α)) (c : List α) :
    run scan (cs ++ [c]) = step scan (run scan cs) c := by
  simp [run, List.foldl_append]

end Parse

namespace Parse
open Py
variable {α γ : Type}

/-! ### the hypotheses restricted to what the algorithm meets on ONE text -/

/-- positions of `T` at which a buffer can start: 0 and the end of any match of a scan started
at such a position -/
inductive Reach (scan : Scanner α γ) (T : List α) : Nat → Prop
  | zero : Reach scan T 0
  | next {a : Nat} {m : Span γ} : Reach scan T a → m ∈ scan (T.drop a) → Reach scan T (a + m.e)

/-- (R) and (P) only at the instances `_find_iter` can meet while reading `T`, whatever the read
sizes: restart on the suffixes at reachable positions, prefix stability of their prefixes.
This is what the harness decides with the real `re` engine for a concrete (regex, text). -/
structure LocalOn (scan : Scanner α γ) (T : List α) : Prop where
  bound : ∀ t m, m ∈ scan t → m.e ≤ t.length
  restart : ∀ a, Reach scan T a → ∀ i (h : i < (scan (T.drop a)).length),
    (scan ((T.drop a).drop ((scan (T.drop a))[i]).e)).map (·.val)
      = ((scan (T.drop a)).drop (i + 1)).map (·.val)
  prefixStable : ∀ a, Reach scan T a → ∀ b,
    (scan ((T.drop a).take b)).dropLast <+: scan (T.drop a)

theorem Local.on (scan : Scanner α γ) (H : Local scan) (T : List α) : LocalOn scan T where
  bound := H.bound
  restart := fun a _ i h => H.restart _ i h
  prefixStable := fun a _ b => by
    have := H.prefixStable ((T.drop a).take b) ((T.drop a).drop b)
    rwa [List.take_append_drop] at this

theorem go_eq_scan_on (scan : Scanner α γ) (T : List α) (H : LocalOn scan T) :
    ∀ (cs : List (List α)) (buf : List α) (a : Nat), Reach scan T a →
      buf ++ (readable cs).flatten = T.drop a →
      go scan buf cs = ((scan (T.drop a)).map (·.val), none) := by
  intro cs
  induction cs with
  | nil => intro buf a _ hT; simp [readable] at hT; simp [go, hT]
  | cons c cs ih =>
    intro buf a ha hT
    simp only [go]
    by_cases hc : c.isEmpty = true
    · have : c = [] := List.isEmpty_iff.mp hc
      subst this
      simp [readable] at hT
      simp [hT]
    · have hc' : c.isEmpty = false := by simpa using hc
      rw [readable_cons_nonempty c cs hc'] at hT
      have hW : (buf ++ c) ++ (readable cs).flatten = T.drop a := by simpa using hT
      simp only [hc', Bool.false_eq_true, ↓reduceIte]
      by_cases hg : Gen.guard (scan (buf ++ c)).length = true
      · have h2 := guard_sound _ hg
        simp only [hg, ↓reduceIte, trimBack_eq, yieldHold_eq, negIdx_two _ h2, dropEnd_one]
        have hB : (T.drop a).take (buf ++ c).length = buf ++ c := by
          rw [← hW]; exact List.take_left' rfl
        have hP := H.prefixStable a ha (buf ++ c).length
        rw [hB] at hP
        obtain ⟨heq, hmem⟩ := step_eq' scan (buf ++ c) (readable cs).flatten (T.drop a) hW h2 hP
          (H.bound _ _ (List.getElem_mem _)) (fun i hi => H.restart a ha i hi)
        have hnew : (buf ++ c).drop ((scan (buf ++ c))[(scan (buf ++ c)).length - 2]'(by omega)).e
              ++ (readable cs).flatten
            = T.drop (a + ((scan (buf ++ c))[(scan (buf ++ c)).length - 2]'(by omega)).e) := by
          rw [← List.drop_append_of_le_length (H.bound _ _ (List.getElem_mem _)), hW, List.drop_drop]
        rw [ih _ _ (Reach.next ha hmem) hnew]
        simp only
        rw [← heq, hnew]
      · simp only [hg, Bool.false_eq_true, ↓reduceIte]
        exact ih _ a ha hW

end Parse
