/-! line-protocol loop shared by all drivers: one input line -> one output line -/
def driverLoop (step : String → String) : IO Unit := do
  let stdin ← IO.getStdin
  let stdout ← IO.getStdout
  let rec loop : Nat → IO Unit
    | 0 => pure ()
    | n + 1 => do
      let line ← stdin.getLine
      if line.isEmpty then pure ()
      else
        let l := if line.endsWith "\n" then (line.dropEnd 1).toString else line
        stdout.putStrLn (step l)
        loop n
  loop 1000000000
  stdout.flush
