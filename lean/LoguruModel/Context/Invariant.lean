import LoguruModel.Context.Lemmas
/-! the inductive invariant of the C12 model: every open block's token is valid (own context, never
used, unique), and the variable's value in every context is determined by its open blocks -/
set_option linter.unusedSectionVars false
namespace Context
open Py

variable {K V P : Type} [DecidableEq K] [DecidableEq P]

theorem merge_nil_left (b : Assoc K V) : merge ([] : Assoc K V) b = b := by
  simp [merge, hasKey]

/-- value of the variable below/inside a stack of open blocks (innermost first) -/
def stackValue (base : Option (Assoc K V)) : List (Frame K V) → Option (Assoc K V)
  | [] => base
  | f :: rest => some (ctxExtra ((stackValue base rest).getD []) f.kw)

/-- every token remembers exactly the value below its block -/
def WFStack (base : Option (Assoc K V)) : List (Frame K V) → Prop
  | [] => True
  | f :: rest => f.tok.old = stackValue base rest ∧ WFStack base rest

structure Inv (s : State K V P) : Prop where
  owner : ∀ c f, f ∈ s.stacks c → f.tok.owner = c
  fresh : ∀ c f, f ∈ s.stacks c → f.tok.id < s.cv.next
  unused : ∀ c f, f ∈ s.stacks c → f.tok.id ∉ s.cv.used
  usedLt : ∀ i, i ∈ s.cv.used → i < s.cv.next
  pw : ∀ c, (s.stacks c).Pairwise (fun a b => a.tok.id ≠ b.tok.id)
  cross : ∀ c c' f f', c ≠ c' → f ∈ s.stacks c → f' ∈ s.stacks c' → f.tok.id ≠ f'.tok.id
  value : ∀ c, s.cv.vals c = stackValue (s.bases c) (s.stacks c)
  wf : ∀ c, WFStack (s.bases c) (s.stacks c)

theorem inv_initT (truthy : P → Bool) : Inv (initT truthy : State K V P) := by
  constructor <;> simp [initT, ContextVars.init, stackValue, WFStack]

theorem inv_init : Inv (init : State K V P) := inv_initT _

/-- tie G: however a block is left – normally, by an `Exception`, by a `BaseException` that is not an
`Exception` (KeyboardInterrupt, SystemExit, GeneratorExit, asyncio.CancelledError) –
`context.reset(token)` runs.  (Fails to build when `contextualize` restores on fewer paths.) -/
theorem resets_always : ∀ kind : ExitKind, kind ∈ Gen.resetOn := by
  intro kind; cases kind <;> decide

/-- in a state satisfying the invariant `context.reset(token)` runs and succeeds, whatever the way
the block is left -/
theorem exitOne_cons (s : State K V P) (c : Nat) (kind : ExitKind) (f : Frame K V) (rest : List (Frame K V))
    (hI : Inv s) (h : s.stacks c = f :: rest) :
    exitOne s c kind = { s with
      cv := { s.cv with vals := fun c' => if c' = c then f.tok.old else s.cv.vals c',
                        used := f.tok.id :: s.cv.used },
      stacks := fun c' => if c' = c then rest else s.stacks c' } := by
  have hm : f ∈ s.stacks c := by rw [h]; exact List.mem_cons_self
  have hu := hI.unused c f hm
  have ho := hI.owner c f hm
  unfold exitOne
  rw [h]
  simp [ContextVars.reset, hu, ho, resets_always kind]

theorem inv_exitOne (s : State K V P) (c : Nat) (kind : ExitKind) (hI : Inv s) : Inv (exitOne s c kind) := by
  cases h : s.stacks c with
  | nil => unfold exitOne; rw [h]; exact hI
  | cons f rest =>
    rw [exitOne_cons s c kind f rest hI h]
    have hm : f ∈ s.stacks c := by rw [h]; exact List.mem_cons_self
    have sub : ∀ c' f', f' ∈ (if c' = c then rest else s.stacks c') → f' ∈ s.stacks c' := by
      intro c' f' hf
      by_cases hc : c' = c
      · subst hc; simp at hf; rw [h]; exact List.mem_cons_of_mem _ hf
      · simpa [hc] using hf
    have hpw := hI.pw c
    rw [h] at hpw
    constructor
    · intro c' f' hf; exact hI.owner c' f' (sub c' f' hf)
    · intro c' f' hf; exact hI.fresh c' f' (sub c' f' hf)
    · intro c' f' hf
      simp only [List.mem_cons, not_or]
      refine ⟨?_, hI.unused c' f' (sub c' f' hf)⟩
      by_cases hc : c' = c
      · subst hc
        simp at hf
        exact fun e => (List.rel_of_pairwise_cons hpw hf) e.symm
      · have hf' : f' ∈ s.stacks c' := by simpa [hc] using hf
        exact hI.cross c' c f' f hc hf' hm
    · intro i hi
      simp only [List.mem_cons] at hi
      rcases hi with hi | hi
      · subst hi; exact hI.fresh c f hm
      · exact hI.usedLt i hi
    · intro c'
      by_cases hc : c' = c
      · subst hc; simp; exact (List.pairwise_cons.mp hpw).2
      · simp [hc]; exact hI.pw c'
    · intro c1 c2 f1 f2 hne h1 h2
      exact hI.cross c1 c2 f1 f2 hne (sub c1 f1 h1) (sub c2 f2 h2)
    · intro c'
      have hw := hI.wf c
      rw [h] at hw
      by_cases hc : c' = c
      · subst hc; simp; exact hw.1
      · simp [hc]; exact hI.value c'
    · intro c'
      have hw := hI.wf c
      rw [h] at hw
      by_cases hc : c' = c
      · subst hc; simp; exact hw.2
      · simp [hc]; exact hI.wf c'

theorem inv_exitN (s : State K V P) (c : Nat) (kind : ExitKind) (n : Nat) (hI : Inv s) :
    Inv (exitN s c kind n) := by
  induction n generalizing s with
  | zero => exact hI
  | succ n ih => exact ih _ (inv_exitOne s c kind hI)

theorem inv_enter (s : State K V P) (c : Nat) (kw : Assoc K V) (papply : P → Assoc K V → Assoc K V)
    (hI : Inv s) : Inv (step papply s c (.enter kw)) := by
  simp only [step, ContextVars.set]
  have sub : ∀ c' f', f' ∈ (if c' = c then
        ({ tok := { id := s.cv.next, owner := c, old := s.cv.vals c }, kw := kw } : Frame K V) :: s.stacks c
        else s.stacks c') →
      (c' = c ∧ f' = { tok := { id := s.cv.next, owner := c, old := s.cv.vals c }, kw := kw }) ∨ f' ∈ s.stacks c' := by
    intro c' f' hf
    by_cases h : c' = c
    · subst h; simp at hf; rcases hf with hf | hf
      · exact Or.inl ⟨rfl, hf⟩
      · exact Or.inr hf
    · simp [h] at hf; exact Or.inr hf
  constructor
  · intro c' f' hf
    rcases sub c' f' hf with ⟨h1, h2⟩ | h
    · subst h1; subst h2; rfl
    · exact hI.owner c' f' h
  · intro c' f' hf
    rcases sub c' f' hf with ⟨h1, h2⟩ | h
    · subst h2; simp
    · have := hI.fresh c' f' h; simp; omega
  · intro c' f' hf
    rcases sub c' f' hf with ⟨h1, h2⟩ | h
    · subst h2; intro hu; have := hI.usedLt _ hu; simp at this
    · exact hI.unused c' f' h
  · intro i hi; have := hI.usedLt i hi; simp; omega
  · intro c'
    by_cases h : c' = c
    · subst h
      simp only [if_true]
      refine List.pairwise_cons.mpr ⟨?_, hI.pw c'⟩
      intro f' hf'
      have := hI.fresh c' f' hf'
      simp; omega
    · simp [h]; exact hI.pw c'
  · intro c1 c2 f1 f2 hne h1 h2
    rcases sub c1 f1 h1 with ⟨a1, a2⟩ | a <;> rcases sub c2 f2 h2 with ⟨b1, b2⟩ | b
    · exact absurd (a1.trans b1.symm) hne
    · subst a2; have := hI.fresh c2 f2 b; simp; omega
    · subst b2; have := hI.fresh c1 f1 a; simp; omega
    · exact hI.cross c1 c2 f1 f2 hne a b
  · intro c'
    by_cases h : c' = c
    · subst h
      simp [stackValue, ctxGet, ContextVars.get, hI.value c']
    · simp [h]; exact hI.value c'
  · intro c'
    by_cases h : c' = c
    · subst h
      simp [WFStack]
      exact ⟨hI.value c', hI.wf c'⟩
    · simp [h]; exact hI.wf c'

theorem inv_spawn (s : State K V P) (c : Nat) (copy : Bool) (papply : P → Assoc K V → Assoc K V)
    (hI : Inv s) : Inv (step papply s c (.spawn copy)) := by
  simp only [step, ContextVars.spawn, ContextVars.get]
  have sub : ∀ c' f', f' ∈ (if c' = s.cv.n then [] else s.stacks c') → f' ∈ s.stacks c' := by
    intro c' f' hf
    by_cases h : c' = s.cv.n
    · simp [h] at hf
    · simpa [h] using hf
  constructor
  · intro c' f' hf; exact hI.owner c' f' (sub c' f' hf)
  · intro c' f' hf; exact hI.fresh c' f' (sub c' f' hf)
  · intro c' f' hf; exact hI.unused c' f' (sub c' f' hf)
  · exact hI.usedLt
  · intro c'
    by_cases h : c' = s.cv.n
    · simp [h]
    · simp [h]; exact hI.pw c'
  · intro c1 c2 f1 f2 hne h1 h2
    exact hI.cross c1 c2 f1 f2 hne (sub c1 f1 h1) (sub c2 f2 h2)
  · intro c'
    by_cases h : c' = s.cv.n
    · simp [h, stackValue]
    · simp [h]; exact hI.value c'
  · intro c'
    by_cases h : c' = s.cv.n
    · simp [h, WFStack]
    · simp [h]; exact hI.wf c'

/-- the invariant is preserved by every operation of every context -/
theorem inv_step (papply : P → Assoc K V → Assoc K V) (s : State K V P) (c : Nat) (op : Op K V P)
    (hI : Inv s) : Inv (step papply s c op) := by
  cases op with
  | enter kw => exact inv_enter s c kw papply hI
  | spawn copy => exact inv_spawn s c copy papply hI
  | exit => exact inv_exitOne s c .normal hI
  | raise k kind => exact inv_exitN s c kind k hI
  | configure e p =>
    simp only [step]
    cases e <;> cases p <;> exact ⟨hI.owner, hI.fresh, hI.unused, hI.usedLt, hI.pw, hI.cross, hI.value, hI.wf⟩
  | bind l kw =>
    simp only [step]; split <;> exact ⟨hI.owner, hI.fresh, hI.unused, hI.usedLt, hI.pw, hI.cross, hI.value, hI.wf⟩
  | patch l p =>
    simp only [step]; split <;> exact ⟨hI.owner, hI.fresh, hI.unused, hI.usedLt, hI.pw, hI.cross, hI.value, hI.wf⟩
  | opt l f =>
    simp only [step]; split <;> exact ⟨hI.owner, hI.fresh, hI.unused, hI.usedLt, hI.pw, hI.cross, hI.value, hI.wf⟩
  | log l kw =>
    simp only [step]
    split
    · split <;> exact ⟨hI.owner, hI.fresh, hI.unused, hI.usedLt, hI.pw, hI.cross, hI.value, hI.wf⟩
    · exact hI
  | addHandler => exact ⟨hI.owner, hI.fresh, hI.unused, hI.usedLt, hI.pw, hI.cross, hI.value, hI.wf⟩
  | removeHandler i => exact ⟨hI.owner, hI.fresh, hI.unused, hI.usedLt, hI.pw, hI.cross, hI.value, hI.wf⟩

theorem inv_run (papply : P → Assoc K V → Assoc K V) (s : State K V P) (t : List (Nat × Op K V P))
    (hI : Inv s) : Inv (run papply s t) := by
  induction t generalizing s with
  | nil => exact hI
  | cons e t ih => exact ih _ (inv_step papply s e.1 e.2 hI)

end Context
