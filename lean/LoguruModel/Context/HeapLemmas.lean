import LoguruModel.Context.Heap
/-! lemmas about the object-level model `Context/Heap.lean`: the regenerated construction sites build new objects
(tie G, by `decide`), what one operation can write to, separation of loguru's shared objects from what the
caller can reach (inductive invariant), immutability of delivered records -/
set_option linter.unusedSectionVars false
namespace Context.Heap
open Context

variable {K V : Type} [DecidableEq K]

/-! ### tie G: the four construction sites build new objects -/

theorem record_site_fresh : Gen.recordExtraExpr.aliasFree = true := by decide
theorem bind_site_fresh : Gen.bindExtraExpr.aliasFree = true := by decide
theorem ctx_site_fresh : Gen.ctxValueExpr.aliasFree = true := by decide
theorem patch_site_fresh : Gen.patchListExpr.aliasFree = true := by decide
theorem configure_copies : Gen.configureCopies = true := by decide

/-- the shape and the operand order regenerated for the functional model are the same expression -/
theorem record_site_is_layers : Gen.recordExtraExpr = .display Gen.recordLayers := by decide
theorem bind_site_is_operands : Gen.bindExtraExpr = .display Gen.bindOperands := by decide
theorem ctx_site_is_operands : Gen.ctxValueExpr = .display Gen.ctxOperands := by decide

/-! ### cells -/

theorem cell_append_lt (h : Cells K V) (x : Cells K V) (r : Nat) (hr : r < h.length) :
    cell (h ++ x) r = cell h r := by
  simp [cell, List.getD_eq_getElem?_getD, List.getElem?_append_left hr]

theorem cell_append_len (h : Cells K V) (d : Assoc K V) : cell (h ++ [d]) h.length = d := by
  simp [cell, List.getD_eq_getElem?_getD]

theorem cell_set_ne (h : Cells K V) (r r' : Nat) (d : Assoc K V) (hne : r' ≠ r) :
    cell (h.set r' d) r = cell h r := by
  simp [cell, List.getD_eq_getElem?_getD, List.getElem?_set_ne hne]

theorem cell_set_eq (h : Cells K V) (r : Nat) (d : Assoc K V) (hr : r < h.length) :
    cell (h.set r d) r = d := by
  simp [cell, List.getD_eq_getElem?_getD, hr]

/-! ### what one operation can write to -/

/-- the caller can reach it: a dict it owns, or the `extra` of a record it was handed -/
def External (s : HState K V) (r : Nat) : Prop := r ∈ s.owned ∨ r ∈ s.records

/-- an existing object that is neither `core.extra` nor reachable by the caller -/
def Quiet (s : HState K V) (r : Nat) : Prop := r < s.heap.length ∧ r ≠ s.core ∧ ¬ External s r

/-- ONE operation – of loguru, of a patcher, of a sink, of the caller – never writes to a quiet object, and a
quiet object stays quiet: loguru writes only to `core.extra` (configure) and to objects it has just allocated;
patchers, sinks and the caller can only write to what they can reach. -/
theorem quiet_step (s : HState K V) (c : Nat) (op : HOp K V) (r : Nat) (hq : Quiet s r) :
    Quiet (hstep s c op) r ∧ cell (hstep s c op).heap r = cell s.heap r := by
  obtain ⟨hlt, hcore, hext⟩ := hq
  have hext' : r ∉ s.owned ∧ r ∉ s.records := by
    constructor <;> intro h <;> exact hext (by simp [External, h])
  cases op with
  | alloc d =>
    refine ⟨⟨by simp [hstep]; omega, hcore, ?_⟩, cell_append_lt _ _ _ hlt⟩
    simp only [hstep, External, List.mem_append, List.mem_singleton, not_or]
    exact ⟨⟨hext'.1, by omega⟩, hext'.2⟩
  | configure r' =>
    simp only [hstep, configure_copies, if_true]
    split
    · exact ⟨⟨by simpa using hlt, hcore, hext⟩, cell_set_ne _ _ _ _ (Ne.symm hcore)⟩
    · exact ⟨⟨hlt, hcore, hext⟩, rfl⟩
  | bind l kw g =>
    simp only [hstep]
    split
    · exact ⟨⟨hlt, hcore, hext⟩, rfl⟩
    · next cap b hl =>
      obtain ⟨d, hd⟩ := eval_aliasFree mergeAll (s.heap ++ [kw]) (srcEnv b s.heap.length) _ bind_site_fresh g
      simp only [hd]
      refine ⟨⟨by simp; omega, hcore, hext⟩, ?_⟩
      rw [cell_append_lt _ _ _ (by simp; omega), cell_append_lt _ _ _ hlt]
  | opt l cap =>
    simp only [hstep]
    split <;> exact ⟨⟨hlt, hcore, hext⟩, rfl⟩
  | enter kw g =>
    simp only [hstep]
    obtain ⟨d, hd⟩ := eval_aliasFree mergeAll (s.heap ++ [kw]) (srcEnv (current s c) s.heap.length) _ ctx_site_fresh g
    simp only [hd]
    refine ⟨⟨by simp; omega, hcore, hext⟩, ?_⟩
    rw [cell_append_lt _ _ _ (by simp; omega), cell_append_lt _ _ _ hlt]
  | exit => exact ⟨⟨hlt, hcore, hext⟩, rfl⟩
  | spawn copy => exact ⟨⟨hlt, hcore, hext⟩, rfl⟩
  | log l kw pf g =>
    simp only [hstep]
    split
    · exact ⟨⟨hlt, hcore, hext⟩, rfl⟩
    · next cap b hl =>
      obtain ⟨d, hd⟩ := eval_aliasFree mergeAll s.heap (layerEnv s.core (current s c) b) _ record_site_fresh g
      simp only [hd]
      refine ⟨⟨by simp; omega, hcore, ?_⟩, ?_⟩
      · simp only [External, List.mem_append, List.mem_singleton, not_or]
        exact ⟨hext'.1, hext'.2, by omega⟩
      · rw [cell_set_ne _ _ _ _ (by omega), cell_append_lt _ _ _ hlt]
  | mutate r' f =>
    simp only [hstep]
    split
    · next h =>
      have hne : r' ≠ r := by
        intro e; subst e; exact hext h
      exact ⟨⟨by simpa using hlt, hcore, hext⟩, cell_set_ne _ _ _ _ hne⟩
    · exact ⟨⟨hlt, hcore, hext⟩, rfl⟩

/-- … and so for every trace -/
theorem quiet_run (t : List (Nat × HOp K V)) (s : HState K V) (r : Nat) (hq : Quiet s r) :
    Quiet (hrun s t) r ∧ cell (hrun s t).heap r = cell s.heap r := by
  induction t generalizing s with
  | nil => exact ⟨hq, rfl⟩
  | cons e t ih =>
    obtain ⟨h1, h2⟩ := quiet_step s e.1 e.2 r hq
    obtain ⟨h3, h4⟩ := ih (hstep s e.1 e.2) h1
    exact ⟨h3, h4.trans h2⟩

/-! ### separation: what loguru shares internally is out of the caller's reach -/

/-- the objects loguru treats as immutable and shares freely: the ContextVar's default, every value the
variable holds or will be reset to, the bound `extra` of every logger -/
def Shared (s : HState K V) (r : Nat) : Prop :=
  r = s.dflt ∨ (∃ c, r = s.base c) ∨ (∃ c, r ∈ s.blocks c) ∨ (∃ p ∈ s.loggers, r = p.2)

structure Sep (s : HState K V) : Prop where
  sharedLt : ∀ r, Shared s r → r < s.heap.length
  coreLt : s.core < s.heap.length
  extLt : ∀ r, External s r → r < s.heap.length
  sharedNotCore : ∀ r, Shared s r → r ≠ s.core
  sharedNotExt : ∀ r, Shared s r → ¬ External s r
  coreNotExt : ¬ External s s.core

theorem sep_init : Sep (hinit : HState K V) := by
  constructor
  · intro r h; rcases h with h | ⟨c, h⟩ | ⟨c, h⟩ | ⟨p, hp, h⟩ <;> simp_all [hinit]
  · simp [hinit]
  · intro r h; rcases h with h | h <;> simp_all [hinit]
  · intro r h; rcases h with h | ⟨c, h⟩ | ⟨c, h⟩ | ⟨p, hp, h⟩ <;> simp_all [hinit]
  · intro r _ h; rcases h with h | h <;> simp_all [hinit]
  · intro h; rcases h with h | h <;> simp_all [hinit]

theorem current_shared (s : HState K V) (c : Nat) : Shared s (current s c) := by
  unfold current
  cases h : s.blocks c with
  | nil => exact Or.inr (Or.inl ⟨c, rfl⟩)
  | cons x xs => exact Or.inr (Or.inr (Or.inl ⟨c, by simp [h]⟩))

theorem shared_quiet (s : HState K V) (hS : Sep s) (r : Nat) (h : Shared s r) : Quiet s r :=
  ⟨hS.sharedLt r h, hS.sharedNotCore r h, hS.sharedNotExt r h⟩

/-- a shared object of the new state is a shared object of the old one or the freshly allocated `n` -/
private theorem sep_of (s s' : HState K V) (hS : Sep s) (n : Nat)
    (_hlen : s.heap.length ≤ s'.heap.length) (hn : s.heap.length ≤ n ∧ n < s'.heap.length)
    (hcore : s'.core = s.core)
    (hsh : ∀ r, Shared s' r → Shared s r ∨ r = n)
    (hex : ∀ r, External s' r → External s r) : Sep s' := by
  constructor
  · intro r h; rcases hsh r h with h | h
    · have := hS.sharedLt r h; omega
    · omega
  · rw [hcore]; have := hS.coreLt; omega
  · intro r h; have := hS.extLt r (hex r h); omega
  · intro r h; rw [hcore]; rcases hsh r h with h | h
    · exact hS.sharedNotCore r h
    · have := hS.coreLt; omega
  · intro r h he; rcases hsh r h with h | h
    · exact hS.sharedNotExt r h (hex r he)
    · have := hS.extLt r (hex r he); omega
  · rw [hcore]; intro he; exact hS.coreNotExt (hex _ he)

theorem sep_step (s : HState K V) (c : Nat) (op : HOp K V) (hS : Sep s) : Sep (hstep s c op) := by
  cases op with
  | alloc d =>
    simp only [hstep]
    constructor
    · intro r h; have := hS.sharedLt r h; simp; omega
    · have := hS.coreLt; simp; omega
    · intro r h
      simp only [External, List.mem_append, List.mem_singleton] at h
      rcases h with (h | h) | h
      · have := hS.extLt r (Or.inl h); simp; omega
      · simp; omega
      · have := hS.extLt r (Or.inr h); simp; omega
    · exact hS.sharedNotCore
    · intro r h he
      simp only [External, List.mem_append, List.mem_singleton] at he
      rcases he with (he | he) | he
      · exact hS.sharedNotExt r h (Or.inl he)
      · have := hS.sharedLt r h; omega
      · exact hS.sharedNotExt r h (Or.inr he)
    · intro he
      simp only [External, List.mem_append, List.mem_singleton] at he
      rcases he with (he | he) | he
      · exact hS.coreNotExt (Or.inl he)
      · have := hS.coreLt; omega
      · exact hS.coreNotExt (Or.inr he)
  | configure r' =>
    simp only [hstep, configure_copies, if_true]
    split
    · exact ⟨fun r h => by simpa using hS.sharedLt r h, by simpa using hS.coreLt,
        fun r h => by simpa using hS.extLt r h, hS.sharedNotCore, hS.sharedNotExt, hS.coreNotExt⟩
    · exact hS
  | bind l kw g =>
    simp only [hstep]
    split
    · exact hS
    · next cap b hl =>
      obtain ⟨d, hd⟩ := eval_aliasFree mergeAll (s.heap ++ [kw]) (srcEnv b s.heap.length) _ bind_site_fresh g
      simp only [hd]
      refine sep_of s _ hS (s.heap.length + 1) (by simp) (by simp) rfl ?_ (fun r h => h)
      intro r h
      rcases h with h | h | h | ⟨p, hp, h⟩
      · exact Or.inl (Or.inl h)
      · exact Or.inl (Or.inr (Or.inl h))
      · exact Or.inl (Or.inr (Or.inr (Or.inl h)))
      · simp only [List.mem_append, List.mem_singleton] at hp
        rcases hp with hp | hp
        · exact Or.inl (Or.inr (Or.inr (Or.inr ⟨p, hp, h⟩)))
        · subst hp; right; simpa using h
  | opt l cap =>
    simp only [hstep]
    split
    · exact hS
    · next x b hl =>
      have hb : Shared s b := Or.inr (Or.inr (Or.inr ⟨(x, b), List.mem_of_getElem? hl, rfl⟩))
      refine ⟨?_, hS.coreLt, hS.extLt, ?_, ?_, hS.coreNotExt⟩ <;>
      · intro r h
        have : Shared s r := by
          rcases h with h | h | h | ⟨p, hp, h⟩
          · exact Or.inl h
          · exact Or.inr (Or.inl h)
          · exact Or.inr (Or.inr (Or.inl h))
          · simp only [List.mem_append, List.mem_singleton] at hp
            rcases hp with hp | hp
            · exact Or.inr (Or.inr (Or.inr ⟨p, hp, h⟩))
            · subst hp; simp at h; subst h; exact hb
        first | exact hS.sharedLt r this | exact hS.sharedNotCore r this | exact hS.sharedNotExt r this
  | enter kw g =>
    simp only [hstep]
    obtain ⟨d, hd⟩ := eval_aliasFree mergeAll (s.heap ++ [kw]) (srcEnv (current s c) s.heap.length) _ ctx_site_fresh g
    simp only [hd]
    refine sep_of s _ hS (s.heap.length + 1) (by simp) (by simp) rfl ?_ (fun r h => h)
    intro r h
    rcases h with h | h | ⟨c', h⟩ | h
    · exact Or.inl (Or.inl h)
    · exact Or.inl (Or.inr (Or.inl h))
    · by_cases hc : c' = c
      · subst hc
        simp only [if_true, List.mem_cons] at h
        rcases h with h | h
        · right; simpa using h
        · exact Or.inl (Or.inr (Or.inr (Or.inl ⟨c', h⟩)))
      · simp only [hc, if_false] at h
        exact Or.inl (Or.inr (Or.inr (Or.inl ⟨c', h⟩)))
    · exact Or.inl (Or.inr (Or.inr (Or.inr h)))
  | exit =>
    simp only [hstep]
    have sub : ∀ r, Shared ({ s with blocks := fun c' => if c' = c then (s.blocks c).tail else s.blocks c' } : HState K V) r →
        Shared s r := by
      intro r h
      rcases h with h | h | ⟨c', h⟩ | h
      · exact Or.inl h
      · exact Or.inr (Or.inl h)
      · by_cases hc : c' = c
        · subst hc; simp only [if_true] at h
          exact Or.inr (Or.inr (Or.inl ⟨c', List.mem_of_mem_tail h⟩))
        · simp only [hc, if_false] at h
          exact Or.inr (Or.inr (Or.inl ⟨c', h⟩))
      · exact Or.inr (Or.inr (Or.inr h))
    exact ⟨fun r h => hS.sharedLt r (sub r h), hS.coreLt, hS.extLt, fun r h => hS.sharedNotCore r (sub r h),
      fun r h => hS.sharedNotExt r (sub r h), hS.coreNotExt⟩
  | spawn copy =>
    simp only [hstep]
    have hcur := current_shared s c
    have sub : ∀ r, Shared ({ s with
        base := fun c' => if c' = s.nctx then (if copy then current s c else s.dflt) else s.base c',
        blocks := fun c' => if c' = s.nctx then [] else s.blocks c', nctx := s.nctx + 1 } : HState K V) r →
        Shared s r := by
      intro r h
      rcases h with h | ⟨c', h⟩ | ⟨c', h⟩ | h
      · exact Or.inl h
      · by_cases hc : c' = s.nctx
        · simp only [hc, if_true] at h
          cases copy
          · simp at h; exact Or.inl h
          · simp at h; rw [h]; exact hcur
        · simp only [hc, if_false] at h
          exact Or.inr (Or.inl ⟨c', h⟩)
      · by_cases hc : c' = s.nctx
        · simp [hc] at h
        · simp only [hc, if_false] at h
          exact Or.inr (Or.inr (Or.inl ⟨c', h⟩))
      · exact Or.inr (Or.inr (Or.inr h))
    exact ⟨fun r h => hS.sharedLt r (sub r h), hS.coreLt, hS.extLt, fun r h => hS.sharedNotCore r (sub r h),
      fun r h => hS.sharedNotExt r (sub r h), hS.coreNotExt⟩
  | log l kw pf g =>
    simp only [hstep]
    split
    · exact hS
    · next cap b hl =>
      obtain ⟨d, hd⟩ := eval_aliasFree mergeAll s.heap (layerEnv s.core (current s c) b) _ record_site_fresh g
      simp only [hd]
      constructor
      · intro r h; have := hS.sharedLt r h; simp; omega
      · have := hS.coreLt; simp; omega
      · intro r h
        simp only [External, List.mem_append, List.mem_singleton] at h
        rcases h with h | h | h
        · have := hS.extLt r (Or.inl h); simp; omega
        · have := hS.extLt r (Or.inr h); simp; omega
        · simp; omega
      · exact hS.sharedNotCore
      · intro r h he
        simp only [External, List.mem_append, List.mem_singleton] at he
        rcases he with he | he | he
        · exact hS.sharedNotExt r h (Or.inl he)
        · exact hS.sharedNotExt r h (Or.inr he)
        · have := hS.sharedLt r h; omega
      · intro he
        simp only [External, List.mem_append, List.mem_singleton] at he
        rcases he with he | he | he
        · exact hS.coreNotExt (Or.inl he)
        · exact hS.coreNotExt (Or.inr he)
        · have := hS.coreLt; omega
  | mutate r' f =>
    simp only [hstep]
    split
    · exact ⟨fun r h => by simpa using hS.sharedLt r h, by simpa using hS.coreLt,
        fun r h => by simpa using hS.extLt r h, hS.sharedNotCore, hS.sharedNotExt, hS.coreNotExt⟩
    · exact hS

theorem sep_run (t : List (Nat × HOp K V)) (s : HState K V) (hS : Sep s) : Sep (hrun s t) := by
  induction t generalizing s with
  | nil => exact hS
  | cons e t ih => exact ih _ (sep_step s e.1 e.2 hS)

/-- the list of loggers only grows -/
theorem loggers_grow (t : List (Nat × HOp K V)) (s : HState K V) :
    ∃ new, (hrun s t).loggers = s.loggers ++ new := by
  induction t generalizing s with
  | nil => exact ⟨[], by simp [hrun]⟩
  | cons e t ih =>
    obtain ⟨n2, h2⟩ := ih (hstep s e.1 e.2)
    have h1 : ∃ n1, (hstep s e.1 e.2).loggers = s.loggers ++ n1 := by
      rcases e with ⟨c, op⟩
      cases op with
      | bind l kw g =>
        simp only [hstep]; split
        · exact ⟨[], by simp⟩
        · exact ⟨_, rfl⟩
      | opt l cap =>
        simp only [hstep]; split
        · exact ⟨[], by simp⟩
        · exact ⟨_, rfl⟩
      | log l kw pf g => simp only [hstep]; split <;> exact ⟨[], by simp⟩
      | configure r =>
        simp only [hstep]; split
        · split <;> exact ⟨[], by simp⟩
        · exact ⟨[], by simp⟩
      | mutate r f => simp only [hstep]; split <;> exact ⟨[], by simp⟩
      | alloc d => exact ⟨[], by simp [hstep]⟩
      | enter kw g => exact ⟨[], by simp [hstep]⟩
      | exit => exact ⟨[], by simp [hstep]⟩
      | spawn copy => exact ⟨[], by simp [hstep]⟩
    obtain ⟨n1, h1⟩ := h1
    exact ⟨n1 ++ n2, by simp only [hrun]; rw [h2, h1, List.append_assoc]⟩

/-- a delivered record is written to only by whoever was handed it: as long as the caller does not
itself mutate record `r`, no operation changes it (and it stays a record) -/
def NoMutate (r : Nat) : List (Nat × HOp K V) → Prop
  | [] => True
  | (_, .mutate r' _) :: t => r' ≠ r ∧ NoMutate r t
  | _ :: t => NoMutate r t

theorem record_step (s : HState K V) (c : Nat) (op : HOp K V) (hS : Sep s) (r : Nat) (hr : r ∈ s.records)
    (hop : ∀ r' f, op = .mutate r' f → r' ≠ r) :
    r ∈ (hstep s c op).records ∧ cell (hstep s c op).heap r = cell s.heap r := by
  have hlt : r < s.heap.length := hS.extLt r (Or.inr hr)
  have hcore : s.core ≠ r := fun e => hS.coreNotExt (Or.inr (e ▸ hr))
  cases op with
  | alloc d => exact ⟨hr, cell_append_lt _ _ _ hlt⟩
  | configure r' =>
    simp only [hstep, configure_copies, if_true]
    split
    · exact ⟨hr, cell_set_ne _ _ _ _ hcore⟩
    · exact ⟨hr, rfl⟩
  | bind l kw g =>
    simp only [hstep]
    split
    · exact ⟨hr, rfl⟩
    · next cap b hl =>
      obtain ⟨d, hd⟩ := eval_aliasFree mergeAll (s.heap ++ [kw]) (srcEnv b s.heap.length) _ bind_site_fresh g
      simp only [hd]
      refine ⟨hr, ?_⟩
      rw [cell_append_lt _ _ _ (by simp; omega), cell_append_lt _ _ _ hlt]
  | opt l cap => simp only [hstep]; split <;> exact ⟨hr, rfl⟩
  | enter kw g =>
    simp only [hstep]
    obtain ⟨d, hd⟩ := eval_aliasFree mergeAll (s.heap ++ [kw]) (srcEnv (current s c) s.heap.length) _ ctx_site_fresh g
    simp only [hd]
    refine ⟨hr, ?_⟩
    rw [cell_append_lt _ _ _ (by simp; omega), cell_append_lt _ _ _ hlt]
  | exit => exact ⟨hr, rfl⟩
  | spawn copy => exact ⟨hr, rfl⟩
  | log l kw pf g =>
    simp only [hstep]
    split
    · exact ⟨hr, rfl⟩
    · next cap b hl =>
      obtain ⟨d, hd⟩ := eval_aliasFree mergeAll s.heap (layerEnv s.core (current s c) b) _ record_site_fresh g
      simp only [hd]
      refine ⟨by simp [hr], ?_⟩
      rw [cell_set_ne _ _ _ _ (by omega), cell_append_lt _ _ _ hlt]
  | mutate r' f =>
    simp only [hstep]
    split
    · exact ⟨hr, cell_set_ne _ _ _ _ (hop r' f rfl)⟩
    · exact ⟨hr, rfl⟩

theorem record_run (t : List (Nat × HOp K V)) (s : HState K V) (hS : Sep s) (r : Nat) (hr : r ∈ s.records)
    (hn : NoMutate r t) : r ∈ (hrun s t).records ∧ cell (hrun s t).heap r = cell s.heap r := by
  induction t generalizing s with
  | nil => exact ⟨hr, rfl⟩
  | cons e t ih =>
    rcases e with ⟨c, op⟩
    have hop : ∀ r' f, op = .mutate r' f → r' ≠ r := by
      intro r' f e; subst e; exact hn.1
    have hn' : NoMutate r t := by
      cases op <;> first | exact hn | exact hn.2
    obtain ⟨h1, h2⟩ := record_step s c op hS r hr hop
    obtain ⟨h3, h4⟩ := ih (hstep s c op) (sep_step s c op hS) h1 hn'
    exact ⟨h3, h4.trans h2⟩

end Context.Heap
