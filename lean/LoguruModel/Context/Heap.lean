import LoguruModel.Context.Lemmas
/-!
C12 – the OBJECT-LEVEL model: dict objects with identity.

The functional model (`Context/Model.lean`) passes dict *values* around and therefore cannot exhibit
aliasing.  Here every dict is a cell of a heap (`ref` = index), loguru's containers are references:
`core.extra` (ONE dict, updated in place by `configure`), the `ContextVar`'s default `{}` (ONE shared
object), every value ever handed to `context.set`, the bound `extra` of every logger (shared between a
logger and the loggers `opt()`/`patch()` derive from it – `args = self._options[-2:]`), the `extra` of
every delivered record, and the dicts the caller owns (what it passes to `configure(extra=)`).
Patchers, sinks and the caller may mutate IN PLACE, arbitrarily, what they can reach: the record's
`extra` they are handed, the dicts they own.

The four construction sites are evaluated from their regenerated shapes (`Gen.recordExtraExpr`,
`Gen.bindExtraExpr`, `Gen.ctxValueExpr`; `Gen.patchListExpr` for the list): a display allocates, a bare
name hands over the very object.  Tokens are abstracted to a stack of values per context (justified
by `exit_never_raises` / `reachable_inv` of the token-level model).
-/
set_option linter.unusedSectionVars false
namespace Context.Heap
open Context

variable {K V : Type} [DecidableEq K]

/-! ### evaluation of a construction site (generic in the kind of container) -/

/-- evaluate a container expression over a heap: returns the new heap and the reference of the result.
`g` resolves the conditions of conditional expressions (every resolution is considered). -/
def eval {α S : Type} [Inhabited α] (comb : List α → α) (heap : List α) (env : S → Nat) :
    List Bool → DExpr S → List α × Nat
  | _, .display ops => (heap ++ [comb (ops.map (fun o => heap.getD (env o) default))], heap.length)
  | _, .alias o => (heap, env o)
  | g, .ite t e => if g.headD true then eval comb heap env g.tail t else eval comb heap env g.tail e

/-- an alias-free site allocates: the result is a NEW object, every existing object is untouched -/
theorem eval_aliasFree {α S : Type} [Inhabited α] (comb : List α → α) (heap : List α) (env : S → Nat)
    (e : DExpr S) (h : e.aliasFree = true) (g : List Bool) :
    ∃ d, eval comb heap env g e = (heap ++ [d], heap.length) := by
  induction e generalizing g with
  | display ops => exact ⟨_, rfl⟩
  | alias o => simp [DExpr.aliasFree] at h
  | ite t e iht ihe =>
    simp only [DExpr.aliasFree, Bool.and_eq_true] at h
    simp only [eval]
    split
    · exact iht h.1 _
    · exact ihe h.2 _

/-- a site that is a bare name hands over the very object -/
theorem eval_alias {α S : Type} [Inhabited α] (comb : List α → α) (heap : List α) (env : S → Nat)
    (o : S) (g : List Bool) : eval comb heap env g (.alias o) = (heap, env o) := rfl

/-! ### the heap of dicts -/

abbrev Cells (K V : Type) := List (Assoc K V)

/-- content of the object `r` -/
def cell (h : Cells K V) (r : Nat) : Assoc K V := h.getD r []

/-- `{**a, **b, …}` -/
def mergeAll (ds : List (Assoc K V)) : Assoc K V := ds.foldl merge []

structure HState (K V : Type) where
  heap : Cells K V
  /-- `core.extra` -/
  core : Nat
  /-- the ContextVar's default object -/
  dflt : Nat
  /-- value of the variable when the context was created -/
  base : Nat → Nat
  /-- values set by the open blocks of each context, innermost first -/
  blocks : Nat → List Nat
  nctx : Nat
  /-- per logger: `capture` and the reference of its bound `extra` -/
  loggers : List (Bool × Nat)
  /-- dicts the caller built and keeps -/
  owned : List Nat
  /-- `record["extra"]` of every record handed to patchers/sinks so far -/
  records : List Nat

def hinit : HState K V :=
  { heap := [[], [], []], core := 0, dflt := 1, base := fun _ => 1, blocks := fun _ => [], nctx := 1,
    loggers := [(true, 2)], owned := [], records := [] }

/-- `context.get()` in context `c` -/
def current (s : HState K V) (c : Nat) : Nat := (s.blocks c).headD (s.base c)

inductive HOp (K V : Type) where
  | alloc (d : Assoc K V)                      -- the caller builds a dict of its own
  | configure (r : Nat)                        -- `configure(extra=<the caller's dict r>)`
  | bind (l : Nat) (kw : Assoc K V) (g : List Bool)
  | opt (l : Nat) (capture : Bool)             -- shares the receiver's `extra` OBJECT
  | enter (kw : Assoc K V) (g : List Bool)
  | exit
  | spawn (copy : Bool)
  /-- a logging call; `pf` is what the patchers and the sinks together do, in place, to `record["extra"]` -/
  | log (l : Nat) (kw : Assoc K V) (pf : Assoc K V → Assoc K V) (g : List Bool)
  /-- the caller changes in place a dict it owns or the `extra` of a record it was handed -/
  | mutate (r : Nat) (f : Assoc K V → Assoc K V)

def srcEnv (old kw : Nat) : Src → Nat
  | .old => old | .kwargs => kw

def layerEnv (core ctx bound : Nat) : Layer → Nat
  | .core => core | .ctx => ctx | .bound => bound

/-- one operation executed in context `c` -/
def hstep (s : HState K V) (c : Nat) : HOp K V → HState K V
  | .alloc d => { s with heap := s.heap ++ [d], owned := s.owned ++ [s.heap.length] }
  | .configure r =>
    if r ∈ s.owned then
      (if Gen.configureCopies then { s with heap := s.heap.set s.core (merge [] (cell s.heap r)) }
       else { s with core := r })
    else s
  | .bind l kw g =>
    match s.loggers[l]? with
    | none => s
    | some (cap, b) =>
      -- the call builds a fresh dict for `**kwargs`
      let r := eval mergeAll (s.heap ++ [kw]) (srcEnv b s.heap.length) g Gen.bindExtraExpr
      { s with heap := r.1, loggers := s.loggers ++ [(cap, r.2)] }
  | .opt l cap =>
    match s.loggers[l]? with
    | none => s
    | some (_, b) => { s with loggers := s.loggers ++ [(cap, b)] }
  | .enter kw g =>
    let r := eval mergeAll (s.heap ++ [kw]) (srcEnv (current s c) s.heap.length) g Gen.ctxValueExpr
    { s with heap := r.1, blocks := fun c' => if c' = c then r.2 :: s.blocks c else s.blocks c' }
  | .exit => { s with blocks := fun c' => if c' = c then (s.blocks c).tail else s.blocks c' }
  | .spawn copy =>
    { s with base := fun c' => if c' = s.nctx then (if copy then current s c else s.dflt) else s.base c',
             blocks := fun c' => if c' = s.nctx then [] else s.blocks c',
             nctx := s.nctx + 1 }
  | .log l kw pf g =>
    match s.loggers[l]? with
    | none => s
    | some (cap, b) =>
      let r := eval mergeAll s.heap (layerEnv s.core (current s c) b) g Gen.recordExtraExpr
      -- `log_record["extra"].update(kwargs)`, then the patchers and sinks, all IN PLACE on that object
      let x := cell r.1 r.2
      { s with heap := r.1.set r.2 (pf (if cap then merge x kw else x)), records := s.records ++ [r.2] }
  | .mutate r f =>
    if r ∈ s.owned ∨ r ∈ s.records then { s with heap := s.heap.set r (f (cell s.heap r)) } else s

def hrun (s : HState K V) : List (Nat × HOp K V) → HState K V
  | [] => s
  | (c, op) :: t => hrun (hstep s c op) t

end Context.Heap
