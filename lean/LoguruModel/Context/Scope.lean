import LoguruModel.Context.Invariant
/-! frame lemmas (what an operation of one context leaves untouched) and balanced traces -/
set_option linter.unusedSectionVars false
namespace Context
open Py

variable {K V P : Type} [DecidableEq K] [DecidableEq P]

theorem reset_ok {α : Type} (s s' : ContextVars.State α) (c : Nat) (t : ContextVars.Token α)
    (h : ContextVars.reset s c t = .ok s') :
    s'.n = s.n ∧ s'.next = s.next ∧ ∀ c', c' ≠ c → s'.vals c' = s.vals c' := by
  unfold ContextVars.reset at h
  split at h
  · cases h
  · split at h
    · cases h
    · cases h
      refine ⟨rfl, rfl, ?_⟩
      intro c' hc; simp [hc]

/-- everything `exitOne` in context `c'` leaves alone -/
theorem exitOne_frame (s : State K V P) (c' : Nat) (kind : ExitKind) :
    (exitOne s c' kind).loggers = s.loggers ∧ (exitOne s c' kind).handlers = s.handlers ∧
    (exitOne s c' kind).coreExtra = s.coreExtra ∧ (exitOne s c' kind).corePatcher = s.corePatcher ∧
    (exitOne s c' kind).bases = s.bases ∧ (exitOne s c' kind).cv.n = s.cv.n ∧
    (exitOne s c' kind).stacks = (fun c => if c = c' then (s.stacks c').tail else s.stacks c) ∧
    (∀ c, c ≠ c' → (exitOne s c' kind).cv.vals c = s.cv.vals c) ∧
    (∃ new, (exitOne s c' kind).out = s.out ++ new ∧ ∀ e ∈ new, e.isDelivered = false ∧ e.patcher? = none) := by
  unfold exitOne
  cases h : s.stacks c' with
  | nil =>
    refine ⟨rfl, rfl, rfl, rfl, rfl, rfl, ?_, fun _ _ => rfl, [], by simp, by simp⟩
    funext c
    by_cases hc : c = c'
    · subst hc; simp [h]
    · simp [hc]
  | cons f rest =>
    simp only
    by_cases hk : kind ∈ Gen.resetOn
    · rw [if_pos hk]
      cases hr : ContextVars.reset s.cv c' f.tok with
      | ok cv' =>
        obtain ⟨h1, _, h3⟩ := reset_ok _ _ _ _ hr
        exact ⟨rfl, rfl, rfl, rfl, rfl, h1, by simp, h3, [], by simp, by simp⟩
      | error e =>
        refine ⟨rfl, rfl, rfl, rfl, rfl, rfl, by simp, fun _ _ => rfl, [Event.error c' e], rfl, ?_⟩
        intro e' he; simp at he; subst he; exact ⟨rfl, rfl⟩
    · rw [if_neg hk]
      exact ⟨rfl, rfl, rfl, rfl, rfl, rfl, by simp, fun _ _ => rfl, [], by simp, by simp⟩

theorem exitN_frame (s : State K V P) (c' : Nat) (kind : ExitKind) (n : Nat) :
    (exitN s c' kind n).loggers = s.loggers ∧ (exitN s c' kind n).handlers = s.handlers ∧
    (exitN s c' kind n).coreExtra = s.coreExtra ∧ (exitN s c' kind n).corePatcher = s.corePatcher ∧
    (exitN s c' kind n).bases = s.bases ∧ (exitN s c' kind n).cv.n = s.cv.n ∧
    (exitN s c' kind n).stacks = (fun c => if c = c' then (s.stacks c').drop n else s.stacks c) ∧
    (∀ c, c ≠ c' → (exitN s c' kind n).cv.vals c = s.cv.vals c) ∧
    (∃ new, (exitN s c' kind n).out = s.out ++ new ∧ ∀ e ∈ new, e.isDelivered = false ∧ e.patcher? = none) := by
  induction n generalizing s with
  | zero =>
    refine ⟨rfl, rfl, rfl, rfl, rfl, rfl, ?_, fun _ _ => rfl, [], by simp [exitN], by simp⟩
    funext c; by_cases hc : c = c' <;> simp [exitN, hc]
  | succ n ih =>
    obtain ⟨a1, a2, a3, a4, a5, a6, a7, a8, new1, a9, a10⟩ := exitOne_frame s c' kind
    obtain ⟨b1, b2, b3, b4, b5, b6, b7, b8, new2, b9, b10⟩ := ih (exitOne s c' kind)
    refine ⟨by simp [exitN, b1, a1], by simp [exitN, b2, a2], by simp [exitN, b3, a3],
      by simp [exitN, b4, a4], by simp [exitN, b5, a5], by simp [exitN, b6, a6], ?_, ?_, new1 ++ new2, ?_, ?_⟩
    · simp only [exitN]; rw [b7, a7]
      funext c; by_cases hc : c = c'
      · subst hc; simp [List.drop_tail]  
      · simp [hc]
    · intro c hc; simp only [exitN]; rw [b8 c hc, a8 c hc]
    · simp only [exitN]; rw [b9, a9, List.append_assoc]
    · intro e he
      simp only [List.mem_append] at he
      rcases he with he | he
      · exact a10 e he
      · exact b10 e he

/-- the number of contexts never decreases; `bases` of an existing context never changes -/
theorem step_n_bases (papply : P → Assoc K V → Assoc K V) (s : State K V P) (c' : Nat) (op : Op K V P) :
    s.cv.n ≤ (step papply s c' op).cv.n ∧
    ∀ c, c < s.cv.n → (step papply s c' op).bases c = s.bases c := by
  cases op with
  | enter kw => simp [step, ContextVars.set]
  | spawn copy =>
    simp only [step, ContextVars.spawn]
    refine ⟨by simp, ?_⟩
    intro c hc
    have : c ≠ s.cv.n := by omega
    simp [this]
  | exit =>
    obtain ⟨_, _, _, _, a5, a6, _⟩ := exitOne_frame s c' .normal
    simp only [step]; rw [a5, a6]; simp
  | raise k kind =>
    obtain ⟨_, _, _, _, a5, a6, _⟩ := exitN_frame s c' kind k
    simp only [step]; rw [a5, a6]; simp
  | configure e p => simp only [step]; cases e <;> cases p <;> simp
  | bind l kw => simp only [step]; split <;> simp
  | patch l p => simp only [step]; split <;> simp
  | opt l f => simp only [step]; split <;> simp
  | log l kw =>
    simp only [step]
    split
    · split <;> simp
    · simp
  | addHandler => simp [step]
  | removeHandler i => simp [step]

/-- an operation executed in `c'` leaves the variable's value and the open blocks of every other
existing context untouched -/
theorem step_other (papply : P → Assoc K V → Assoc K V) (s : State K V P) (c c' : Nat) (op : Op K V P)
    (hne : c ≠ c') (hc : c < s.cv.n) :
    (step papply s c' op).cv.vals c = s.cv.vals c ∧ (step papply s c' op).stacks c = s.stacks c := by
  cases op with
  | enter kw => simp [step, ContextVars.set, hne]
  | spawn copy =>
    have : c ≠ s.cv.n := by omega
    simp [step, ContextVars.spawn, this]
  | exit =>
    obtain ⟨_, _, _, _, _, _, a7, a8, _⟩ := exitOne_frame s c' .normal
    simp only [step]; rw [a7, a8 c hne]; simp [hne]
  | raise k kind =>
    obtain ⟨_, _, _, _, _, _, a7, a8, _⟩ := exitN_frame s c' kind k
    simp only [step]; rw [a7, a8 c hne]; simp [hne]
  | configure e p => simp only [step]; cases e <;> cases p <;> simp
  | bind l kw => simp only [step]; split <;> simp
  | patch l p => simp only [step]; split <;> simp
  | opt l f => simp only [step]; split <;> simp
  | log l kw =>
    simp only [step]
    split
    · split <;> simp
    · simp
  | addHandler => simp [step]
  | removeHandler i => simp [step]

/-- effect of an operation of `c` on `c`'s own stack of open blocks (shape only) -/
def stackAfter (st : List (Frame K V)) : Op K V P → Option (List (Frame K V))
  | .enter _ => none            -- one frame pushed (see `step_self_enter`)
  | .exit => some st.tail
  | .raise k _ => some (st.drop k)
  | _ => some st

theorem step_self_stack (papply : P → Assoc K V → Assoc K V) (s : State K V P) (c : Nat) (op : Op K V P)
    (hc : c < s.cv.n) :
    match op with
    | .enter kw => ∃ f, f.kw = kw ∧ (step papply s c op).stacks c = f :: s.stacks c
    | .exit => (step papply s c op).stacks c = (s.stacks c).tail
    | .raise k _ => (step papply s c op).stacks c = (s.stacks c).drop k
    | _ => (step papply s c op).stacks c = s.stacks c := by
  cases op with
  | enter kw =>
    exact ⟨⟨(ContextVars.set s.cv c (ctxExtra (ctxGet s c) kw)).2, kw⟩, rfl, by simp [step]⟩
  | spawn copy =>
    have : c ≠ s.cv.n := by omega
    simp [step, ContextVars.spawn, this]
  | exit =>
    obtain ⟨_, _, _, _, _, _, a7, _⟩ := exitOne_frame s c .normal
    simp only [step]; rw [a7]; simp
  | raise k kind =>
    obtain ⟨_, _, _, _, _, _, a7, _⟩ := exitN_frame s c kind k
    simp only [step]; rw [a7]; simp
  | configure e p => simp only [step]; cases e <;> cases p <;> simp
  | bind l kw => simp only [step]; split <;> simp
  | patch l p => simp only [step]; split <;> simp
  | opt l f => simp only [step]; split <;> simp
  | log l kw =>
    simp only [step]
    split
    · split <;> simp
    · simp
  | addHandler => simp [step]
  | removeHandler i => simp [step]

/-- `t` is balanced for context `c` at relative block depth `d`: `c` never leaves more blocks than
it entered since the start (so the blocks open at the start stay open) and ends at depth 0.
Operations of other contexts are unconstrained. -/
def Balanced (c : Nat) : Nat → List (Nat × Op K V P) → Prop
  | d, [] => d = 0
  | d, (c', op) :: t =>
    if c' = c then
      match op with
      | .enter _ => Balanced c (d + 1) t
      | .exit => 1 ≤ d ∧ Balanced c (d - 1) t
      | .raise k _ => k ≤ d ∧ Balanced c (d - k) t
      | _ => Balanced c d t
    else Balanced c d t

theorem balanced_stack (papply : P → Assoc K V → Assoc K V) (c : Nat) (t : List (Nat × Op K V P)) :
    ∀ (s : State K V P) (d : Nat) (pre rest : List (Frame K V)), c < s.cv.n →
      s.stacks c = pre ++ rest → pre.length = d → Balanced c d t →
      (run papply s t).stacks c = rest := by
  induction t with
  | nil =>
    intro s d pre rest _ hs hl hb
    simp only [Balanced] at hb
    subst hb
    have : pre = [] := List.eq_nil_of_length_eq_zero hl
    simp [run, hs, this]
  | cons e t ih =>
    intro s d pre rest hc hs hl hb
    obtain ⟨c', op⟩ := e
    have hn := (step_n_bases papply s c' op).1
    have hc' : c < (step papply s c' op).cv.n := by omega
    simp only [run]
    by_cases hcc : c' = c
    · subst hcc
      simp only [Balanced, if_true] at hb
      have hself := step_self_stack papply s c' op hc
      cases op with
      | enter kw =>
        obtain ⟨f, _, hf⟩ := hself
        exact ih _ (d + 1) (f :: pre) rest hc' (by rw [hf, hs]; rfl) (by simp [hl]) hb
      | exit =>
        simp only at hself hb
        cases pre with
        | nil => simp at hl; omega
        | cons f pre' =>
          exact ih _ (d - 1) pre' rest hc' (by rw [hself, hs]; rfl) (by simp at hl; omega) hb.2
      | raise k kind =>
        simp only at hself hb
        refine ih _ (d - k) (pre.drop k) rest hc' ?_ (by simp [hl]) hb.2
        rw [hself, hs, List.drop_append_of_le_length (by omega)]
      | spawn copy => exact ih _ d pre rest hc' (by rw [hself, hs]) hl hb
      | configure e p => exact ih _ d pre rest hc' (by rw [hself, hs]) hl hb
      | bind l kw => exact ih _ d pre rest hc' (by rw [hself, hs]) hl hb
      | patch l p => exact ih _ d pre rest hc' (by rw [hself, hs]) hl hb
      | opt l f => exact ih _ d pre rest hc' (by rw [hself, hs]) hl hb
      | log l kw => exact ih _ d pre rest hc' (by rw [hself, hs]) hl hb
      | addHandler => exact ih _ d pre rest hc' (by rw [hself, hs]) hl hb
      | removeHandler i => exact ih _ d pre rest hc' (by rw [hself, hs]) hl hb
    · simp only [Balanced, hcc, if_false] at hb
      have ho := step_other papply s c c' op (Ne.symm hcc) hc
      exact ih _ d pre rest hc' (by rw [ho.2, hs]) hl hb

theorem run_n_bases (papply : P → Assoc K V → Assoc K V) (t : List (Nat × Op K V P)) :
    ∀ (s : State K V P), s.cv.n ≤ (run papply s t).cv.n ∧
      ∀ c, c < s.cv.n → (run papply s t).bases c = s.bases c := by
  induction t with
  | nil => intro s; exact ⟨Nat.le_refl _, fun _ _ => rfl⟩
  | cons e t ih =>
    intro s
    obtain ⟨h1, h2⟩ := step_n_bases papply s e.1 e.2
    obtain ⟨h3, h4⟩ := ih (step papply s e.1 e.2)
    refine ⟨Nat.le_trans h1 h3, ?_⟩
    intro c hc
    simp only [run]
    rw [h4 c (by omega), h2 c hc]

def Event.isError : Event K V P → Bool
  | .error .. => true
  | _ => false

theorem logEvents_no_error (papply : P → Assoc K V → Assoc K V) (s : State K V P) (c : Nat)
    (o : Opts K V P) (kw : Assoc K V) : ∀ e ∈ logEvents papply s c o kw, e.isError = false := by
  have hp : ∀ (ps : List P) (x : Assoc K V), ∀ e ∈ (runPatchers papply c ps x).1, e.isError = false := by
    intro ps
    induction ps with
    | nil => intro x e h; cases h
    | cons p ps ih =>
      intro x e h
      simp only [runPatchers, List.mem_cons] at h
      rcases h with h | h
      · subst h; rfl
      · exact ih _ e h
  unfold logEvents
  simp only [Gen.logPhases, List.foldl, runPhase, List.nil_append]
  intro e he
  simp only [List.mem_append, List.mem_map] at he
  rcases he with (he | he) | ⟨h, _, he⟩
  · exact hp _ _ e he
  · exact hp _ _ e he
  · subst he; rfl

/-- loggers and the event log only grow; an operation appends at most one logger -/
theorem step_grows (papply : P → Assoc K V → Assoc K V) (s : State K V P) (c : Nat) (op : Op K V P) :
    (∃ newL, (step papply s c op).loggers = s.loggers ++ newL) ∧
    (∃ newO, (step papply s c op).out = s.out ++ newO) := by
  cases op with
  | enter kw => exact ⟨⟨[], by simp [step]⟩, ⟨[], by simp [step]⟩⟩
  | spawn copy => exact ⟨⟨[], by simp [step]⟩, ⟨[], by simp [step]⟩⟩
  | exit =>
    obtain ⟨a1, _, _, _, _, _, _, _, new, a9, _⟩ := exitOne_frame s c .normal
    exact ⟨⟨[], by simp [step, a1]⟩, ⟨new, by simp [step, a9]⟩⟩
  | raise k kind =>
    obtain ⟨a1, _, _, _, _, _, _, _, new, a9, _⟩ := exitN_frame s c kind k
    exact ⟨⟨[], by simp [step, a1]⟩, ⟨new, by simp [step, a9]⟩⟩
  | configure e p =>
    simp only [step]; cases e <;> cases p <;> exact ⟨⟨[], by simp⟩, ⟨[], by simp⟩⟩
  | bind l kw => simp only [step]; split <;> first | exact ⟨⟨_, rfl⟩, ⟨[], by simp⟩⟩ | exact ⟨⟨[], by simp⟩, ⟨[], by simp⟩⟩
  | patch l p => simp only [step]; split <;> first | exact ⟨⟨_, rfl⟩, ⟨[], by simp⟩⟩ | exact ⟨⟨[], by simp⟩, ⟨[], by simp⟩⟩
  | opt l f => simp only [step]; split <;> first | exact ⟨⟨_, rfl⟩, ⟨[], by simp⟩⟩ | exact ⟨⟨[], by simp⟩, ⟨[], by simp⟩⟩
  | log l kw =>
    simp only [step]
    split
    · split
      · exact ⟨⟨[], by simp⟩, ⟨[], by simp⟩⟩
      · exact ⟨⟨[], by simp⟩, ⟨_, rfl⟩⟩
    · exact ⟨⟨[], by simp⟩, ⟨[], by simp⟩⟩
  | addHandler => exact ⟨⟨[], by simp [step]⟩, ⟨[], by simp [step]⟩⟩
  | removeHandler i => exact ⟨⟨[], by simp [step]⟩, ⟨[], by simp [step]⟩⟩

theorem run_grows (papply : P → Assoc K V → Assoc K V) (t : List (Nat × Op K V P)) :
    ∀ (s : State K V P), (∃ newL, (run papply s t).loggers = s.loggers ++ newL) ∧
      (∃ newO, (run papply s t).out = s.out ++ newO) := by
  induction t with
  | nil => intro s; exact ⟨⟨[], by simp [run]⟩, ⟨[], by simp [run]⟩⟩
  | cons e t ih =>
    intro s
    obtain ⟨⟨l1, h1⟩, ⟨o1, h2⟩⟩ := step_grows papply s e.1 e.2
    obtain ⟨⟨l2, h3⟩, ⟨o2, h4⟩⟩ := ih (step papply s e.1 e.2)
    refine ⟨⟨l1 ++ l2, ?_⟩, ⟨o1 ++ o2, ?_⟩⟩
    · simp only [run]; rw [h3, h1, List.append_assoc]
    · simp only [run]; rw [h4, h2, List.append_assoc]

/-- with the invariant no operation appends an `error` event -/
theorem step_no_error (papply : P → Assoc K V → Assoc K V) (s : State K V P) (c : Nat) (op : Op K V P)
    (hI : Inv s) (hE : ∀ e ∈ s.out, e.isError = false) :
    ∀ e ∈ (step papply s c op).out, e.isError = false := by
  have exitN_out : ∀ (kind : ExitKind) (n : Nat) (s : State K V P), Inv s → (∀ e ∈ s.out, e.isError = false) →
      ∀ e ∈ (exitN s c kind n).out, e.isError = false := by
    intro kind n
    induction n with
    | zero => intro s _ hE; exact hE
    | succ n ih =>
      intro s hI hE
      refine ih (exitOne s c kind) (inv_exitOne s c kind hI) ?_
      cases h : s.stacks c with
      | nil => unfold exitOne; rw [h]; exact hE
      | cons f rest => rw [exitOne_cons s c kind f rest hI h]; exact hE
  cases op with
  | enter kw => simpa [step] using hE
  | spawn copy => simpa [step] using hE
  | exit => exact exitN_out .normal 1 s hI hE
  | raise k kind => exact exitN_out kind k s hI hE
  | configure e p => simp only [step]; cases e <;> cases p <;> exact hE
  | bind l kw => simp only [step]; split <;> exact hE
  | patch l p => simp only [step]; split <;> exact hE
  | opt l f => simp only [step]; split <;> exact hE
  | log l kw =>
    simp only [step]
    split
    · split
      · exact hE
      · intro e he
        simp only [List.mem_append] at he
        rcases he with he | he
        · exact hE e he
        · exact logEvents_no_error papply s c _ kw e he
    · exact hE
  | addHandler => simpa [step] using hE
  | removeHandler i => simpa [step] using hE

def firstSome : List (Option V) → Option V
  | [] => none
  | x :: xs => orElse x (firstSome xs)

theorem stackValue_lookup (base : Option (Assoc K V)) (st : List (Frame K V)) (k : K) :
    get? ((stackValue base st).getD []) k =
      orElse (firstSome (st.map (fun f => get? f.kw k))) (get? (base.getD []) k) := by
  induction st with
  | nil => simp [stackValue, firstSome]
  | cons f st ih =>
    simp only [stackValue, Option.getD_some, List.map_cons, firstSome]
    unfold ctxExtra
    simp only [Gen.ctxOperands, List.foldl, srcVal]
    rw [get?_merge, get?_merge, ih]
    simp [orElse_assoc]

theorem balanced_append (c : Nat) (t1 t2 : List (Nat × Op K V P)) :
    ∀ d1 d2, Balanced c d1 t1 → Balanced c d2 t2 → Balanced c (d1 + d2) (t1 ++ t2) := by
  induction t1 with
  | nil => intro d1 d2 h1 h2; simp only [Balanced] at h1; subst h1; simpa using h2
  | cons e t1 ih =>
    intro d1 d2 h1 h2
    obtain ⟨c', op⟩ := e
    simp only [List.cons_append, Balanced] at h1 ⊢
    by_cases hc : c' = c
    · simp only [hc, if_true] at h1 ⊢
      cases op with
      | enter kw => simp only at h1 ⊢; have := ih (d1 + 1) d2 h1 h2; rwa [Nat.add_right_comm] at this
      | exit =>
        simp only at h1 ⊢
        refine ⟨by omega, ?_⟩
        have := ih (d1 - 1) d2 h1.2 h2
        have e : d1 - 1 + d2 = d1 + d2 - 1 := by omega
        rwa [e] at this
      | raise k kind =>
        simp only at h1 ⊢
        refine ⟨by omega, ?_⟩
        have := ih (d1 - k) d2 h1.2 h2
        have e : d1 - k + d2 = d1 + d2 - k := by omega
        rwa [e] at this
      | spawn copy => exact ih d1 d2 h1 h2
      | configure e p => exact ih d1 d2 h1 h2
      | bind l kw => exact ih d1 d2 h1 h2
      | patch l p => exact ih d1 d2 h1 h2
      | opt l f => exact ih d1 d2 h1 h2
      | log l kw => exact ih d1 d2 h1 h2
      | addHandler => exact ih d1 d2 h1 h2
      | removeHandler i => exact ih d1 d2 h1 h2
    · simp only [hc, if_false] at h1 ⊢
      exact ih d1 d2 h1 h2

end Context
