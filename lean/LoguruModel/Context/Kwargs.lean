import LoguruModel.Context.Lemmas
/-!
C12 – what `Logger._log` does with the keyword arguments of the logging call between the record display and
the patchers (loguru/_logger.py, "kwargs captured afterwards"):

    if lazy:    kwargs = {key: value() for key, value in kwargs.items()}
    if capture and kwargs:    log_record["extra"].update(kwargs)
    if record:  kwargs.update(record=log_record)

The ORDER of the three statements is regenerated (`Gen.kwStages`) and interpreted here.
-/
set_option linter.unusedSectionVars false
namespace Context

variable {K V : Type} [DecidableEq K]

/-- what a slot of `kwargs` / of `extra` holds -/
inductive Slot (V : Type) where
  | value (v : V)     -- a plain value
  | thunk (v : V)     -- a callable not yet called (`opt(lazy=True)`), which will return `v`
  | record            -- the record dict itself (`opt(record=True)`: `{record[...]}` in the message)
  deriving DecidableEq, Repr

/-- `value()` -/
def Slot.force : Slot V → Slot V
  | .thunk v => .value v
  | s => s

structure KwState (K V : Type) where
  kwargs : Assoc K (Slot V)
  extra : Assoc K (Slot V)
  /-- keys whose callable was called, in call order -/
  forced : List K

/-- one of the three statements -/
def kwStage (lazy capture record : Bool) (recKey : K) (s : KwState K V) : KwStage → KwState K V
  | .lazyEval =>
    if lazy then { s with kwargs := s.kwargs.map (fun kv => (kv.1, kv.2.force)),
                          forced := s.forced ++ s.kwargs.map (fun kv => kv.1) }
    else s
  | .capture => if capture && !s.kwargs.isEmpty then { s with extra := merge s.extra s.kwargs } else s
  | .recordInject => if record then { s with kwargs := merge s.kwargs [(recKey, Slot.record)] } else s

/-- the three statements in the order of the source -/
def kwPipeline (lazy capture record : Bool) (recKey : K) (extra0 kw : Assoc K (Slot V)) : KwState K V :=
  Gen.kwStages.foldl (kwStage lazy capture record recKey) { kwargs := kw, extra := extra0, forced := [] }

theorem merge_nil_right (a : Assoc K V) : merge a ([] : Assoc K V) = a := by
  simp [merge]

theorem get?_some_mem (b : Assoc K V) (k : K) (v : V) (h : get? b k = some v) : (k, v) ∈ b := by
  induction b with
  | nil => simp at h
  | cons kv b ih =>
    obtain ⟨k', v'⟩ := kv
    simp only [get?_cons] at h
    split at h
    · next hk => cases h; subst hk; exact List.mem_cons_self
    · exact List.mem_cons_of_mem _ (ih h)

/-- every slot of `{**a, **b}` comes from `a` or from `b` -/
theorem merge_vals (a b : Assoc K V) (kv : K × V) (h : kv ∈ merge a b) :
    (∃ x ∈ a, x.2 = kv.2) ∨ (∃ x ∈ b, x.2 = kv.2) := by
  unfold merge at h
  simp only [List.mem_append, List.mem_map, List.mem_filter] at h
  rcases h with ⟨x, hx, rfl⟩ | ⟨h, _⟩
  · cases hg : get? b x.1 with
    | none => left; exact ⟨x, hx, by simp⟩
    | some v => right; exact ⟨(x.1, v), get?_some_mem b x.1 v hg, by simp⟩
  · right; exact ⟨kv, h, rfl⟩

end Context
