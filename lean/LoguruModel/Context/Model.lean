import LoguruModel.Py.ContextVars
import LoguruModel.Generated.Context
/-
C12 – model of `Logger.bind/opt/patch/contextualize/configure(extra=, patcher=)` and of the tail of
`Logger._log` (construction of `extra`, patcher calls, hand-over to the handlers), over the PEP 567
model of `Py/ContextVars.lean`.  The operand orders of the four dict/list displays, the order of the
three trailing phases of `_log` and `opt()`'s defaults are taken from `Generated/Context.lean`
(rewritten from /repo on every run).

Keys `K`, values `V` and patchers `P` are parameters; what a patcher does to `record["extra"]` is the
parameter `papply`.
-/
namespace Context
open Py

variable {K V P : Type} [DecidableEq K] [DecidableEq P]

/-- `Logger._options` -/
structure Opts (K V P : Type) where
  flags : Flags
  patchers : List P
  extra : Assoc K V

/-- one open `contextualize` block: the token of `context.set` and (ghost) the kwargs it was given -/
structure Frame (K V : Type) where
  tok : ContextVars.Token (Assoc K V)
  kw : Assoc K V

inductive Op (K V P : Type) where
  | configure (extra : Option (Assoc K V)) (patcher : Option P)
  | bind (l : Nat) (kw : Assoc K V)
  | patch (l : Nat) (p : P)
  | opt (l : Nat) (f : Flags)
  | enter (kw : Assoc K V)        -- `with logger.contextualize(**kw):` reaches its body
  | exit                          -- the innermost open block of this context is left normally
  | raise (k : Nat) (kind : ExitKind)  -- an exception of that kind propagates out of the k innermost open blocks
  | log (l : Nat) (kw : Assoc K V)
  | spawn (copy : Bool)           -- new task (copy) / new thread (empty context)
  | addHandler
  | removeHandler (i : Nat)       -- the i-th of the handlers currently installed

inductive Event (K V P : Type) where
  | patched (ctx : Nat) (p : P) (seen : Assoc K V)     -- patcher called on a record with this extra
  | delivered (ctx : Nat) (h : Nat) (extra : Assoc K V) -- handler h received the record
  | error (ctx : Nat) (e : Err)                         -- an exception left a loguru call

structure State (K V P : Type) where
  coreExtra : Assoc K V
  corePatcher : Option P
  handlers : List Nat
  nextH : Nat
  cv : ContextVars.State (Assoc K V)
  stacks : Nat → List (Frame K V)
  /-- ghost: value of the variable when the context was created -/
  bases : Nat → Option (Assoc K V)
  loggers : List (Opts K V P)
  out : List (Event K V P)
  /-- `bool(patcher)`: the truth value of a patcher OBJECT (a callable is truthy unless its class defines
  `__bool__` / `__len__` saying otherwise); a fact about the user's objects, never changed by an operation -/
  truthy : P → Bool

def rootOpts : Opts K V P := { flags := Gen.optDefaults, patchers := [], extra := [] }

/-- the initial state, for patcher objects with the given truth values -/
def initT (truthy : P → Bool) : State K V P :=
  { coreExtra := [], corePatcher := none, handlers := [], nextH := 0, cv := ContextVars.init,
    stacks := fun _ => [], bases := fun _ => none, loggers := [rootOpts], out := [], truthy := truthy }

/-- the initial state when every patcher object is truthy (plain functions, lambdas, bound methods) -/
def init : State K V P := initT (fun _ => true)

/-- the configured patcher as `_log` calls it: under `if core.patcher is not None:` whenever one is configured,
under `if core.patcher:` only when, in addition, the object is truthy -/
def coreCalledWith (guard : PatcherGuard) (s : State K V P) : List P :=
  match guard with
  | .isNotNone => s.corePatcher.toList
  | .truthy => (s.corePatcher.filter s.truthy).toList

/-- what `Logger._log` does now (`Gen.corePatcherGuard` is regenerated from its source) -/
def coreCalled (s : State K V P) : List P := coreCalledWith Gen.corePatcherGuard s

/-- `context.get()` (the variable's default is `{}`) -/
def ctxGet (s : State K V P) (c : Nat) : Assoc K V := (ContextVars.get s.cv c).getD []

def layerVal (core ctx bound : Assoc K V) : Layer → Assoc K V
  | .core => core | .ctx => ctx | .bound => bound

/-- `{**core.extra, **context.get(), **extra}` then `.update(kwargs)` when `capture` -/
def buildExtra (core ctx bound kw : Assoc K V) (capture : Bool) : Assoc K V :=
  let e := Gen.recordLayers.foldl (fun acc l => merge acc (layerVal core ctx bound l)) []
  if capture then merge e kw else e

def srcVal (old kw : Assoc K V) : Src → Assoc K V
  | .old => old | .kwargs => kw

/-- `{**extra, **kwargs}` of `bind` -/
def bindExtra (old kw : Assoc K V) : Assoc K V :=
  Gen.bindOperands.foldl (fun acc s => merge acc (srcVal old kw s)) []

/-- `{**context.get(), **kwargs}` of `contextualize` -/
def ctxExtra (old kw : Assoc K V) : Assoc K V :=
  Gen.ctxOperands.foldl (fun acc s => merge acc (srcVal old kw s)) []

/-- the patcher list `patch` gives the new logger: `[*patchers, patcher]`; with `dedup` the variant
"`if patcher not in patchers`" (a patcher equal to one already attached is silently dropped) -/
def patchListWith (dedup : Bool) (old : List P) (p : P) : List P :=
  if dedup && old.contains p then old
  else Gen.patchOperands.foldl (fun acc s => acc ++ (match s with | .old => old | .new => [p])) []

/-- what `Logger.patch` does now (`Gen.patchDedup` is regenerated from its source) -/
def patchList (old : List P) (p : P) : List P := patchListWith Gen.patchDedup old p

/-- call the patchers one after the other on the record -/
def runPatchers (papply : P → Assoc K V → Assoc K V) (c : Nat) :
    List P → Assoc K V → List (Event K V P) × Assoc K V
  | [], x => ([], x)
  | p :: ps, x =>
    let r := runPatchers papply c ps (papply p x)
    (Event.patched c p x :: r.1, r.2)

/-- one trailing phase of `_log` -/
def runPhase (papply : P → Assoc K V → Assoc K V) (s : State K V P) (c : Nat) (o : Opts K V P)
    (acc : List (Event K V P) × Assoc K V) : Phase → List (Event K V P) × Assoc K V
  | .corePatcher =>
    let r := runPatchers papply c (coreCalled s) acc.2
    (acc.1 ++ r.1, r.2)
  | .patchers =>
    let r := runPatchers papply c o.patchers acc.2
    (acc.1 ++ r.1, r.2)
  | .handlers => (acc.1 ++ s.handlers.map (fun h => Event.delivered c h acc.2), acc.2)

/-- the events of one logging call that passed `if not core.handlers: return` -/
def logEvents (papply : P → Assoc K V → Assoc K V) (s : State K V P) (c : Nat) (o : Opts K V P)
    (kw : Assoc K V) : List (Event K V P) :=
  let x0 := buildExtra s.coreExtra (ctxGet s c) o.extra kw o.flags.capture
  (Gen.logPhases.foldl (runPhase papply s c o) ([], x0)).1

/-- leave the innermost open block of context `c` in the given way: `context.reset(token)` runs for
the ways of leaving listed in `Gen.resetOn` (all of them for `try: yield  finally: reset`); for
the others the generator just ends and the variable keeps the block's value -/
def exitOne (s : State K V P) (c : Nat) (kind : ExitKind) : State K V P :=
  match s.stacks c with
  | [] => s
  | f :: rest =>
    let st := fun c' => if c' = c then rest else s.stacks c'
    if kind ∈ Gen.resetOn then
      match ContextVars.reset s.cv c f.tok with
      | .ok cv' => { s with cv := cv', stacks := st }
      | .error e => { s with stacks := st, out := s.out ++ [Event.error c e] }
    else { s with stacks := st }

def exitN (s : State K V P) (c : Nat) (kind : ExitKind) : Nat → State K V P
  | 0 => s
  | n + 1 => exitN (exitOne s c kind) c kind n

/-- one operation executed in context `c` -/
def step (papply : P → Assoc K V → Assoc K V) (s : State K V P) (c : Nat) : Op K V P → State K V P
  | .configure extra patcher =>
    let s1 := match patcher with | some p => { s with corePatcher := some p } | none => s
    match extra with | some e => { s1 with coreExtra := merge [] e } | none => s1
  | .bind l kw =>
    match s.loggers[l]? with
    | some o => { s with loggers := s.loggers ++ [{ o with extra := bindExtra o.extra kw }] }
    | none => s
  | .patch l p =>
    match s.loggers[l]? with
    | some o => { s with loggers := s.loggers ++ [{ o with patchers := patchList o.patchers p }] }
    | none => s
  | .opt l f =>
    match s.loggers[l]? with
    | some o => { s with loggers := s.loggers ++ [{ o with flags := f }] }
    | none => s
  | .enter kw =>
    let r := ContextVars.set s.cv c (ctxExtra (ctxGet s c) kw)
    { s with cv := r.1,
             stacks := fun c' => if c' = c then { tok := r.2, kw := kw } :: s.stacks c else s.stacks c' }
  | .exit => exitOne s c .normal
  | .raise k kind => exitN s c kind k
  | .log l kw =>
    match s.loggers[l]? with
    | some o => if s.handlers.isEmpty then s else { s with out := s.out ++ logEvents papply s c o kw }
    | none => s
  | .spawn copy =>
    let r := ContextVars.spawn s.cv c copy
    { s with cv := r.1,
             stacks := fun c' => if c' = r.2 then [] else s.stacks c',
             bases := fun c' => if c' = r.2 then ContextVars.get r.1 r.2 else s.bases c' }
  | .addHandler => { s with handlers := s.handlers ++ [s.nextH], nextH := s.nextH + 1 }
  | .removeHandler i => { s with handlers := s.handlers.eraseIdx i }

/-- a trace: which context executes which operation, in global order -/
def run (papply : P → Assoc K V → Assoc K V) (s : State K V P) : List (Nat × Op K V P) → State K V P
  | [] => s
  | (c, op) :: t => run papply (step papply s c op) t

end Context
