/-
Python `dict` with `str` keys as far as C12 needs it: insertion-ordered association lists, lookup,
and `{**a, **b}` / `a.update(b)`.  Import-free.
-/
namespace Context

abbrev Assoc (K V : Type) := List (K × V)

variable {K V : Type} [DecidableEq K]

/-- `d.get(k)` -/
def get? : Assoc K V → K → Option V
  | [], _ => none
  | (k', v) :: d, k => if k' = k then some v else get? d k

/-- `k in d` -/
def hasKey (d : Assoc K V) (k : K) : Bool := (get? d k).isSome

/-- `{**a, **b}` (also `a.update(b)` seen as a value): the keys of `a` keep their position and take
`b`'s value when `b` has the key, the keys only `b` has follow in `b`'s order. -/
def merge (a b : Assoc K V) : Assoc K V :=
  a.map (fun kv => (kv.1, (get? b kv.1).getD kv.2)) ++ b.filter (fun kv => !(hasKey a kv.1))

/-- `x or y` on optional values: the first that is present -/
def orElse (x y : Option V) : Option V := match x with | some v => some v | none => y

end Context

namespace Context

/-- the three dict displays starred into a record's `extra` by `Logger._log` -/
inductive Layer where
  | core   -- `core.extra`      (configure(extra=…))
  | ctx    -- `context.get()`   (contextualize())
  | bound  -- `extra`           (bind())
  deriving DecidableEq, Repr

/-- operands of `{**context.get(), **kwargs}` in `contextualize` / `{**extra, **kwargs}` in `bind` -/
inductive Src where
  | old | kwargs
  deriving DecidableEq, Repr

/-- operands of the new patcher list built by `patch` -/
inductive PSrc where
  | old | new
  deriving DecidableEq, Repr

/-- how a `contextualize` block is left: normally, by an exception that is an `Exception`, or by a
`BaseException` that is not (`KeyboardInterrupt`, `SystemExit`, `GeneratorExit`,
`asyncio.CancelledError`) -/
inductive ExitKind where
  | normal | exception | baseException
  deriving DecidableEq, Repr

/-- the three trailing phases of `Logger._log` -/
inductive Phase where
  | corePatcher | patchers | handlers
  deriving DecidableEq, Repr

/-- the seven per-call options `opt()` sets (all of them, from its arguments or their defaults) -/
structure Flags where
  exception : Nat    -- 0 = None, 1 = False, 2 = True
  depth : Int
  record : Bool
  lazy : Bool
  colors : Bool
  raw : Bool
  capture : Bool
  deriving DecidableEq, Repr

/-- shape of the expression that yields a container handed to a new object (`Logger(...)`, `context.set(...)`,
`log_record["extra"]`): a display `{**a, **b}` / `[*a, b]` / `a + [b]` always builds a NEW object, a bare
name is the very object it names, a conditional expression is one or the other (tie G regenerates the shape
of each construction site; the object-level model `Context/Heap.lean` evaluates it) -/
inductive DExpr (S : Type) where
  | display (ops : List S)
  | alias (o : S)
  | ite (t e : DExpr S)
  deriving DecidableEq, Repr

/-- does every evaluation of the expression build a new object? -/
def DExpr.aliasFree {S : Type} : DExpr S → Bool
  | .display _ => true
  | .alias _ => false
  | .ite t e => t.aliasFree && e.aliasFree

/-- how `Logger._log` decides whether to call the configured patcher: `if core.patcher:` (truth value of the
callable) or `if core.patcher is not None:` -/
inductive PatcherGuard where
  | truthy | isNotNone
  deriving DecidableEq, Repr

/-- the three statements of `Logger._log` that touch `kwargs` between the record display and the patchers -/
inductive KwStage where
  | lazyEval      -- `kwargs = {key: value() for key, value in kwargs.items()}` under `if lazy:`
  | capture       -- `log_record["extra"].update(kwargs)` under `if capture and kwargs:`
  | recordInject  -- `kwargs.update(record=log_record)` under `if record:`
  deriving DecidableEq, Repr

/-- the execution context in which the task that `AsyncSink.write` creates for a coroutine sink runs:
`loop.create_task(coroutine)` copies the CURRENT context of the emitting call for every task (PEP 567), a
`context=` argument holding one stored `Context` object makes all tasks of the handler run in that ONE context -/
inductive TaskCtx where
  | copyOfCaller | shared
  deriving DecidableEq, Repr

end Context
