/-
Python `dict` with `str` keys as far as C12 needs it: insertion-ordered association lists, lookup,
and `{**a, **b}` / `a.update(b)`.  Import-free.
-/
namespace Context

abbrev Assoc (K V : Type) := List (K × V)

variable {K V : Type} [DecidableEq K]

/-- `d.get(k)` -/
def get? : Assoc K V → K → Option V
  | [], _ => none
  | (k', v) :: d, k => if k' = k then some v else get? d k

/-- `k in d` -/
def hasKey (d : Assoc K V) (k : K) : Bool := (get? d k).isSome

/-- `{**a, **b}` (also `a.update(b)` seen as a value): the keys of `a` keep their position and take
`b`'s value when `b` has the key, the keys only `b` has follow in `b`'s order. -/
def merge (a b : Assoc K V) : Assoc K V :=
  a.map (fun kv => (kv.1, (get? b kv.1).getD kv.2)) ++ b.filter (fun kv => !(hasKey a kv.1))

/-- `x or y` on optional values: the first that is present -/
def orElse (x y : Option V) : Option V := match x with | some v => some v | none => y

end Context

namespace Context

/-- the three dict displays starred into a record's `extra` by `Logger._log` -/
inductive Layer where
  | core   -- `core.extra`      (configure(extra=…))
  | ctx    -- `context.get()`   (contextualize())
  | bound  -- `extra`           (bind())
  deriving DecidableEq, Repr

/-- operands of `{**context.get(), **kwargs}` in `contextualize` / `{**extra, **kwargs}` in `bind` -/
inductive Src where
  | old | kwargs
  deriving DecidableEq, Repr

/-- operands of the new patcher list built by `patch` -/
inductive PSrc where
  | old | new
  deriving DecidableEq, Repr

/-- how a `contextualize` block is left: normally, by an exception that is an `Exception`, or by a
`BaseException` that is not (`KeyboardInterrupt`, `SystemExit`, `GeneratorExit`,
`asyncio.CancelledError`) -/
inductive ExitKind where
  | normal | exception | baseException
  deriving DecidableEq, Repr

/-- the three trailing phases of `Logger._log` -/
inductive Phase where
  | corePatcher | patchers | handlers
  deriving DecidableEq, Repr

/-- the seven per-call options `opt()` sets (all of them, from its arguments or their defaults) -/
structure Flags where
  exception : Nat    -- 0 = None, 1 = False, 2 = True
  depth : Int
  record : Bool
  lazy : Bool
  colors : Bool
  raw : Bool
  capture : Bool
  deriving DecidableEq, Repr

end Context
