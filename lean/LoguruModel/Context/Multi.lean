import LoguruModel.Context.Scope
/-!
C12 – several cores: `copy.deepcopy(logger)` yields a logger over a NEW `Core` (its own `extra`, patcher,
handlers), while the `ContextVar` `context` is ONE module-level object shared by every logger of the
process.  The multi-core system is built from the single-core model by a view: an operation through a
logger of core `i` is the single-core `step` on the state assembled from the shared part (context variable,
open blocks, event log) and the fields of core `i`.
-/
set_option linter.unusedSectionVars false
namespace Context
open Py

variable {K V P : Type} [DecidableEq K] [DecidableEq P]

/-- what belongs to one `Core` (and the loggers created over it) -/
structure CoreSt (K V P : Type) where
  coreExtra : Assoc K V
  corePatcher : Option P
  handlers : List Nat
  nextH : Nat
  loggers : List (Opts K V P)

structure MState (K V P : Type) where
  /-- the shared part lives in the `cv`, `stacks`, `bases`, `out`, `truthy` fields (the core fields of this
  record are not used) -/
  shared : State K V P
  cores : List (CoreSt K V P)

def coreOf (s : State K V P) : CoreSt K V P :=
  { coreExtra := s.coreExtra, corePatcher := s.corePatcher, handlers := s.handlers, nextH := s.nextH,
    loggers := s.loggers }

/-- the single-core state seen through core `k` -/
def withCore (s : State K V P) (k : CoreSt K V P) : State K V P :=
  { s with coreExtra := k.coreExtra, corePatcher := k.corePatcher, handlers := k.handlers, nextH := k.nextH,
           loggers := k.loggers }

def minit (truthy : P → Bool) : MState K V P :=
  { shared := initT truthy, cores := [coreOf (initT truthy)] }

inductive MOp (K V P : Type) where
  /-- an operation through (a logger of) core `i` -/
  | on (i : Nat) (op : Op K V P)
  /-- `copy.deepcopy(<logger l of core i>)`: a new core holding copies of core i's extra, patcher and handlers,
  and ONE logger with a copy of that logger's options -/
  | deepcopy (i l : Nat)

def mstep (papply : P → Assoc K V → Assoc K V) (m : MState K V P) (c : Nat) : MOp K V P → MState K V P
  | .on i op =>
    match m.cores[i]? with
    | none => m
    | some k =>
      let s' := step papply (withCore m.shared k) c op
      { shared := s', cores := m.cores.set i (coreOf s') }
  | .deepcopy i l =>
    match m.cores[i]? with
    | none => m
    | some k =>
      match k.loggers[l]? with
      | none => m
      | some o => { m with cores := m.cores ++ [{ k with loggers := [o] }] }

def mrun (papply : P → Assoc K V → Assoc K V) (m : MState K V P) : List (Nat × MOp K V P) → MState K V P
  | [] => m
  | (c, op) :: t => mrun papply (mstep papply m c op) t

/-- the invariant only speaks about the shared part -/
theorem inv_congr (s s' : State K V P) (h1 : s'.cv = s.cv) (h2 : s'.stacks = s.stacks) (h3 : s'.bases = s.bases)
    (hI : Inv s) : Inv s' := by
  constructor
  · rw [h2]; exact hI.owner
  · rw [h2, h1]; exact hI.fresh
  · rw [h2, h1]; exact hI.unused
  · rw [h1]; exact hI.usedLt
  · rw [h2]; exact hI.pw
  · rw [h2]; exact hI.cross
  · rw [h1, h2, h3]; exact hI.value
  · rw [h2, h3]; exact hI.wf

theorem inv_withCore (s : State K V P) (k : CoreSt K V P) (hI : Inv s) : Inv (withCore s k) :=
  inv_congr s _ rfl rfl rfl hI

theorem inv_mstep (papply : P → Assoc K V → Assoc K V) (m : MState K V P) (c : Nat) (op : MOp K V P)
    (hI : Inv m.shared) : Inv (mstep papply m c op).shared := by
  cases op with
  | on i op =>
    simp only [mstep]
    split
    · exact hI
    · exact inv_step papply _ c op (inv_withCore _ _ hI)
  | deepcopy i l =>
    simp only [mstep]
    split
    · exact hI
    · split <;> exact hI

theorem inv_mrun (papply : P → Assoc K V → Assoc K V) (t : List (Nat × MOp K V P)) (m : MState K V P)
    (hI : Inv m.shared) : Inv (mrun papply m t).shared := by
  induction t generalizing m with
  | nil => exact hI
  | cons e t ih => exact ih _ (inv_mstep papply m e.1 e.2 hI)

end Context
