import LoguruModel.Context.Model
/-! helper lemmas for Props/C12 (dict algebra, patcher chains) -/
set_option linter.unusedSectionVars false
namespace Context
open Py

variable {K V P : Type} [DecidableEq K] [DecidableEq P]

@[simp] theorem orElse_none_left (y : Option V) : orElse none y = y := rfl
@[simp] theorem orElse_some_left (v : V) (y : Option V) : orElse (some v) y = some v := rfl
@[simp] theorem orElse_none_right (x : Option V) : orElse x none = x := by cases x <;> rfl
theorem orElse_assoc (x y z : Option V) : orElse (orElse x y) z = orElse x (orElse y z) := by
  cases x <;> rfl

@[simp] theorem get?_nil (k : K) : get? ([] : Assoc K V) k = none := rfl

theorem get?_cons (k' : K) (v : V) (d : Assoc K V) (k : K) :
    get? ((k', v) :: d) k = if k' = k then some v else get? d k := rfl

theorem get?_append (x y : Assoc K V) (k : K) :
    get? (x ++ y) k = orElse (get? x k) (get? y k) := by
  induction x with
  | nil => rfl
  | cons kv x ih =>
    obtain ⟨k', v⟩ := kv
    simp only [List.cons_append, get?_cons]
    split
    · rfl
    · exact ih

theorem get?_map_override (a b : Assoc K V) (k : K) :
    get? (a.map (fun kv => (kv.1, (get? b kv.1).getD kv.2))) k
      = (get? a k).map (fun v => (get? b k).getD v) := by
  induction a with
  | nil => rfl
  | cons kv a ih =>
    obtain ⟨k', v⟩ := kv
    simp only [List.map_cons, get?_cons]
    split
    · next h => subst h; rfl
    · exact ih

theorem get?_filter_absent (a b : Assoc K V) (k : K) :
    get? (b.filter (fun kv => !(hasKey a kv.1))) k = if hasKey a k then none else get? b k := by
  induction b with
  | nil => simp
  | cons kv b ih =>
    obtain ⟨k', v⟩ := kv
    simp only [List.filter_cons]
    by_cases hk : k' = k
    · subst hk
      cases h : hasKey a k' <;> simp [h, get?_cons, ih]
    · cases h' : hasKey a k' <;> simp [get?_cons, hk, ih]

/-- key by key, `{**a, **b}` is `b` where `b` has the key and `a` elsewhere -/
theorem get?_merge (a b : Assoc K V) (k : K) :
    get? (merge a b) k = orElse (get? b k) (get? a k) := by
  unfold merge
  rw [get?_append, get?_map_override, get?_filter_absent]
  unfold hasKey
  cases ha : get? a k <;> cases hb : get? b k <;> simp [orElse]

@[simp] theorem merge_nil_left_get (b : Assoc K V) (k : K) : get? (merge [] b) k = get? b k := by
  rw [get?_merge]; simp

end Context

namespace Context
open Py

variable {K V P : Type} [DecidableEq K] [DecidableEq P]

/-- what the chain of patchers leaves in `record["extra"]` -/
def applyAll (papply : P → Assoc K V → Assoc K V) : List P → Assoc K V → Assoc K V
  | [], x => x
  | p :: ps, x => applyAll papply ps (papply p x)

theorem applyAll_append (papply : P → Assoc K V → Assoc K V) (ps qs : List P) (x : Assoc K V) :
    applyAll papply (ps ++ qs) x = applyAll papply qs (applyAll papply ps x) := by
  induction ps generalizing x with
  | nil => rfl
  | cons p ps ih => simp [applyAll, ih]

def Event.patcher? : Event K V P → Option P
  | .patched _ p _ => some p
  | _ => none

def Event.isDelivered : Event K V P → Bool
  | .delivered .. => true
  | _ => false

theorem runPatchers_snd (papply : P → Assoc K V → Assoc K V) (c : Nat) (ps : List P) (x : Assoc K V) :
    (runPatchers papply c ps x).2 = applyAll papply ps x := by
  induction ps generalizing x with
  | nil => rfl
  | cons p ps ih => simp [runPatchers, applyAll, ih]

theorem runPatchers_ids (papply : P → Assoc K V → Assoc K V) (c : Nat) (ps : List P) (x : Assoc K V) :
    (runPatchers papply c ps x).1.filterMap Event.patcher? = ps := by
  induction ps generalizing x with
  | nil => rfl
  | cons p ps ih => simp [runPatchers, Event.patcher?, ih]

theorem runPatchers_none_delivered (papply : P → Assoc K V → Assoc K V) (c : Nat) (ps : List P)
    (x : Assoc K V) : ∀ e ∈ (runPatchers papply c ps x).1, e.isDelivered = false := by
  induction ps generalizing x with
  | nil => intro e h; cases h
  | cons p ps ih =>
    intro e h
    simp only [runPatchers, List.mem_cons] at h
    rcases h with h | h
    · subst h; rfl
    · exact ih _ e h

theorem runPatchers_append (papply : P → Assoc K V → Assoc K V) (c : Nat) (ps qs : List P)
    (x : Assoc K V) :
    runPatchers papply c (ps ++ qs) x =
      ((runPatchers papply c ps x).1 ++ (runPatchers papply c qs (runPatchers papply c ps x).2).1,
       (runPatchers papply c qs (runPatchers papply c ps x).2).2) := by
  induction ps generalizing x with
  | nil => simp [runPatchers]
  | cons p ps ih => simp [runPatchers, ih]

/-- the i-th patcher of the chain is shown the result of the ones before it -/
theorem runPatchers_seen (papply : P → Assoc K V → Assoc K V) (c : Nat) (ps : List P) (x : Assoc K V)
    (i : Nat) (p : P) (h : ps[i]? = some p) :
    (runPatchers papply c ps x).1[i]? = some (Event.patched c p (applyAll papply (ps.take i) x)) := by
  induction ps generalizing x i with
  | nil => simp at h
  | cons q ps ih =>
    cases i with
    | zero => simp at h; subst h; simp [runPatchers, applyAll]
    | succ i => simp at h; simp [runPatchers, applyAll, ih _ _ h]

/-! the configured patcher and its guard -/

theorem coreCalledWith_none (guard : PatcherGuard) (s : State K V P) (h : s.corePatcher = none) :
    coreCalledWith guard s = [] := by
  cases guard <;> simp [coreCalledWith, h]

theorem coreCalled_none (s : State K V P) (h : s.corePatcher = none) : coreCalled s = [] :=
  coreCalledWith_none _ s h

/-- a truthy configured patcher is called under either guard -/
theorem coreCalledWith_truthy (guard : PatcherGuard) (s : State K V P)
    (h : ∀ p, s.corePatcher = some p → s.truthy p = true) :
    coreCalledWith guard s = s.corePatcher.toList := by
  cases guard with
  | isNotNone => rfl
  | truthy =>
    cases hp : s.corePatcher with
    | none => simp [coreCalledWith, hp]
    | some p => simp [coreCalledWith, hp, Option.filter, h p hp]

/-- under `if core.patcher is not None:` the configured patcher is always called -/
theorem coreCalledWith_isNotNone (s : State K V P) :
    coreCalledWith .isNotNone s = s.corePatcher.toList := rfl

/-- under `if core.patcher:` a configured patcher whose object is falsy is never called -/
theorem coreCalledWith_truthy_falsy (s : State K V P) (p : P) (hp : s.corePatcher = some p)
    (hf : s.truthy p = false) : coreCalledWith .truthy s = [] := by
  simp [coreCalledWith, hp, Option.filter, hf]

end Context
