import LoguruModel.Rotation.Lemmas
/-
C07 / C19 – `RotationGroup` (a list/tuple/set of conditions): what happens to a member in ANY
position of the list over a whole history.  `any` stops at the first member that fires, so a member
further down is asked only on the calls on which everything before it said False; on the other calls
its state (`_limit`) is untouched.
-/
namespace Rotation
open Py Rotation.Gen

theorem groupCall_len : ∀ (ls : List Leaf) (ss : List (Option Int)) (x : CallIn),
    (groupCall ls ss x).2.length = ss.length := by
  intro ls
  induction ls with
  | nil => intro ss x; simp [groupCall]
  | cons l ls ih =>
    intro ss x
    cases ss with
    | nil => simp [groupCall]
    | cons s ss =>
      simp only [groupCall]
      split
      · simp
      · simp [ih ss x]

/-- the group over `pre ++ rest`: `rest` is asked iff no member of `pre` fired, and otherwise keeps
its states -/
theorem groupCall_append (rest : List Leaf) (sr : List (Option Int)) (x : CallIn) :
    ∀ (pre : List Leaf) (sp : List (Option Int)), sp.length = pre.length →
      groupCall (pre ++ rest) (sp ++ sr) x =
        (if (groupCall pre sp x).1 then (true, (groupCall pre sp x).2 ++ sr)
         else ((groupCall rest sr x).1, (groupCall pre sp x).2 ++ (groupCall rest sr x).2)) := by
  intro pre
  induction pre with
  | nil =>
    intro sp h
    have : sp = [] := by cases sp with | nil => rfl | cons _ _ => simp at h
    subst this
    simp [groupCall]
  | cons l pre ih =>
    intro sp h
    cases sp with
    | nil => simp at h
    | cons s sp =>
      have hlen : sp.length = pre.length := by simpa using h
      simp only [List.cons_append, groupCall]
      by_cases hb : (leafCall l s x).1 = true
      · simp [hb]
      · simp only [hb, Bool.false_eq_true, if_false]
        rw [ih sp hlen]
        by_cases hp : (groupCall pre sp x).1 = true
        · simp [hp]
        · simp [hp]

/-- a time member at any position: the members before it (`pre`), the member, the members after it -/
theorem groupCall_at (pre post : List Leaf) (cfg : RotTime) (sp sq : List (Option Int)) (st : Option Int)
    (x : CallIn) (h : sp.length = pre.length) :
    groupCall (pre ++ .time cfg :: post) (sp ++ st :: sq) x =
      (if (groupCall pre sp x).1 then (true, (groupCall pre sp x).2 ++ st :: sq)
       else if (timeCall cfg st x).1 then (true, (groupCall pre sp x).2 ++ (timeCall cfg st x).2 :: sq)
       else ((groupCall post sq x).1, (groupCall pre sp x).2 ++ (timeCall cfg st x).2 :: (groupCall post sq x).2)) := by
  rw [groupCall_append _ _ x pre sp h]
  by_cases hp : (groupCall pre sp x).1 = true
  · simp [hp]
  · simp only [hp, Bool.false_eq_true, if_false, groupCall, leafCall]
    by_cases ht : (timeCall cfg st x).1 = true
    · simp [ht]
    · simp [ht]

/-- the history of a group, seen from the time member behind `pre`: `sp`, `st`, `sq` are the states
of the members before it, its own `_limit`, and the states of those after it; `τ` is the latest
instant THE MEMBER has seen (the creation instant before its first call).
On every call: either some earlier member fires – the group rotates, the member is not asked and
keeps its `_limit` and its `τ` – or the member is asked, and then a boundary of its own in
`(τ, instant of the record]` makes the group rotate.  The first conjunct of either case says that the
decomposition follows the real run of the group. -/
def GroupAgrees (B : Int → Prop) (g : Int) (pre post : List Leaf) (cfg : RotTime) :
    Int → List (Option Int) → Option Int → List (Option Int) → List CallIn → Prop
  | _, _, _, _, [] => True
  | τ, sp, st, sq, x :: xs =>
    let r := groupCall (pre ++ .time cfg :: post) (sp ++ st :: sq) x
    let sp' := (groupCall pre sp x).2
    if (groupCall pre sp x).1 then
      r = (true, sp' ++ st :: sq) ∧ GroupAgrees B g pre post cfg τ sp' st sq xs
    else
      let st' := (timeCall cfg st x).2
      let sq' := if (timeCall cfg st x).1 then sq else (groupCall post sq x).2
      r.2 = sp' ++ st' :: sq' ∧
      ((∃ b, B b ∧ τ < b ∧ b ≤ x.stamp.utc + g) → r.1 = true) ∧
      GroupAgrees B g pre post cfg (max τ (x.stamp.utc + g)) sp' st' sq' xs

/-- a time member in ANY position of a list of conditions never loses a boundary: from any state in
which its `_limit` is the next boundary after the latest instant it has seen, over every history -/
theorem groupAgrees_from_any_state (F : Form) (ok : StepOK F) (pre post : List Leaf) (c off : Int) :
    ∀ (xs : List CallIn) (τ : Int) (sp : List (Option Int)) (st : Option Int) (sq : List (Option Int)),
      sp.length = pre.length → (∀ x ∈ xs, x.ctime = c ∧ x.stamp.off = off) → Inv F (c + F.frame off) τ st →
      GroupAgrees (F.B (c + F.frame off)) (F.frame off) pre post F.cfg τ sp st sq xs := by
  intro xs
  induction xs with
  | nil => intro τ sp st sq _ _ _; trivial
  | cons x xs ih =>
    intro τ sp st sq hlen hx hinv
    have hxc := hx x (by simp)
    have hat := groupCall_at pre post F.cfg sp sq st x hlen
    have hlen' : (groupCall pre sp x).2.length = pre.length := by rw [groupCall_len]; exact hlen
    simp only [GroupAgrees]
    by_cases hp : (groupCall pre sp x).1 = true
    · simp only [hp, if_true]
      refine ⟨by rw [hat]; simp [hp], ?_⟩
      exact ih τ _ st sq hlen' (fun y hy => hx y (by simp [hy])) hinv
    · simp only [hp, Bool.false_eq_true, if_false]
      obtain ⟨⟨l, hl, hn⟩, hiff⟩ := timeCall_step F ok c off τ st x hxc.1 hxc.2 hinv
      refine ⟨?_, ?_, ?_⟩
      · rw [hat]; simp only [hp, Bool.false_eq_true, if_false]
        by_cases ht : (timeCall F.cfg st x).1 = true <;> simp [ht]
      · intro hb
        have ht := hiff.mpr hb
        rw [hat]; simp [hp, ht]
      · exact ih _ _ _ _ hlen' (fun y hy => hx y (by simp [hy])) (by rw [hl]; exact hn)

end Rotation
