import LoguruModel.Rotation.Model
import LoguruModel.Rotation.StringParsers
/-
C07 / C19 – the dispatch of `FileSink._make_rotation_function` over the spelling parsers of
`Rotation/StringParsers.lean`.
-/
namespace Rotation
open Py Rotation.Gen

/-! #### `FileSink._make_rotation_function` -/

/-- one element of the `rotation=` argument as it reaches `_make_rotation_function` -/
inductive SpecItem where
  | num (floor : Int)        -- int / float / Decimal: only the floor matters (it is compared with an int)
  | td (us : Int)            -- datetime.timedelta
  | time (ti : TimeInit)     -- datetime.time
  | str (s : Str)

def makeFromTd (us : Int) : Except Err Leaf :=
  if intervalRejected us then .error .valueError
  else .ok (.time { step := .interval us, timeInit := none, weekday := none })

def makeFromTime (ti : TimeInit) : Leaf := .time { step := .day, timeInit := some ti, weekday := none }

def midnight : TimeInit := { hour := 0, minute := 0, second := 0, microsecond := 0, tz := none }

/-- the `isinstance(rotation, str)` branch: size, then duration, then frequency, then daytime -/
def makeFromStr (s : Str) : Except Err Leaf := do
  match ← parseSize s with
  | some q => .ok (.size q.floor)
  | none =>
  match ← parseDuration s with
  | some us => makeFromTd us
  | none =>
  match parseFrequency s with
  | some k => .ok (.time { step := .freq k, timeInit := none, weekday := none })
  | none =>
  match ← parseDaytime s with
  | some (none, some t) => .ok (makeFromTime t)
  | some (some d, t) =>
    .ok (.time { step := .weekday d, timeInit := some (t.getD midnight), weekday := some d })
  | _ => .error .valueError

def makeLeaf : SpecItem → Except Err Leaf
  | .num fl => .ok (.size fl)
  | .td us => makeFromTd us
  | .time ti => .ok (makeFromTime ti)
  | .str s => makeFromStr s

/-- a list/tuple of conditions (a single condition is the list of one); empty list = ValueError -/
def makeRotation (items : List SpecItem) : Except Err (List Leaf) :=
  if items.isEmpty then .error .valueError else items.mapM makeLeaf

end Rotation
