import LoguruModel.Rotation.Spec
/-
C07 – where "the creation time of the file in use" comes from (`loguru/_ctime_functions.py`).
The field read from `os.stat` in every branch and the name of the extended attribute are the
regenerated ones (`Rotation.Gen.ctime*`); the platform dispatch order is pinned by the extractor.
-/
namespace Rotation
open Py Rotation.Gen

/-- the branch `load_ctime_functions` selects -/
inductive Platform where
  | windows      -- os.name == "nt"
  | macos        -- os.stat_result has st_birthtime
  | linuxXattr   -- os.getxattr / os.setxattr exist
  | noXattr      -- none of the above
  deriving Repr, DecidableEq

/-- what the creation-time functions can see of a file: its stat times and, if present and
readable, the value stored in the `user.loguru_crtime` attribute (microseconds) -/
structure FileMeta where
  st : StatTimes
  crtime : Option Int
  deriving Repr, DecidableEq

/-- `get_ctime(filepath)` -/
def getCtime (p : Platform) (m : FileMeta) : Int :=
  match p with
  | .windows => ctimeWindows m.st
  | .macos => ctimeMacos m.st
  | .linuxXattr => (match m.crtime with | some v => v | none => ctimeLinuxFallback m.st)
  | .noXattr => ctimeNoXattr m.st

/-- `set_ctime(filepath, timestamp)`; `writable` = the file system accepts user attributes
(an OSError is swallowed).  The Windows branch (win32_setctime) is not modelled. -/
def setCtime (p : Platform) (writable : Bool) (m : FileMeta) (ts : Int) : FileMeta :=
  match p with
  | .linuxXattr => if writable && ctimeSetAttr == ctimeGetAttr then { m with crtime := some ts } else m
  | _ => m

/-- the creation instant the property speaks about for a file found on disk (POSIX without birth
time): the persisted one when there is one, else the last modification – never the inode-change
time, which moves on chmod / mv / utime / cp -p -/
def specCreation (m : FileMeta) : Int :=
  match m.crtime with
  | some v => v
  | none => m.st.st_mtime

end Rotation
