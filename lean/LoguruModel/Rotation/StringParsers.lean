import LoguruModel.Generated.RotationParsers
/-
C07 / C19 – the human-readable spellings: `parse_size`, `parse_duration`, `parse_frequency`,
`parse_day`, `parse_time`, `parse_daytime` (`loguru/_string_parsers.py`).  This file depends on
`_string_parsers.py` alone (`Generated/RotationParsers.lean`), so that other areas (retention) can use
the parsers without the file-sink kernels; the dispatch of `FileSink._make_rotation_function` is in
`Rotation/Parsers.lean`.

The regular expressions are transcribed as hand-written scanners (their text is pinned by the
extractor, which fails closed when one changes); unit tables, weekday names, time formats, size
arithmetic constants and the interval rejection test are the generated ones.  Numbers are exact
decimals (`float` rounding is outside the model).  Character classes are the ASCII ones
(`\d` = 0-9, `\s`/`strip()` = ASCII white space, U+0085, U+00A0; `re.I` = ASCII case folding).
-/
namespace Rotation
open Py Rotation.Gen

def isSpace (c : Char) : Bool :=
  c == ' ' || c == '\t' || c == '\n' || c == '\r' || c == '\x0b' || c == '\x0c' ||
  c == '\x1c' || c == '\x1d' || c == '\x1e' || c == '\x1f' || c == '\u0085' || c == '\u00a0'

def isDigit (c : Char) : Bool := '0' ≤ c && c ≤ '9'
def isAlpha (c : Char) : Bool := ('a' ≤ c && c ≤ 'z') || ('A' ≤ c && c ≤ 'Z')
def lowerC (c : Char) : Char := if 'A' ≤ c && c ≤ 'Z' then Char.ofNat (c.toNat + 32) else c
def lower (s : Str) : Str := s.map lowerC
def isNumCh (c : Char) : Bool := c == 'e' || c == 'E' || c == '+' || c == '-' || c == '.' || isDigit c

/-- `str.strip()` -/
def strip (s : Str) : Str := ((s.dropWhile isSpace).reverse.dropWhile isSpace).reverse

def digitsVal (ds : Str) : Nat := ds.foldl (fun a c => a * 10 + (c.toNat - '0'.toNat)) 0

/-- an exact decimal `m · 10^e` -/
structure Dec where
  m : Int
  e : Int
  deriving Repr, DecidableEq

def splitSign (s : Str) : Bool × Str :=
  match s with
  | '+' :: r => (false, r)
  | '-' :: r => (true, r)
  | _ => (false, s)

/-- `float(s)` for a string over `[e+-.0-9]` (no inf/nan spellable): the syntax Python accepts,
valued exactly -/
def parseFloat (s : Str) : Option Dec :=
  let (neg, s1) := splitSign s
  let ip := s1.takeWhile isDigit
  let s2 := s1.dropWhile isDigit
  let (fp, s3) := match s2 with
    | '.' :: r => (r.takeWhile isDigit, r.dropWhile isDigit)
    | _ => ([], s2)
  if ip.isEmpty && fp.isEmpty then none else
  let mant : Int := digitsVal (ip ++ fp)
  let mant := if neg then -mant else mant
  let e0 : Int := -(fp.length : Int)
  match s3 with
  | [] => some ⟨mant, e0⟩
  | c :: r =>
    if c == 'e' || c == 'E' then
      let (eneg, r1) := splitSign r
      let ed := r1.takeWhile isDigit
      if ed.isEmpty || !(r1.dropWhile isDigit).isEmpty then none
      else
        let ev : Int := digitsVal ed
        some ⟨mant, e0 + (if eneg then -ev else ev)⟩
    else none

/-- `d · k / q` as an exact fraction (`k` integer, `q` positive) -/
def Dec.scale (d : Dec) (k : Int) (q : Nat) : Rat' :=
  if d.e ≥ 0 then ⟨d.m * 10 ^ d.e.toNat * k, q⟩ else ⟨d.m * k, q * 10 ^ (-d.e).toNat⟩

def Rat'.add (a b : Rat') : Rat' := ⟨a.num * b.den + b.num * a.den, a.den * b.den⟩

def indexOf? (c : Char) : Str → Option Nat
  | [] => none
  | x :: xs => if x == c then some 0 else (indexOf? c xs).map (· + 1)

def lookupChar (c : Char) : List (Char × Int) → Option Int
  | [] => none
  | (k, v) :: r => if k == c then some v else lookupChar c r

/-- the parts `parse_size` extracts: number, unit exponent `u`, base `i`, divisor `b` -/
structure SizeParts where
  num : Dec
  exp : Nat
  base : Int
  divisor : Int
  deriving Repr, DecidableEq

/-- the scanner of `parse_size` (regular expression, `float()` syntax, unit letters) without the
arithmetic: `None` (no match), a ValueError (bad float) or the parts -/
def scanSize (s0 : Str) : Except Err (Option SizeParts) :=
  let s := strip s0
  let num := s.takeWhile isNumCh
  if num.isEmpty then .ok none else
  let r1 := (s.dropWhile isNumCh).dropWhile isSpace
  let (u, r2) := match r1 with
    | c :: r => match indexOf? (lowerC c) sizeUnitLetters with
      | some i => (some i, r)
      | none => (none, r1)
    | [] => (none, r1)
  let (bin, r3) := match r2 with
    | c :: r => if lowerC c == 'i' then (true, r) else (false, r2)
    | [] => (false, r2)
  match r3 with
  | [b] =>
    if lowerC b == 'b' then
      match parseFloat num with
      | none => .error .valueError
      | some d =>
        let exp : Nat := match u with | some i => (i + sizeUnitOffset.toNat) | none => 0
        let base := if bin then sizeBinaryBase else sizeDecimalBase
        match lookupChar b sizeBitDivisor with
        | some q => .ok (some ⟨d, exp, base, q⟩)
        | none => .error .keyError
    else .ok none
  | _ => .ok none

/-- `parse_size`: `None` (no match), a ValueError (bad float) or the exact number of bytes
`number · base^exp / divisor` (the reading in binary64, as Python computes it, is
`parseSizeF` in `Rotation/FloatParsers.lean`) -/
def parseSize (s0 : Str) : Except Err (Option Rat') :=
  match scanSize s0 with
  | .ok (some p) => .ok (some (p.num.scale (p.base ^ p.exp) p.divisor.toNat))
  | .ok none => .ok none
  | .error e => .error e

/-! #### parse_duration -/

def dropSeps (s : Str) : Str := s.dropWhile (fun c => isSpace c || c == ',')

/-- does `(?:(N+)\s*(L+)[\s,]*)+` match the whole of `s`?  (backtracking over both greedy runs) -/
def fullItems : Nat → Str → Bool
  | 0, _ => false
  | f + 1, s =>
    let maxN := (s.takeWhile isNumCh).length
    (List.range maxN).any fun k0 =>
      let r := (s.drop (maxN - k0)).dropWhile isSpace
      let maxL := (r.takeWhile isAlpha).length
      (List.range maxL).any fun j0 =>
        let r2 := dropSeps (r.drop (maxL - j0))
        r2.isEmpty || fullItems f r2

/-- one item at the head of `s` as `re` finds it first: longest number run that leaves a letter -/
def firstItem (s : Str) : Option (Str × Str × Str) :=
  let maxN := (s.takeWhile isNumCh).length
  (List.range maxN).findSome? fun k0 =>
    let k := maxN - k0
    let r := (s.drop k).dropWhile isSpace
    let unit := r.takeWhile isAlpha
    if unit.isEmpty then none else some (s.take k, unit, dropSeps (r.dropWhile isAlpha))

/-- `re.findall(reg, duration)` -/
def findItems : Nat → Str → List (Str × Str)
  | 0, _ => []
  | _, [] => []
  | f + 1, c :: cs =>
    match firstItem (c :: cs) with
    | some (v, u, rest) => (v, u) :: (if rest.length < (c :: cs).length then findItems f rest else [])
    | none => findItems f cs

def unitOf (u : Str) : List (List Str × Int) → Option Int
  | [] => none
  | (names, v) :: r => if names.contains (lower u) then some v else unitOf u r

/-- the largest magnitude a `timedelta` holds (999999999 days), in microseconds -/
def maxTimedeltaUs : Int := 86399999999999999999

/-- `parse_duration`: `None`, an error, or the interval in microseconds (exact sum, then rounded
half-even to a microsecond like `timedelta(seconds=…)`) -/
def parseDuration (s0 : Str) : Except Err (Option Int) :=
  let s := strip s0
  if !fullItems (s.length + 1) s then .ok none else
  let items := findItems (s.length + 1) s
  let rec go : List (Str × Str) → Rat' → Except Err Rat'
    | [], acc => .ok acc
    | (v, u) :: rest, acc =>
      match parseFloat v with
      | none => .error .valueError
      | some d =>
        match unitOf u durationUnits with
        | none => .error .valueError
        | some us => go rest (acc.add (d.scale us 1))
  match go items ⟨0, 1⟩ with
  | .error e => .error e
  | .ok total =>
    let us := total.roundHalfEven
    if us > maxTimedeltaUs || us < -maxTimedeltaUs - 86400000000 then .error .other else .ok (some us)

/-! #### parse_frequency, parse_day -/

def lookupStr {α : Type} (k : Str) : List (Str × α) → Option α
  | [] => none
  | (a, v) :: r => if a == k then some v else lookupStr k r

def parseFrequency (s : Str) : Option FreqKernel := lookupStr (lower (strip s)) freqTable

def parseDay (s0 : Str) : Except Err (Option Int) :=
  let s := lower (strip s0)
  match lookupStr s weekdayNames with
  | some d => .ok (some d)
  | none =>
    match s with
    | 'w' :: ds =>
      if !ds.isEmpty && ds.all isDigit then
        let d : Int := digitsVal ds
        if weekdayInRange d then .ok (some d) else .error .valueError
      else .ok none
    | _ => .ok none

/-! #### parse_time: `datetime.strptime` for the directives the format list uses -/

structure TimeAcc where
  hour : Int := 0
  minute : Int := 0
  second : Int := 0
  micro : Int := 0
  hour12 : Option Int := none
  pm : Option Bool := none

/-- value of the first `k` characters if they are all digits -/
def digitsPrefix (k : Nat) (s : Str) : Option (Int × Str) :=
  let d := s.take k
  if d.length == k && d.all isDigit && k > 0 then some ((digitsVal d : Int), s.drop k) else none

/-- candidate matches of one numeric directive in the regex's priority order -/
def numCands (two : Int → Bool) (one : Int → Bool) (s : Str) : List (Int × Str) :=
  (match digitsPrefix 2 s with
   | some (v, r) => if two v then [(v, r)] else []
   | none => []) ++
  (match digitsPrefix 1 s with
   | some (v, r) => if one v then [(v, r)] else []
   | none => [])

/-- match the format against the text like `_strptime`'s compiled regex does (first match in
priority order, not necessarily to the end); `none` when the regex does not match.
An unsupported directive never matches. -/
def matchFmt : Nat → Str → Str → TimeAcc → Option (TimeAcc × Str)
  | 0, _, _, _ => none
  | _, [], s, acc => some (acc, s)
  | f + 1, '%' :: d :: fmt, s, acc =>
    let tryAll (cs : List (TimeAcc × Str)) : Option (TimeAcc × Str) :=
      cs.findSome? fun (a, r) => matchFmt f fmt r a
    if d == 'H' then
      tryAll ((numCands (fun v => v ≤ 23) (fun _ => true) s).map fun (v, r) => ({ acc with hour := v }, r))
    else if d == 'M' then
      tryAll ((numCands (fun v => v ≤ 59) (fun _ => true) s).map fun (v, r) => ({ acc with minute := v }, r))
    else if d == 'S' then
      tryAll ((numCands (fun v => v ≤ 61) (fun _ => true) s).map fun (v, r) => ({ acc with second := v }, r))
    else if d == 'I' then
      tryAll ((numCands (fun v => 1 ≤ v && v ≤ 12) (fun v => 1 ≤ v) s).map fun (v, r) => ({ acc with hour12 := some v }, r))
    else if d == 'f' then
      let n := min 6 (s.takeWhile isDigit).length
      tryAll ((List.range n).map fun i =>
        let k := n - i
        ({ acc with micro := (digitsVal (s.take k) : Int) * 10 ^ (6 - k) }, s.drop k))
    else if d == 'p' then
      match s with
      | a :: m :: r =>
        if lowerC m == 'm' && (lowerC a == 'a' || lowerC a == 'p') then
          matchFmt f fmt r { acc with pm := some (lowerC a == 'p') }
        else none
      | _ => none
    else none
  | f + 1, c :: fmt, s, acc =>
    if isSpace c then
      -- a blank in the format is `\s+`
      match s with
      | x :: r => if isSpace x then matchFmt f (fmt.dropWhile isSpace) (r.dropWhile isSpace) acc else none
      | [] => none
    else
      match s with
      | x :: r => if x == c then matchFmt f fmt r acc else none
      | [] => none

/-- `datetime.strptime(text, format).time()`; `none` = ValueError -/
def strptimeTime (fmt text : Str) : Option TimeInit :=
  match matchFmt (fmt.length + 1) fmt text {} with
  | some (a, []) =>
    let hour := match a.hour12 with
      | none => a.hour
      | some h => match a.pm with
        | none => h
        | some false => if h == 12 then 0 else h
        | some true => if h == 12 then 12 else h + 12
    if a.second > 59 then none
    else some { hour := hour, minute := a.minute, second := a.second, microsecond := a.micro, tz := none }
  | _ => none

/-- the pre-filter `^[\d\.\:]+\s*(?:[ap]m)?$` -/
def timeShape (s : Str) : Bool :=
  let isT (c : Char) : Bool := isDigit c || c == '.' || c == ':'
  let a := s.takeWhile isT
  let r := (s.dropWhile isT).dropWhile isSpace
  !a.isEmpty && (match r with
    | [] => true
    | [x, m] => (lowerC x == 'a' || lowerC x == 'p') && lowerC m == 'm'
    | _ => false)

def parseTime (s0 : Str) : Except Err (Option TimeInit) :=
  let s := strip s0
  if !timeShape s then .ok none else
  match timeFormats.findSome? (fun f => strptimeTime f s) with
  | some t => .ok (some t)
  | none => .error .valueError

/-! #### parse_daytime -/

/-- does `s` start with `\s+at\s+`?  returns what follows -/
def atSep (s : Str) : Option Str :=
  let r := s.dropWhile isSpace
  if r.length == s.length then none else
  match r with
  | a :: t :: r2 =>
    if lowerC a == 'a' && lowerC t == 't' then
      let r3 := r2.dropWhile isSpace
      if r3.length == r2.length then none else some r3
    else none
  | _ => none

/-- the lazy `^(.*?)\s+at\s+(.*)$`: shortest day part -/
def splitAt (pre : Str) : Str → Option (Str × Str)
  | [] => none
  | c :: cs =>
    match atSep (c :: cs) with
    | some t => some (pre.reverse, t)
    | none => splitAt (c :: pre) cs

def parseDaytime (s0 : Str) : Except Err (Option (Option Int × Option TimeInit)) :=
  let s := strip s0
  let m := splitAt [] s
  let (day, time) := match m with | some (d, t) => (d, t) | none => (s, s)
  match parseDay day with
  | .error _ => .error .valueError
  | .ok pd =>
    if m.isSome && pd.isNone then .error .valueError else
    match parseTime time with
    | .error _ => .error .valueError
    | .ok pt =>
      if m.isSome && pt.isNone then .error .valueError else
      if pd.isNone && pt.isNone then .ok none else .ok (some (pd, pt))

end Rotation
