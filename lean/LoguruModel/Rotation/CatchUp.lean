import LoguruModel.Rotation.Lemmas
/-
C07 – the catch-up loop of `RotationTime.__call__` AS THE CODE HAS IT

    while self._limit <= record_time:
        self._limit = self._step_forward(self._limit)

(no guard against a step that does not advance), its number of iterations, and its closed form for
intervals.  The model's `catchUp` (Model.lean) carries a stall guard so that the driver stays total
under mutated kernels; `catchUp_eq_raw` shows the guard is dead code for every accepted rotation.
-/
namespace Rotation
open Py Rotation.Gen

/-- the loop exactly as written; the fuel only bounds the unfolding -/
def catchUpRaw (f : Int → Int) : Nat → Int → Int → Int
  | 0, l, _ => l
  | n + 1, l, r => if catchUpCond l r then catchUpRaw f n (f l) r else l

/-- the number of times the loop body runs (within the fuel) -/
def catchUpIters (f : Int → Int) : Nat → Int → Int → Nat
  | 0, _, _ => 0
  | n + 1, l, r => if catchUpCond l r then catchUpIters f n (f l) r + 1 else 0

theorem catchUpRaw_stop (f : Int → Int) (n : Nat) (l r : Int) (h : ¬ l ≤ r) :
    catchUpRaw f n l r = l ∧ catchUpIters f n l r = 0 := by
  have hc : catchUpCond l r = false := by
    cases hb : catchUpCond l r with
    | false => rfl
    | true => exact absurd ((catchUpCond_iff l r).mp hb) h
  cases n <;> simp [catchUpRaw, catchUpIters, hc]

theorem catchUpRaw_step (f : Int → Int) (n : Nat) (l r : Int) (h : l ≤ r) :
    catchUpRaw f (n + 1) l r = catchUpRaw f n (f l) r ∧
    catchUpIters f (n + 1) l r = catchUpIters f n (f l) r + 1 := by
  have hc : catchUpCond l r = true := (catchUpCond_iff l r).mpr h
  simp [catchUpRaw, catchUpIters, hc]

/-- MEASURE.  If the step advances by at least `δ > 0` from every point of a set `P` that the step
does not leave, then from a point of `P` the loop as written exits through its condition, having
run at least once and at most `(r − l)/δ + 1` times; the guarded loop of the model computes the same
limit.  (`P` = the boundaries of the rotation; `δ` = the shortest period.) -/
theorem catchUp_measure (f : Int → Int) (P : Int → Prop) (δ : Int) (hδ : 0 < δ)
    (hP : ∀ l, P l → P (f l) ∧ l + δ ≤ f l) (r : Int) :
    ∀ (k : Nat) (l : Int) (fuel : Nat), P l → l ≤ r → (r - l) / δ ≤ k → k + 1 ≤ fuel →
      r < catchUpRaw f fuel l r ∧ P (catchUpRaw f fuel l r) ∧
      catchUpIters f fuel l r ≤ k + 1 ∧ 1 ≤ catchUpIters f fuel l r ∧
      catchUp f fuel l r = catchUpRaw f fuel l r := by
  intro k
  induction k with
  | zero =>
    intro l fuel hl hle hk hfuel
    obtain ⟨n, rfl⟩ : ∃ n, fuel = n + 1 := ⟨fuel - 1, by omega⟩
    have hstep := hP l hl
    have hlt : r - l < δ := by
      have h0 : 0 ≤ (r - l) / δ := Int.ediv_nonneg (by omega) (by omega)
      have := Int.lt_mul_ediv_self_add (x := r - l) hδ
      have hz : (r - l) / δ = 0 := by simp only [Int.natCast_zero] at hk; omega
      rw [hz] at this; omega
    have hexit : ¬ f l ≤ r := by omega
    have h1 := catchUpRaw_step f n l r hle
    have h2 := catchUpRaw_stop f n (f l) r hexit
    rw [h1.1, h1.2, h2.1, h2.2, catchUp_step f n l r hle (by omega), catchUp_stop f n (f l) r hexit]
    exact ⟨by omega, hstep.1, by omega, by omega, rfl⟩
  | succ k ih =>
    intro l fuel hl hle hk hfuel
    obtain ⟨n, rfl⟩ : ∃ n, fuel = n + 1 := ⟨fuel - 1, by omega⟩
    have hstep := hP l hl
    have h1 := catchUpRaw_step f n l r hle
    rw [h1.1, h1.2, catchUp_step f n l r hle (by omega)]
    by_cases h2 : f l ≤ r
    · have hq : (r - f l) / δ ≤ k := by
        have hle2 : r - f l ≤ r - l - δ := by omega
        have h3 : (r - f l) / δ ≤ (r - l - δ) / δ := Int.ediv_le_ediv hδ hle2
        have h4 : (r - l - δ) / δ = (r - l) / δ - 1 := by
          have : r - l - δ = (r - l) + (-1) * δ := by omega
          rw [this, Int.add_mul_ediv_right _ _ (by omega)]; omega
        rw [h4] at h3
        push_cast at hk; omega
      obtain ⟨a, b, c, d, e⟩ := ih (f l) n hstep.1 h2 hq (by omega)
      exact ⟨a, b, by omega, by omega, e⟩
    · have h3 := catchUpRaw_stop f n (f l) r h2
      rw [h3.1, h3.2, catchUp_stop f n (f l) r h2]
      exact ⟨by omega, hstep.1, by omega, by omega, rfl⟩

/-- CLOSED FORM for intervals (`timedelta` / duration spellings, `d > 0`): the loop runs exactly
`⌊(r − l)/d⌋ + 1` times and leaves `_limit = l + (⌊(r − l)/d⌋ + 1)·d` – its cost is linear in the
gap measured in intervals (an idle hour under `"1 us"` costs 3 600 000 001 iterations). -/
theorem catchUp_interval_closed_form (d : Int) (hd : 0 < d) (r : Int) :
    ∀ (k : Nat) (l : Int) (fuel : Nat), l ≤ r → (r - l) / d = k → k + 1 ≤ fuel →
      catchUpRaw (fun t => forwardInterval t d) fuel l r = l + (k + 1) * d ∧
      catchUpIters (fun t => forwardInterval t d) fuel l r = k + 1 := by
  intro k
  induction k with
  | zero =>
    intro l fuel hle hk hfuel
    obtain ⟨n, rfl⟩ : ∃ n, fuel = n + 1 := ⟨fuel - 1, by omega⟩
    have hlt : r - l < d := by
      have := Int.lt_mul_ediv_self_add (x := r - l) hd
      simp only [Int.natCast_zero] at hk
      rw [hk] at this; omega
    have hexit : ¬ forwardInterval l d ≤ r := by unfold forwardInterval; omega
    have h1 := catchUpRaw_step (fun t => forwardInterval t d) n l r hle
    have h2 := catchUpRaw_stop (fun t => forwardInterval t d) n (forwardInterval l d) r hexit
    rw [h1.1, h1.2, h2.1, h2.2]
    simp [forwardInterval]
  | succ k ih =>
    intro l fuel hle hk hfuel
    obtain ⟨n, rfl⟩ : ∃ n, fuel = n + 1 := ⟨fuel - 1, by omega⟩
    have h4 : (r - (l + d)) / d = (r - l) / d - 1 := by
      have : r - (l + d) = (r - l) + (-1) * d := by omega
      rw [this, Int.add_mul_ediv_right _ _ (by omega)]; omega
    have hge : l + d ≤ r := by
      have h5 : d * ((r - l) / d) ≤ r - l := Int.mul_ediv_self_le (by omega)
      rw [hk] at h5
      have h6 : d * 1 ≤ d * ((k + 1 : Nat) : Int) := Int.mul_le_mul_of_nonneg_left (by push_cast; omega) (by omega)
      omega
    have h1 := catchUpRaw_step (fun t => forwardInterval t d) n l r hle
    have := ih (l + d) n hge (by rw [h4, hk]; push_cast; omega) (by omega)
    rw [h1.1, h1.2]
    simp only [forwardInterval] at this ⊢
    rw [this.1, this.2]
    constructor
    · push_cast; have := Int.add_mul ((k : Int) + 1) 1 d; omega
    · rfl

/-- how often one call of `RotationTime.__call__` invokes `self._step_forward`: once for the first
limit when there is no `time_init` or when the first-limit test asks for it, plus the iterations of
the catch-up loop (observable on the implementation by wrapping the step function) -/
def timeCallSteps (cfg : RotTime) (st : Option Int) (x : CallIn) : Nat :=
  let first : Nat := match st with
    | some _ => 0
    | none =>
      match cfg.timeInit with
      | none => 1
      | some ti =>
        let g := match ti.tz with | none => x.stamp.off | some z => z
        let start := x.ctime + g
        let cand := replace start { hour := some ti.hour, minute := some ti.minute, second := some ti.second,
                                    microsecond := some ti.microsecond }
        if firstLimitStep cand start (weekdayOf cand) cfg.weekday then 1 else 0
  let limit := match st with
    | some l => l
    | none => firstLimit cfg x.ctime x.stamp.off
  let r := recKey cfg x.stamp
  first + (if shouldRotate r limit then catchUpIters cfg.step.apply (catchUpFuel limit r) limit r else 0)

/-- the step counts along a history of one `RotationTime` -/
def timeRunSteps (cfg : RotTime) : Option Int → List CallIn → List Nat
  | _, [] => []
  | st, x :: xs => timeCallSteps cfg st x :: timeRunSteps cfg (timeCall cfg st x).2 xs

end Rotation
