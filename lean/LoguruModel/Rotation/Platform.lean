import LoguruModel.Rotation.Ctime
/-
C07 – which creation-time functions are installed (`load_ctime_functions`, dispatch regenerated as
`Gen.ctimeDispatch`) and what a sink history looks like where the creation time of a file CANNOT be
persisted (no `user.*` extended attributes: the `fallback` pair, or `setxattr` failing with OSError):
`set_ctime` is then a no-op and `get_ctime` is the modification time, so a restarted sink counts from
the last write.
-/
namespace Rotation
open Py Rotation.Gen

/-- the branch `load_ctime_functions` takes on a platform with the given features -/
def platformOf (isNt hasBirthtime hasXattr : Bool) : Platform :=
  match ctimeDispatch isNt hasBirthtime hasXattr with
  | 0 => .windows
  | 1 => .macos
  | 2 => .linuxXattr
  | _ => .noXattr

/-- `FileSink.write` on a file system that does (`true`) or does not (`false`) keep the creation tag -/
def Sink.writeOn (tagOk : Bool) (ls : List Leaf) (s : Sink) (m : Msg) : Sink :=
  let r := Sink.write ls s m
  if tagOk then r else { r with tag := none }

def Sink.stepOn (tagOk : Bool) (ls : List Leaf) (s : Sink) : SinkOp → Sink
  | .msg m => Sink.writeOn tagOk ls s m
  | .restart => Sink.restart ls s
  | .foreign n => Sink.foreign s n

def Sink.runOpsOn (tagOk : Bool) (ls : List Leaf) (s : Sink) (ops : List SinkOp) : Sink :=
  ops.foldl (Sink.stepOn tagOk ls) s

/-- the instant of the last record of a history (`d` if there is none) -/
def lastStamp : Int → List SinkOp → Int
  | d, [] => d
  | _, .msg m :: ops => lastStamp m.stamp.utc ops
  | d, _ :: ops => lastStamp d ops

theorem Sink.write_mtime (ls : List Leaf) (s : Sink) (m : Msg) : (Sink.write ls s m).mtime = m.stamp.utc := by
  unfold Sink.write
  simp only
  split <;> rfl

theorem Sink.runOpsOn_true (ls : List Leaf) : ∀ (ops : List SinkOp) (s : Sink),
    Sink.runOpsOn true ls s ops = Sink.runOps ls s ops := by
  intro ops
  induction ops with
  | nil => intro s; rfl
  | cons o ops ih =>
    intro s
    simp only [Sink.runOpsOn, Sink.runOps, List.foldl_cons] at ih ⊢
    have : Sink.stepOn true ls s o = Sink.step ls s o := by cases o <;> simp [Sink.stepOn, Sink.step, Sink.writeOn]
    rw [this]; exact ih _

/-- without a persisted tag the creation time read at any later moment is the instant of the last
record written (the modification time), whatever rotations and restarts came before (the model gives
the appends of other writers no instant of their own: they count as made at the sink's previous write) -/
theorem Sink.untagged_creation (ls : List Leaf) : ∀ (ops : List SinkOp) (s : Sink), s.tag = none →
    (Sink.runOpsOn false ls s ops).tag = none ∧
    (Sink.runOpsOn false ls s ops).creation = lastStamp s.mtime ops := by
  intro ops
  induction ops with
  | nil => intro s h; exact ⟨h, by simp [Sink.runOpsOn, Sink.creation, h, lastStamp]⟩
  | cons o ops ih =>
    intro s h
    simp only [Sink.runOpsOn, List.foldl_cons] at ih ⊢
    cases o with
    | msg m =>
      have h1 : (Sink.stepOn false ls s (.msg m)).tag = none := by simp [Sink.stepOn, Sink.writeOn]
      have h2 : (Sink.stepOn false ls s (.msg m)).mtime = m.stamp.utc := by
        simp [Sink.stepOn, Sink.writeOn, Sink.write_mtime]
      have := ih _ h1
      rw [h2] at this
      exact this
    | restart =>
      have := ih (Sink.stepOn false ls s .restart) (by simpa [Sink.stepOn, Sink.restart] using h)
      simpa [Sink.stepOn, Sink.restart, lastStamp] using this
    | foreign n =>
      have := ih (Sink.stepOn false ls s (.foreign n)) (by simpa [Sink.stepOn, Sink.foreign] using h)
      simpa [Sink.stepOn, Sink.foreign, lastStamp] using this

end Rotation
