import LoguruModel.Rotation.Spec
/-
C07 – helper lemmas: the catch-up loop reaches the next boundary, closed forms of the step
functions, and "step = next boundary" for every meaning.
-/
namespace Rotation
open Py Py.Calendar Rotation.Gen

theorem catchUp_stop (f : Int → Int) (n : Nat) (l r : Int) (h : ¬ l ≤ r) : catchUp f n l r = l := by
  cases n <;> simp [catchUp, catchUpCond, h]

/-- with a step that maps every boundary to the next one, the loop ends on the next boundary after `r` -/
theorem catchUp_next (B : Int → Prop) (f : Int → Int) (hf : ∀ l, B l → IsNext B l (f l)) :
    ∀ (fuel : Nat) (l τ r : Int), IsNext B τ l → l ≤ r → (r - l + 1).toNat ≤ fuel →
      IsNext B r (catchUp f fuel l r) := by
  intro fuel
  induction fuel with
  | zero => intro l τ r _ hle hf; omega
  | succ n ih =>
    intro l τ r hn hle hfuel
    have hstep := hf l hn.1
    unfold catchUp
    simp only [catchUpCond, hle, decide_true, if_true]
    by_cases h2 : f l ≤ r
    · exact ih (f l) l r hstep h2 (by have := hstep.2.1; omega)
    · rw [catchUp_stop f n (f l) r h2]
      refine ⟨hstep.1, by omega, ?_⟩
      intro b hb hrb
      exact hstep.2.2 b hb (by omega)

theorem tdUs_forwardDay : tdUs forwardDayDelta = 86400000000 := by decide
theorem tdUs_forwardWeekday : tdUs forwardWeekdayDelta = 86400000000 := by decide

theorem stop_eq (t w : Int) : forwardWeekdayStop (fieldsOf t) w = (weekdayOf t == w) := by
  simp [forwardWeekdayStop, fieldsOf]

/-- closed form of `forward_weekday`: the first day strictly after `t`'s day that is weekday `w` -/
theorem forwardWeekday_spec (t w : Int) (h0 : 0 ≤ w) (h6 : w ≤ 6) :
    forwardWeekday t w = t + ((w - weekdayOf t - 1) % 7 + 1) * 86400000000 := by
  unfold forwardWeekday
  simp only [forwardWeekdayAux, tdUs_forwardWeekday, stop_eq, weekdayOf, beq_iff_eq]
  repeat' split
  all_goals omega

/-! ### closed forms of the generated frequency kernels -/

theorem hourly_apply (t : Int) : Gen.hourly.apply t = (t + 3600000000) / 3600000000 * 3600000000 := by
  simp [FreqKernel.apply, Gen.hourly, replace, replaceDay, tdUs]
  omega

theorem daily_apply (t : Int) : Gen.daily.apply t = (t + 86400000000) / 86400000000 * 86400000000 := by
  simp [FreqKernel.apply, Gen.daily, replace, replaceDay, tdUs]

theorem weekly_apply (t : Int) :
    Gen.weekly.apply t = (t / 86400000000 + (7 - weekdayOf t)) * 86400000000 := by
  simp [FreqKernel.apply, Gen.weekly, replace, replaceDay, tdUs, fieldsOf]
  omega

theorem tod_range (ti : TimeInit) (h : ti.InRange) : 0 ≤ ti.tod ∧ ti.tod < 86400000000 := by
  unfold TimeInit.InRange at h
  unfold TimeInit.tod
  omega

/-- `replace(hour, minute, second, microsecond)` puts the time of day on the same local day -/
theorem replace_tod (t : Int) (ti : TimeInit) :
    replace t { hour := some ti.hour, minute := some ti.minute, second := some ti.second,
                microsecond := some ti.microsecond } = t / 86400000000 * 86400000000 + ti.tod := by
  simp [replace, replaceDay, TimeInit.tod]
  omega

/-! ### every step function maps a boundary to the next boundary -/

theorem interval_next (c d l : Int) (hd : 0 < d) (hl : (Form.interval d).B c l) :
    IsNext ((Form.interval d).B c) l (l + d) := by
  obtain ⟨hcl, hdv⟩ := hl
  refine ⟨⟨by omega, ?_⟩, by omega, ?_⟩
  · have : l + d - c = (l - c) + d := by omega
    rw [this]; exact Int.dvd_add hdv (Int.dvd_refl d)
  · intro b ⟨_, hb⟩ hlb
    have h1 : d ∣ (b - l) := by
      have : b - l = (b - c) - (l - c) := by omega
      rw [this]; exact Int.dvd_sub hb hdv
    have := Int.le_of_dvd (by omega) h1
    omega

theorem interval_first (c d : Int) (hd : 0 < d) : IsNext ((Form.interval d).B c) c (c + d) := by
  refine ⟨⟨by omega, ?_⟩, by omega, ?_⟩
  · have : c + d - c = d := by omega
    rw [this]; exact Int.dvd_refl d
  · intro b ⟨hcb, hb⟩ _
    have := Int.le_of_dvd (by omega) hb
    omega

/-- the forms whose boundaries need no calendar (everything except monthly / yearly) -/
def Form.Plain : Form → Prop
  | .monthly => False
  | .yearly => False
  | _ => True

theorem step_next_plain (F : Form) (hv : F.Valid) (hp : F.Plain) (c l : Int) (hl : F.B c l) :
    IsNext (F.B c) l (F.cfg.step.apply l) := by
  cases F with
  | interval d => exact interval_next c d l hv hl
  | dailyAt ti =>
    have ht := tod_range ti hv
    simp only [Form.cfg, Step.apply, forwardDay, tdUs_forwardDay, IsNext, Form.B] at *
    refine ⟨by omega, by omega, ?_⟩
    intro b hb hlb; omega
  | weekdayAt w ti =>
    obtain ⟨h0, h6, hr, _⟩ := hv
    have ht := tod_range ti hr
    simp only [Form.cfg, Step.apply, forwardWeekday_spec l w h0 h6, IsNext, Form.B, weekdayOf] at *
    refine ⟨by omega, by omega, ?_⟩
    intro b hb hlb; omega
  | hourly =>
    simp only [Form.cfg, Step.apply, hourly_apply, IsNext, Form.B] at *
    refine ⟨by omega, by omega, ?_⟩
    intro b hb hlb; omega
  | daily =>
    simp only [Form.cfg, Step.apply, daily_apply, IsNext, Form.B] at *
    refine ⟨by omega, by omega, ?_⟩
    intro b hb hlb; omega
  | weekly =>
    simp only [Form.cfg, Step.apply, weekly_apply, IsNext, Form.B, weekdayOf] at *
    refine ⟨by omega, by omega, ?_⟩
    intro b hb hlb; omega
  | monthly => exact absurd hp (by simp [Form.Plain])
  | yearly => exact absurd hp (by simp [Form.Plain])

/-- the frequency kernels give the next period start from *any* instant -/
theorem freq_next_any (c0 t : Int) :
    IsNext (Form.hourly.B c0) t (Gen.hourly.apply t) ∧ IsNext (Form.daily.B c0) t (Gen.daily.apply t) ∧
    IsNext (Form.weekly.B c0) t (Gen.weekly.apply t) := by
  simp only [hourly_apply, daily_apply, weekly_apply, IsNext, Form.B, weekdayOf]
  refine ⟨⟨by omega, by omega, ?_⟩, ⟨by omega, by omega, ?_⟩, ⟨by omega, by omega, ?_⟩⟩ <;>
  · intro b hb hlb; omega

theorem frame_dailyAt (ti : TimeInit) (off : Int) :
    (Form.dailyAt ti).frame off = (match ti.tz with | none => off | some z => z) := by
  rfl

theorem daily_first (start tod : Int) (ht : 0 ≤ tod ∧ tod < 86400000000) :
    IsNext (fun b => b % 86400000000 = tod) start
      (if decide (start / 86400000000 * 86400000000 + tod ≤ start) = true
       then start / 86400000000 * 86400000000 + tod + 86400000000
       else start / 86400000000 * 86400000000 + tod) := by
  simp only [IsNext, decide_eq_true_eq]
  split
  · refine ⟨by omega, by omega, ?_⟩
    intro b hb hlb; omega
  · refine ⟨by omega, by omega, ?_⟩
    intro b hb hlb; omega

/-- the lazily computed first limit is the first boundary after the creation instant -/
theorem first_limit_plain (F : Form) (hv : F.Valid) (hp : F.Plain) (c off : Int) :
    IsNext (F.B (c + F.frame off)) (c + F.frame off) (firstLimit F.cfg c off) := by
  cases F with
  | interval d =>
    simp only [Form.cfg, firstLimit, Step.apply, forwardInterval, Form.frame]
    exact interval_first (c + off) d hv
  | dailyAt ti =>
    have ht := tod_range ti hv
    rw [frame_dailyAt]
    cases htz : ti.tz with
    | none =>
      simp only [Form.cfg, firstLimit, htz, replace_tod, Step.apply, forwardDay, tdUs_forwardDay, firstLimitStep,
        Bool.or_false]
      exact daily_first (c + off) ti.tod ht
    | some z =>
      simp only [Form.cfg, firstLimit, htz, replace_tod, Step.apply, forwardDay, tdUs_forwardDay, firstLimitStep,
        Bool.or_false]
      exact daily_first (c + z) ti.tod ht
  | weekdayAt w ti =>
    obtain ⟨h0, h6, hr, htz⟩ := hv
    have ht := tod_range ti hr
    simp only [Form.cfg, firstLimit, htz, replace_tod, Step.apply, forwardWeekday_spec _ w h0 h6, firstLimitStep,
      Form.frame, IsNext, Form.B, weekdayOf]
    split
    · rename_i h
      simp only [Bool.or_eq_true, decide_eq_true_eq, bne_iff_ne, ne_eq] at h
      refine ⟨by omega, by omega, ?_⟩
      intro b hb hlb; omega
    · rename_i h
      simp only [Bool.or_eq_true, decide_eq_true_eq, bne_iff_ne, ne_eq, not_or, Decidable.not_not] at h
      refine ⟨by omega, by omega, ?_⟩
      intro b hb hlb; omega
  | hourly => simpa [Form.cfg, firstLimit, Step.apply, Form.frame, Form.B] using (freq_next_any (c + off) (c + off)).1
  | daily => simpa [Form.cfg, firstLimit, Step.apply, Form.frame, Form.B] using (freq_next_any (c + off) (c + off)).2.1
  | weekly => simpa [Form.cfg, firstLimit, Step.apply, Form.frame, Form.B] using (freq_next_any (c + off) (c + off)).2.2
  | monthly => exact absurd hp (by simp [Form.Plain])
  | yearly => exact absurd hp (by simp [Form.Plain])

/-- what the main invariant needs from a meaning: its first limit and its step produce next boundaries -/
structure StepOK (F : Form) : Prop where
  first : ∀ c off, IsNext (F.B (c + F.frame off)) (c + F.frame off) (firstLimit F.cfg c off)
  step : ∀ c l, F.B c l → IsNext (F.B c) l (F.cfg.step.apply l)

theorem stepOK_plain (F : Form) (hv : F.Valid) (hp : F.Plain) : StepOK F :=
  ⟨fun c off => first_limit_plain F hv hp c off, fun c l hl => step_next_plain F hv hp c l hl⟩

theorem recKey_frame (F : Form) (utc off : Int) : recKey F.cfg ⟨utc, off⟩ = utc + F.frame off := by
  cases F with
  | dailyAt ti =>
    cases ti with
    | mk h m s us tz => cases tz <;> rfl
  | weekdayAt w ti =>
    cases ti with
    | mk h m s us tz => cases tz <;> rfl
  | _ => rfl

/-- calls of one `RotationTime` in sequence: the Booleans returned and the final `_limit` -/
def timeRun (cfg : RotTime) : Option Int → List CallIn → List Bool × Option Int
  | st, [] => ([], st)
  | st, x :: xs =>
    let r := timeCall cfg st x
    let rest := timeRun cfg r.2 xs
    (r.1 :: rest.1, rest.2)

/-- the invariant: before the first call nothing is known (`τ` = creation); afterwards `_limit` is
the next boundary after `τ`, the latest instant seen so far -/
def Inv (F : Form) (cl τ : Int) : Option Int → Prop
  | none => τ = cl
  | some l => IsNext (F.B cl) τ l

theorem timeCall_step (F : Form) (ok : StepOK F) (c off τ : Int) (st : Option Int) (x : CallIn)
    (hc : x.ctime = c) (ho : x.stamp.off = off) (hinv : Inv F (c + F.frame off) τ st) :
    let key := x.stamp.utc + F.frame off
    let r := timeCall F.cfg st x
    (∃ l, r.2 = some l ∧ IsNext (F.B (c + F.frame off)) (max τ key) l) ∧
    (r.1 = true ↔ ∃ b, F.B (c + F.frame off) b ∧ τ < b ∧ b ≤ key) := by
  intro key r
  -- the limit in force during this call
  have hlim : ∃ limit, IsNext (F.B (c + F.frame off)) τ limit ∧
      r = (if shouldRotate key limit then
             (true, some (catchUp F.cfg.step.apply (catchUpFuel limit key) limit key))
           else (false, some limit)) := by
    cases st with
    | none =>
      refine ⟨firstLimit F.cfg c off, ?_, ?_⟩
      · have h := ok.first c off
        simp only [Inv] at hinv
        rw [hinv]; exact h
      · show timeCall F.cfg none x = _
        have hk : recKey F.cfg x.stamp = key := by
          have := recKey_frame F x.stamp.utc x.stamp.off
          rw [ho] at this
          cases hx : x.stamp with
          | mk u o => rw [hx] at this ho; simp only at ho; subst ho; simpa [key, hx] using this
        simp only [timeCall, hk, hc, ho]
    | some l =>
      refine ⟨l, hinv, ?_⟩
      show timeCall F.cfg (some l) x = _
      have hk : recKey F.cfg x.stamp = key := by
        have := recKey_frame F x.stamp.utc x.stamp.off
        rw [ho] at this
        cases hx : x.stamp with
        | mk u o => rw [hx] at this ho; simp only at ho; subst ho; simpa [key, hx] using this
      simp only [timeCall, hk]
  obtain ⟨limit, hn, hr⟩ := hlim
  rw [hr]
  by_cases hge : limit ≤ key
  · have hs : shouldRotate key limit = true := by simp [shouldRotate, hge]
    simp only [hs, if_true]
    have hnext := catchUp_next (F.B (c + F.frame off)) F.cfg.step.apply (ok.step _) (catchUpFuel limit key)
      limit τ key hn hge (Nat.le_refl _)
    have hmax : max τ key = key := by have := hn.2.1; omega
    refine ⟨⟨_, rfl, by rw [hmax]; exact hnext⟩, ?_⟩
    constructor
    · intro _; exact ⟨limit, hn.1, hn.2.1, hge⟩
    · intro _; trivial
  · have hs : shouldRotate key limit = false := by simp [shouldRotate, hge]
    simp only [hs]
    refine ⟨⟨limit, rfl, ?_⟩, ?_⟩
    · refine ⟨hn.1, by have := hn.2.1; omega, ?_⟩
      intro b hb hlt
      exact hn.2.2 b hb (by omega)
    · constructor
      · intro h; simp at h
      · intro ⟨b, hb, h1, h2⟩
        have := hn.2.2 b hb h1
        omega

end Rotation
