import LoguruModel.Rotation.Ctime
/-
C07 – helper lemmas: the catch-up loop reaches the next boundary, closed forms of the step
functions, and "step = next boundary" for every meaning.
-/
namespace Rotation
open Py Py.Calendar Rotation.Gen

/-- the generated comparisons mean what `RotationTime.__call__` needs them to mean (these three
lemmas are where a changed comparison operator in /repo breaks the proofs) -/
theorem shouldRotate_iff (r l : Int) : shouldRotate r l = true ↔ l ≤ r := by
  unfold shouldRotate
  first | (simp; done) | (simp; omega) | (constructor <;> intro h <;> simp at * <;> omega)

theorem catchUpCond_iff (l r : Int) : catchUpCond l r = true ↔ l ≤ r := by
  unfold catchUpCond
  first | (simp; done) | (simp; omega) | (constructor <;> intro h <;> simp at * <;> omega)

theorem firstLimitStep_iff (limit start lw : Int) (w : Option Int) :
    firstLimitStep limit start lw w = true ↔ (limit ≤ start ∨ ∃ d, w = some d ∧ lw ≠ d) := by
  unfold firstLimitStep
  cases w with
  | none => first | (simp; done) | (simp; omega)
  | some d => first | (simp; done) | (simp; omega)

theorem catchUp_stop (f : Int → Int) (n : Nat) (l r : Int) (h : ¬ l ≤ r) : catchUp f n l r = l := by
  have hc : catchUpCond l r = false := by
    cases hb : catchUpCond l r with
    | false => rfl
    | true => exact absurd ((catchUpCond_iff l r).mp hb) h
  cases n <;> simp [catchUp, hc]

theorem catchUp_step (f : Int → Int) (n : Nat) (l r : Int) (h : l ≤ r) (hadv : l < f l) :
    catchUp f (n + 1) l r = catchUp f n (f l) r := by
  have hc : catchUpCond l r = true := (catchUpCond_iff l r).mpr h
  have : ¬ f l ≤ l := by omega
  simp [catchUp, hc, this]

/-- with a step that maps every boundary to the next one, the loop ends on the next boundary after `r` -/
theorem catchUp_next (B : Int → Prop) (f : Int → Int) (hf : ∀ l, B l → IsNext B l (f l)) :
    ∀ (fuel : Nat) (l τ r : Int), IsNext B τ l → l ≤ r → (r - l + 1).toNat ≤ fuel →
      IsNext B r (catchUp f fuel l r) := by
  intro fuel
  induction fuel with
  | zero => intro l τ r _ hle hf; omega
  | succ n ih =>
    intro l τ r hn hle hfuel
    have hstep := hf l hn.1
    rw [catchUp_step f n l r hle hstep.2.1]
    by_cases h2 : f l ≤ r
    · exact ih (f l) l r hstep h2 (by have := hstep.2.1; omega)
    · rw [catchUp_stop f n (f l) r h2]
      refine ⟨hstep.1, by omega, ?_⟩
      intro b hb hrb
      exact hstep.2.2 b hb (by omega)

theorem tdUs_forwardDay : tdUs forwardDayDelta = 86400000000 := by decide
theorem tdUs_forwardWeekday : tdUs forwardWeekdayDelta = 86400000000 := by decide

theorem stop_eq (t w : Int) : forwardWeekdayStop (fieldsOf t) w = (weekdayOf t == w) := by
  have hf : (fieldsOf t).weekday = weekdayOf t := rfl
  unfold forwardWeekdayStop
  rw [hf]      -- closes the goal outright when the exit test is written `t.weekday() == weekday`
  all_goals (by_cases h : weekdayOf t = w <;> simp [h, bne])

/-- closed form of `forward_weekday`: the first day strictly after `t`'s day that is weekday `w` -/
theorem forwardWeekday_spec (t w : Int) (h0 : 0 ≤ w) (h6 : w ≤ 6) :
    forwardWeekday t w = t + ((w - weekdayOf t - 1) % 7 + 1) * 86400000000 := by
  unfold forwardWeekday
  simp only [forwardWeekdayAux, tdUs_forwardWeekday, stop_eq, weekdayOf, beq_iff_eq]
  repeat' split
  all_goals omega

/-! ### closed forms of the generated frequency kernels -/

theorem hourly_apply (t : Int) : Gen.hourly.apply t = (t + 3600000000) / 3600000000 * 3600000000 := by
  simp [FreqKernel.apply, Gen.hourly, replace, replaceDay, tdUs]
  omega

theorem daily_apply (t : Int) : Gen.daily.apply t = (t + 86400000000) / 86400000000 * 86400000000 := by
  simp [FreqKernel.apply, Gen.daily, replace, replaceDay, tdUs]

theorem weekly_apply (t : Int) :
    Gen.weekly.apply t = (t / 86400000000 + (7 - weekdayOf t)) * 86400000000 := by
  simp [FreqKernel.apply, Gen.weekly, replace, replaceDay, tdUs, fieldsOf]
  omega

theorem tod_range (ti : TimeInit) (h : ti.InRange) : 0 ≤ ti.tod ∧ ti.tod < 86400000000 := by
  unfold TimeInit.InRange at h
  unfold TimeInit.tod
  omega

/-- `replace(hour, minute, second, microsecond)` puts the time of day on the same local day -/
theorem replace_tod (t : Int) (ti : TimeInit) :
    replace t { hour := some ti.hour, minute := some ti.minute, second := some ti.second,
                microsecond := some ti.microsecond } = t / 86400000000 * 86400000000 + ti.tod := by
  simp [replace, replaceDay, TimeInit.tod]
  omega

/-! ### every step function maps a boundary to the next boundary -/

theorem interval_next (c d l : Int) (hd : 0 < d) (hl : (Form.interval d).B c l) :
    IsNext ((Form.interval d).B c) l (l + d) := by
  obtain ⟨hcl, hdv⟩ := hl
  refine ⟨⟨by omega, ?_⟩, by omega, ?_⟩
  · have : l + d - c = (l - c) + d := by omega
    rw [this]; exact Int.dvd_add hdv (Int.dvd_refl d)
  · intro b ⟨_, hb⟩ hlb
    have h1 : d ∣ (b - l) := by
      have : b - l = (b - c) - (l - c) := by omega
      rw [this]; exact Int.dvd_sub hb hdv
    have := Int.le_of_dvd (by omega) h1
    omega

theorem interval_first (c d : Int) (hd : 0 < d) : IsNext ((Form.interval d).B c) c (c + d) := by
  refine ⟨⟨by omega, ?_⟩, by omega, ?_⟩
  · have : c + d - c = d := by omega
    rw [this]; exact Int.dvd_refl d
  · intro b ⟨hcb, hb⟩ _
    have := Int.le_of_dvd (by omega) hb
    omega

/-- the forms whose boundaries need no calendar (everything except monthly / yearly) -/
def Form.Plain : Form → Prop
  | .monthly => False
  | .yearly => False
  | _ => True

theorem step_next_plain (F : Form) (hv : F.Valid) (hp : F.Plain) (c l : Int) (hl : F.B c l) :
    IsNext (F.B c) l (F.cfg.step.apply l) := by
  cases F with
  | interval d => exact interval_next c d l hv hl
  | dailyAt ti =>
    have ht := tod_range ti hv
    simp only [Form.cfg, Step.apply, forwardDay, tdUs_forwardDay, IsNext, Form.B] at *
    refine ⟨by omega, by omega, ?_⟩
    intro b hb hlb; omega
  | weekdayAt w ti =>
    obtain ⟨h0, h6, hr, _⟩ := hv
    have ht := tod_range ti hr
    simp only [Form.cfg, Step.apply, forwardWeekday_spec l w h0 h6, IsNext, Form.B, weekdayOf] at *
    refine ⟨by omega, by omega, ?_⟩
    intro b hb hlb; omega
  | hourly =>
    simp only [Form.cfg, Step.apply, hourly_apply, IsNext, Form.B] at *
    refine ⟨by omega, by omega, ?_⟩
    intro b hb hlb; omega
  | daily =>
    simp only [Form.cfg, Step.apply, daily_apply, IsNext, Form.B] at *
    refine ⟨by omega, by omega, ?_⟩
    intro b hb hlb; omega
  | weekly =>
    simp only [Form.cfg, Step.apply, weekly_apply, IsNext, Form.B, weekdayOf] at *
    refine ⟨by omega, by omega, ?_⟩
    intro b hb hlb; omega
  | monthly => exact absurd hp (by simp [Form.Plain])
  | yearly => exact absurd hp (by simp [Form.Plain])

/-- the frequency kernels give the next period start from *any* instant -/
theorem freq_next_any (c0 t : Int) :
    IsNext (Form.hourly.B c0) t (Gen.hourly.apply t) ∧ IsNext (Form.daily.B c0) t (Gen.daily.apply t) ∧
    IsNext (Form.weekly.B c0) t (Gen.weekly.apply t) := by
  simp only [hourly_apply, daily_apply, weekly_apply, IsNext, Form.B, weekdayOf]
  refine ⟨⟨by omega, by omega, ?_⟩, ⟨by omega, by omega, ?_⟩, ⟨by omega, by omega, ?_⟩⟩ <;>
  · intro b hb hlb; omega

theorem frame_dailyAt (ti : TimeInit) (off : Int) :
    (Form.dailyAt ti).frame off = (match ti.tz with | none => off | some z => z) := by
  rfl

theorem daily_first (start tod : Int) (ht : 0 ≤ tod ∧ tod < 86400000000) :
    IsNext (fun b => b % 86400000000 = tod) start
      (if firstLimitStep (start / 86400000000 * 86400000000 + tod) start
            (weekdayOf (start / 86400000000 * 86400000000 + tod)) none = true
       then start / 86400000000 * 86400000000 + tod + 86400000000
       else start / 86400000000 * 86400000000 + tod) := by
  simp only [IsNext, firstLimitStep_iff]
  split
  · rename_i h
    have h' : start / 86400000000 * 86400000000 + tod ≤ start := by
      rcases h with h | ⟨d, hd, _⟩
      · exact h
      · simp at hd
    refine ⟨by omega, by omega, ?_⟩
    intro b hb hlb; omega
  · rename_i h
    have h' : ¬ start / 86400000000 * 86400000000 + tod ≤ start := fun hh => h (Or.inl hh)
    refine ⟨by omega, by omega, ?_⟩
    intro b hb hlb; omega

/-- the lazily computed first limit is the first boundary after the creation instant -/
theorem first_limit_plain (F : Form) (hv : F.Valid) (hp : F.Plain) (c off : Int) :
    IsNext (F.B (c + F.frame off)) (c + F.frame off) (firstLimit F.cfg c off) := by
  cases F with
  | interval d =>
    simp only [Form.cfg, firstLimit, Step.apply, forwardInterval, Form.frame]
    exact interval_first (c + off) d hv
  | dailyAt ti =>
    have ht := tod_range ti hv
    rw [frame_dailyAt]
    cases htz : ti.tz with
    | none =>
      simp only [Form.cfg, firstLimit, htz, replace_tod, Step.apply, forwardDay, tdUs_forwardDay]
      exact daily_first (c + off) ti.tod ht
    | some z =>
      simp only [Form.cfg, firstLimit, htz, replace_tod, Step.apply, forwardDay, tdUs_forwardDay]
      exact daily_first (c + z) ti.tod ht
  | weekdayAt w ti =>
    obtain ⟨h0, h6, hr, htz⟩ := hv
    have ht := tod_range ti hr
    simp only [Form.cfg, firstLimit, htz, replace_tod, Step.apply, forwardWeekday_spec _ w h0 h6,
      Form.frame, IsNext, Form.B, firstLimitStep_iff]
    split
    · rename_i h
      have h' : (c + off) / 86400000000 * 86400000000 + ti.tod ≤ c + off ∨
          weekdayOf ((c + off) / 86400000000 * 86400000000 + ti.tod) ≠ w := by
        rcases h with h | ⟨d, hd, hne⟩
        · exact Or.inl h
        · simp at hd; subst hd; exact Or.inr hne
      simp only [weekdayOf] at h' ⊢
      refine ⟨by omega, by omega, ?_⟩
      intro b hb hlb; omega
    · rename_i h
      have h1 : ¬ (c + off) / 86400000000 * 86400000000 + ti.tod ≤ c + off := fun hh => h (Or.inl hh)
      have h2 : weekdayOf ((c + off) / 86400000000 * 86400000000 + ti.tod) = w := by
        by_cases hw : weekdayOf ((c + off) / 86400000000 * 86400000000 + ti.tod) = w
        · exact hw
        · exact absurd (Or.inr ⟨w, rfl, hw⟩) h
      simp only [weekdayOf] at h2 ⊢
      refine ⟨by omega, by omega, ?_⟩
      intro b hb hlb; omega
  | hourly => simpa [Form.cfg, firstLimit, Step.apply, Form.frame, Form.B] using (freq_next_any (c + off) (c + off)).1
  | daily => simpa [Form.cfg, firstLimit, Step.apply, Form.frame, Form.B] using (freq_next_any (c + off) (c + off)).2.1
  | weekly => simpa [Form.cfg, firstLimit, Step.apply, Form.frame, Form.B] using (freq_next_any (c + off) (c + off)).2.2
  | monthly => exact absurd hp (by simp [Form.Plain])
  | yearly => exact absurd hp (by simp [Form.Plain])

/-- what the main invariant needs from a meaning: its first limit and its step produce next boundaries -/
structure StepOK (F : Form) : Prop where
  first : ∀ c off, IsNext (F.B (c + F.frame off)) (c + F.frame off) (firstLimit F.cfg c off)
  step : ∀ c l, F.B c l → IsNext (F.B c) l (F.cfg.step.apply l)

theorem stepOK_plain (F : Form) (hv : F.Valid) (hp : F.Plain) : StepOK F :=
  ⟨fun c off => first_limit_plain F hv hp c off, fun c l hl => step_next_plain F hv hp c l hl⟩

theorem recKey_frame (F : Form) (utc off : Int) : recKey F.cfg ⟨utc, off⟩ = utc + F.frame off := by
  cases F with
  | dailyAt ti =>
    cases ti with
    | mk h m s us tz => cases tz <;> rfl
  | weekdayAt w ti =>
    cases ti with
    | mk h m s us tz => cases tz <;> rfl
  | _ => rfl

/-- calls of one `RotationTime` in sequence: the Booleans returned and the final `_limit` -/
def timeRun (cfg : RotTime) : Option Int → List CallIn → List Bool × Option Int
  | st, [] => ([], st)
  | st, x :: xs =>
    let r := timeCall cfg st x
    let rest := timeRun cfg r.2 xs
    (r.1 :: rest.1, rest.2)

/-- the invariant: before the first call nothing is known (`τ` = creation); afterwards `_limit` is
the next boundary after `τ`, the latest instant seen so far -/
def Inv (F : Form) (cl τ : Int) : Option Int → Prop
  | none => τ = cl
  | some l => IsNext (F.B cl) τ l

theorem timeCall_step (F : Form) (ok : StepOK F) (c off τ : Int) (st : Option Int) (x : CallIn)
    (hc : x.ctime = c) (ho : x.stamp.off = off) (hinv : Inv F (c + F.frame off) τ st) :
    let key := x.stamp.utc + F.frame off
    let r := timeCall F.cfg st x
    (∃ l, r.2 = some l ∧ IsNext (F.B (c + F.frame off)) (max τ key) l) ∧
    (r.1 = true ↔ ∃ b, F.B (c + F.frame off) b ∧ τ < b ∧ b ≤ key) := by
  intro key r
  -- the limit in force during this call
  have hlim : ∃ limit, IsNext (F.B (c + F.frame off)) τ limit ∧
      r = (if shouldRotate key limit then
             (true, some (catchUp F.cfg.step.apply (catchUpFuel limit key) limit key))
           else (false, some limit)) := by
    cases st with
    | none =>
      refine ⟨firstLimit F.cfg c off, ?_, ?_⟩
      · have h := ok.first c off
        simp only [Inv] at hinv
        rw [hinv]; exact h
      · show timeCall F.cfg none x = _
        have hk : recKey F.cfg x.stamp = key := by
          have := recKey_frame F x.stamp.utc x.stamp.off
          rw [ho] at this
          cases hx : x.stamp with
          | mk u o => rw [hx] at this ho; simp only at ho; subst ho; simpa [key, hx] using this
        simp only [timeCall, hk, hc, ho]
    | some l =>
      refine ⟨l, hinv, ?_⟩
      show timeCall F.cfg (some l) x = _
      have hk : recKey F.cfg x.stamp = key := by
        have := recKey_frame F x.stamp.utc x.stamp.off
        rw [ho] at this
        cases hx : x.stamp with
        | mk u o => rw [hx] at this ho; simp only at ho; subst ho; simpa [key, hx] using this
      simp only [timeCall, hk]
  obtain ⟨limit, hn, hr⟩ := hlim
  rw [hr]
  by_cases hge : limit ≤ key
  · have hs : shouldRotate key limit = true := (shouldRotate_iff key limit).mpr hge
    simp only [hs, if_true]
    have hnext := catchUp_next (F.B (c + F.frame off)) F.cfg.step.apply (ok.step _) (catchUpFuel limit key)
      limit τ key hn hge (Nat.le_refl _)
    have hmax : max τ key = key := by have := hn.2.1; omega
    refine ⟨⟨_, rfl, by rw [hmax]; exact hnext⟩, ?_⟩
    constructor
    · intro _; exact ⟨limit, hn.1, hn.2.1, hge⟩
    · intro _; trivial
  · have hs : shouldRotate key limit = false := by
      cases hb : shouldRotate key limit with
      | false => rfl
      | true => exact absurd ((shouldRotate_iff key limit).mp hb) hge
    simp only [hs]
    refine ⟨⟨limit, rfl, ?_⟩, ?_⟩
    · refine ⟨hn.1, by have := hn.2.1; omega, ?_⟩
      intro b hb hlt
      exact hn.2.2 b hb (by omega)
    · constructor
      · intro h; simp at h
      · intro ⟨b, hb, h1, h2⟩
        have := hn.2.2 b hb h1
        omega

/-! ### monthly / yearly: the calendar part -/

/-- month starts are strictly increasing (proved: pure arithmetic of `daysOfCivil`) -/
theorem monthStart_lt_succ (i : Int) : monthStart i < monthStart (i + 1) := by
  unfold monthStart daysOfCivil
  simp only
  have h1 : (i + 1) / 12 = if i % 12 = 11 then i / 12 + 1 else i / 12 := by split <;> omega
  have h2 : (i + 1) % 12 = if i % 12 = 11 then 0 else i % 12 + 1 := by split <;> omega
  rw [h1, h2]
  have hm : 0 ≤ i % 12 ∧ i % 12 < 12 := by omega
  generalize i % 12 = r at *
  generalize i / 12 = q at *
  obtain ⟨h0, h11⟩ := hm
  have : r = 0 ∨ r = 1 ∨ r = 2 ∨ r = 3 ∨ r = 4 ∨ r = 5 ∨ r = 6 ∨ r = 7 ∨ r = 8 ∨ r = 9 ∨ r = 10 ∨ r = 11 := by omega
  rcases this with h | h | h | h | h | h | h | h | h | h | h | h <;> subst h <;> simp <;> omega

theorem monthStart_mono_nat (i : Int) (n : Nat) : monthStart i ≤ monthStart (i + n) := by
  induction n with
  | zero => simp
  | succ k ih =>
    have := monthStart_lt_succ (i + k)
    have e : i + ((k + 1 : Nat) : Int) = i + (k : Int) + 1 := by omega
    rw [e]; omega

theorem monthStart_mono (i j : Int) (h : i ≤ j) : monthStart i ≤ monthStart j := by
  have := monthStart_mono_nat i (j - i).toNat
  have e : i + ((j - i).toNat : Int) = j := by omega
  rwa [e] at this

theorem monthStart_lt_imp (i j : Int) (h : monthStart i < monthStart j) : i < j := by
  by_cases hji : j ≤ i
  · have := monthStart_mono j i hji; omega
  · omega

/-- THE calendar fact the monthly/yearly theorems rest on (not proved; validated against
`datetime.date` for every day of years 1..9999 by the correspondence run): the civil date that
`civilOfDays` assigns to day `z` has a month in 1..12, and `z` lies in that month as `daysOfCivil`
delimits it. -/
def CalendarMonthFact : Prop :=
  ∀ z : Int,
    let c := civilOfDays z
    1 ≤ c.2.1 ∧ c.2.1 ≤ 12 ∧
    monthStart (12 * c.1 + c.2.1 - 1) ≤ z * 86400000000 ∧
    z * 86400000000 + 86400000000 ≤ monthStart (12 * c.1 + c.2.1)

theorem monthly_apply (t : Int) :
    Gen.monthly.apply t =
      let c := civilOfDays (t / 86400000000)
      daysOfCivil (if c.2.1 = 12 then c.1 + 1 else c.1) (if c.2.1 = 12 then 1 else c.2.1 + 1) 1 * 86400000000 := by
  simp [FreqKernel.apply, Gen.monthly, replace, replaceDay, tdUs, fieldsOf]

theorem yearly_apply (t : Int) :
    Gen.yearly.apply t = daysOfCivil ((civilOfDays (t / 86400000000)).1 + 1) 1 1 * 86400000000 := by
  simp [FreqKernel.apply, Gen.yearly, replace, replaceDay, tdUs, fieldsOf]

theorem monthly_next (hcal : CalendarMonthFact) (c0 t : Int) : IsNext (Form.monthly.B c0) t (Gen.monthly.apply t) := by
  have hz := hcal (t / 86400000000)
  simp only at hz
  rw [monthly_apply]
  simp only
  generalize civilOfDays (t / 86400000000) = cv at *
  obtain ⟨y, m, d⟩ := cv
  simp only at hz ⊢
  obtain ⟨hm1, hm12, hlo, hhi⟩ := hz
  have hres : daysOfCivil (if m = 12 then y + 1 else y) (if m = 12 then 1 else m + 1) 1 * 86400000000
      = monthStart (12 * y + m) := by
    unfold monthStart
    have e1 : (12 * y + m) / 12 = if m = 12 then y + 1 else y := by split <;> omega
    have e2 : (12 * y + m) % 12 + 1 = if m = 12 then 1 else m + 1 := by split <;> omega
    rw [e1, e2]
  rw [hres]
  refine ⟨⟨_, rfl⟩, by omega, ?_⟩
  intro b ⟨j, hj⟩ hlt
  subst hj
  have : 12 * y + m - 1 < j := monthStart_lt_imp _ _ (by omega)
  exact monthStart_mono _ _ (by omega)

theorem yearly_next (hcal : CalendarMonthFact) (c0 t : Int) : IsNext (Form.yearly.B c0) t (Gen.yearly.apply t) := by
  have hz := hcal (t / 86400000000)
  simp only at hz
  rw [yearly_apply]
  generalize civilOfDays (t / 86400000000) = cv at *
  obtain ⟨y, m, d⟩ := cv
  simp only at hz ⊢
  obtain ⟨hm1, hm12, hlo, hhi⟩ := hz
  have hres : daysOfCivil (y + 1) 1 1 * 86400000000 = monthStart (12 * (y + 1)) := by
    unfold monthStart
    have e1 : (12 * (y + 1)) / 12 = y + 1 := by omega
    have e2 : (12 * (y + 1)) % 12 + 1 = 1 := by omega
    rw [e1, e2]
  rw [hres]
  have hup := monthStart_mono (12 * y + m) (12 * (y + 1)) (by omega)
  refine ⟨⟨_, rfl⟩, by omega, ?_⟩
  intro b ⟨y2, hj⟩ hlt
  subst hj
  have : 12 * y + m - 1 < 12 * y2 := monthStart_lt_imp _ _ (by omega)
  exact monthStart_mono _ _ (by omega)

theorem stepOK_calendar (hcal : CalendarMonthFact) : StepOK Form.monthly ∧ StepOK Form.yearly := by
  refine ⟨⟨?_, ?_⟩, ⟨?_, ?_⟩⟩
  · intro c off; simpa [Form.cfg, firstLimit, Step.apply, Form.frame] using monthly_next hcal (c + off) (c + off)
  · intro c l _; simpa [Form.cfg, Step.apply] using monthly_next hcal c l
  · intro c off; simpa [Form.cfg, firstLimit, Step.apply, Form.frame] using yearly_next hcal (c + off) (c + off)
  · intro c l _; simpa [Form.cfg, Step.apply] using yearly_next hcal c l

end Rotation
