import LoguruModel.Rotation.Parsers
/-
C07 / C19 – the specification side (DESIGN §4 C07 **S**, C19 **S**): the boundary set a rotation
specification denotes, "next boundary", and the size bound.  Written without reference to the
step functions of the model.
-/
namespace Rotation
open Py Py.Calendar

/-- the meanings a time-based `rotation=` argument can have -/
inductive Form where
  | interval (d : Int)                    -- timedelta / duration string
  | dailyAt (ti : TimeInit)               -- datetime.time (possibly aware) / "HH:MM[:SS]"
  | weekdayAt (w : Int) (ti : TimeInit)   -- "monday", "w0 at 11:00" (midnight when no time is given)
  | hourly | daily | weekly | monthly | yearly

/-- well-formed parameters: a positive interval, an in-range time of day, a weekday 0..6 -/
def TimeInit.InRange (ti : TimeInit) : Prop :=
  0 ≤ ti.hour ∧ ti.hour ≤ 23 ∧ 0 ≤ ti.minute ∧ ti.minute ≤ 59 ∧ 0 ≤ ti.second ∧ ti.second ≤ 59 ∧
  0 ≤ ti.microsecond ∧ ti.microsecond ≤ 999999

def Form.Valid : Form → Prop
  | .interval d => 0 < d
  | .dailyAt ti => ti.InRange
  | .weekdayAt w ti => 0 ≤ w ∧ w ≤ 6 ∧ ti.InRange ∧ ti.tz = none
  | _ => True

/-- first instant (naive local microseconds) of month number `i` counted from year 0 (`i = 12·y + m − 1`) -/
def monthStart (i : Int) : Int := daysOfCivil (i / 12) (i % 12 + 1) 1 * 86400000000

/-- B(σ, c): the boundary instants, as naive local microseconds in the governing zone; `c` is the
creation instant in the same frame (only the interval form depends on it) -/
def Form.B (c : Int) : Form → Int → Prop
  | .interval d, b => c < b ∧ d ∣ (b - c)
  | .dailyAt ti, b => b % 86400000000 = ti.tod
  | .weekdayAt w ti, b => b % 86400000000 = ti.tod ∧ weekdayOf b = w
  | .hourly, b => b % 3600000000 = 0
  | .daily, b => b % 86400000000 = 0
  | .weekly, b => b % 86400000000 = 0 ∧ weekdayOf b = 0
  | .monthly, b => ∃ i, b = monthStart i
  | .yearly, b => ∃ y, b = monthStart (12 * y)

/-- `l` is the least boundary strictly after `τ` -/
def IsNext (B : Int → Prop) (τ l : Int) : Prop := B l ∧ τ < l ∧ ∀ b, B b → τ < b → l ≤ b

/-- the `RotationTime` that `_make_rotation_function` builds for each meaning -/
def Form.cfg : Form → RotTime
  | .interval d => { step := .interval d, timeInit := none, weekday := none }
  | .dailyAt ti => { step := .day, timeInit := some ti, weekday := none }
  | .weekdayAt w ti => { step := .weekday w, timeInit := some ti, weekday := some w }
  | .hourly => { step := .freq Gen.hourly, timeInit := none, weekday := none }
  | .daily => { step := .freq Gen.daily, timeInit := none, weekday := none }
  | .weekly => { step := .freq Gen.weekly, timeInit := none, weekday := none }
  | .monthly => { step := .freq Gen.monthly, timeInit := none, weekday := none }
  | .yearly => { step := .freq Gen.yearly, timeInit := none, weekday := none }

/-- the offset of the zone in which the boundaries are read: the aware time's, else the records' -/
def Form.frame (F : Form) (recOff : Int) : Int :=
  match F with
  | .dailyAt ti => (match ti.tz with | none => recOff | some z => z)
  | .weekdayAt _ ti => (match ti.tz with | none => recOff | some z => z)
  | _ => recOff

end Rotation
