import LoguruModel.Generated.Rotation
/-
C07 / C19 – model of `Rotation` (`loguru/_file_sink.py`): the step functions, `rotation_size`,
`RotationTime.__call__` with its lazily initialised `_limit` and catch-up loop, `RotationGroup`
(`any` with short-circuit) and `FileSink.write`'s check-before-write.

All arithmetic kernels and comparisons come from `Generated/Rotation.lean` (tie G); the control
flow is transcribed by hand (tie C: `harness/c07.py`, `harness/c19.py`).

Frames.  An aware instant is its UTC microsecond count.  `RotationTime` works either on *naive*
local datetimes (no `time_init`, or a naive `time_init`: each record is compared through
`record_time.replace(tzinfo=None)`, i.e. in the record's own zone) or on aware ones (aware
`time_init`: everything is compared as instants; the model then stores the limit as a local
reading in the zone of `time_init`, which orders the same way).
-/
namespace Rotation
open Py Rotation.Gen

/-- the `step_forward` callable of a `RotationTime` -/
inductive Step where
  | day                      -- Rotation.forward_day
  | weekday (w : Int)        -- partial(Rotation.forward_weekday, weekday=w)
  | interval (d : Int)       -- partial(Rotation.forward_interval, interval=timedelta(microseconds=d))
  | freq (k : FreqKernel)    -- Frequencies.*

def forwardDay (t : Int) : Int := t + tdUs forwardDayDelta

/-- `forward_weekday`'s `while True` loop; seven iterations always suffice for a weekday in 0..6
(`forwardWeekday_spec`), the fuel only makes the definition total for a weekday outside that range
(which `parse_day` never produces) -/
def forwardWeekdayAux : Nat → Int → Int → Int
  | 0, t, _ => t
  | n + 1, t, w =>
    let t' := t + tdUs forwardWeekdayDelta
    if forwardWeekdayStop (fieldsOf t') w then t' else forwardWeekdayAux n t' w

def forwardWeekday (t w : Int) : Int := forwardWeekdayAux 7 t w

def forwardInterval (t d : Int) : Int := t + d

def Step.apply : Step → Int → Int
  | .day, t => forwardDay t
  | .weekday w, t => forwardWeekday t w
  | .interval d, t => forwardInterval t d
  | .freq k, t => k.apply t

/-- `Rotation.RotationTime(step_forward, time_init, weekday)` -/
structure RotTime where
  step : Step
  timeInit : Option TimeInit
  weekday : Option Int

/-- one rotation condition after `_make_rotation_function` -/
inductive Leaf where
  | size (limit : Int)       -- partial(rotation_size, size_limit=…); the limit's floor (the sum compared is an int)
  | time (cfg : RotTime)

/-- a record's timestamp: UTC microseconds and the UTC offset of its (fixed-offset) zone -/
structure Stamp where
  utc : Int
  off : Int
  deriving Repr, DecidableEq

/-- what one call `rotation(message, file)` can observe -/
structure CallIn where
  ctime : Int      -- get_ctime(file) in UTC microseconds (only read while `_limit is None`)
  stamp : Stamp    -- message.record["time"]
  bytes : Int      -- len(message.encode(file.encoding, file.errors))
  chars : Int      -- len(message)
  tell : Int       -- size of the file in bytes

/-- `while self._limit <= record_time: self._limit = self._step_forward(self._limit)`.
A step that does not advance would make the real loop run forever; the model then stops at once
(so that the driver stays total).  `C07.catch_up_terminates` shows that this branch is never taken
for a rotation accepted by `_make_rotation_function`. -/
def catchUp (f : Int → Int) : Nat → Int → Int → Int
  | 0, l, _ => l
  | n + 1, l, r =>
    if catchUpCond l r then
      (if f l ≤ l then f l else catchUp f n (f l) r)
    else l

/-- iterations that always suffice when the step is strictly increasing (`catchUp_terminates`) -/
def catchUpFuel (l r : Int) : Nat := (r - l + 1).toNat

/-- the lazily computed first `_limit`, in the frame described in the header -/
def firstLimit (cfg : RotTime) (ctime : Int) (recOff : Int) : Int :=
  match cfg.timeInit with
  | none => cfg.step.apply (ctime + recOff)
  | some ti =>
    let g := match ti.tz with | none => recOff | some z => z
    let start := ctime + g
    let cand := replace start { hour := some ti.hour, minute := some ti.minute, second := some ti.second,
                                microsecond := some ti.microsecond }
    if firstLimitStep cand start (weekdayOf cand) cfg.weekday then cfg.step.apply cand else cand

/-- the reading of the record's time that is compared with `_limit` -/
def recKey (cfg : RotTime) (s : Stamp) : Int :=
  match cfg.timeInit with
  | some { tz := some z, .. } => s.utc + z
  | _ => s.utc + s.off

/-- `RotationTime.__call__`; state = `_limit` -/
def timeCall (cfg : RotTime) (st : Option Int) (x : CallIn) : Bool × Option Int :=
  let limit := match st with
    | some l => l
    | none => firstLimit cfg x.ctime x.stamp.off
  let r := recKey cfg x.stamp
  if shouldRotate r limit then (true, some (catchUp cfg.step.apply (catchUpFuel limit r) limit r))
  else (false, some limit)

def leafCall (l : Leaf) (st : Option Int) (x : CallIn) : Bool × Option Int :=
  match l with
  | .size limit => (rotationSize x.tell x.bytes x.chars limit, st)
  | .time cfg => timeCall cfg st x

/-- `RotationGroup.__call__`: `any(rotation(message, file) for rotation in self._rotations)` –
members after the first true one are not evaluated and keep their state.  A single rotation is the
group of one. -/
def groupCall : List Leaf → List (Option Int) → CallIn → Bool × List (Option Int)
  | l :: ls, s :: ss, x =>
    let (b, s') := leafCall l s x
    if b then (true, s' :: ss)
    else
      let (b2, ss') := groupCall ls ss x
      (b2, s' :: ss')
  | _, ss, _ => (false, ss)

def initStates (ls : List Leaf) : List (Option Int) := ls.map (fun _ => none)

/-- a sequence of calls of one rotation function (function-level observable: the Booleans) -/
def runCalls (ls : List Leaf) : List (Option Int) → List CallIn → List Bool
  | _, [] => []
  | ss, x :: xs =>
    let (b, ss') := groupCall ls ss x
    b :: runCalls ls ss' xs

/-! ### `FileSink.write` (rotation part) -/

/-- a message handed to the sink: timestamp, encoded length, character count -/
structure Msg where
  stamp : Stamp
  bytes : Int      -- len(message.encode(file.encoding, file.errors)): what `rotation_size` adds
  chars : Int      -- len(message)
  disk : Int       -- bytes the text layer really appends to the file: differs from `bytes` when open()'s
                   -- `newline` keyword translates every "\n" (newline="\r\n", or the default on Windows)
  deriving Repr, DecidableEq

/-- one log file as the sink sees it -/
structure FileRec where
  initial : Int             -- bytes of the file not written by this sink: present when it opened the file, or
                            -- appended since by another writer (0 for files it created and owns alone)
  msgs : List (Nat × Int)   -- (index, bytes appended) of the messages this sink wrote into it
  deriving Repr, DecidableEq

def sumBytes : List (Nat × Int) → Int
  | [] => 0
  | (_, n) :: r => n + sumBytes r

/-- size on disk -/
def FileRec.size (f : FileRec) : Int := f.initial + sumBytes f.msgs

/-- the sink's view of its files: closed ones (oldest first), the current one, and what the file
system remembers of the current one's age: the persisted creation tag (`user.loguru_crtime`, or
the dict of a patched harness) if one was ever written, and the time of its last modification -/
structure Sink where
  states : List (Option Int)
  closed : List FileRec
  cur : FileRec
  tag : Option Int
  mtime : Int
  next : Nat

/-- `get_ctime(current file)`: the persisted tag, else the modification time -/
def Sink.creation (s : Sink) : Int :=
  match s.tag with
  | some v => v
  | none => s.mtime

/-- did some `RotationTime` compute its first limit during this call?  (then it also executed
`set_ctime(filepath, creation_time)`) -/
def initialised (before after : List (Option Int)) : Bool :=
  (List.zip before after).any fun p => p.1.isNone && p.2.isSome

/-- `FileSink.write(message)`: ask the rotation function first (`file.tell()` after `seek(0, 2)` is
the size of the current file); on true close the file and open a fresh one, created "now" (= the
record's instant under the frozen clock) and – `Gen.newFileTaggedWithNow` – tagged with that instant;
then append (which moves the modification time) -/
def Sink.write (ls : List Leaf) (s : Sink) (m : Msg) : Sink :=
  let c := s.creation
  let x : CallIn := { ctime := c, stamp := m.stamp, bytes := m.bytes, chars := m.chars, tell := s.cur.size }
  let r := groupCall ls s.states x
  if r.1 then
    { states := r.2, closed := s.closed ++ [s.cur], cur := { initial := 0, msgs := [(s.next, m.disk)] },
      tag := if Gen.newFileTaggedWithNow then some m.stamp.utc else none, mtime := m.stamp.utc, next := s.next + 1 }
  else
    { states := r.2, closed := s.closed, cur := { s.cur with msgs := s.cur.msgs ++ [(s.next, m.disk)] },
      tag := if initialised s.states r.2 then some c else s.tag, mtime := m.stamp.utc, next := s.next + 1 }

def Sink.init (ls : List Leaf) (ctime size : Int) : Sink :=
  { states := initStates ls, closed := [], cur := { initial := size, msgs := [] }, tag := none, mtime := ctime,
    next := 0 }

/-- `logger.remove()` followed by `logger.add()` of the same path and rotation (a process restart):
the rotation functions are new, the files and what the file system remembers stay -/
def Sink.restart (ls : List Leaf) (s : Sink) : Sink := { s with states := initStates ls }

/-- another writer (a second handler on the same path, another process with an O_APPEND descriptor)
appends `n` bytes to the current file behind the sink's back: they count as bytes of the file that
this sink did not write -/
def Sink.foreign (s : Sink) (n : Int) : Sink := { s with cur := { s.cur with initial := s.cur.initial + n } }

/-- one step of a sink history -/
inductive SinkOp where
  | msg (m : Msg)
  | restart
  | foreign (n : Int)

def Sink.step (ls : List Leaf) (s : Sink) : SinkOp → Sink
  | .msg m => Sink.write ls s m
  | .restart => Sink.restart ls s
  | .foreign n => Sink.foreign s n

def Sink.run (ls : List Leaf) (s : Sink) (ms : List Msg) : Sink := ms.foldl (Sink.write ls) s

def Sink.runOps (ls : List Leaf) (s : Sink) (ops : List SinkOp) : Sink := ops.foldl (Sink.step ls) s

/-- all files, oldest first -/
def Sink.files (s : Sink) : List FileRec := s.closed ++ [s.cur]

end Rotation
