import LoguruModel.Rotation.Lemmas
import LoguruModel.Py.CalendarFacts
/-
C07 – the calendar fact behind the monthly / yearly rotation theorems, PROVED (it used to be an explicit hypothesis):
`civilOfDays z` names the month that contains day `z`, for every day number.
-/
namespace Rotation
open Py Py.Calendar

theorem calendarMonthFact : CalendarMonthFact := by
  intro z
  obtain ⟨h1, h12, hlo, hhi⟩ := civil_month_contains z
  generalize civilOfDays z = cv at *
  obtain ⟨y, m, d⟩ := cv
  simp only at h1 h12 hlo hhi ⊢
  have e1 : (12 * y + m - 1) / 12 = y := by omega
  have e2 : (12 * y + m - 1) % 12 + 1 = m := by omega
  refine ⟨h1, h12, ?_, ?_⟩
  · simp only [monthStart, e1, e2]; omega
  · by_cases hm : m = 12
    · subst hm
      have e3 : (12 * y + 12) / 12 = y + 1 := by omega
      have e4 : (12 * y + 12) % 12 + 1 = 1 := by omega
      simp only [monthStart, e3, e4]
      simp only [if_true] at hhi
      omega
    · have e3 : (12 * y + m) / 12 = y := by omega
      have e4 : (12 * y + m) % 12 + 1 = m + 1 := by omega
      simp only [monthStart, e3, e4]
      simp only [hm, if_false] at hhi
      omega

end Rotation
