import LoguruModel.Rotation.Model
/-
C19 – the text stream `FileSink` writes through (`open(path, mode="a", buffering=…)`), as far as
`Rotation.rotation_size` can observe it: bytes that reached the OS, bytes still in the user-space
buffers, the position of the descriptor.  The model answers the question the abstract `Sink` model
takes for granted ("`tell` is the size of the current file"): for WHICH way of reading the size is
that true whatever the `buffering` keyword, the line ends of the records and other writers do?

Semantics mirrored (CPython `_io`):
* `write(s)` appends to the pending bytes; whether the buffers are then flushed depends on the
  buffering policy (`buffering=1`: at a line end; `buffering=n`: when more than `n` bytes are pending;
  `-1`: 8 KiB) – an arbitrary oracle `pol` here;
* a flush hands the pending bytes to the OS; the file is opened in append mode (`O_APPEND`), so they
  land at the real end of the file and the descriptor then stands at that end;
* `TextIOWrapper.seek(0, 2)` flushes and moves the descriptor to the real end of the file;
* `TextIOWrapper.tell()` flushes and returns the descriptor's position (it does NOT look for the end
  of the file: bytes another writer appended since the last own write are not counted);
* `os.fstat(fd).st_size` / `os.stat(path).st_size` is what has reached the OS: pending bytes are
  not counted and nothing is flushed.
-/
namespace Rotation
open Py Rotation.Gen

/-- the stream of the current log file -/
structure Stream where
  disk : Int       -- bytes of the file as the OS sees it (os.stat): own flushed bytes and those of other writers
  pending : Int    -- bytes accepted by write() that are still in user-space buffers
  fdpos : Int      -- position of the descriptor (end of the sink's own last flushed write; the size at open())
  deriving Repr, DecidableEq

/-- hand the pending bytes to the OS (append mode: they go to the real end, the descriptor follows) -/
def Stream.flush (s : Stream) : Stream :=
  if s.pending = 0 then s else { disk := s.disk + s.pending, pending := 0, fdpos := s.disk + s.pending }

/-- `file.write(text)` of `n` encoded bytes under a buffering policy: `pol s n` = how many of the bytes
then pending are handed to the OS before `write` returns (none, all of them at a line end under
`buffering=1`, the older part when a sized buffer overflows …) -/
def Stream.write (pol : Stream → Int → Int) (s : Stream) (n : Int) : Stream :=
  let p := s.pending + n
  let k := max 0 (min (pol s n) p)
  if k = 0 then { s with pending := p } else { disk := s.disk + k, pending := p - k, fdpos := s.disk + k }

/-- another writer appends `k` bytes behind the sink's back -/
def Stream.foreign (s : Stream) (k : Int) : Stream := { s with disk := s.disk + k }

/-- what `rotation_size` reads as "the size of the file", and the state of the stream afterwards -/
def Stream.measure (src : SizeSource) (s : Stream) : Int × Stream :=
  match src with
  | .seekEndTell => let f := s.flush; (f.disk, { f with fdpos := f.disk })
  | .tellOnly => let f := s.flush; (f.fdpos, f)
  | .statSize => (s.disk, s)

/-- `open(path, "a")` on a file of `size` bytes -/
def Stream.opened (size : Int) : Stream := { disk := size, pending := 0, fdpos := size }

/-- the real number of bytes the file holds once everything written so far has reached it -/
def Stream.logical (s : Stream) : Int := s.disk + s.pending

theorem Stream.flush_logical (s : Stream) : s.flush.logical = s.logical ∧ s.flush.pending = 0 := by
  unfold Stream.flush Stream.logical
  split <;> simp_all

theorem Stream.write_logical (pol : Stream → Int → Int) (s : Stream) (n : Int) :
    (s.write pol n).logical = s.logical + n := by
  unfold Stream.write
  simp only
  split <;> (simp [Stream.logical]; omega)

theorem Stream.write_pending_nonneg (pol : Stream → Int → Int) (s : Stream) (n : Int) (h : 0 ≤ s.pending)
    (hn : 0 ≤ n) : 0 ≤ (s.write pol n).pending := by
  unfold Stream.write
  simp only
  split <;> (simp; omega)

/-- `seek(0, 2); tell()` returns the real size of the file – everything the sink has written,
flushed or not, plus whatever other writers appended – for every state of the buffers -/
theorem Stream.measure_seekEndTell (s : Stream) :
    (s.measure .seekEndTell).1 = s.logical ∧ (s.measure .seekEndTell).2.logical = s.logical ∧
    (s.measure .seekEndTell).2.pending = 0 := by
  have h := Stream.flush_logical s
  simp only [Stream.measure]
  refine ⟨?_, ?_, h.2⟩
  · have := h.1; simp only [Stream.logical] at this ⊢; omega
  · simpa [Stream.logical] using h.1

/-- the OS-side size misses exactly the pending bytes -/
theorem Stream.measure_statSize (s : Stream) :
    (s.measure .statSize).1 = s.logical - s.pending ∧ (s.measure .statSize).2 = s := by
  simp [Stream.measure, Stream.logical]

/-- `tell()` without the seek returns the sink's own offset -/
theorem Stream.measure_tellOnly (s : Stream) :
    (s.measure .tellOnly).1 = (if s.pending = 0 then s.fdpos else s.logical) := by
  simp only [Stream.measure, Stream.flush, Stream.logical]
  split <;> simp_all

/-! ### the sink over a real stream refines the abstract sink -/

/-- the stream agrees with the abstract file record: same number of bytes in all, nothing negative pending -/
def Coh (s : Stream) (f : FileRec) : Prop := s.logical = f.size ∧ 0 ≤ s.pending

/-- a sink together with the stream of its current file -/
structure BSink where
  sink : Sink
  stream : Stream

/-- `FileSink.write` over the stream: the number handed to `rotation_size` is what the regenerated
`Gen.sizeSource` reads from the stream (`asked` = was a size member evaluated at all – `any` may
have stopped before it; then the stream is not touched); on rotation the old stream is closed
(flushed) and a new file is opened; then the record is written under the buffering policy -/
def BSink.write (pol : Stream → Int → Int) (asked : Bool) (ls : List Leaf) (b : BSink) (m : Msg) : BSink :=
  let ms := b.stream.measure sizeSource
  let x : CallIn := { ctime := b.sink.creation, stamp := m.stamp, bytes := m.bytes, chars := m.chars, tell := ms.1 }
  let r := groupCall ls b.sink.states x
  let st1 := if asked then ms.2 else b.stream
  if r.1 then
    { sink := { states := r.2, closed := b.sink.closed ++ [b.sink.cur], cur := { initial := 0, msgs := [(b.sink.next, m.disk)] },
                tag := if Gen.newFileTaggedWithNow then some m.stamp.utc else none, mtime := m.stamp.utc,
                next := b.sink.next + 1 },
      stream := (Stream.opened 0).write pol m.disk }
  else
    { sink := { states := r.2, closed := b.sink.closed,
                cur := { b.sink.cur with msgs := b.sink.cur.msgs ++ [(b.sink.next, m.disk)] },
                tag := if initialised b.sink.states r.2 then some b.sink.creation else b.sink.tag, mtime := m.stamp.utc,
                next := b.sink.next + 1 },
      stream := st1.write pol m.disk }

def BSink.foreign (b : BSink) (k : Int) : BSink := { sink := b.sink.foreign k, stream := b.stream.foreign k }

private theorem sumBytes_snoc (a : List (Nat × Int)) (i : Nat) (n : Int) : sumBytes (a ++ [(i, n)]) = sumBytes a + n := by
  induction a with
  | nil => simp [sumBytes]
  | cons p r ih => obtain ⟨j, k⟩ := p; simp [sumBytes, ih]; omega

/-- REFINEMENT.  With the size read as the source reads it (`Gen.sizeSource`, regenerated), a sink
over a real stream behaves exactly like the abstract sink – whatever the buffering policy, whether or
not the size member was reached, whatever is pending – and the stream keeps agreeing with the record
of the current file. -/
theorem BSink.write_refines (pol : Stream → Int → Int) (asked : Bool) (ls : List Leaf) (b : BSink) (m : Msg)
    (hm : 0 ≤ m.disk) (hc : Coh b.stream b.sink.cur) :
    (b.write pol asked ls m).sink = Sink.write ls b.sink m ∧
    Coh (b.write pol asked ls m).stream (b.write pol asked ls m).sink.cur := by
  have hsrc : sizeSource = .seekEndTell := by decide
  have hms := Stream.measure_seekEndTell b.stream
  have htell : (b.stream.measure sizeSource).1 = b.sink.cur.size := by rw [hsrc, hms.1]; exact hc.1
  have hst1 : Coh (if asked then (b.stream.measure sizeSource).2 else b.stream) b.sink.cur := by
    cases asked
    · simpa using hc
    · simp only [if_true, hsrc]
      exact ⟨by rw [hms.2.1]; exact hc.1, by rw [hms.2.2]; omega⟩
  unfold BSink.write Sink.write
  simp only [htell]
  split
  · refine ⟨rfl, ?_⟩
    simp only
    refine ⟨?_, Stream.write_pending_nonneg pol _ _ (by simp [Stream.opened]) hm⟩
    rw [Stream.write_logical]
    simp [Stream.opened, Stream.logical, FileRec.size, sumBytes]
  · refine ⟨rfl, ?_⟩
    simp only
    refine ⟨?_, Stream.write_pending_nonneg pol _ _ hst1.2 hm⟩
    rw [Stream.write_logical, hst1.1]
    simp only [FileRec.size, sumBytes_snoc]
    omega

theorem BSink.foreign_refines (b : BSink) (k : Int) (hc : Coh b.stream b.sink.cur) :
    (b.foreign k).sink = b.sink.foreign k ∧ Coh (b.foreign k).stream (b.foreign k).sink.cur := by
  refine ⟨rfl, ?_⟩
  obtain ⟨h1, h2⟩ := hc
  simp only [BSink.foreign, Sink.foreign, Stream.foreign, Coh, Stream.logical, FileRec.size] at *
  exact ⟨by omega, h2⟩

/-- one step of a history over a real stream: a record (with the flag whether the size member was
reached), a restart (the stream is closed – flushed – and reopened on the same file), another writer -/
inductive BOp where
  | msg (m : Msg) (asked : Bool)
  | restart
  | foreign (k : Int)

def BOp.abs : BOp → SinkOp
  | .msg m _ => .msg m
  | .restart => .restart
  | .foreign k => .foreign k

def BSink.step (pol : Stream → Int → Int) (ls : List Leaf) (b : BSink) : BOp → BSink
  | .msg m a => b.write pol a ls m
  | .restart => { sink := Sink.restart ls b.sink, stream := Stream.opened b.stream.logical }
  | .foreign k => b.foreign k

def BSink.run (pol : Stream → Int → Int) (ls : List Leaf) (b : BSink) (ops : List BOp) : BSink :=
  ops.foldl (BSink.step pol ls) b

def BOp.NonNeg : BOp → Prop
  | .msg m _ => 0 ≤ m.disk
  | _ => True

/-- the refinement over whole histories (any length, any mix of records, restarts and other writers) -/
theorem BSink.run_refines (pol : Stream → Int → Int) (ls : List Leaf) :
    ∀ (ops : List BOp) (b : BSink), (∀ o ∈ ops, o.NonNeg) → Coh b.stream b.sink.cur →
      (b.run pol ls ops).sink = Sink.runOps ls b.sink (ops.map BOp.abs) ∧
      Coh (b.run pol ls ops).stream (b.run pol ls ops).sink.cur := by
  intro ops
  induction ops with
  | nil => intro b _ hc; exact ⟨rfl, hc⟩
  | cons o ops ih =>
    intro b hn hc
    have hstep : (b.step pol ls o).sink = Sink.step ls b.sink o.abs ∧
        Coh (b.step pol ls o).stream (b.step pol ls o).sink.cur := by
      cases o with
      | msg m a => exact BSink.write_refines pol a ls b m (hn (.msg m a) (by simp)) hc
      | restart =>
        refine ⟨rfl, ?_⟩
        simp only [BSink.step, Sink.restart, Coh, Stream.opened, Stream.logical]
        exact ⟨by have := hc.1; simp only [Stream.logical] at this; omega, by omega⟩
      | foreign k => exact BSink.foreign_refines b k hc
    have := ih (b.step pol ls o) (fun o' ho' => hn o' (by simp [ho'])) hstep.2
    simp only [BSink.run, List.foldl_cons, List.map_cons, Sink.runOps] at this ⊢
    rw [← hstep.1]
    exact this

/-- at every moment the OS-side size of the current file is at most its real size (pending bytes are
never negative), so a bound on the real size is a bound on what `os.stat` shows -/
theorem Coh.disk_le (s : Stream) (f : FileRec) (h : Coh s f) : s.disk ≤ f.size := by
  obtain ⟨h1, h2⟩ := h
  simp only [Stream.logical] at h1
  omega

end Rotation
