import LoguruModel.Rotation.StringParsers
/-
C19 – `parse_size` over its whole documented grammar (not a table of samples): for EVERY decimal
integer, every unit prefix (or none), with or without the binary marker `i`, bytes `B` or bits `b`,
the scanner yields the number, the exponent of the unit, the base and the divisor the documentation
gives – hence `parseSize` the exact quantity `n · base^exp / divisor`.
-/
namespace Rotation
open Py Rotation.Gen

theorem isSpace_cases (c : Char) (h : isSpace c = true) :
    c = ' ' ∨ c = '\t' ∨ c = '\n' ∨ c = '\r' ∨ c = '\x0b' ∨ c = '\x0c' ∨ c = '\x1c' ∨ c = '\x1d' ∨ c = '\x1e' ∨
    c = '\x1f' ∨ c = '\u0085' ∨ c = ' ' := by
  simpa [isSpace, or_assoc] using h

theorem digit_not_space (c : Char) (h : isDigit c = true) : isSpace c = false := by
  cases hs : isSpace c with
  | false => rfl
  | true =>
    exfalso
    rcases isSpace_cases c hs with h' | h' | h' | h' | h' | h' | h' | h' | h' | h' | h' | h' <;>
      (subst h'; revert h; decide)

theorem digit_numCh (c : Char) (h : isDigit c = true) : isNumCh c = true := by simp [isNumCh, h]

theorem digit_not_sign (c : Char) (h : isDigit c = true) : c ≠ '+' ∧ c ≠ '-' := by
  constructor <;> (intro hc; subst hc; revert h; decide)

theorem takeWhile_prefix (p : Char → Bool) : ∀ (ds : Str) (c : Char) (t : Str), ds.all p = true → p c = false →
    (ds ++ c :: t).takeWhile p = ds ∧ (ds ++ c :: t).dropWhile p = c :: t := by
  intro ds
  induction ds with
  | nil => intro c t _ hc; simp [List.takeWhile, List.dropWhile, hc]
  | cons d ds ih =>
    intro c t h hc
    simp only [List.all_cons, Bool.and_eq_true] at h
    have := ih c t h.2 hc
    simp [List.takeWhile, List.dropWhile, h.1, this.1, this.2]

theorem takeWhile_all (p : Char → Bool) : ∀ (ds : Str), ds.all p = true →
    ds.takeWhile p = ds ∧ ds.dropWhile p = [] := by
  intro ds
  induction ds with
  | nil => intro _; simp
  | cons d ds ih =>
    intro h
    simp only [List.all_cons, Bool.and_eq_true] at h
    have := ih h.2
    simp [List.takeWhile, List.dropWhile, h.1, this.1, this.2]

/-- `float("<digits>")` is the integer the digits denote -/
theorem parseFloat_digits (ds : Str) (hne : ds ≠ []) (hd : ds.all isDigit = true) :
    parseFloat ds = some ⟨(digitsVal ds : Int), 0⟩ := by
  obtain ⟨c, cs, rfl⟩ : ∃ c cs, ds = c :: cs := by
    cases ds with
    | nil => exact absurd rfl hne
    | cons c cs => exact ⟨c, cs, rfl⟩
  have hc : isDigit c = true := by simp only [List.all_cons, Bool.and_eq_true] at hd; exact hd.1
  have hsign := digit_not_sign c hc
  have hsplit : splitSign (c :: cs) = (false, c :: cs) := by
    unfold splitSign
    split
    · rename_i r h; injection h with h1 _; exact absurd h1 hsign.1
    · rename_i r h; injection h with h1 _; exact absurd h1 hsign.2
    · rfl
  have htw := takeWhile_all isDigit (c :: cs) hd
  unfold parseFloat
  simp only [hsplit, htw.1, htw.2]
  simp

/-- the unit part of a size spelling: optional prefix (u = 1..8 ↦ k m g t p e z y), optional `i`, `b` or `B` -/
def unitTail (u : Nat) (bin bits : Bool) : Str :=
  (if u = 0 then [] else [sizeUnitLetters.getD (u - 1) 'k']) ++ (if bin then ['i'] else []) ++ [if bits then 'b' else 'B']

theorem all_mono (p q : Char → Bool) (hpq : ∀ c, p c = true → q c = true) : ∀ (l : Str), l.all p = true → l.all q = true := by
  intro l
  induction l with
  | nil => intro _; rfl
  | cons c l ih =>
    intro h
    simp only [List.all_cons, Bool.and_eq_true] at h ⊢
    exact ⟨hpq c h.1, ih h.2⟩

theorem strip_id (c z : Char) (mid : Str) (hc : isSpace c = false) (hz : isSpace z = false) :
    strip (c :: mid ++ [z]) = c :: mid ++ [z] := by
  unfold strip
  have h1 : (c :: mid ++ [z]).dropWhile isSpace = c :: mid ++ [z] := by simp [List.dropWhile, hc]
  rw [h1]
  have h2 : (c :: mid ++ [z]).reverse = z :: (c :: mid).reverse := by simp
  rw [h2]
  have h3 : (z :: (c :: mid).reverse).dropWhile isSpace = z :: (c :: mid).reverse := by simp [List.dropWhile, hz]
  rw [h3]
  simp

/-- GRAMMAR.  `<digits> <prefix>?<i>?<b|B>` – every decimal integer, every unit – scans to the number, the unit
exponent, the base (1024 with `i`, else 1000) and the divisor (8 for bits, 1 for bytes) -/
theorem scanSize_grammar (ds : Str) (hne : ds ≠ []) (hd : ds.all isDigit = true) (u : Nat) (hu : u ≤ 8) (bin bits : Bool) :
    scanSize (ds ++ ' ' :: unitTail u bin bits) =
      .ok (some ⟨⟨(digitsVal ds : Int), 0⟩, u, if bin then sizeBinaryBase else sizeDecimalBase, if bits then 8 else 1⟩) := by
  obtain ⟨c, cs, rfl⟩ : ∃ c cs, ds = c :: cs := by
    cases ds with
    | nil => exact absurd rfl hne
    | cons c cs => exact ⟨c, cs, rfl⟩
  have hc : isDigit c = true := by simp only [List.all_cons, Bool.and_eq_true] at hd; exact hd.1
  have hnum : (c :: cs).all isNumCh = true := all_mono isDigit isNumCh digit_numCh _ hd
  have hpf := parseFloat_digits (c :: cs) hne hd
  -- the whole string is its own strip
  have hstrip : ∀ t z, isSpace z = false →
      strip ((c :: cs) ++ ' ' :: (t ++ [z])) = (c :: cs) ++ ' ' :: (t ++ [z]) := by
    intro t z hz
    have : (c :: cs) ++ ' ' :: (t ++ [z]) = c :: (cs ++ ' ' :: t) ++ [z] := by simp
    rw [this]
    exact strip_id c z _ (digit_not_space c hc) hz
  have hsplit : ∀ t, ((c :: cs) ++ ' ' :: t).takeWhile isNumCh = c :: cs ∧
      ((c :: cs) ++ ' ' :: t).dropWhile isNumCh = ' ' :: t := fun t => takeWhile_prefix isNumCh _ ' ' t hnum (by decide)
  have hu' : u = 0 ∨ u = 1 ∨ u = 2 ∨ u = 3 ∨ u = 4 ∨ u = 5 ∨ u = 6 ∨ u = 7 ∨ u = 8 := by omega
  have ht : ∀ (u : Nat) (bin bits : Bool), u ≤ 8 →
      unitTail u bin bits = (unitTail u bin bits).dropLast ++ [if bits then 'b' else 'B'] := by
    intro u bin bits hu
    have hu' : u = 0 ∨ u = 1 ∨ u = 2 ∨ u = 3 ∨ u = 4 ∨ u = 5 ∨ u = 6 ∨ u = 7 ∨ u = 8 := by omega
    rcases hu' with h | h | h | h | h | h | h | h | h <;> subst h <;> cases bin <;> cases bits <;> decide
  have hz : isSpace (if bits then 'b' else 'B') = false := by cases bits <;> decide
  rw [ht u bin bits hu]
  unfold scanSize
  simp only [hstrip _ _ hz, (hsplit _).1, (hsplit _).2, hpf]
  rcases hu' with h | h | h | h | h | h | h | h | h <;> subst h <;> cases bin <;> cases bits <;> rfl

end Rotation
