import LoguruModel.Py.Basic
import LoguruModel.Py.Calendar
/-
C07 / C19 – base types of the rotation model (`loguru/_file_sink.py` class `Rotation`,
`loguru/_string_parsers.py`).

A *naive local datetime* is an `Int`: microseconds of the local wall clock since
1970-01-01T00:00 (so `+ timedelta` is integer addition, `replace(hour=…)` rewrites the
time-of-day digits, and only `replace(year/month/day=…)` needs the calendar).
The generated kernels (`Generated/Rotation.lean`) are expressed over the three small records
below: `Fields` (what `t.year`, `t.month`, `t.weekday()` … read), `Td` (keyword arguments of
`datetime.timedelta`) and `Repl` (keyword arguments of `datetime.replace`).
-/
namespace Rotation
open Py Py.Calendar

/-- the attributes of a naive datetime the kernels read -/
structure Fields where
  year : Int
  month : Int
  day : Int
  hour : Int
  minute : Int
  second : Int
  microsecond : Int
  weekday : Int

/-- keyword arguments of `datetime.timedelta(...)` (all default 0) -/
structure Td where
  weeks : Int := 0
  days : Int := 0
  hours : Int := 0
  minutes : Int := 0
  seconds : Int := 0
  milliseconds : Int := 0
  microseconds : Int := 0

/-- keyword arguments of `datetime.replace(...)` (absent = keep) -/
structure Repl where
  year : Option Int := none
  month : Option Int := none
  day : Option Int := none
  hour : Option Int := none
  minute : Option Int := none
  second : Option Int := none
  microsecond : Option Int := none

/-- `date.weekday()` of the local day containing `t` (Monday = 0) -/
def weekdayOf (t : Int) : Int := (t / 86400000000 + 3) % 7

def fieldsOf (t : Int) : Fields :=
  let dn := t / 86400000000
  let tod := t % 86400000000
  let c := civilOfDays dn
  { year := c.1, month := c.2.1, day := c.2.2,
    hour := tod / 3600000000, minute := tod / 60000000 % 60, second := tod / 1000000 % 60,
    microsecond := tod % 1000000, weekday := weekdayOf t }

/-- total microseconds of a `timedelta(...)` -/
def tdUs (d : Td) : Int :=
  d.weeks * 604800000000 + d.days * 86400000000 + d.hours * 3600000000 + d.minutes * 60000000
    + d.seconds * 1000000 + d.milliseconds * 1000 + d.microseconds

/-- the day number after `replace(year=…, month=…, day=…)`; untouched when none of the three is given -/
def replaceDay (dn : Int) (r : Repl) : Int :=
  match r.year, r.month, r.day with
  | none, none, none => dn
  | y, m, d =>
    let c := civilOfDays dn
    daysOfCivil (y.getD c.1) (m.getD c.2.1) (d.getD c.2.2)

/-- `t.replace(**r)` on a naive datetime (all supplied values are in range in every use) -/
def replace (t : Int) (r : Repl) : Int :=
  let dn := t / 86400000000
  let tod := t % 86400000000
  replaceDay dn r * 86400000000
    + r.hour.getD (tod / 3600000000) * 3600000000
    + r.minute.getD (tod / 60000000 % 60) * 60000000
    + r.second.getD (tod / 1000000 % 60) * 1000000
    + r.microsecond.getD (tod % 1000000)

/-- one `Frequencies.*` function: `dt = t + timedelta(**delta t); return dt.replace(**repl t)` -/
structure FreqKernel where
  delta : Fields → Td
  repl : Fields → Repl

def FreqKernel.apply (k : FreqKernel) (t : Int) : Int :=
  let f := fieldsOf t
  replace (t + tdUs (k.delta f)) (k.repl f)

/-- the `hour/minute/second/microsecond` of a `datetime.time`, and its zone (offset in µs) if aware -/
structure TimeInit where
  hour : Int
  minute : Int
  second : Int
  microsecond : Int
  tz : Option Int
  deriving Repr, DecidableEq

def TimeInit.tod (ti : TimeInit) : Int :=
  ti.hour * 3600000000 + ti.minute * 60000000 + ti.second * 1000000 + ti.microsecond

/-- the time fields of `os.stat(path)` (microseconds): what the creation-time functions of
`_ctime_functions.py` can fall back on -/
structure StatTimes where
  st_mtime : Int
  st_ctime : Int       -- on Linux the inode-change time (chmod, mv, utime …), NOT a creation time
  st_atime : Int
  st_birthtime : Int
  deriving Repr, DecidableEq

/-- an exact non-negative-denominator rational `num / den` (numbers with fractions never become
floats in the model) -/
structure Rat' where
  num : Int
  den : Nat
  deriving Repr, DecidableEq

/-- `floor(num / den)` for `den > 0` -/
def Rat'.floor (q : Rat') : Int := q.num / (q.den : Int)

/-- round half to even, as `timedelta(seconds=float)` rounds to microseconds -/
def Rat'.roundHalfEven (q : Rat') : Int :=
  let d : Int := q.den
  let fl := q.num / d
  let r2 := 2 * (q.num % d)
  if r2 < d then fl else if r2 > d then fl + 1 else (if fl % 2 == 0 then fl else fl + 1)

/-- where `Rotation.rotation_size` takes "the size of the file" from (regenerated from its body,
`Gen.sizeSource`; interpreted on the stream model of `Rotation/Stream.lean`) -/
inductive SizeSource where
  | seekEndTell   -- file.seek(0, 2) and then file.tell() (or the value seek itself returns)
  | tellOnly      -- file.tell() at the stream's own position
  | statSize      -- os.fstat(file.fileno()).st_size / os.stat / os.path.getsize: what has reached the OS
  deriving Repr, DecidableEq

/-- how `RotationGroup.__call__` combines its members (regenerated, `Gen.groupCombinator`) -/
inductive GroupComb where
  | anyInOrder    -- any(r(message, file) for r in self._rotations) / the equivalent explicit loop
  | allInOrder    -- all(…)
  deriving Repr, DecidableEq

/-- the three things `FileSink.write` does with a message, in the order of the source
(regenerated, `Gen.writeOrder`) -/
inductive WriteStep where
  | ensureOpen    -- if self._file is None: create path / dirs / file
  | rotationCheck -- if rotation_function(message, file): self._terminate_file(is_rotating=True)
  | fileWrite     -- self._file.write(message)
  deriving Repr, DecidableEq

end Rotation
-- (round 5)
