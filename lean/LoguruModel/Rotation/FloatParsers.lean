import LoguruModel.Rotation.StringParsers
import LoguruModel.Py.Float64
/-
C19 – `parse_size` with the arithmetic Python really performs: `float(number)`, then the
regenerated formula `Gen.sizeFormula` (`s * i**u / b` as the source has it) evaluated in IEEE-754
binary64 (`Py/Float64.lean`), every operation rounded once.  `parseSize` (StringParsers.lean) is the
same scanner with exact decimals; `scanSize` is the scanner alone, shared by both readings.
-/
namespace Rotation
open Py Rotation.Gen

def Dec.toF64 (d : Dec) : F64.Val := F64.ofDec (decide (d.m < 0)) d.m.natAbs d.e

/-- `parse_size` as Python computes it: a double (or an infinity) -/
def parseSizeF (s : Str) : Except Err (Option F64.Val) :=
  match scanSize s with
  | .ok (some p) => .ok (some (sizeFormula F64.mul F64.div F64.ofInt p.num.toF64 p.base (p.exp : Int) p.divisor))
  | .ok none => .ok none
  | .error e => .error e

/-- the size condition a float limit builds: `tell + len > limit` compares an int with the double exactly -/
def rotationSizeF (tell msgBytes : Int) (limit : F64.Val) : Bool := F64.intGt (tell + msgBytes) limit

end Rotation
