import LoguruModel.Rotation.StringParsers
import LoguruModel.Py.Float64
/-
C19 – `parse_size` with the arithmetic Python really performs: `float(number)`, then the
regenerated formula `Gen.sizeFormula` (`s * i**u / b` as the source has it) evaluated in IEEE-754
binary64 (`Py/Float64.lean`), every operation rounded once.  `parseSize` (StringParsers.lean) is the
same scanner with exact decimals; `scanSize` is the scanner alone, shared by both readings.
-/
namespace Rotation
open Py Rotation.Gen

def Dec.toF64 (d : Dec) : F64.Val := F64.ofDec (decide (d.m < 0)) d.m.natAbs d.e

/-- `parse_size` as Python computes it: a double (or an infinity) -/
def parseSizeF (s : Str) : Except Err (Option F64.Val) :=
  match scanSize s with
  | .ok (some p) => .ok (some (sizeFormula F64.mul F64.div F64.ofInt p.num.toF64 p.base (p.exp : Int) p.divisor))
  | .ok none => .ok none
  | .error e => .error e

/-- the size condition a float limit builds: `tell + len > limit` compares an int with the double exactly -/
def rotationSizeF (tell msgBytes : Int) (limit : F64.Val) : Bool := F64.intGt (tell + msgBytes) limit

/-! #### parse_duration as Python computes it -/

def unitOfF (u : Str) : List (List Str × Bool × Nat × Int) → Option F64.Val
  | [] => none
  | (names, isFloat, mant, ex) :: r =>
    if names.contains (lower u) then some (if isFloat then F64.ofDec false mant ex else F64.ofInt (mant : Int))
    else unitOfF u r

/-- `parse_duration` with its real arithmetic: `seconds = 0; seconds += float(value) * unit` in binary64
(the unit is an `int` or a float literal of the source, regenerated as `Gen.durationUnitsF`), then
`datetime.timedelta(seconds=seconds)` (`F64.tdSeconds`) and the range check of `timedelta`.
Same scanner as `parseDuration`; result in microseconds. -/
def parseDurationF (s0 : Str) : Except Err (Option Int) :=
  let s := strip s0
  if !fullItems (s.length + 1) s then .ok none else
  let items := findItems (s.length + 1) s
  let rec go : List (Str × Str) → F64.Val → Except Err F64.Val
    | [], acc => .ok acc
    | (v, u) :: rest, acc =>
      match parseFloat v with
      | none => .error .valueError
      | some d =>
        match unitOfF u durationUnitsF with
        | none => .error .valueError
        | some unit => go rest (F64.add acc (F64.mul d.toF64 unit))
  match go items (.fin false 0 0) with
  | .error e => .error e
  | .ok total =>
    match F64.tdSeconds total with
    | .nan => .error .valueError
    | .overflow => .error .other
    | .us us =>
      if us > maxTimedeltaUs || us < -maxTimedeltaUs - 86400000000 then .error .other else .ok (some us)

end Rotation
