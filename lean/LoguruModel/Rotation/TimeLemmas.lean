import LoguruModel.Rotation.Spec
/-
C07 – every `datetime.time` that `parse_time` accepts is in range (hour 0..23, minute and second 0..59,
microsecond 0..999999), so that the meaning built from a time spelling is a VALID `Form` and the main
invariant applies to it without a side condition.
-/
namespace Rotation
open Py Rotation.Gen

theorem dig_le (c : Char) (h : isDigit c = true) : c.toNat - '0'.toNat ≤ 9 := by
  unfold isDigit at h
  simp only [Bool.and_eq_true, decide_eq_true_eq] at h
  have h2 : c.val ≤ '9'.val := h.2
  have h3 : c.val.toNat ≤ ('9' : Char).val.toNat := UInt32.le_iff_toNat_le.mp h2
  have e : ('9' : Char).val.toNat = 57 := by decide
  have e0 : '0'.toNat = 48 := by decide
  show c.val.toNat - '0'.toNat ≤ 9
  omega

theorem digitsVal_aux (d : Str) : ∀ (a : Nat), d.all isDigit = true →
    d.foldl (fun a c => a * 10 + (c.toNat - '0'.toNat)) a + 1 ≤ (a + 1) * 10 ^ d.length := by
  induction d with
  | nil => intro a _; simp
  | cons c d ih =>
    intro a h
    simp only [List.all_cons, Bool.and_eq_true] at h
    have hc := dig_le c h.1
    have := ih (a * 10 + (c.toNat - '0'.toNat)) h.2
    simp only [List.foldl_cons, List.length_cons, Nat.pow_succ]
    have h2 : (a * 10 + (c.toNat - '0'.toNat) + 1) * 10 ^ d.length ≤ ((a + 1) * 10) * 10 ^ d.length :=
      Nat.mul_le_mul_right _ (by omega)
    have h3 : (a + 1) * 10 * 10 ^ d.length = (a + 1) * (10 ^ d.length * 10) := by ac_rfl
    omega

/-- `k` decimal digits denote a number below `10^k` -/
theorem digitsVal_lt (d : Str) (h : d.all isDigit = true) : digitsVal d < 10 ^ d.length := by
  have := digitsVal_aux d 0 h
  unfold digitsVal
  omega

theorem digitsPrefix_bound (k : Nat) (s : Str) (v : Int) (r : Str) (h : digitsPrefix k s = some (v, r)) :
    0 ≤ v ∧ v < 10 ^ k := by
  unfold digitsPrefix at h
  simp only at h
  split at h
  · rename_i hc
    simp only [Bool.and_eq_true, beq_iff_eq, decide_eq_true_eq] at hc
    injection h with h
    injection h with hv _
    subst hv
    have := digitsVal_lt (s.take k) hc.1.2
    rw [hc.1.1] at this
    exact ⟨by omega, by exact_mod_cast this⟩
  · simp at h

/-- a candidate of a numeric directive is non-negative and either passed the two-digit test or is one digit -/
theorem numCands_bound (two one : Int → Bool) (s : Str) (v : Int) (r : Str) (h : (v, r) ∈ numCands two one s) :
    0 ≤ v ∧ (two v = true ∨ (v ≤ 9 ∧ one v = true)) := by
  unfold numCands at h
  rcases List.mem_append.mp h with h | h
  · split at h
    · rename_i v' r' hd
      split at h
      · rename_i ht
        simp at h; obtain ⟨rfl, rfl⟩ := h
        exact ⟨(digitsPrefix_bound 2 s v r hd).1, Or.inl ht⟩
      · simp at h
    · simp at h
  · split at h
    · rename_i v' r' hd
      split at h
      · rename_i ht
        simp at h; obtain ⟨rfl, rfl⟩ := h
        have := digitsPrefix_bound 1 s v r hd
        exact ⟨this.1, Or.inr ⟨by omega, ht⟩⟩
      · simp at h
    · simp at h

/-- the accumulator of `strptime` holds values in the ranges of their directives -/
def AccOK (a : TimeAcc) : Prop :=
  0 ≤ a.hour ∧ a.hour ≤ 23 ∧ 0 ≤ a.minute ∧ a.minute ≤ 59 ∧ 0 ≤ a.second ∧ a.second ≤ 61 ∧
  0 ≤ a.micro ∧ a.micro ≤ 999999 ∧ (∀ h, a.hour12 = some h → 1 ≤ h ∧ h ≤ 12)

theorem findSome_mem {α β : Type} (l : List α) (g : α → Option β) (b : β) (h : l.findSome? g = some b) :
    ∃ a ∈ l, g a = some b := by
  induction l with
  | nil => simp at h
  | cons x xs ih =>
    simp only [List.findSome?_cons] at h
    split at h
    · rename_i y hy
      injection h with h; subst h
      exact ⟨x, by simp, hy⟩
    · obtain ⟨a, ha, hg⟩ := ih h
      exact ⟨a, by simp [ha], hg⟩

theorem take_all_of_le_takeWhile (p : Char → Bool) : ∀ (s : Str) (k : Nat), k ≤ (s.takeWhile p).length →
    (s.take k).all p = true := by
  intro s
  induction s with
  | nil => intro k _; simp
  | cons c s ih =>
    intro k hk
    cases k with
    | zero => simp
    | succ k =>
      simp only [List.takeWhile_cons] at hk
      split at hk
      · rename_i hc
        simp only [List.length_cons] at hk
        simp [List.take_succ_cons, hc, ih k (by omega)]
      · simp at hk

/-- the value `%f` yields for `k` digits (1..6), padded to microseconds -/
theorem micro_bound (s : Str) (k : Nat) (hk1 : 1 ≤ k) (hk6 : k ≤ 6) (hk : k ≤ (s.takeWhile isDigit).length) :
    (0 : Int) ≤ (digitsVal (s.take k) : Int) * 10 ^ (6 - k) ∧ (digitsVal (s.take k) : Int) * 10 ^ (6 - k) ≤ 999999 := by
  have hall := take_all_of_le_takeWhile isDigit s k hk
  have hlt := digitsVal_lt (s.take k) hall
  have hlen : (s.take k).length ≤ k := List.length_take_le k s
  have hpow : 10 ^ (s.take k).length ≤ 10 ^ k := Nat.pow_le_pow_right (by decide) hlen
  have hd : digitsVal (s.take k) < 10 ^ k := Nat.lt_of_lt_of_le hlt hpow
  have hnat : digitsVal (s.take k) * 10 ^ (6 - k) ≤ 999999 := by
    have hk' : k = 1 ∨ k = 2 ∨ k = 3 ∨ k = 4 ∨ k = 5 ∨ k = 6 := by omega
    rcases hk' with h | h | h | h | h | h <;> subst h <;>
      simp only [Nat.reducePow, Nat.reduceSub] at hd ⊢ <;> omega
  have hcast : (digitsVal (s.take k) : Int) * 10 ^ (6 - k) = ((digitsVal (s.take k) * 10 ^ (6 - k) : Nat) : Int) := by
    push_cast; rfl
  rw [hcast]
  exact ⟨Int.natCast_nonneg _, by omega⟩

/-- matching a format keeps every field of the accumulator within the range of its directive -/
theorem matchFmt_ok (f : Nat) (fmt s : Str) (acc : TimeAcc) :
    ∀ (a : TimeAcc) (r : Str), AccOK acc → matchFmt f fmt s acc = some (a, r) → AccOK a := by
  fun_induction matchFmt f fmt s acc
  case case7 =>
    intro a r hok h
    rename_i s' acc' _ _ _ _ _ _ n ih1
    obtain ⟨el, hel, hg⟩ := findSome_mem _ _ _ h
    obtain ⟨i, hi, rfl⟩ := List.mem_map.mp hel
    have hi' : i < n := List.mem_range.mp hi
    have hn6 : n ≤ 6 := Nat.min_le_left _ _
    have hnl : n ≤ (s'.takeWhile isDigit).length := Nat.min_le_right _ _
    obtain ⟨a1, a2, a3, a4, a5, a6, a7, a8, a9⟩ := hok
    have hb := micro_bound s' (n - i) (by omega) (by omega) (by omega)
    refine ih1 _ _ _ _ ?_ hg
    exact ⟨a1, a2, a3, a4, a5, a6, hb.1, hb.2, a9⟩
  all_goals intro a r hok h
  all_goals first
    | (simp at h; done)
    | (simp only [Option.some.injEq, Prod.mk.injEq] at h; obtain ⟨rfl, _⟩ := h; exact hok)
    | (rename_i ih1; exact ih1 _ _ hok h)
    | (rename_i ih2 ih1; exact ih2 _ _ hok h)
    | (rename_i n ih1
       obtain ⟨el, hel, hg⟩ := findSome_mem _ _ _ h
       obtain ⟨i, hi, rfl⟩ := List.mem_map.mp hel
       have hi' : i < n := List.mem_range.mp hi
       obtain ⟨a1, a2, a3, a4, a5, a6, a7, a8, a9⟩ := hok
       have hb := micro_bound _ (n - i) (by omega) (by omega) (by omega)
       exact ih1 _ _ _ _ ⟨a1, a2, a3, a4, a5, a6, hb.1, hb.2, a9⟩ hg)
    | (rename_i ih1
       obtain ⟨el, hel, hg⟩ := findSome_mem _ _ _ h
       obtain ⟨⟨v, r'⟩, hv, rfl⟩ := List.mem_map.mp hel
       obtain ⟨h0, h1⟩ := numCands_bound _ _ _ v r' hv
       obtain ⟨a1, a2, a3, a4, a5, a6, a7, a8, a9⟩ := hok
       simp only [decide_eq_true_eq, Bool.and_eq_true, and_true] at h1
       refine ih1 _ _ _ _ ?_ hg
       refine ⟨?_, ?_, ?_, ?_, ?_, ?_, ?_, ?_, ?_⟩ <;> (try dsimp only) <;>
         first
           | assumption
           | omega
           | (intro hh hhe; simp only [Option.some.injEq] at hhe; subst hhe; omega))

theorem accOK_init : AccOK {} := by
  refine ⟨by decide, by decide, by decide, by decide, by decide, by decide, by decide, by decide, ?_⟩
  intro h hh; simp at hh

/-- the hour `strptime` derives from `%H`, or from `%I` and `%p` -/
def hourOf (a : TimeAcc) : Int :=
  match a.hour12 with
  | none => a.hour
  | some h => match a.pm with
    | none => h
    | some false => if h == 12 then 0 else h
    | some true => if h == 12 then 12 else h + 12

theorem hourOf_range (a : TimeAcc) (h : AccOK a) : 0 ≤ hourOf a ∧ hourOf a ≤ 23 := by
  obtain ⟨a1, a2, _, _, _, _, _, _, a9⟩ := h
  unfold hourOf
  cases h12 : a.hour12 with
  | none => exact ⟨a1, a2⟩
  | some hh =>
    have hb := a9 hh h12
    cases hpm : a.pm with
    | none => simp only; omega
    | some b =>
      cases b with
      | false => simp only; split <;> omega
      | true =>
        simp only
        split
        · omega
        · rename_i hne
          have : hh ≠ 12 := by intro he; apply hne; simp [he]
          omega

/-- `datetime.strptime(text, fmt).time()` is a time of day in range, naive -/
theorem strptimeTime_inRange (fmt text : Str) (t : TimeInit) (h : strptimeTime fmt text = some t) :
    t.InRange ∧ t.tz = none := by
  unfold strptimeTime at h
  split at h
  · rename_i a hm
    have hok := matchFmt_ok _ _ _ _ _ _ accOK_init hm
    have hh := hourOf_range a hok
    obtain ⟨a1, a2, a3, a4, a5, a6, a7, a8, a9⟩ := hok
    have h' : (if a.second > 59 then none else some (TimeInit.mk (hourOf a) a.minute a.second a.micro none)) = some t := h
    by_cases hs : a.second > 59
    · simp [hs] at h'
    · simp only [hs, if_false] at h'
      injection h' with h'
      subst h'
      have hs' : a.second ≤ 59 := by omega
      exact ⟨⟨hh.1, hh.2, a3, a4, a5, hs', a7, a8⟩, rfl⟩
  · simp at h

theorem parseTime_inRange (s : Str) (t : TimeInit) (h : parseTime s = .ok (some t)) : t.InRange ∧ t.tz = none := by
  unfold parseTime at h
  simp only at h
  split at h
  · simp at h
  · split at h
    · rename_i t' hf
      injection h with h; injection h with h; subst h
      obtain ⟨f, _, hf'⟩ := findSome_mem _ _ _ hf
      exact strptimeTime_inRange f _ _ hf'
    · simp at h

theorem lookupStr_mem {α : Type} (k : Str) : ∀ (l : List (Str × α)) (v : α), lookupStr k l = some v → v ∈ l.map Prod.snd := by
  intro l
  induction l with
  | nil => intro v h; simp [lookupStr] at h
  | cons p l ih =>
    intro v h
    obtain ⟨a, b⟩ := p
    simp only [lookupStr] at h
    split at h
    · injection h with h; subst h; simp
    · simp [ih v h]

/-- `parse_day` yields a weekday number 0..6 (names table and the `w<N>` range test, both regenerated) -/
theorem parseDay_range (s : Str) (d : Int) (h : parseDay s = .ok (some d)) : 0 ≤ d ∧ d ≤ 6 := by
  unfold parseDay at h
  simp only at h
  split at h
  · rename_i d' hl
    injection h with h; injection h with h; subst h
    have hm := lookupStr_mem _ _ _ hl
    have ht : weekdayNames.map Prod.snd = [0, 1, 2, 3, 4, 5, 6] := by decide
    rw [ht] at hm
    simp at hm
    omega
  · split at h
    · split at h
      · split at h
        · rename_i hr
          injection h with h; injection h with h; subst h
          unfold weekdayInRange at hr
          simp only [Bool.and_eq_true, decide_eq_true_eq] at hr
          omega
        · simp at h
      · simp at h
    · simp at h

/-- whatever `parse_daytime` returns is in range: weekday 0..6, time of day valid and naive -/
theorem parseDaytime_inRange (s : Str) (pd : Option Int) (pt : Option TimeInit)
    (h : parseDaytime s = .ok (some (pd, pt))) :
    (∀ d, pd = some d → 0 ≤ d ∧ d ≤ 6) ∧ (∀ t, pt = some t → t.InRange ∧ t.tz = none) := by
  unfold parseDaytime at h
  simp only at h
  split at h
  · simp at h
  · rename_i pd' hpd
    split at h
    · simp at h
    · split at h
      · simp at h
      · rename_i pt' hpt
        split at h
        · simp at h
        · split at h
          · simp at h
          · injection h with h; injection h with h; injection h with h1 h2
            subst h1; subst h2
            exact ⟨fun d hd => parseDay_range _ d (by rw [hpd, hd]), fun t ht => parseTime_inRange _ t (by rw [hpt, ht])⟩

end Rotation
