import LoguruModel.Json.Base
import LoguruModel.Generated.Json
/-
C14 – model of `Handler._serialize_record` / the serialize branch of `Handler.emit`:
`json.dumps(serializable, default=str, ensure_ascii=False) + "\n"`.

* `toJson`  – what json's encoder does with a Python value tree (`default=` hook for objects it has
  no rule for; the hook's result is a `str`, encoded as a JSON string).
* `dumps`   – the text json's encoder writes for a JSON value tree, Python's default separators
  `", "` / `": "`, insertion order, `[]` / `{}` for empty containers.
* `serializeRecord`, `emit` – defined over the GENERATED dict literal and keyword arguments.
* `loads`   – a strict JSON parser (Python's `NaN`/`Infinity`/`-Infinity` extension included),
  used to state "parsed back".
-/
namespace Json
open Py Py.JsonStr

/-! ### `json.dumps` on a JSON value tree -/
mutual
def dumps (ea : Bool) : JVal → Str
  | .null => "null".toList
  | .bool b => if b then "true".toList else "false".toList
  | .int i => fmtD i
  | .float t => t.tok
  | .str s => encodeStr ea s
  | .arr xs => '[' :: dumpsElems ea xs
  | .obj ms => '{' :: dumpsMembers ea ms
/-- after `[` -/
def dumpsElems (ea : Bool) : JList → Str
  | .nil => [']']
  | .cons v t => dumps ea v ++ dumpsRest ea t
/-- after an element -/
def dumpsRest (ea : Bool) : JList → Str
  | .nil => [']']
  | .cons v t => ',' :: ' ' :: (dumps ea v ++ dumpsRest ea t)
/-- after `{` -/
def dumpsMembers (ea : Bool) : JMembers → Str
  | .nil => ['}']
  | .cons k v t => encodeStr ea k ++ (':' :: ' ' :: (dumps ea v ++ dumpsMRest ea t))
/-- after a member -/
def dumpsMRest (ea : Bool) : JMembers → Str
  | .nil => ['}']
  | .cons k v t => ',' :: ' ' :: (encodeStr ea k ++ (':' :: ' ' :: (dumps ea v ++ dumpsMRest ea t)))
end

/-! ### the encoder's view of a Python value: `default=` hook -/
mutual
/-- `useDefault = true` is `default=str`: an object without an encoding rule becomes the JSON string
`str(obj)`; the call fails exactly when `str(obj)` fails.  Without the hook it is a `TypeError`. -/
def toJson (useDefault : Bool) (strOf : Nat → Except Err Str) : PyVal → Except Err JVal
  | .none => .ok .null
  | .bool b => .ok (.bool b)
  | .int i => .ok (.int i)
  | .float t => .ok (.float t)
  | .str s => .ok (.str s)
  | .list xs =>
    match toJsonList useDefault strOf xs with
    | .ok ys => .ok (.arr ys)
    | .error e => .error e
  | .dict ms =>
    match toJsonMembers useDefault strOf ms with
    | .ok ys => .ok (.obj ys)
    | .error e => .error e
  | .opaque o =>
    if useDefault then
      match strOf o with
      | .ok s => .ok (.str s)
      | .error e => .error e
    else .error .typeError
def toJsonList (useDefault : Bool) (strOf : Nat → Except Err Str) : PyList → Except Err JList
  | .nil => .ok .nil
  | .cons v t =>
    match toJson useDefault strOf v with
    | .error e => .error e
    | .ok j =>
      match toJsonList useDefault strOf t with
      | .error e => .error e
      | .ok js => .ok (.cons j js)
def toJsonMembers (useDefault : Bool) (strOf : Nat → Except Err Str) : PyMembers → Except Err JMembers
  | .nil => .ok .nil
  | .cons k v t =>
    match toJson useDefault strOf v with
    | .error e => .error e
    | .ok j =>
      match toJsonMembers useDefault strOf t with
      | .error e => .error e
      | .ok js => .ok (.cons k j js)
end

/-! the opaque objects of a value, in encoding order -/
mutual
def opaques : PyVal → List Nat
  | .list xs => opaquesList xs
  | .dict ms => opaquesMembers ms
  | .opaque o => [o]
  | _ => []
def opaquesList : PyList → List Nat
  | .nil => []
  | .cons v t => opaques v ++ opaquesList t
def opaquesMembers : PyMembers → List Nat
  | .nil => []
  | .cons _ v t => opaques v ++ opaquesMembers t
end

/-! ### reading a path (used to state "mirrors the record") -/
def PyMembers.find (k : Str) : PyMembers → Option PyVal
  | .nil => none
  | .cons k' v t => if k' = k then some v else PyMembers.find k t

def PyMembers.keys : PyMembers → List Str
  | .nil => []
  | .cons k _ t => k :: PyMembers.keys t

def PyVal.get : List Str → PyVal → Option PyVal
  | [], v => some v
  | k :: ks, .dict ms =>
    match ms.find k with
    | some v => PyVal.get ks v
    | Option.none => Option.none
  | _ :: _, _ => Option.none

def JMembers.find (k : Str) : JMembers → Option JVal
  | .nil => none
  | .cons k' v t => if k' = k then some v else JMembers.find k t

def JMembers.keys : JMembers → List Str
  | .nil => []
  | .cons k _ t => k :: JMembers.keys t

def JVal.get : List Str → JVal → Option JVal
  | [], v => some v
  | k :: ks, .obj ms =>
    match ms.find k with
    | some v => JVal.get ks v
    | none => none
  | _ :: _, _ => none

/-- the keys of the object found at a path -/
def JVal.keysAt (p : List Str) (j : JVal) : Option (List Str) :=
  match j.get p with
  | some (.obj ms) => some ms.keys
  | _ => none

/-! ### `_serialize_record` and the serialize branch of `emit` -/

/-- the local `exception` after the `if exception is not None:` statement -/
def exceptionValue (r : Record) : PyVal :=
  match r.exception with
  | none => .none
  | some e => Gen.exceptionSummary e

/-- the Python object handed to `json.dumps` -/
def serializable (text : Str) (r : Record) : PyVal :=
  Gen.serializable (.str text) r (exceptionValue r)

/-- `Handler._serialize_record(text, record)` -/
def serializeRecord (strOf : Nat → Except Err Str) (text : Str) (r : Record) : Except Err Str :=
  match toJson Gen.defaultIsStr strOf (serializable text r) with
  | .ok j => .ok (dumps Gen.ensureAscii j ++ Gen.suffix)
  | .error e => .error e

/-- the tail of `Handler.emit`: `formatted` is the text the format produced (plain unless the handler
colourises), serialisation wraps it last. -/
def emit (serialize : Bool) (strOf : Nat → Except Err Str) (formatted : Str) (r : Record) :
    Except Err Str :=
  if serialize && Gen.serializeAfterFormatting then serializeRecord strOf formatted r else .ok formatted

/-- a long-lived handler fed a history of (formatted text, record) pairs.  `_serialize_record` is a
static function of its two arguments (`Gen.serializeIsPure`, checked on the AST), so the i-th line
depends on the i-th pair only – level updates, earlier records, other handlers cannot show. -/
def emitHistory (strOf : Nat → Except Err Str) (h : List (Str × Record)) : List (Except Err Str) :=
  if Gen.serializeIsPure then h.map (fun p => emit true strOf p.1 p.2) else []

/-- `Logger.add`: the handler's `colorize` flag; `sinkWants` is what the sink-type dispatch decides
when the flag is still `None` there. -/
def handlerColorize (colorize : Option Bool) (serialize : Bool) (sinkWants : Bool) : Bool :=
  match Gen.colorizeDefault colorize serialize with
  | some b => b
  | none => sinkWants

/-! ### a JSON parser -/

def floatNaN : FloatTok := ⟨nanTok, by decide⟩
def floatInf : FloatTok := ⟨infTok, by decide⟩
def floatNegInf : FloatTok := ⟨negInfTok, by decide⟩

/-- `int(tok)` for an int-shaped token -/
def parseIntTok (s : Str) : Int :=
  match s with
  | '-' :: t => - (Nat.ofDigitChars 10 t 0 : Int)
  | t => (Nat.ofDigitChars 10 t 0 : Int)

def dropPrefix? : Str → Str → Option Str
  | [], s => some s
  | _ :: _, [] => none
  | p :: ps, c :: cs => if p = c then dropPrefix? ps cs else none

/-- literals and numbers.  The number token is the maximal run of number characters; it is an int
if it is `-?digits`, a float if it has the JSON number shape with a fraction or an exponent. -/
def parseAtom (s : Str) : Option (JVal × Str) :=
  let tok := s.takeWhile isNumChar
  if tok = [] ∨ tok = ['-'] then
    match dropPrefix? "null".toList s with
    | some r => some (.null, r)
    | none =>
    match dropPrefix? "true".toList s with
    | some r => some (.bool true, r)
    | none =>
    match dropPrefix? "false".toList s with
    | some r => some (.bool false, r)
    | none =>
    match dropPrefix? nanTok s with
    | some r => some (.float floatNaN, r)
    | none =>
    match dropPrefix? infTok s with
    | some r => some (.float floatInf, r)
    | none =>
    match dropPrefix? negInfTok s with
    | some r => some (.float floatNegInf, r)
    | none => none
  else if isIntShaped tok then some (.int (parseIntTok tok), s.dropWhile isNumChar)
  else if h : floatTokOK tok = true then some (.float ⟨tok, h⟩, s.dropWhile isNumChar)
  else none

/-- one optional space (Python writes `", "` and `": "`; the compact separators are accepted too) -/
def dropSpace : Str → Str
  | ' ' :: r => r
  | r => r

mutual
def parseVal : Nat → Str → Option (JVal × Str)
  | 0, _ => none
  | f + 1, s =>
    match s with
    | '"' :: r =>
      match decodeBody r with
      | some (x, r') => some (.str x, r')
      | none => none
    | '[' :: r =>
      match parseElems f r with
      | some (xs, r') => some (.arr xs, r')
      | none => none
    | '{' :: r =>
      match parseMembers f r with
      | some (ms, r') => some (.obj ms, r')
      | none => none
    | _ => parseAtom s
/-- after `[` -/
def parseElems : Nat → Str → Option (JList × Str)
  | 0, _ => none
  | f + 1, s =>
    match s with
    | ']' :: r => some (.nil, r)
    | _ =>
      match parseVal f s with
      | none => none
      | some (v, r) =>
        match parseRest f r with
        | none => none
        | some (t, r') => some (.cons v t, r')
/-- after an element -/
def parseRest : Nat → Str → Option (JList × Str)
  | 0, _ => none
  | f + 1, s =>
    match s with
    | ']' :: r => some (.nil, r)
    | ',' :: r =>
      match parseVal f (dropSpace r) with
      | none => none
      | some (v, r1) =>
        match parseRest f r1 with
        | none => none
        | some (t, r2) => some (.cons v t, r2)
    | _ => none
/-- after `{` -/
def parseMembers : Nat → Str → Option (JMembers × Str)
  | 0, _ => none
  | f + 1, s =>
    match s with
    | '}' :: r => some (.nil, r)
    | '"' :: r =>
      match decodeBody r with
      | none => none
      | some (k, r1) =>
        match r1 with
        | ':' :: r2 =>
          match parseVal f (dropSpace r2) with
          | none => none
          | some (v, r3) =>
            match parseMRest f r3 with
            | none => none
            | some (t, r4) => some (.cons k v t, r4)
        | _ => none
    | _ => none
/-- after a member -/
def parseMRest : Nat → Str → Option (JMembers × Str)
  | 0, _ => none
  | f + 1, s =>
    match s with
    | '}' :: r => some (.nil, r)
    | ',' :: r =>
      match dropSpace r with
      | '"' :: r0 =>
        match decodeBody r0 with
        | none => none
        | some (k, r1) =>
          match r1 with
          | ':' :: r2 =>
            match parseVal f (dropSpace r2) with
            | none => none
            | some (v, r3) =>
              match parseMRest f r3 with
              | none => none
              | some (t, r4) => some (.cons k v t, r4)
          | _ => none
      | _ => none
    | _ => none
end

/-- `json.loads(s)`: one value, nothing after it -/
def loads (s : Str) : Option JVal :=
  match parseVal (s.length + 1) s with
  | some (v, []) => some v
  | _ => none

end Json
