import LoguruModel.Json.Base
import LoguruModel.Generated.Json
/-
C14 – model of `Handler._serialize_record` / the serialize branch of `Handler.emit`:
`json.dumps(serializable, default=str, ensure_ascii=False) + "\n"`.

* `toJson`  – what json's encoder does with a Python value tree (`default=` hook for objects it has
  no rule for; the hook's result is a `str`, encoded as a JSON string).
* `dumps`   – the text json's encoder writes for a JSON value tree, Python's default separators
  `", "` / `": "`, insertion order, `[]` / `{}` for empty containers.
* `serializeRecord`, `emit` – defined over the GENERATED dict literal and keyword arguments.
* `loads`   – a strict JSON parser (Python's `NaN`/`Infinity`/`-Infinity` extension included),
  used to state "parsed back".
-/
namespace Json
open Py Py.JsonStr

/-! ### `json.dumps` on a JSON value tree -/
mutual
def dumps (ea : Bool) : JVal → Str
  | .null => "null".toList
  | .bool b => if b then "true".toList else "false".toList
  | .int i => fmtD i
  | .float t => t.tok
  | .str s => encodeStr ea s
  | .arr xs => '[' :: dumpsElems ea xs
  | .obj ms => '{' :: dumpsMembers ea ms
/-- after `[` -/
def dumpsElems (ea : Bool) : JList → Str
  | .nil => [']']
  | .cons v t => dumps ea v ++ dumpsRest ea t
/-- after an element -/
def dumpsRest (ea : Bool) : JList → Str
  | .nil => [']']
  | .cons v t => ',' :: ' ' :: (dumps ea v ++ dumpsRest ea t)
/-- after `{` -/
def dumpsMembers (ea : Bool) : JMembers → Str
  | .nil => ['}']
  | .cons k v t => encodeStr ea k ++ (':' :: ' ' :: (dumps ea v ++ dumpsMRest ea t))
/-- after a member -/
def dumpsMRest (ea : Bool) : JMembers → Str
  | .nil => ['}']
  | .cons k v t => ',' :: ' ' :: (encodeStr ea k ++ (':' :: ' ' :: (dumps ea v ++ dumpsMRest ea t)))
end

/-! ### dictionary keys, `sort_keys`, `skipkeys`, `allow_nan` -/

/-- the text json writes for a key (`none` for a key it has no rule for) -/
def PyKey.text : PyKey → Option Str
  | .str s => some s
  | .int i => some (fmtD i)
  | .float t => some t.tok
  | .bool b => some (if b then "true".toList else "false".toList)
  | .none => some "null".toList
  | .other _ => Option.none

inductive KeyRes where
  | key (s : Str)
  | skip
  | fail (e : Err)

/-- `encoder_listencode_dict` on one key: `str` / `float` (refused with `ValueError` when non-finite and
`allow_nan=False`) / `True False None` / `int`; anything else is skipped under `skipkeys=True` and a
`TypeError` otherwise.  `default=` plays no role here. -/
def coerceKey (o : Opts) : PyKey → KeyRes
  | .str s => .key s
  | .int i => .key (fmtD i)
  | .float t => if o.allowNan || !t.nonFinite then .key t.tok else .fail .valueError
  | .bool b => .key (if b then "true".toList else "false".toList)
  | .none => .key "null".toList
  | .other _ => if o.skipKeys then .skip else .fail .typeError

/-- comparability class of a key under `<`: `str` | numbers (`int`, `float`, `bool`) | `None` | other -/
def PyKey.cls : PyKey → Nat
  | .str _ => 0
  | .int _ => 1
  | .float _ => 1
  | .bool _ => 1
  | .none => 2
  | .other _ => 3

def PyMembers.keyList : PyMembers → List PyKey
  | .nil => []
  | .cons k _ t => k :: PyMembers.keyList t

/-- `sorted(dct.items())` compares keys with `<`: with keys of two different classes some comparison
crosses the classes and raises `TypeError` (`'<' not supported between instances of 'str' and 'int'`);
a dict with fewer than two keys is never compared.  (Keys of a real dict are pairwise distinct.) -/
def sortFails (ms : PyMembers) : Bool :=
  match ms.keyList with
  | [] => false
  | k :: ks => ks.any (fun k' => k'.cls != k.cls)

/-- two or more number keys: their order needs numeric comparison of float tokens, which the model
does not carry (`sort_keys` is off in loguru; the branch exists for the refuted alternative only) -/
def sortUnmodelled (ms : PyMembers) : Bool :=
  match ms.keyList with
  | [] => false
  | k :: ks => !ks.isEmpty && k.cls == 1

/-- what `sort_keys=True` does before any member is encoded -/
def sortOutcome (o : Opts) (ms : PyMembers) : Option Err :=
  if o.sortKeys then
    if sortFails ms then some .typeError
    else if sortUnmodelled ms then some .other
    else Option.none
  else Option.none

/-- stable insertion sort of an object's members by key text (code point order = Python's `str` order);
exact for `str` keys, where the JSON key is the Python key -/
def JMembers.insertByKey (k : Str) (v : JVal) : JMembers → JMembers
  | .nil => .cons k v .nil
  | .cons k' v' t => if k' < k then .cons k' v' (JMembers.insertByKey k v t) else .cons k v (.cons k' v' t)

def JMembers.sortByKey : JMembers → JMembers
  | .nil => .nil
  | .cons k v t => JMembers.insertByKey k v (JMembers.sortByKey t)

/-! ### the encoder's view of a Python value: `default=` hook, key coercion -/
mutual
/-- `o.useDefault = true` is `default=str`: an object without an encoding rule becomes the JSON string
`str(obj)`; the call fails exactly when `str(obj)` fails.  Without the hook it is a `TypeError`. -/
def toJson (o : Opts) (strOf : Nat → Except Err Str) : PyVal → Except Err JVal
  | .none => .ok .null
  | .bool b => .ok (.bool b)
  | .int i => .ok (.int i)
  | .float t => if o.allowNan || !t.nonFinite then .ok (.float t) else .error .valueError
  | .str s => .ok (.str s)
  | .list xs =>
    match toJsonList o strOf xs with
    | .ok ys => .ok (.arr ys)
    | .error e => .error e
  | .dict ms =>
    match sortOutcome o ms with
    | some e => .error e
    | Option.none =>
      match toJsonMembers o strOf ms with
      | .ok ys => .ok (.obj (if o.sortKeys then ys.sortByKey else ys))
      | .error e => .error e
  | .opaque x =>
    if o.useDefault then
      match strOf x with
      | .ok s => .ok (.str s)
      | .error e => .error e
    else .error .typeError
def toJsonList (o : Opts) (strOf : Nat → Except Err Str) : PyList → Except Err JList
  | .nil => .ok .nil
  | .cons v t =>
    match toJson o strOf v with
    | .error e => .error e
    | .ok j =>
      match toJsonList o strOf t with
      | .error e => .error e
      | .ok js => .ok (.cons j js)
/-- members in insertion order; per member the key is coerced first, then the value is encoded -/
def toJsonMembers (o : Opts) (strOf : Nat → Except Err Str) : PyMembers → Except Err JMembers
  | .nil => .ok .nil
  | .cons k v t =>
    match coerceKey o k with
    | .fail e => .error e
    | .skip => toJsonMembers o strOf t
    | .key ks =>
      match toJson o strOf v with
      | .error e => .error e
      | .ok j =>
        match toJsonMembers o strOf t with
        | .error e => .error e
        | .ok js => .ok (.cons ks j js)
end

/-! the opaque objects of a value, in encoding order -/
mutual
def opaques : PyVal → List Nat
  | .list xs => opaquesList xs
  | .dict ms => opaquesMembers ms
  | .opaque o => [o]
  | _ => []
def opaquesList : PyList → List Nat
  | .nil => []
  | .cons v t => opaques v ++ opaquesList t
def opaquesMembers : PyMembers → List Nat
  | .nil => []
  | .cons _ v t => opaques v ++ opaquesMembers t
end

/-- the id of a key json has no rule for -/
def PyKey.bad : PyKey → List Nat
  | .other n => [n]
  | _ => []

/-! the dictionary keys of a value (at any depth) that json has no rule for -/
mutual
def badKeys : PyVal → List Nat
  | .list xs => badKeysList xs
  | .dict ms => badKeysMembers ms
  | _ => []
def badKeysList : PyList → List Nat
  | .nil => []
  | .cons v t => badKeys v ++ badKeysList t
def badKeysMembers : PyMembers → List Nat
  | .nil => []
  | .cons k v t => k.bad ++ (badKeys v ++ badKeysMembers t)
end

/-! ### reading a path (used to state "mirrors the record") -/
/-- the first member whose JSON key text is `k` -/
def PyMembers.find (k : Str) : PyMembers → Option PyVal
  | .nil => none
  | .cons k' v t => if k'.text = some k then some v else PyMembers.find k t

/-- the JSON key texts, in order (a key without a rule has none) -/
def PyMembers.keys : PyMembers → List Str
  | .nil => []
  | .cons k _ t =>
    match k.text with
    | some s => s :: PyMembers.keys t
    | Option.none => PyMembers.keys t

def PyMembers.length : PyMembers → Nat
  | .nil => 0
  | .cons _ _ t => PyMembers.length t + 1

def PyVal.get : List Str → PyVal → Option PyVal
  | [], v => some v
  | k :: ks, .dict ms =>
    match ms.find k with
    | some v => PyVal.get ks v
    | Option.none => Option.none
  | _ :: _, _ => Option.none

def JMembers.find (k : Str) : JMembers → Option JVal
  | .nil => none
  | .cons k' v t => if k' = k then some v else JMembers.find k t

def JMembers.keys : JMembers → List Str
  | .nil => []
  | .cons k _ t => k :: JMembers.keys t

def JVal.get : List Str → JVal → Option JVal
  | [], v => some v
  | k :: ks, .obj ms =>
    match ms.find k with
    | some v => JVal.get ks v
    | none => none
  | _ :: _, _ => none

/-- the keys of the object found at a path -/
def JVal.keysAt (p : List Str) (j : JVal) : Option (List Str) :=
  match j.get p with
  | some (.obj ms) => some ms.keys
  | _ => none

/-! ### `_serialize_record` and the serialize branch of `emit` -/

/-- the local `exception` after the `if exception is not None:` statement -/
def exceptionValue (r : Record) : PyVal :=
  match r.exception with
  | none => .none
  | some e => Gen.exceptionSummary e

/-- the Python object handed to `json.dumps` -/
def serializable (text : Str) (r : Record) : PyVal :=
  Gen.serializable (.str text) r (exceptionValue r)

/-- the keyword arguments of the `json.dumps` call, as REGENERATED from the source -/
def genOpts : Opts := ⟨Gen.defaultIsStr, Gen.sortKeys, Gen.skipKeys, Gen.allowNan⟩

/-- `Handler._serialize_record(text, record)` -/
def serializeRecord (strOf : Nat → Except Err Str) (text : Str) (r : Record) : Except Err Str :=
  match toJson genOpts strOf (serializable text r) with
  | .ok j => .ok (dumps Gen.ensureAscii j ++ Gen.suffix)
  | .error e => .error e

/-- the tail of `Handler.emit`: `formatted` is the text the format produced (plain unless the handler
colourises), serialisation wraps it last. -/
def emit (serialize : Bool) (strOf : Nat → Except Err Str) (formatted : Str) (r : Record) :
    Except Err Str :=
  if serialize && Gen.serializeAfterFormatting then serializeRecord strOf formatted r else .ok formatted

/-- what one `Handler.emit` call comes to, seen from outside: the sink was handed one message, or the
error went back into the logging call, or it was reported on stderr and the record dropped -/
inductive Outcome where
  | wrote (s : Str)
  | raised (e : Err)
  | reported (e : Err)
  deriving DecidableEq

/-- `Handler.emit` with its `try … except Exception:` clause (REGENERATED `Gen.onError`): `catchErr` is the
handler's `catch=` argument (`ErrorInterceptor.should_catch()`) -/
def handlerEmit (catchErr serialize : Bool) (strOf : Nat → Except Err Str) (formatted : Str) (r : Record) : Outcome :=
  match emit serialize strOf formatted r with
  | .ok s => .wrote s
  | .error e =>
    match Gen.onError catchErr with
    | .reraise => .raised e
    | .report => .reported e

/-- the messages a sink has received after a history of calls on one handler (oldest first) -/
def sinkLines (catchErr serialize : Bool) (strOf : Nat → Except Err Str) (h : List (Str × Record)) : List Str :=
  h.filterMap (fun p => match handlerEmit catchErr serialize strOf p.1 p.2 with | .wrote s => some s | _ => none)

/-- one serialising handler inside a logging call that is dispatched to several handlers SHARING the record:
`pre` is what its filter and its dynamic format function do to the record before it is formatted, `fmt` the
text its format produces from the record it then sees, `post` what its sink does to `message.record` -/
structure HandlerSpec where
  pre : Record → Record
  fmt : Record → Str
  post : Record → Record

/-- `Logger._log`: `for handler in core.handlers.values(): handler.emit(record, …)` – the handlers get the same
record object one after the other; each serialises what IT sees.  `_serialize_record` keeps nothing between
two calls (`Gen.serializeIsPure`). -/
def dispatch (strOf : Nat → Except Err Str) : List HandlerSpec → Record → List (Except Err Str)
  | [], _ => []
  | h :: t, r =>
    if Gen.serializeIsPure then emit true strOf (h.fmt (h.pre r)) (h.pre r) :: dispatch strOf t (h.post (h.pre r))
    else []

/-- the record as the i-th handler sees it when it formats and serialises -/
def seenBy : List HandlerSpec → Record → Nat → Option Record
  | [], _, _ => none
  | h :: _, r, 0 => some (h.pre r)
  | h :: t, r, i + 1 => seenBy t (h.post (h.pre r)) i

/-- what a line-by-line reader (`for line in file`, `readline()`; NDJSON consumers) makes of a text without
CR: the maximal chunks ending in LF, plus a last unterminated chunk if there is one.  `cur` is the current
chunk, reversed. -/
def readLinesAux (cur : Str) : Str → List Str
  | [] => if cur = [] then [] else [cur.reverse]
  | c :: t => if c = '\n' then (c :: cur).reverse :: readLinesAux [] t else readLinesAux (c :: cur) t

def readLines (s : Str) : List Str := readLinesAux [] s

/-- a long-lived handler fed a history of (formatted text, record) pairs.  `_serialize_record` is a
static function of its two arguments (`Gen.serializeIsPure`, checked on the AST), so the i-th line
depends on the i-th pair only – level updates, earlier records, other handlers cannot show. -/
def emitHistory (strOf : Nat → Except Err Str) (h : List (Str × Record)) : List (Except Err Str) :=
  if Gen.serializeIsPure then h.map (fun p => emit true strOf p.1 p.2) else []

/-- `Logger.add`: the handler's `colorize` flag; `sinkWants` is what the sink-type dispatch decides
when the flag is still `None` there. -/
def handlerColorize (colorize : Option Bool) (serialize : Bool) (sinkWants : Bool) : Bool :=
  match Gen.colorizeDefault colorize serialize with
  | some b => b
  | none => sinkWants

/-! ### a JSON parser -/

def floatNaN : FloatTok := ⟨nanTok, by decide⟩
def floatInf : FloatTok := ⟨infTok, by decide⟩
def floatNegInf : FloatTok := ⟨negInfTok, by decide⟩

/-- `int(tok)` for an int-shaped token -/
def parseIntTok (s : Str) : Int :=
  match s with
  | '-' :: t => - (Nat.ofDigitChars 10 t 0 : Int)
  | t => (Nat.ofDigitChars 10 t 0 : Int)

def dropPrefix? : Str → Str → Option Str
  | [], s => some s
  | _ :: _, [] => none
  | p :: ps, c :: cs => if p = c then dropPrefix? ps cs else none

/-- literals and numbers.  The number token is the maximal run of number characters; it is an int
if it is `-?digits`, a float if it has the JSON number shape with a fraction or an exponent. -/
def parseAtom (s : Str) : Option (JVal × Str) :=
  let tok := s.takeWhile isNumChar
  if tok = [] ∨ tok = ['-'] then
    match dropPrefix? "null".toList s with
    | some r => some (.null, r)
    | none =>
    match dropPrefix? "true".toList s with
    | some r => some (.bool true, r)
    | none =>
    match dropPrefix? "false".toList s with
    | some r => some (.bool false, r)
    | none =>
    match dropPrefix? nanTok s with
    | some r => some (.float floatNaN, r)
    | none =>
    match dropPrefix? infTok s with
    | some r => some (.float floatInf, r)
    | none =>
    match dropPrefix? negInfTok s with
    | some r => some (.float floatNegInf, r)
    | none => none
  else if isIntShaped tok then some (.int (parseIntTok tok), s.dropWhile isNumChar)
  else if h : floatTokOK tok = true then some (.float ⟨tok, h⟩, s.dropWhile isNumChar)
  else none

/-- one optional space (Python writes `", "` and `": "`; the compact separators are accepted too) -/
def dropSpace : Str → Str
  | ' ' :: r => r
  | r => r

mutual
def parseVal : Nat → Str → Option (JVal × Str)
  | 0, _ => none
  | f + 1, s =>
    match s with
    | '"' :: r =>
      match decodeBody r with
      | some (x, r') => some (.str x, r')
      | none => none
    | '[' :: r =>
      match parseElems f r with
      | some (xs, r') => some (.arr xs, r')
      | none => none
    | '{' :: r =>
      match parseMembers f r with
      | some (ms, r') => some (.obj ms, r')
      | none => none
    | _ => parseAtom s
/-- after `[` -/
def parseElems : Nat → Str → Option (JList × Str)
  | 0, _ => none
  | f + 1, s =>
    match s with
    | ']' :: r => some (.nil, r)
    | _ =>
      match parseVal f s with
      | none => none
      | some (v, r) =>
        match parseRest f r with
        | none => none
        | some (t, r') => some (.cons v t, r')
/-- after an element -/
def parseRest : Nat → Str → Option (JList × Str)
  | 0, _ => none
  | f + 1, s =>
    match s with
    | ']' :: r => some (.nil, r)
    | ',' :: r =>
      match parseVal f (dropSpace r) with
      | none => none
      | some (v, r1) =>
        match parseRest f r1 with
        | none => none
        | some (t, r2) => some (.cons v t, r2)
    | _ => none
/-- after `{` -/
def parseMembers : Nat → Str → Option (JMembers × Str)
  | 0, _ => none
  | f + 1, s =>
    match s with
    | '}' :: r => some (.nil, r)
    | '"' :: r =>
      match decodeBody r with
      | none => none
      | some (k, r1) =>
        match r1 with
        | ':' :: r2 =>
          match parseVal f (dropSpace r2) with
          | none => none
          | some (v, r3) =>
            match parseMRest f r3 with
            | none => none
            | some (t, r4) => some (.cons k v t, r4)
        | _ => none
    | _ => none
/-- after a member -/
def parseMRest : Nat → Str → Option (JMembers × Str)
  | 0, _ => none
  | f + 1, s =>
    match s with
    | '}' :: r => some (.nil, r)
    | ',' :: r =>
      match dropSpace r with
      | '"' :: r0 =>
        match decodeBody r0 with
        | none => none
        | some (k, r1) =>
          match r1 with
          | ':' :: r2 =>
            match parseVal f (dropSpace r2) with
            | none => none
            | some (v, r3) =>
              match parseMRest f r3 with
              | none => none
              | some (t, r4) => some (.cons k v t, r4)
          | _ => none
      | _ => none
    | _ => none
end

/-- `json.loads(s)`: one value, nothing after it -/
def loads (s : Str) : Option JVal :=
  match parseVal (s.length + 1) s with
  | some (v, []) => some v
  | _ => none

end Json
