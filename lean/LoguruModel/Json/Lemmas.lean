import LoguruModel.Json.Model
/-
C14 – helper lemmas for Props/C14.lean (string escaping round trip, parser/printer inversion).
-/
namespace Py.JsonStr
open Py

/-- the predicate "is not a raw line break" (LF / CR; see DESIGN §4 C14 for the reading) -/
def NoBreak (s : Str) : Prop := ∀ x ∈ s, x ≠ '\n' ∧ x ≠ '\r'

instance (s : Str) : Decidable (NoBreak s) := by unfold NoBreak; exact inferInstance

theorem NoBreak.nil : NoBreak [] := by intro x h; cases h

theorem NoBreak.append {a b : Str} (ha : NoBreak a) (hb : NoBreak b) : NoBreak (a ++ b) := by
  intro x h
  rcases List.mem_append.1 h with h | h
  · exact ha x h
  · exact hb x h

theorem NoBreak.cons {c : Char} {a : Str} (hc : c ≠ '\n' ∧ c ≠ '\r') (ha : NoBreak a) : NoBreak (c :: a) := by
  intro x h
  rcases List.mem_cons.1 h with h | h
  · subst h; exact hc
  · exact ha x h

theorem NoBreak.of_append_left {a b : Str} (h : NoBreak (a ++ b)) : NoBreak a :=
  fun x hx => h x (List.mem_append_left _ hx)

theorem hexDig_noBreak (n : Nat) : hexDig n ≠ '\n' ∧ hexDig n ≠ '\r' :=
  ⟨Nat.digitChar_ne _ (by decide), Nat.digitChar_ne _ (by decide)⟩

theorem hex4_noBreak (n : Nat) : NoBreak ('\\' :: 'u' :: hex4 n) := by
  intro x h
  simp only [hex4, List.mem_cons, List.not_mem_nil, or_false] at h
  rcases h with h | h | h | h | h | h <;> subst h
  · decide
  · decide
  all_goals exact hexDig_noBreak _

theorem ge32_noBreak {c : Char} (h : ¬ c.toNat < 0x20) : c ≠ '\n' ∧ c ≠ '\r' := by
  constructor <;> (intro e; subst e; exact h (by decide))

theorem escVerbatim_noBreak (c : Char) : NoBreak (escVerbatim c) := by
  unfold escVerbatim
  repeat' split
  any_goals (intro x h; simp only [List.mem_cons, List.not_mem_nil, or_false] at h; rcases h with h | h <;> subst h <;> decide)
  · exact hex4_noBreak _
  · rename_i h
    intro x hx
    simp only [List.mem_cons, List.not_mem_nil, or_false] at hx
    subst hx; exact ge32_noBreak h

theorem escAscii_noBreak (c : Char) : NoBreak (escAscii c) := by
  unfold escAscii
  split
  · exact escVerbatim_noBreak c
  · rename_i h
    have h32 : ¬ c.toNat < 0x20 := fun h' => h (Or.inl h')
    split
    · intro x hx
      simp only [List.mem_cons, List.not_mem_nil, or_false] at hx
      subst hx; exact ge32_noBreak h32
    · split
      · exact hex4_noBreak _
      · exact NoBreak.append (hex4_noBreak _) (hex4_noBreak _)

theorem escapeChar_noBreak (ea : Bool) (c : Char) : NoBreak (escapeChar ea c) := by
  unfold escapeChar; split
  · exact escAscii_noBreak c
  · exact escVerbatim_noBreak c

theorem encodeBody_noBreak (ea : Bool) (s : Str) : NoBreak (encodeBody ea s) := by
  induction s with
  | nil => exact NoBreak.nil
  | cons c t ih =>
    show NoBreak ((c :: t).flatMap (escapeChar ea))
    rw [List.flatMap_cons]
    exact NoBreak.append (escapeChar_noBreak ea c) ih

theorem encodeStr_noBreak (ea : Bool) (s : Str) : NoBreak (encodeStr ea s) := by
  unfold encodeStr
  refine NoBreak.cons (by decide) (NoBreak.append (encodeBody_noBreak ea s) ?_)
  exact NoBreak.cons (by decide) NoBreak.nil

/-! ### decode ∘ encode -/

theorem encodeBody_cons (ea : Bool) (c : Char) (t : Str) :
    encodeBody ea (c :: t) = escapeChar ea c ++ encodeBody ea t := by
  simp [encodeBody, List.flatMap_cons]

/-- hex round trip for the control characters -/
theorem hex4_roundtrip : ∀ n, n < 0x20 →
    hex4Val? (hexDig (n / 4096 % 16)) (hexDig (n / 256 % 16)) (hexDig (n / 16 % 16)) (hexDig (n % 16)) = some n := by
  decide

theorem decodeBody_quote (r : Str) : decodeBody ('\"' :: r) = some ([], r) := by
  rw [decodeBody.eq_def]; simp

theorem decodeBody_plain (c : Char) (r : Str) (h1 : c ≠ '"') (h2 : c ≠ '\\') (h3 : ¬ c.toNat < 0x20) :
    decodeBody (c :: r) = (decodeBody r).map (consFst c) := by
  rw [decodeBody.eq_def]; simp [h1, h2, h3]

theorem decodeBody_esc (e ch : Char) (r : Str) (he : e ≠ 'u') (h : unescape? e = some ch) :
    decodeBody ('\\' :: e :: r) = (decodeBody r).map (consFst ch) := by
  rw [decodeBody.eq_def]; simp [he, h]

theorem decodeBody_u (a b c d : Char) (n : Nat) (r : Str) (h : hex4Val? a b c d = some n)
    (hs : ¬ (0xd800 ≤ n ∧ n < 0xe000)) :
    decodeBody ('\\' :: 'u' :: a :: b :: c :: d :: r) = (decodeBody r).map (consFst (Char.ofNat n)) := by
  rw [decodeBody.eq_def]; simp [h, hs]

theorem decodeBody_escVerbatim (c : Char) (r : Str) :
    decodeBody (escVerbatim c ++ r) = (decodeBody r).map (consFst c) := by
  unfold escVerbatim
  split
  · rename_i h; subst h; exact decodeBody_esc _ _ r (by decide) (by decide)
  split
  · rename_i h; subst h; exact decodeBody_esc _ _ r (by decide) (by decide)
  split
  · rename_i h; subst h; exact decodeBody_esc _ _ r (by decide) (by decide)
  split
  · rename_i h; subst h; exact decodeBody_esc _ _ r (by decide) (by decide)
  split
  · rename_i h; subst h; exact decodeBody_esc _ _ r (by decide) (by decide)
  split
  · rename_i h; subst h; exact decodeBody_esc _ _ r (by decide) (by decide)
  split
  · rename_i h; subst h; exact decodeBody_esc _ _ r (by decide) (by decide)
  split
  · rename_i h
    have hr := hex4_roundtrip c.toNat h
    have h2 : ¬ (0xd800 ≤ c.toNat ∧ c.toNat < 0xe000) := by omega
    have := decodeBody_u _ _ _ _ _ r hr h2
    simpa [hex4] using this
  · rename_i h1 h2 _ _ _ _ _ h8
    exact decodeBody_plain c r h1 h2 h8

theorem decodeBody_encodeBody (s r : Str) :
    decodeBody (encodeBody false s ++ '"' :: r) = some (s, r) := by
  induction s with
  | nil => exact decodeBody_quote r
  | cons c t ih =>
    rw [encodeBody_cons, List.append_assoc]
    simp only [escapeChar, Bool.false_eq_true, if_false]
    rw [decodeBody_escVerbatim, ih]
    rfl

theorem decodeStr_encodeStr (s r : Str) : decodeStr (encodeStr false s ++ r) = some (s, r) := by
  simp only [encodeStr, List.cons_append, decodeStr, List.append_assoc]
  exact decodeBody_encodeBody s r

end Py.JsonStr

namespace Json
open Py Py.JsonStr

/-! ### no raw line break in `dumps` -/

theorem isNumChar_noBreak {c : Char} (h : isNumChar c = true) : c ≠ '\n' ∧ c ≠ '\r' := by
  constructor <;> (intro e; subst e; revert h; decide)

theorem floatTok_noBreak (t : FloatTok) : NoBreak t.tok := by
  have h := t.ok
  unfold floatTokOK at h
  simp only [Bool.or_eq_true, Bool.and_eq_true, decide_eq_true_eq] at h
  rcases h with ((h | h) | h) | h
  · rw [h]; decide
  · rw [h]; decide
  · rw [h]; decide
  · intro x hx
    exact isNumChar_noBreak (List.all_eq_true.1 h.1.1 x hx)

theorem digit_noBreak {c : Char} (h : c.isDigit = true) : c ≠ '\n' ∧ c ≠ '\r' := by
  constructor <;> (intro e; subst e; revert h; decide)

theorem natStr_noBreak (n : Nat) : NoBreak (natStr n) := by
  intro x hx
  exact digit_noBreak (Nat.isDigit_of_mem_toDigits (by decide) (by decide) hx)

theorem fmtD_noBreak (i : Int) : NoBreak (fmtD i) := by
  unfold fmtD; split
  · exact NoBreak.cons (by decide) (natStr_noBreak _)
  · exact natStr_noBreak _

mutual
theorem dumps_noBreak (ea : Bool) : ∀ v : JVal, NoBreak (dumps ea v)
  | .null => by simp only [dumps]; decide
  | .bool b => by cases b <;> (simp [dumps]; decide)
  | .int i => by simp only [dumps]; exact fmtD_noBreak i
  | .float t => by simp only [dumps]; exact floatTok_noBreak t
  | .str s => by simp only [dumps]; exact encodeStr_noBreak ea s
  | .arr xs => by simp only [dumps]; exact NoBreak.cons (by decide) (dumpsElems_noBreak ea xs)
  | .obj ms => by simp only [dumps]; exact NoBreak.cons (by decide) (dumpsMembers_noBreak ea ms)
theorem dumpsElems_noBreak (ea : Bool) : ∀ xs : JList, NoBreak (dumpsElems ea xs)
  | .nil => by simp only [dumpsElems]; decide
  | .cons v t => by
    simp only [dumpsElems]; exact NoBreak.append (dumps_noBreak ea v) (dumpsRest_noBreak ea t)
theorem dumpsRest_noBreak (ea : Bool) : ∀ xs : JList, NoBreak (dumpsRest ea xs)
  | .nil => by simp only [dumpsRest]; decide
  | .cons v t => by
    simp only [dumpsRest]
    exact NoBreak.cons (by decide) (NoBreak.cons (by decide)
      (NoBreak.append (dumps_noBreak ea v) (dumpsRest_noBreak ea t)))
theorem dumpsMembers_noBreak (ea : Bool) : ∀ ms : JMembers, NoBreak (dumpsMembers ea ms)
  | .nil => by simp only [dumpsMembers]; decide
  | .cons k v t => by
    simp only [dumpsMembers]
    exact NoBreak.append (encodeStr_noBreak ea k) (NoBreak.cons (by decide) (NoBreak.cons (by decide)
      (NoBreak.append (dumps_noBreak ea v) (dumpsMRest_noBreak ea t))))
theorem dumpsMRest_noBreak (ea : Bool) : ∀ ms : JMembers, NoBreak (dumpsMRest ea ms)
  | .nil => by simp only [dumpsMRest]; decide
  | .cons k v t => by
    simp only [dumpsMRest]
    exact NoBreak.cons (by decide) (NoBreak.cons (by decide)
      (NoBreak.append (encodeStr_noBreak ea k) (NoBreak.cons (by decide) (NoBreak.cons (by decide)
        (NoBreak.append (dumps_noBreak ea v) (dumpsMRest_noBreak ea t))))))
end

end Json

/-! ### the parser inverts the printer -/
namespace Json
open Py Py.JsonStr

/-- what may follow a value in a JSON text: not a number character -/
def endsNum : Str → Bool
  | [] => true
  | c :: _ => !isNumChar c

theorem takeWhile_append_of_all {p : Char → Bool} {a rest : Str} (ha : a.all p = true)
    (hr : ∀ c t, rest = c :: t → p c = false) :
    (a ++ rest).takeWhile p = a ∧ (a ++ rest).dropWhile p = rest := by
  induction a with
  | nil =>
    cases rest with
    | nil => simp
    | cons c t => simp [hr c t rfl]
  | cons x xs ih =>
    simp only [List.all_cons, Bool.and_eq_true] at ha
    simp [ha.1, ih ha.2]

theorem endsNum_spec {rest : Str} (h : endsNum rest = true) : ∀ c t, rest = c :: t → isNumChar c = false := by
  intro c t e; subst e; simpa [endsNum] using h

theorem parseAtom_null (rest : Str) : parseAtom ("null".toList ++ rest) = some (.null, rest) := by
  show parseAtom ('n' :: 'u' :: 'l' :: 'l' :: rest) = _
  simp [parseAtom, List.takeWhile, isNumChar, dropPrefix?]

theorem parseAtom_true (rest : Str) : parseAtom ("true".toList ++ rest) = some (.bool true, rest) := by
  show parseAtom ('t' :: 'r' :: 'u' :: 'e' :: rest) = _
  simp [parseAtom, List.takeWhile, isNumChar, dropPrefix?]

theorem parseAtom_false (rest : Str) : parseAtom ("false".toList ++ rest) = some (.bool false, rest) := by
  show parseAtom ('f' :: 'a' :: 'l' :: 's' :: 'e' :: rest) = _
  simp [parseAtom, List.takeWhile, isNumChar, dropPrefix?]

theorem parseAtom_nan (rest : Str) : parseAtom (nanTok ++ rest) = some (.float floatNaN, rest) := by
  simp [parseAtom, isNumChar, dropPrefix?, nanTok]

theorem parseAtom_inf (rest : Str) : parseAtom (infTok ++ rest) = some (.float floatInf, rest) := by
  simp [parseAtom, isNumChar, dropPrefix?, nanTok, infTok]

theorem parseAtom_neginf (rest : Str) : parseAtom (negInfTok ++ rest) = some (.float floatNegInf, rest) := by
  simp [parseAtom, isNumChar, dropPrefix?, nanTok, infTok, negInfTok]

theorem digit_isNumChar {c : Char} (h : c.isDigit = true) : isNumChar c = true := by
  simp [isNumChar, h]

theorem digit_ne_minus {c : Char} (h : c.isDigit = true) : c ≠ '-' := by
  intro e; subst e; revert h; decide

theorem natStr_ne_nil (n : Nat) : natStr n ≠ [] := Nat.toDigits_ne_nil

theorem natStr_allDigit (n : Nat) : (natStr n).all Char.isDigit = true :=
  List.all_eq_true.2 (fun _ hx => Nat.isDigit_of_mem_toDigits (by decide) (by decide) hx)

theorem natStr_allDigits (n : Nat) : allDigits (natStr n) = true := by
  have h := natStr_ne_nil n
  simp only [allDigits, Bool.and_eq_true, Bool.not_eq_true', natStr_allDigit, and_true]
  cases hh : natStr n with
  | nil => exact absurd hh h
  | cons _ _ => rfl

theorem allDigits_ne_nil {s : Str} (h : allDigits s = true) : s ≠ [] := by
  intro e; subst e; revert h; decide

theorem isIntShaped_of_allDigits {s : Str} (h : allDigits s = true) : isIntShaped s = true := by
  cases s with
  | nil => exact h
  | cons c t =>
    have hc : c.isDigit = true := by
      simp only [allDigits, List.all_cons, Bool.and_eq_true] at h; exact h.2.1
    have : c ≠ '-' := digit_ne_minus hc
    unfold isIntShaped
    split
    · rename_i heq; injection heq with h1 _; exact absurd h1 this
    · exact h

theorem parseIntTok_of_digits {s : Str} (h : allDigits s = true) :
    parseIntTok s = (Nat.ofDigitChars 10 s 0 : Int) := by
  cases s with
  | nil => rfl
  | cons c t =>
    have hc : c.isDigit = true := by
      simp only [allDigits, List.all_cons, Bool.and_eq_true] at h; exact h.2.1
    have : c ≠ '-' := digit_ne_minus hc
    unfold parseIntTok
    split
    · rename_i heq; injection heq with h1 _; exact absurd h1 this
    · rfl

theorem fmtD_all_num (i : Int) : (fmtD i).all isNumChar = true := by
  have hd : (natStr i.natAbs).all isNumChar = true :=
    List.all_eq_true.2 (fun x hx => digit_isNumChar (List.all_eq_true.1 (natStr_allDigit _) x hx))
  unfold fmtD; split
  · simp only [List.all_cons, hd, Bool.and_true]; decide
  · exact hd

theorem fmtD_intShaped (i : Int) : isIntShaped (fmtD i) = true := by
  unfold fmtD; split
  · simp only [isIntShaped]; exact natStr_allDigits _
  · exact isIntShaped_of_allDigits (natStr_allDigits _)

theorem parseIntTok_fmtD (i : Int) : parseIntTok (fmtD i) = i := by
  unfold fmtD; split
  · rename_i h
    simp only [parseIntTok, natStr, Nat.ofDigitChars_ten_toDigits]
    omega
  · rename_i h
    rw [parseIntTok_of_digits (natStr_allDigits _)]
    simp only [natStr, Nat.ofDigitChars_ten_toDigits]
    omega

theorem fmtD_not_trivial (i : Int) : ¬ (fmtD i = [] ∨ fmtD i = ['-']) := by
  have h := natStr_ne_nil i.natAbs
  unfold fmtD; split
  · intro hh; rcases hh with hh | hh
    · cases hh
    · injection hh with _ h2; exact h h2
  · intro hh; rcases hh with hh | hh
    · exact h hh
    · have := natStr_allDigit i.natAbs
      rw [hh] at this; revert this; decide

theorem parseAtom_int (i : Int) (rest : Str) (hr : endsNum rest = true) :
    parseAtom (fmtD i ++ rest) = some (.int i, rest) := by
  have ⟨h1, h2⟩ := takeWhile_append_of_all (fmtD_all_num i) (endsNum_spec hr)
  unfold parseAtom
  simp only [h1, h2, fmtD_not_trivial i, if_false, fmtD_intShaped, if_true, parseIntTok_fmtD]

theorem float_cases (t : FloatTok) :
    t.tok = nanTok ∨ t.tok = infTok ∨ t.tok = negInfTok ∨
      (t.tok.all isNumChar = true ∧ isIntShaped t.tok = false ∧ numFloatOK t.tok = true) := by
  have h := t.ok
  unfold floatTokOK at h
  simp only [Bool.or_eq_true, Bool.and_eq_true, decide_eq_true_eq, Bool.not_eq_true'] at h
  rcases h with ((h | h) | h) | h
  · exact Or.inl h
  · exact Or.inr (Or.inl h)
  · exact Or.inr (Or.inr (Or.inl h))
  · exact Or.inr (Or.inr (Or.inr ⟨h.1.1, h.1.2, h.2⟩))

theorem parseAtom_float (t : FloatTok) (rest : Str) (hr : endsNum rest = true) :
    parseAtom (t.tok ++ rest) = some (.float t, rest) := by
  rcases float_cases t with h | h | h | ⟨ha, hi, hn⟩
  · obtain ⟨tok, ok⟩ := t; simp only at h; subst h; exact parseAtom_nan rest
  · obtain ⟨tok, ok⟩ := t; simp only at h; subst h; exact parseAtom_inf rest
  · obtain ⟨tok, ok⟩ := t; simp only at h; subst h; exact parseAtom_neginf rest
  · have ⟨h1, h2⟩ := takeWhile_append_of_all ha (endsNum_spec hr)
    have hnt : ¬ (t.tok = [] ∨ t.tok = ['-']) := by
      intro hh; rcases hh with hh | hh <;> (rw [hh] at hn; revert hn; decide)
    unfold parseAtom
    simp only [h1, h2, hnt, if_false, hi, Bool.false_eq_true, t.ok, dite_true]


mutual
def need : JVal → Nat
  | .arr xs => needL xs + 1
  | .obj ms => needM ms + 1
  | _ => 1
def needL : JList → Nat
  | .nil => 1
  | .cons v t => max (need v) (needL t) + 1
def needM : JMembers → Nat
  | .nil => 1
  | .cons _ v t => max (need v) (needM t) + 1
end

theorem parseVal_str (f : Nat) (r r' x : Str) (h : decodeBody r = some (x, r')) :
    parseVal (f + 1) ('"' :: r) = some (.str x, r') := by
  rw [parseVal.eq_def]; simp [h]

theorem parseVal_arr (f : Nat) (r r' : Str) (xs : JList) (h : parseElems f r = some (xs, r')) :
    parseVal (f + 1) ('[' :: r) = some (.arr xs, r') := by
  rw [parseVal.eq_def]; simp [h]

theorem parseVal_obj (f : Nat) (r r' : Str) (ms : JMembers) (h : parseMembers f r = some (ms, r')) :
    parseVal (f + 1) ('{' :: r) = some (.obj ms, r') := by
  rw [parseVal.eq_def]; simp [h]

theorem parseVal_atom (f : Nat) (c : Char) (t : Str) (h1 : c ≠ '"') (h2 : c ≠ '[') (h3 : c ≠ '{') :
    parseVal (f + 1) (c :: t) = parseAtom (c :: t) := by
  rw [parseVal.eq_def]
  simp only
  split
  · rename_i heq; injection heq with h _; exact absurd h h1
  · rename_i heq; injection heq with h _; exact absurd h h2
  · rename_i heq; injection heq with h _; exact absurd h h3
  · rfl

theorem parseElems_nil (f : Nat) (r : Str) : parseElems (f + 1) (']' :: r) = some (.nil, r) := by
  rw [parseElems.eq_def]; simp

theorem parseElems_cons (f : Nat) (c : Char) (s r1 r2 : Str) (v : JVal) (t : JList) (hc : c ≠ ']')
    (h1 : parseVal f (c :: s) = some (v, r1)) (h2 : parseRest f r1 = some (t, r2)) :
    parseElems (f + 1) (c :: s) = some (.cons v t, r2) := by
  rw [parseElems.eq_def]
  simp only
  split
  · rename_i heq; injection heq with h _; exact absurd h hc
  · simp [h1, h2]

theorem parseRest_nil (f : Nat) (r : Str) : parseRest (f + 1) (']' :: r) = some (.nil, r) := by
  rw [parseRest.eq_def]; simp

theorem parseRest_cons (f : Nat) (s r1 r2 : Str) (v : JVal) (t : JList)
    (h1 : parseVal f s = some (v, r1)) (h2 : parseRest f r1 = some (t, r2)) :
    parseRest (f + 1) (',' :: ' ' :: s) = some (.cons v t, r2) := by
  rw [parseRest.eq_def]; simp [dropSpace, h1, h2]

theorem parseMembers_nil (f : Nat) (r : Str) : parseMembers (f + 1) ('}' :: r) = some (.nil, r) := by
  rw [parseMembers.eq_def]; simp

theorem parseMembers_cons (f : Nat) (kb k s r1 r2 : Str) (v : JVal) (t : JMembers)
    (hk : decodeBody kb = some (k, ':' :: ' ' :: s))
    (h1 : parseVal f s = some (v, r1)) (h2 : parseMRest f r1 = some (t, r2)) :
    parseMembers (f + 1) ('"' :: kb) = some (.cons k v t, r2) := by
  rw [parseMembers.eq_def]; simp [dropSpace, hk, h1, h2]

theorem parseMRest_nil (f : Nat) (r : Str) : parseMRest (f + 1) ('}' :: r) = some (.nil, r) := by
  rw [parseMRest.eq_def]; simp

theorem parseMRest_cons (f : Nat) (kb k s r1 r2 : Str) (v : JVal) (t : JMembers)
    (hk : decodeBody kb = some (k, ':' :: ' ' :: s))
    (h1 : parseVal f s = some (v, r1)) (h2 : parseMRest f r1 = some (t, r2)) :
    parseMRest (f + 1) (',' :: ' ' :: '"' :: kb) = some (.cons k v t, r2) := by
  rw [parseMRest.eq_def]; simp [dropSpace, hk, h1, h2]

theorem numChar_ne {c : Char} (h : isNumChar c = true) : c ≠ '"' ∧ c ≠ '[' ∧ c ≠ '{' ∧ c ≠ ']' := by
  refine ⟨?_, ?_, ?_, ?_⟩ <;> (intro e; subst e; revert h; decide)

theorem parseVal_numTok (f : Nat) (tok rest : Str) (hne : tok ≠ []) (hall : tok.all isNumChar = true) :
    parseVal (f + 1) (tok ++ rest) = parseAtom (tok ++ rest) := by
  cases tok with
  | nil => exact absurd rfl hne
  | cons c t =>
    simp only [List.all_cons, Bool.and_eq_true] at hall
    have := numChar_ne hall.1
    exact parseVal_atom f c (t ++ rest) this.1 this.2.1 this.2.2.1

theorem fmtD_ne_nil (i : Int) : fmtD i ≠ [] := fun h => fmtD_not_trivial i (Or.inl h)

theorem float_tok_ne_nil (t : FloatTok) : t.tok ≠ [] := by
  intro h; have := t.ok; rw [h] at this; revert this; decide

theorem dumps_head (v : JVal) : ∃ c t, dumps false v = c :: t ∧ c ≠ ']' := by
  cases v with
  | null => exact ⟨'n', ['u', 'l', 'l'], by decide, by decide⟩
  | bool b => cases b
              · exact ⟨'f', ['a', 'l', 's', 'e'], by decide, by decide⟩
              · exact ⟨'t', ['r', 'u', 'e'], by decide, by decide⟩
  | int i =>
    have h1 := fmtD_ne_nil i
    have h2 := fmtD_all_num i
    simp only [dumps]
    cases h : fmtD i with
    | nil => exact absurd h h1
    | cons c t =>
      rw [h] at h2; simp only [List.all_cons, Bool.and_eq_true] at h2
      exact ⟨c, t, rfl, (numChar_ne h2.1).2.2.2⟩
  | float t =>
    simp only [dumps]
    rcases float_cases t with h | h | h | ⟨ha, _, _⟩
    · rw [h]; exact ⟨_, _, rfl, by decide⟩
    · rw [h]; exact ⟨_, _, rfl, by decide⟩
    · rw [h]; exact ⟨_, _, rfl, by decide⟩
    · have h1 := float_tok_ne_nil t
      cases h : t.tok with
      | nil => exact absurd h h1
      | cons c s =>
        rw [h] at ha; simp only [List.all_cons, Bool.and_eq_true] at ha
        exact ⟨c, s, rfl, (numChar_ne ha.1).2.2.2⟩
  | str s => exact ⟨'"', encodeBody false s ++ ['"'], by simp [dumps, encodeStr], by decide⟩
  | arr xs => exact ⟨'[', dumpsElems false xs, by simp [dumps], by decide⟩
  | obj ms => exact ⟨'{', dumpsMembers false ms, by simp [dumps], by decide⟩

theorem endsNum_dumpsRest (t : JList) (rest : Str) : endsNum (dumpsRest false t ++ rest) = true := by
  cases t <;> (simp only [dumpsRest, List.cons_append, endsNum]; decide)

theorem endsNum_dumpsMRest (t : JMembers) (rest : Str) : endsNum (dumpsMRest false t ++ rest) = true := by
  cases t <;> (simp only [dumpsMRest, List.cons_append, endsNum]; decide)

theorem need_pos (v : JVal) : 1 ≤ need v := by cases v <;> simp [need]

mutual
theorem parseVal_dumps : ∀ (v : JVal) (f : Nat) (rest : Str), need v ≤ f → endsNum rest = true →
    parseVal f (dumps false v ++ rest) = some (v, rest)
  | .null, f, rest, hf, _ => by
    obtain ⟨f', rfl⟩ : ∃ f', f = f' + 1 := ⟨f - 1, by simp only [need] at hf; omega⟩
    show parseVal (f' + 1) ('n' :: ('u' :: 'l' :: 'l' :: rest)) = _
    rw [parseVal_atom _ _ _ (by decide) (by decide) (by decide)]
    exact parseAtom_null rest
  | .bool true, f, rest, hf, _ => by
    obtain ⟨f', rfl⟩ : ∃ f', f = f' + 1 := ⟨f - 1, by simp only [need] at hf; omega⟩
    show parseVal (f' + 1) ('t' :: ('r' :: 'u' :: 'e' :: rest)) = _
    rw [parseVal_atom _ _ _ (by decide) (by decide) (by decide)]
    exact parseAtom_true rest
  | .bool false, f, rest, hf, _ => by
    obtain ⟨f', rfl⟩ : ∃ f', f = f' + 1 := ⟨f - 1, by simp only [need] at hf; omega⟩
    show parseVal (f' + 1) ('f' :: ('a' :: 'l' :: 's' :: 'e' :: rest)) = _
    rw [parseVal_atom _ _ _ (by decide) (by decide) (by decide)]
    exact parseAtom_false rest
  | .int i, f, rest, hf, hr => by
    obtain ⟨f', rfl⟩ : ∃ f', f = f' + 1 := ⟨f - 1, by simp only [need] at hf; omega⟩
    simp only [dumps]
    rw [parseVal_numTok _ _ _ (fmtD_ne_nil i) (fmtD_all_num i)]
    exact parseAtom_int i rest hr
  | .float t, f, rest, hf, hr => by
    obtain ⟨f', rfl⟩ : ∃ f', f = f' + 1 := ⟨f - 1, by simp only [need] at hf; omega⟩
    simp only [dumps]
    rcases float_cases t with h | h | h | ⟨ha, _, _⟩
    · rw [h, nanTok, List.cons_append, parseVal_atom _ _ _ (by decide) (by decide) (by decide)]
      have := parseAtom_float t rest hr; rw [h, nanTok] at this; exact this
    · rw [h, infTok, List.cons_append, parseVal_atom _ _ _ (by decide) (by decide) (by decide)]
      have := parseAtom_float t rest hr; rw [h, infTok] at this; exact this
    · rw [h, negInfTok, List.cons_append, parseVal_atom _ _ _ (by decide) (by decide) (by decide)]
      have := parseAtom_float t rest hr; rw [h, negInfTok] at this; exact this
    · rw [parseVal_numTok _ _ _ (float_tok_ne_nil t) ha]
      exact parseAtom_float t rest hr
  | .str s, f, rest, hf, _ => by
    obtain ⟨f', rfl⟩ : ∃ f', f = f' + 1 := ⟨f - 1, by simp only [need] at hf; omega⟩
    simp only [dumps, encodeStr, List.cons_append, List.append_assoc, List.nil_append]
    exact parseVal_str _ _ _ _ (decodeBody_encodeBody s rest)
  | .arr xs, f, rest, hf, _ => by
    obtain ⟨f', rfl⟩ : ∃ f', f = f' + 1 := ⟨f - 1, by simp only [need] at hf; omega⟩
    simp only [dumps, List.cons_append]
    exact parseVal_arr _ _ _ _ (parseElems_dumps xs f' rest (by simp only [need] at hf; omega))
  | .obj ms, f, rest, hf, _ => by
    obtain ⟨f', rfl⟩ : ∃ f', f = f' + 1 := ⟨f - 1, by simp only [need] at hf; omega⟩
    simp only [dumps, List.cons_append]
    exact parseVal_obj _ _ _ _ (parseMembers_dumps ms f' rest (by simp only [need] at hf; omega))
theorem parseElems_dumps : ∀ (xs : JList) (f : Nat) (rest : Str), needL xs ≤ f →
    parseElems f (dumpsElems false xs ++ rest) = some (xs, rest)
  | .nil, f, rest, hf => by
    obtain ⟨f', rfl⟩ : ∃ f', f = f' + 1 := ⟨f - 1, by simp only [needL] at hf; omega⟩
    simp only [dumpsElems, List.cons_append, List.nil_append]
    exact parseElems_nil f' rest
  | .cons v t, f, rest, hf => by
    obtain ⟨f', rfl⟩ : ∃ f', f = f' + 1 := ⟨f - 1, by simp only [needL] at hf; omega⟩
    simp only [needL] at hf
    simp only [dumpsElems, List.append_assoc]
    obtain ⟨c, s, hcs, hc⟩ := dumps_head v
    have h1 := parseVal_dumps v f' (dumpsRest false t ++ rest) (by omega) (endsNum_dumpsRest t rest)
    have h2 := parseRest_dumps t f' rest (by omega)
    rw [hcs] at h1 ⊢
    exact parseElems_cons f' c _ _ _ v t hc h1 h2
theorem parseRest_dumps : ∀ (xs : JList) (f : Nat) (rest : Str), needL xs ≤ f →
    parseRest f (dumpsRest false xs ++ rest) = some (xs, rest)
  | .nil, f, rest, hf => by
    obtain ⟨f', rfl⟩ : ∃ f', f = f' + 1 := ⟨f - 1, by simp only [needL] at hf; omega⟩
    simp only [dumpsRest, List.cons_append, List.nil_append]
    exact parseRest_nil f' rest
  | .cons v t, f, rest, hf => by
    obtain ⟨f', rfl⟩ : ∃ f', f = f' + 1 := ⟨f - 1, by simp only [needL] at hf; omega⟩
    simp only [needL] at hf
    simp only [dumpsRest, List.cons_append, List.append_assoc]
    have h1 := parseVal_dumps v f' (dumpsRest false t ++ rest) (by omega) (endsNum_dumpsRest t rest)
    have h2 := parseRest_dumps t f' rest (by omega)
    exact parseRest_cons f' _ _ _ v t h1 h2
theorem parseMembers_dumps : ∀ (ms : JMembers) (f : Nat) (rest : Str), needM ms ≤ f →
    parseMembers f (dumpsMembers false ms ++ rest) = some (ms, rest)
  | .nil, f, rest, hf => by
    obtain ⟨f', rfl⟩ : ∃ f', f = f' + 1 := ⟨f - 1, by simp only [needM] at hf; omega⟩
    simp only [dumpsMembers, List.cons_append, List.nil_append]
    exact parseMembers_nil f' rest
  | .cons k v t, f, rest, hf => by
    obtain ⟨f', rfl⟩ : ∃ f', f = f' + 1 := ⟨f - 1, by simp only [needM] at hf; omega⟩
    simp only [needM] at hf
    simp only [dumpsMembers, encodeStr, List.cons_append, List.append_assoc, List.nil_append]
    have h1 := parseVal_dumps v f' (dumpsMRest false t ++ rest) (by omega) (endsNum_dumpsMRest t rest)
    have h2 := parseMRest_dumps t f' rest (by omega)
    exact parseMembers_cons f' _ k _ _ _ v t (decodeBody_encodeBody k _) h1 h2
theorem parseMRest_dumps : ∀ (ms : JMembers) (f : Nat) (rest : Str), needM ms ≤ f →
    parseMRest f (dumpsMRest false ms ++ rest) = some (ms, rest)
  | .nil, f, rest, hf => by
    obtain ⟨f', rfl⟩ : ∃ f', f = f' + 1 := ⟨f - 1, by simp only [needM] at hf; omega⟩
    simp only [dumpsMRest, List.cons_append, List.nil_append]
    exact parseMRest_nil f' rest
  | .cons k v t, f, rest, hf => by
    obtain ⟨f', rfl⟩ : ∃ f', f = f' + 1 := ⟨f - 1, by simp only [needM] at hf; omega⟩
    simp only [needM] at hf
    simp only [dumpsMRest, encodeStr, List.cons_append, List.append_assoc, List.nil_append]
    have h1 := parseVal_dumps v f' (dumpsMRest false t ++ rest) (by omega) (endsNum_dumpsMRest t rest)
    have h2 := parseMRest_dumps t f' rest (by omega)
    exact parseMRest_cons f' _ k _ _ _ v t (decodeBody_encodeBody k _) h1 h2
end

theorem length_pos_of_ne_nil' {s : Str} (h : s ≠ []) : 1 ≤ s.length := by
  cases s with
  | nil => exact absurd rfl h
  | cons _ _ => simp

mutual
theorem need_le_length : ∀ v : JVal, need v ≤ (dumps false v).length
  | .null => by decide
  | .bool true => by decide
  | .bool false => by decide
  | .int i => by simp only [need, dumps]; exact length_pos_of_ne_nil' (fmtD_ne_nil i)
  | .float t => by simp only [need, dumps]; exact length_pos_of_ne_nil' (float_tok_ne_nil t)
  | .str s => by simp [need, dumps, encodeStr]
  | .arr xs => by
    have := needL_le_elems xs
    simp only [need, dumps, List.length_cons]; omega
  | .obj ms => by
    have := needM_le_members ms
    simp only [need, dumps, List.length_cons]; omega
theorem needL_le_elems : ∀ xs : JList, needL xs ≤ (dumpsElems false xs).length
  | .nil => by decide
  | .cons v t => by
    have h1 := need_le_length v
    have h2 := needL_le_rest t
    have h3 := need_pos v
    have h4 : 1 ≤ needL t := by cases t <;> simp [needL]
    simp only [needL, dumpsElems, List.length_append]; omega
theorem needL_le_rest : ∀ xs : JList, needL xs ≤ (dumpsRest false xs).length
  | .nil => by decide
  | .cons v t => by
    have h1 := need_le_length v
    have h2 := needL_le_rest t
    simp only [needL, dumpsRest, List.length_cons, List.length_append]; omega
theorem needM_le_members : ∀ ms : JMembers, needM ms ≤ (dumpsMembers false ms).length
  | .nil => by decide
  | .cons k v t => by
    have h1 := need_le_length v
    have h2 := needM_le_mrest t
    simp only [needM, dumpsMembers, List.length_cons, List.length_append]; omega
theorem needM_le_mrest : ∀ ms : JMembers, needM ms ≤ (dumpsMRest false ms).length
  | .nil => by decide
  | .cons k v t => by
    have h1 := need_le_length v
    have h2 := needM_le_mrest t
    simp only [needM, dumpsMRest, List.length_cons, List.length_append]; omega
end

/-- the parser inverts the printer on every JSON value tree -/
theorem loads_dumps_false (v : JVal) : loads (dumps false v) = some v := by
  have h := parseVal_dumps v ((dumps false v).length + 1) [] (by have := need_le_length v; omega) rfl
  rw [List.append_nil] at h
  simp [loads, h]

end Json

namespace Json
open Py Py.JsonStr

/-! ### `toJson` commutes with reading a path; failures come from `str()` or from a key without a rule -/

theorem coerceKey_key {o : Opts} {k : PyKey} {ks : Str} (h : coerceKey o k = .key ks) : k.text = some ks := by
  cases k <;> simp only [coerceKey] at h
  · cases h; rfl
  · cases h; rfl
  · split at h
    · cases h; rfl
    · cases h
  · cases h; rfl
  · cases h; rfl
  · split at h <;> cases h

theorem coerceKey_skip {o : Opts} {k : PyKey} (h : coerceKey o k = .skip) : k.text = none := by
  cases k <;> simp only [coerceKey] at h
  · cases h
  · cases h
  · split at h <;> cases h
  · cases h
  · cases h
  · rfl

theorem toJsonMembers_find (d : Opts) (s : Nat → Except Err Str) (k : Str) :
    ∀ (ms : PyMembers) (js : JMembers), toJsonMembers d s ms = .ok js →
      (∀ w, ms.find k = some w → ∃ jw, toJson d s w = .ok jw ∧ js.find k = some jw) ∧
      (ms.find k = none → js.find k = none) ∧ js.keys = ms.keys
  | .nil, js, h => by
    simp only [toJsonMembers] at h
    cases h
    refine ⟨?_, ?_, rfl⟩
    · intro w hw; simp [PyMembers.find] at hw
    · intro _; rfl
  | .cons k' v t, js, h => by
    simp only [toJsonMembers] at h
    split at h
    · cases h
    · rename_i hk
      have ht := coerceKey_skip hk
      have ih := toJsonMembers_find d s k t js h
      refine ⟨?_, ?_, ?_⟩
      · intro w hw
        simp only [PyMembers.find, ht] at hw
        exact ih.1 w (by simpa using hw)
      · intro hn
        simp only [PyMembers.find, ht] at hn
        exact ih.2.1 (by simpa using hn)
      · simp only [PyMembers.keys, ht]; exact ih.2.2
    · rename_i ks hk
      have ht := coerceKey_key hk
      split at h
      · cases h
      · rename_i j hj
        split at h
        · cases h
        · rename_i js' hjs
          cases h
          have ih := toJsonMembers_find d s k t js' hjs
          refine ⟨?_, ?_, ?_⟩
          · intro w hw
            simp only [PyMembers.find, ht, Option.some.injEq] at hw
            simp only [JMembers.find]
            split at hw
            · rename_i hk; cases hw; exact ⟨j, hj, by simp [hk]⟩
            · rename_i hk
              obtain ⟨jw, h1, h2⟩ := ih.1 w hw
              exact ⟨jw, h1, by simp [hk, h2]⟩
          · intro hn
            simp only [PyMembers.find, ht, Option.some.injEq] at hn
            simp only [JMembers.find]
            split at hn
            · cases hn
            · rename_i hk; simp [hk, ih.2.1 hn]
          · simp [JMembers.keys, PyMembers.keys, ht, ih.2.2]

theorem sortOutcome_off {d : Opts} (hs : d.sortKeys = false) (ms : PyMembers) : sortOutcome d ms = none := by
  simp [sortOutcome, hs]

theorem toJson_dict (d : Opts) (s : Nat → Except Err Str) (hs : d.sortKeys = false) (ms : PyMembers) (j : JVal)
    (h : toJson d s (.dict ms) = .ok j) : ∃ js, j = .obj js ∧ toJsonMembers d s ms = .ok js := by
  simp only [toJson, sortOutcome_off hs] at h
  split at h
  · rename_i js hjs; cases h; exact ⟨js, by simp [hs], hjs⟩
  · cases h

theorem toJson_get (d : Opts) (s : Nat → Except Err Str) (hs : d.sortKeys = false) :
    ∀ (p : List Str) (v w : PyVal) (j : JVal), toJson d s v = .ok j → v.get p = some w →
      ∃ jw, toJson d s w = .ok jw ∧ j.get p = some jw
  | [], v, w, j, h, hg => by
    simp only [PyVal.get] at hg; cases hg
    exact ⟨j, h, rfl⟩
  | k :: ks, v, w, j, h, hg => by
    cases v with
    | dict ms =>
      obtain ⟨js, rfl, hjs⟩ := toJson_dict d s hs ms j h
      simp only [PyVal.get] at hg
      split at hg
      · rename_i x hx
        obtain ⟨jx, h1, h2⟩ := (toJsonMembers_find d s k ms js hjs).1 x hx
        obtain ⟨jw, h3, h4⟩ := toJson_get d s hs ks x w jx h1 hg
        exact ⟨jw, h3, by simp [JVal.get, h2, h4]⟩
      · cases hg
    | _ => simp [PyVal.get] at hg

theorem toJson_keysAt (d : Opts) (s : Nat → Except Err Str) (hs : d.sortKeys = false) (p : List Str) (v : PyVal)
    (j : JVal) (ms : PyMembers) (h : toJson d s v = .ok j) (hg : v.get p = some (.dict ms)) :
    j.keysAt p = some ms.keys := by
  obtain ⟨jw, h1, h2⟩ := toJson_get d s hs p v _ j h hg
  obtain ⟨js, rfl, hjs⟩ := toJson_dict d s hs ms jw h1
  simp [JVal.keysAt, h2, (toJsonMembers_find d s [] ms js hjs).2.2]

/-- the two ways `json.dumps(…, default=str)` can fail when `sort_keys` is off and `allow_nan` is on:
`str()` of a reachable opaque object fails (with that error), or a reachable dict has a key json has no
rule for (`TypeError`, whatever `default=` is) -/
def FailCause (s : Nat → Except Err Str) (e : Err) (ops bad : List Nat) : Prop :=
  (∃ x ∈ ops, s x = .error e) ∨ (e = .typeError ∧ ∃ x, x ∈ bad)

theorem FailCause.mono {s : Nat → Except Err Str} {e : Err} {ops bad ops' bad' : List Nat}
    (h : FailCause s e ops bad) (h1 : ∀ x ∈ ops, x ∈ ops') (h2 : ∀ x ∈ bad, x ∈ bad') :
    FailCause s e ops' bad' := by
  rcases h with ⟨x, hx, hs⟩ | ⟨he, x, hb⟩
  · exact Or.inl ⟨x, h1 x hx, hs⟩
  · exact Or.inr ⟨he, x, h2 x hb⟩

theorem coerceKey_fail {d : Opts} (hn : d.allowNan = true) (hk : d.skipKeys = false) {k : PyKey} {e : Err}
    (h : coerceKey d k = .fail e) : e = .typeError ∧ ∃ x, x ∈ k.bad := by
  cases k with
  | str _ => simp [coerceKey] at h
  | int _ => simp [coerceKey] at h
  | float _ => simp [coerceKey, hn] at h
  | bool _ => simp [coerceKey] at h
  | none => simp [coerceKey] at h
  | other n =>
    simp only [coerceKey, hk, Bool.false_eq_true, if_false] at h
    cases h
    exact ⟨rfl, n, by simp [PyKey.bad]⟩

mutual
theorem toJson_error (d : Opts) (hd : d.useDefault = true) (hs : d.sortKeys = false) (hk : d.skipKeys = false)
    (hn : d.allowNan = true) (s : Nat → Except Err Str) (e : Err) :
    ∀ v : PyVal, toJson d s v = .error e → FailCause s e (opaques v) (badKeys v)
  | .none, h => by simp [toJson] at h
  | .bool _, h => by simp [toJson] at h
  | .int _, h => by simp [toJson] at h
  | .float _, h => by simp [toJson, hn] at h
  | .str _, h => by simp [toJson] at h
  | .list xs, h => by
    simp only [toJson] at h
    split at h
    · cases h
    · rename_i e' he; cases h
      simpa [opaques, badKeys] using toJsonList_error d hd hs hk hn s e xs he
  | .dict ms, h => by
    simp only [toJson, sortOutcome_off hs] at h
    split at h
    · cases h
    · rename_i e' he; cases h
      simpa [opaques, badKeys] using toJsonMembers_error d hd hs hk hn s e ms he
  | .opaque o, h => by
    simp only [toJson, hd, if_true] at h
    split at h
    · cases h
    · rename_i e' he; cases h
      exact Or.inl ⟨o, by simp [opaques], he⟩
theorem toJsonList_error (d : Opts) (hd : d.useDefault = true) (hs : d.sortKeys = false) (hk : d.skipKeys = false)
    (hn : d.allowNan = true) (s : Nat → Except Err Str) (e : Err) :
    ∀ xs : PyList, toJsonList d s xs = .error e → FailCause s e (opaquesList xs) (badKeysList xs)
  | .nil, h => by simp [toJsonList] at h
  | .cons v t, h => by
    simp only [toJsonList] at h
    split at h
    · rename_i e' he; cases h
      exact (toJson_error d hd hs hk hn s e v he).mono
        (fun x hx => by simp only [opaquesList, List.mem_append]; exact Or.inl hx)
        (fun x hx => by simp only [badKeysList, List.mem_append]; exact Or.inl hx)
    · split at h
      · rename_i e' he; cases h
        exact (toJsonList_error d hd hs hk hn s e t he).mono
          (fun x hx => by simp only [opaquesList, List.mem_append]; exact Or.inr hx)
          (fun x hx => by simp only [badKeysList, List.mem_append]; exact Or.inr hx)
      · cases h
theorem toJsonMembers_error (d : Opts) (hd : d.useDefault = true) (hs : d.sortKeys = false) (hk : d.skipKeys = false)
    (hn : d.allowNan = true) (s : Nat → Except Err Str) (e : Err) :
    ∀ ms : PyMembers, toJsonMembers d s ms = .error e → FailCause s e (opaquesMembers ms) (badKeysMembers ms)
  | .nil, h => by simp [toJsonMembers] at h
  | .cons k v t, h => by
    simp only [toJsonMembers] at h
    split at h
    · rename_i e' hc; cases h
      obtain ⟨h1, x, h2⟩ := coerceKey_fail hn hk hc
      exact Or.inr ⟨h1, x, by simp only [badKeysMembers, List.mem_append]; exact Or.inl h2⟩
    · exact (toJsonMembers_error d hd hs hk hn s e t h).mono
        (fun x hx => by simp only [opaquesMembers, List.mem_append]; exact Or.inr hx)
        (fun x hx => by simp only [badKeysMembers, List.mem_append]; exact Or.inr (Or.inr hx))
    · split at h
      · rename_i e' he; cases h
        exact (toJson_error d hd hs hk hn s e v he).mono
          (fun x hx => by simp only [opaquesMembers, List.mem_append]; exact Or.inl hx)
          (fun x hx => by simp only [badKeysMembers, List.mem_append]; exact Or.inr (Or.inl hx))
      · split at h
        · rename_i e' he; cases h
          exact (toJsonMembers_error d hd hs hk hn s e t he).mono
            (fun x hx => by simp only [opaquesMembers, List.mem_append]; exact Or.inr hx)
            (fun x hx => by simp only [badKeysMembers, List.mem_append]; exact Or.inr (Or.inr hx))
        · cases h
end

/-! a key json has no rule for, anywhere in the value, makes the whole call fail (`skipkeys` off) -/
mutual
theorem toJson_badKey (d : Opts) (hk : d.skipKeys = false) (s : Nat → Except Err Str) :
    ∀ v : PyVal, (∃ x, x ∈ badKeys v) → ∃ e, toJson d s v = .error e
  | .none, h => by simp [badKeys] at h
  | .bool _, h => by simp [badKeys] at h
  | .int _, h => by simp [badKeys] at h
  | .float _, h => by simp [badKeys] at h
  | .str _, h => by simp [badKeys] at h
  | .opaque _, h => by simp [badKeys] at h
  | .list xs, h => by
    obtain ⟨e, he⟩ := toJsonList_badKey d hk s xs (by simpa [badKeys] using h)
    exact ⟨e, by simp [toJson, he]⟩
  | .dict ms, h => by
    obtain ⟨e, he⟩ := toJsonMembers_badKey d hk s ms (by simpa [badKeys] using h)
    simp only [toJson]
    cases sortOutcome d ms with
    | some e' => exact ⟨e', rfl⟩
    | none => exact ⟨e, by simp [he]⟩
theorem toJsonList_badKey (d : Opts) (hk : d.skipKeys = false) (s : Nat → Except Err Str) :
    ∀ xs : PyList, (∃ x, x ∈ badKeysList xs) → ∃ e, toJsonList d s xs = .error e
  | .nil, h => by simp [badKeysList] at h
  | .cons v t, h => by
    obtain ⟨x, hx⟩ := h
    simp only [badKeysList, List.mem_append] at hx
    simp only [toJsonList]
    cases hv : toJson d s v with
    | error e => exact ⟨e, rfl⟩
    | ok j =>
      rcases hx with hx | hx
      · obtain ⟨e, he⟩ := toJson_badKey d hk s v ⟨x, hx⟩
        rw [hv] at he; cases he
      · obtain ⟨e, he⟩ := toJsonList_badKey d hk s t ⟨x, hx⟩
        exact ⟨e, by simp [he]⟩
theorem toJsonMembers_badKey (d : Opts) (hk : d.skipKeys = false) (s : Nat → Except Err Str) :
    ∀ ms : PyMembers, (∃ x, x ∈ badKeysMembers ms) → ∃ e, toJsonMembers d s ms = .error e
  | .nil, h => by simp [badKeysMembers] at h
  | .cons k v t, h => by
    obtain ⟨x, hx⟩ := h
    simp only [badKeysMembers, List.mem_append] at hx
    simp only [toJsonMembers]
    cases hc : coerceKey d k with
    | fail e => exact ⟨e, rfl⟩
    | skip =>
      cases k <;> simp [coerceKey, hk] at hc
      split at hc <;> cases hc
    | key ks =>
      have hb : k.bad = [] := by
        cases k <;> first | rfl | (simp [coerceKey, hk] at hc)
      rw [hb] at hx
      simp only [List.not_mem_nil, false_or] at hx
      cases hv : toJson d s v with
      | error e => exact ⟨e, rfl⟩
      | ok j =>
        rcases hx with hx | hx
        · obtain ⟨e, he⟩ := toJson_badKey d hk s v ⟨x, hx⟩
          rw [hv] at he; cases he
        · obtain ⟨e, he⟩ := toJsonMembers_badKey d hk s t ⟨x, hx⟩
          exact ⟨e, by simp [he]⟩
end

/-! ### reading a file of serialised records line by line -/

theorem readLinesAux_body (rest : Str) : ∀ (body cur : Str), (∀ c ∈ body, c ≠ '\n') →
    readLinesAux cur (body ++ '\n' :: rest) = (cur.reverse ++ body ++ ['\n']) :: readLinesAux [] rest
  | [], cur, _ => by simp [readLinesAux]
  | c :: t, cur, h => by
    have hc : c ≠ '\n' := h c (by simp)
    have ht : ∀ x ∈ t, x ≠ '\n' := fun x hx => h x (List.mem_cons_of_mem _ hx)
    simp only [List.cons_append, readLinesAux, hc, if_false]
    rw [readLinesAux_body rest t (c :: cur) ht]
    simp

/-- a text made of LF-terminated, LF-free bodies is read back as exactly those lines -/
theorem readLines_flatten : ∀ ls : List Str, (∀ l ∈ ls, ∃ body, l = body ++ ['\n'] ∧ ∀ c ∈ body, c ≠ '\n') →
    readLines ls.flatten = ls
  | [], _ => by simp [readLines, readLinesAux]
  | l :: t, h => by
    obtain ⟨body, rfl, hb⟩ := h l (by simp)
    have ih := readLines_flatten t (fun x hx => h x (List.mem_cons_of_mem _ hx))
    simp only [readLines] at ih ⊢
    simp only [List.flatten_cons, List.append_assoc, List.singleton_append]
    rw [readLinesAux_body _ body [] hb, ih]
    simp

/-- with `skipkeys` off no member is dropped: the JSON object has one member per dictionary item, its
keys are the coerced keys in insertion order -/
theorem toJsonMembers_keys (d : Opts) (hk : d.skipKeys = false) (s : Nat → Except Err Str) :
    ∀ (ms : PyMembers) (js : JMembers), toJsonMembers d s ms = .ok js →
      js.keys.map some = ms.keyList.map PyKey.text
  | .nil, js, h => by simp only [toJsonMembers] at h; cases h; rfl
  | .cons k v t, js, h => by
    simp only [toJsonMembers] at h
    split at h
    · cases h
    · rename_i hc
      cases k <;> simp [coerceKey, hk] at hc
      split at hc <;> cases hc
    · rename_i ks hc
      split at h
      · cases h
      · split at h
        · cases h
        · rename_i js' hjs
          cases h
          simp [JMembers.keys, PyMembers.keyList, coerceKey_key hc, toJsonMembers_keys d hk s t js' hjs]

end Json
