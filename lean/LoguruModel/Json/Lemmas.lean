import LoguruModel.Json.Model
/-
C14 – helper lemmas for Props/C14.lean (string escaping round trip, parser/printer inversion).
-/
namespace Py.JsonStr
open Py

/-- the predicate "is not a raw line break" (LF / CR; see DESIGN §4 C14 for the reading) -/
def NoBreak (s : Str) : Prop := ∀ x ∈ s, x ≠ '\n' ∧ x ≠ '\r'

instance (s : Str) : Decidable (NoBreak s) := by unfold NoBreak; exact inferInstance

theorem NoBreak.nil : NoBreak [] := by intro x h; cases h

theorem NoBreak.append {a b : Str} (ha : NoBreak a) (hb : NoBreak b) : NoBreak (a ++ b) := by
  intro x h
  rcases List.mem_append.1 h with h | h
  · exact ha x h
  · exact hb x h

theorem NoBreak.cons {c : Char} {a : Str} (hc : c ≠ '\n' ∧ c ≠ '\r') (ha : NoBreak a) : NoBreak (c :: a) := by
  intro x h
  rcases List.mem_cons.1 h with h | h
  · subst h; exact hc
  · exact ha x h

theorem NoBreak.of_append_left {a b : Str} (h : NoBreak (a ++ b)) : NoBreak a :=
  fun x hx => h x (List.mem_append_left _ hx)

theorem hexDig_noBreak (n : Nat) : hexDig n ≠ '\n' ∧ hexDig n ≠ '\r' :=
  ⟨Nat.digitChar_ne _ (by decide), Nat.digitChar_ne _ (by decide)⟩

theorem hex4_noBreak (n : Nat) : NoBreak ('\\' :: 'u' :: hex4 n) := by
  intro x h
  simp only [hex4, List.mem_cons, List.not_mem_nil, or_false] at h
  rcases h with h | h | h | h | h | h <;> subst h
  · decide
  · decide
  all_goals exact hexDig_noBreak _

theorem ge32_noBreak {c : Char} (h : ¬ c.toNat < 0x20) : c ≠ '\n' ∧ c ≠ '\r' := by
  constructor <;> (intro e; subst e; exact h (by decide))

theorem escVerbatim_noBreak (c : Char) : NoBreak (escVerbatim c) := by
  unfold escVerbatim
  repeat' split
  any_goals (intro x h; simp only [List.mem_cons, List.not_mem_nil, or_false] at h; rcases h with h | h <;> subst h <;> decide)
  · exact hex4_noBreak _
  · rename_i h
    intro x hx
    simp only [List.mem_cons, List.not_mem_nil, or_false] at hx
    subst hx; exact ge32_noBreak h

theorem escAscii_noBreak (c : Char) : NoBreak (escAscii c) := by
  unfold escAscii
  split
  · exact escVerbatim_noBreak c
  · rename_i h
    have h32 : ¬ c.toNat < 0x20 := fun h' => h (Or.inl h')
    split
    · intro x hx
      simp only [List.mem_cons, List.not_mem_nil, or_false] at hx
      subst hx; exact ge32_noBreak h32
    · split
      · exact hex4_noBreak _
      · exact NoBreak.append (hex4_noBreak _) (hex4_noBreak _)

theorem escapeChar_noBreak (ea : Bool) (c : Char) : NoBreak (escapeChar ea c) := by
  unfold escapeChar; split
  · exact escAscii_noBreak c
  · exact escVerbatim_noBreak c

theorem encodeBody_noBreak (ea : Bool) (s : Str) : NoBreak (encodeBody ea s) := by
  induction s with
  | nil => exact NoBreak.nil
  | cons c t ih =>
    show NoBreak ((c :: t).flatMap (escapeChar ea))
    rw [List.flatMap_cons]
    exact NoBreak.append (escapeChar_noBreak ea c) ih

theorem encodeStr_noBreak (ea : Bool) (s : Str) : NoBreak (encodeStr ea s) := by
  unfold encodeStr
  refine NoBreak.cons (by decide) (NoBreak.append (encodeBody_noBreak ea s) ?_)
  exact NoBreak.cons (by decide) NoBreak.nil

/-! ### decode ∘ encode -/

theorem encodeBody_cons (ea : Bool) (c : Char) (t : Str) :
    encodeBody ea (c :: t) = escapeChar ea c ++ encodeBody ea t := by
  simp [encodeBody, List.flatMap_cons]

/-- hex round trip for the control characters -/
theorem hex4_roundtrip : ∀ n, n < 0x20 →
    hex4Val? (hexDig (n / 4096 % 16)) (hexDig (n / 256 % 16)) (hexDig (n / 16 % 16)) (hexDig (n % 16)) = some n := by
  decide

theorem decodeBody_quote (r : Str) : decodeBody ('\"' :: r) = some ([], r) := by
  rw [decodeBody.eq_def]; simp

theorem decodeBody_plain (c : Char) (r : Str) (h1 : c ≠ '"') (h2 : c ≠ '\\') (h3 : ¬ c.toNat < 0x20) :
    decodeBody (c :: r) = (decodeBody r).map (consFst c) := by
  rw [decodeBody.eq_def]; simp [h1, h2, h3]

theorem decodeBody_esc (e ch : Char) (r : Str) (he : e ≠ 'u') (h : unescape? e = some ch) :
    decodeBody ('\\' :: e :: r) = (decodeBody r).map (consFst ch) := by
  rw [decodeBody.eq_def]; simp [he, h]

theorem decodeBody_u (a b c d : Char) (n : Nat) (r : Str) (h : hex4Val? a b c d = some n)
    (hs : ¬ (0xd800 ≤ n ∧ n < 0xe000)) :
    decodeBody ('\\' :: 'u' :: a :: b :: c :: d :: r) = (decodeBody r).map (consFst (Char.ofNat n)) := by
  rw [decodeBody.eq_def]; simp [h, hs]

theorem decodeBody_escVerbatim (c : Char) (r : Str) :
    decodeBody (escVerbatim c ++ r) = (decodeBody r).map (consFst c) := by
  unfold escVerbatim
  split
  · rename_i h; subst h; exact decodeBody_esc _ _ r (by decide) (by decide)
  split
  · rename_i h; subst h; exact decodeBody_esc _ _ r (by decide) (by decide)
  split
  · rename_i h; subst h; exact decodeBody_esc _ _ r (by decide) (by decide)
  split
  · rename_i h; subst h; exact decodeBody_esc _ _ r (by decide) (by decide)
  split
  · rename_i h; subst h; exact decodeBody_esc _ _ r (by decide) (by decide)
  split
  · rename_i h; subst h; exact decodeBody_esc _ _ r (by decide) (by decide)
  split
  · rename_i h; subst h; exact decodeBody_esc _ _ r (by decide) (by decide)
  split
  · rename_i h
    have hr := hex4_roundtrip c.toNat h
    have h2 : ¬ (0xd800 ≤ c.toNat ∧ c.toNat < 0xe000) := by omega
    have := decodeBody_u _ _ _ _ _ r hr h2
    simpa [hex4] using this
  · rename_i h1 h2 _ _ _ _ _ h8
    exact decodeBody_plain c r h1 h2 h8

theorem decodeBody_encodeBody (s r : Str) :
    decodeBody (encodeBody false s ++ '"' :: r) = some (s, r) := by
  induction s with
  | nil => exact decodeBody_quote r
  | cons c t ih =>
    rw [encodeBody_cons, List.append_assoc]
    simp only [escapeChar, Bool.false_eq_true, if_false]
    rw [decodeBody_escVerbatim, ih]
    rfl

theorem decodeStr_encodeStr (s r : Str) : decodeStr (encodeStr false s ++ r) = some (s, r) := by
  simp only [encodeStr, List.cons_append, decodeStr, List.append_assoc]
  exact decodeBody_encodeBody s r

end Py.JsonStr

namespace Json
open Py Py.JsonStr

/-! ### no raw line break in `dumps` -/

theorem isNumChar_noBreak {c : Char} (h : isNumChar c = true) : c ≠ '\n' ∧ c ≠ '\r' := by
  constructor <;> (intro e; subst e; revert h; decide)

theorem floatTok_noBreak (t : FloatTok) : NoBreak t.tok := by
  have h := t.ok
  unfold floatTokOK at h
  simp only [Bool.or_eq_true, Bool.and_eq_true, decide_eq_true_eq] at h
  rcases h with ((h | h) | h) | h
  · rw [h]; decide
  · rw [h]; decide
  · rw [h]; decide
  · intro x hx
    exact isNumChar_noBreak (List.all_eq_true.1 h.1.1 x hx)

theorem digit_noBreak {c : Char} (h : c.isDigit = true) : c ≠ '\n' ∧ c ≠ '\r' := by
  constructor <;> (intro e; subst e; revert h; decide)

theorem natStr_noBreak (n : Nat) : NoBreak (natStr n) := by
  intro x hx
  exact digit_noBreak (Nat.isDigit_of_mem_toDigits (by decide) (by decide) hx)

theorem fmtD_noBreak (i : Int) : NoBreak (fmtD i) := by
  unfold fmtD; split
  · exact NoBreak.cons (by decide) (natStr_noBreak _)
  · exact natStr_noBreak _

mutual
theorem dumps_noBreak (ea : Bool) : ∀ v : JVal, NoBreak (dumps ea v)
  | .null => by simp only [dumps]; decide
  | .bool b => by cases b <;> (simp [dumps]; decide)
  | .int i => by simp only [dumps]; exact fmtD_noBreak i
  | .float t => by simp only [dumps]; exact floatTok_noBreak t
  | .str s => by simp only [dumps]; exact encodeStr_noBreak ea s
  | .arr xs => by simp only [dumps]; exact NoBreak.cons (by decide) (dumpsElems_noBreak ea xs)
  | .obj ms => by simp only [dumps]; exact NoBreak.cons (by decide) (dumpsMembers_noBreak ea ms)
theorem dumpsElems_noBreak (ea : Bool) : ∀ xs : JList, NoBreak (dumpsElems ea xs)
  | .nil => by simp only [dumpsElems]; decide
  | .cons v t => by
    simp only [dumpsElems]; exact NoBreak.append (dumps_noBreak ea v) (dumpsRest_noBreak ea t)
theorem dumpsRest_noBreak (ea : Bool) : ∀ xs : JList, NoBreak (dumpsRest ea xs)
  | .nil => by simp only [dumpsRest]; decide
  | .cons v t => by
    simp only [dumpsRest]
    exact NoBreak.cons (by decide) (NoBreak.cons (by decide)
      (NoBreak.append (dumps_noBreak ea v) (dumpsRest_noBreak ea t)))
theorem dumpsMembers_noBreak (ea : Bool) : ∀ ms : JMembers, NoBreak (dumpsMembers ea ms)
  | .nil => by simp only [dumpsMembers]; decide
  | .cons k v t => by
    simp only [dumpsMembers]
    exact NoBreak.append (encodeStr_noBreak ea k) (NoBreak.cons (by decide) (NoBreak.cons (by decide)
      (NoBreak.append (dumps_noBreak ea v) (dumpsMRest_noBreak ea t))))
theorem dumpsMRest_noBreak (ea : Bool) : ∀ ms : JMembers, NoBreak (dumpsMRest ea ms)
  | .nil => by simp only [dumpsMRest]; decide
  | .cons k v t => by
    simp only [dumpsMRest]
    exact NoBreak.cons (by decide) (NoBreak.cons (by decide)
      (NoBreak.append (encodeStr_noBreak ea k) (NoBreak.cons (by decide) (NoBreak.cons (by decide)
        (NoBreak.append (dumps_noBreak ea v) (dumpsMRest_noBreak ea t))))))
end

end Json
