import LoguruModel.Py.Basic
import LoguruModel.Py.JsonStr
/-
C14 – base types of the `serialize=True` model: JSON value trees, Python value trees (what
`json.dumps` is handed), the record view read by `Handler._serialize_record`.
`LoguruModel/Generated/Json.lean` (rewritten from /repo on every run) builds on these.
-/
namespace Json
open Py Py.JsonStr

/-! ### float tokens

A float never crosses into the model as a number: it is the token `float.__repr__` printed
(`1.5`, `1e-07`, `-0.0`, `1.7976931348623157e+308`) or one of `NaN`, `Infinity`, `-Infinity`
(`allow_nan=True` is json's default and loguru does not change it).  The token is kept opaque but
carries a proof that it has that lexical shape, so that theorems quantify over *all* value trees
without side conditions. -/

def isNumChar (c : Char) : Bool :=
  c.isDigit || c = '-' || c = '+' || c = '.' || c = 'e' || c = 'E'

def allDigits (s : Str) : Bool := !s.isEmpty && s.all Char.isDigit

/-- `-?digits` -/
def isIntShaped (s : Str) : Bool :=
  match s with
  | '-' :: t => allDigits t
  | t => allDigits t

/-- exponent part: `e[+-]?digits` -/
def expOK (s : Str) : Bool :=
  match s with
  | 'e' :: '+' :: d => allDigits d
  | 'e' :: '-' :: d => allDigits d
  | 'E' :: '+' :: d => allDigits d
  | 'E' :: '-' :: d => allDigits d
  | 'e' :: d => allDigits d
  | 'E' :: d => allDigits d
  | _ => false

/-- after the integer part: `.digits` and/or an exponent (at least one of them) -/
def fracExpOK (s : Str) : Bool :=
  match s with
  | '.' :: t =>
    let f := t.takeWhile Char.isDigit
    let r := t.dropWhile Char.isDigit
    !f.isEmpty && (r.isEmpty || expOK r)
  | r => expOK r

/-- JSON number with a fraction or an exponent: `-?digits(.digits)?([eE][+-]?digits)?`, not an int -/
def numFloatOK (s : Str) : Bool :=
  let u := match s with
    | '-' :: t => t
    | t => t
  let ip := u.takeWhile Char.isDigit
  !ip.isEmpty && fracExpOK (u.dropWhile Char.isDigit)

def nanTok : Str := ['N', 'a', 'N']
def infTok : Str := ['I', 'n', 'f', 'i', 'n', 'i', 't', 'y']
def negInfTok : Str := ['-', 'I', 'n', 'f', 'i', 'n', 'i', 't', 'y']

def floatTokOK (s : Str) : Bool :=
  s = nanTok || s = infTok || s = negInfTok || (s.all isNumChar && !isIntShaped s && numFloatOK s)

/-- a float token together with the evidence of its lexical shape -/
structure FloatTok where
  tok : Str
  ok : floatTokOK tok = true
  deriving DecidableEq

instance : Repr FloatTok := ⟨fun t _ => repr (String.ofList t.tok)⟩

/-- `NaN`, `Infinity`, `-Infinity`: what `allow_nan=False` refuses with a `ValueError` -/
def FloatTok.nonFinite (t : FloatTok) : Bool := t.tok = nanTok || t.tok = infTok || t.tok = negInfTok

/-! ### JSON values (insertion-ordered objects, string keys) -/
mutual
inductive JVal where
  | null
  | bool (b : Bool)
  | int (i : Int)
  | float (t : FloatTok)
  | str (s : Str)
  | arr (xs : JList)
  | obj (ms : JMembers)
inductive JList where
  | nil
  | cons (v : JVal) (t : JList)
inductive JMembers where
  | nil
  | cons (k : Str) (v : JVal) (t : JMembers)
end

/-! ### Python values handed to `json.dumps`

`list` also stands for `tuple` (both are written as arrays); `opaque n` is any object the encoder
has no rule for (bytes, datetime, timedelta, set, exception instance, user object …): it is known
only through the oracle `strOf n = str(obj)`. -/
/-- a dictionary key as json's encoder classifies it (`encoder_listencode_dict`): `str` as itself,
`float` → its repr token, `True/False/None` → `true/false/null`, `int` → its decimal repr; a key of any
other type (tuple, bytes, frozenset, user object …) has NO rule – `default=` is never consulted for
keys – and is a `TypeError` unless `skipkeys=True` drops the member. -/
inductive PyKey where
  | str (s : Str)
  | int (i : Int)
  | float (t : FloatTok)
  | bool (b : Bool)
  | none
  | other (id : Nat)
  deriving DecidableEq

/-- the keyword arguments of `json.dumps` that decide WHETHER a value can be encoded and which
members appear in which order (`ensure_ascii` only changes the text of strings and is passed to
`dumps` separately) -/
structure Opts where
  /-- `default=str` -/
  useDefault : Bool
  /-- `sort_keys=` -/
  sortKeys : Bool
  /-- `skipkeys=` -/
  skipKeys : Bool
  /-- `allow_nan=` -/
  allowNan : Bool
  deriving DecidableEq, Repr

mutual
inductive PyVal where
  | none
  | bool (b : Bool)
  | int (i : Int)
  | float (t : FloatTok)
  | str (s : Str)
  | list (xs : PyList)
  | dict (ms : PyMembers)
  | opaque (id : Nat)
inductive PyList where
  | nil
  | cons (v : PyVal) (t : PyList)
inductive PyMembers where
  | nil
  | cons (k : PyKey) (v : PyVal) (t : PyMembers)
end

/-- what the `except Exception:` clause of `Handler.emit` does with an error raised while formatting,
serialising or writing: re-raise it into the logging call, or report it on `sys.stderr`
(`ErrorInterceptor.print`) and drop the record -/
inductive ErrAction where
  | reraise
  | report
  deriving DecidableEq, Repr

/-- a `datetime.timedelta` (CPython keeps it normalised: any `days`, `0 ≤ seconds < 86400`,
`0 ≤ microseconds < 10^6`; a negative duration has negative `days`) -/
structure TimeDelta where
  days : Int
  seconds : Int
  microseconds : Int
  deriving DecidableEq, Repr

/-- CPython `timedelta.total_seconds()` is `((days * 86400 + seconds) * 10**6 + microseconds) / 10**6`
(one true division): this is its exact integer numerator, in microseconds (modelled, not verified;
the harness compares the implementation with `total_seconds()` of the record's own value). -/
def TimeDelta.totalMicros (td : TimeDelta) : Int :=
  (td.days * 86400 + td.seconds) * 1000000 + td.microseconds

/-- `None if x is None else x.__name__` and similar optional strings -/
def optStr : Option Str → PyVal
  | Option.none => .none
  | some s => .str s

/-- `record["exception"]` when it is not `None`: what `_serialize_record` reads from it -/
structure ExcInfo where
  /-- `exception.type.__name__`, `none` when `exception.type is None` -/
  typeName : Option Str
  /-- `exception.value` (normally an exception instance, i.e. opaque) -/
  value : PyVal
  /-- `bool(exception.traceback)` -/
  hasTraceback : Bool

/-- the record as `_serialize_record` reads it: one field per attribute/key access.  Every leaf
is an arbitrary Python value (a patcher may have put anything there). -/
structure Record where
  elapsed : PyVal              -- record["elapsed"]  (a timedelta: opaque)
  elapsedSeconds : PyVal       -- record["elapsed"].total_seconds()
  exception : Option ExcInfo   -- record["exception"]
  extra : PyVal                -- record["extra"]
  fileName : PyVal             -- record["file"].name
  filePath : PyVal             -- record["file"].path
  function : PyVal             -- record["function"]
  levelIcon : PyVal            -- record["level"].icon
  levelName : PyVal            -- record["level"].name
  levelNo : PyVal              -- record["level"].no
  line : PyVal                 -- record["line"]
  message : PyVal              -- record["message"]
  module : PyVal               -- record["module"]
  name : PyVal                 -- record["name"]
  processId : PyVal            -- record["process"].id
  processName : PyVal          -- record["process"].name
  threadId : PyVal             -- record["thread"].id
  threadName : PyVal           -- record["thread"].name
  time : PyVal                 -- record["time"]  (a datetime: opaque)
  timeTimestamp : PyVal        -- record["time"].timestamp()

end Json
