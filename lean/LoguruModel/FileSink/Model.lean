import LoguruModel.FileSink.Base
import LoguruModel.Generated.FileSink
/-!
FileSink model (C08, C18): `loguru/_file_sink.py` `FileSink.write/stop/_terminate_file/...`,
`generate_rename_path`, `Compression.compression`, at the granularity of one file-system primitive.

* abstract file system: association list `Name ↦ Entry` (plain file with the list of message ids it
  holds, or archive with its member name and the ids it yields when decompressed);
* names are structured (`base k` = what `_create_path` yields when the clock reads `k`,
  `ren n date ctr` = `generate_rename_path(root n, ext n, date)` at counter `ctr`, `arc n` = `n + "." + ext`);
* fault vector `List Bool`: one element consumed by every primitive (`tick`); `true` makes that primitive
  raise `OSError` *before* it has any effect; primitives also fail for natural reasons (missing file);
* user supplied pieces are oracles carried by the operation: the rotation predicate's answer, the clock,
  the creation times `get_ctime` reports, the steps a retention policy performs;
* ghost fields (`written`, `deleted`, `orphaned`, `clobbered`, `nextId`) only record history for the theorems.
-/
namespace FileSink
open Py

inductive Name where
  | base (k : Nat)
  | other (k : Nat)
  | ren (n : Name) (date ctr : Nat)
  | arc (n : Name)
  deriving DecidableEq, Repr

inductive Inner where
  | stream              -- single-stream formats (gz, bz2, xz, lzma)
  | noMember            -- zip archive holding no member (creation interrupted)
  | broken              -- tar archive whose creation was interrupted: unreadable
  | member (n : Name)   -- tar/zip member stored under the base name of `n`
  deriving DecidableEq, Repr

inductive Entry where
  | file (c : List Nat)
  | arch (i : Inner) (c : List Nat)
  deriving DecidableEq, Repr

def Entry.content : Entry → List Nat
  | .file c => c
  | .arch _ c => c

def Entry.append : Entry → Nat → Entry
  | .file c, m => .file (c ++ [m])
  | .arch i c, m => .arch i (c ++ [m])

abbrev FS := List (Name × Entry)

def FS.get (fs : FS) (n : Name) : Option Entry := fs.lookup n
def FS.has (fs : FS) (n : Name) : Bool := (fs.lookup n).isSome
def FS.del (fs : FS) (n : Name) : FS := fs.filter (fun p => p.1 != n)
def FS.set (fs : FS) (n : Name) (e : Entry) : FS := (n, e) :: FS.del fs n

/-- primitive calls, as recorded in the trace (and counted by the harness shim) -/
inductive Ev where
  | mkdirs | open (n : Name) | fstat | write | flush | close | stat
  | getctime (n : Name) | rename (a b : Name) | remove (n : Name)
  | glob | openr (n : Name) | copen (n : Name) | ccopy | rotcall | compcall (n : Name) | retstat
  deriving DecidableEq, Repr

/-- what a retention policy does (oracle): stat a candidate, or remove one -/
inductive RetStep where
  | stat
  | del (n : Name)
  deriving DecidableEq, Repr

inductive Comp where
  | fmt (k : CompKind)
  | callable
  deriving DecidableEq, Repr

structure Cfg where
  hasRot : Bool          -- `_rotation_function is not None`
  comp : Option Comp
  hasRet : Bool
  watch : Bool
  nglob : Nat            -- number of glob patterns (2 or 4)
  deriving Repr

/-- per-call oracles -/
structure Orc where
  rot : Bool             -- answer of the rotation predicate
  clk : Nat              -- clock reading used by `_create_path` during this call
  ct1 : Nat              -- `get_ctime(old_path)` (same-name rename)
  ct2 : Nat              -- `get_ctime(path_out)` (archive collision)
  ret : List RetStep     -- what the retention policy does
  deriving Repr

structure W where
  fs : FS
  faults : List Bool
  trace : List Ev := []          -- newest first
  cur : Option Name := none      -- `_file_path` (`_file is not None` iff `some`)
  closed : Bool := false         -- `_file` still refers to a file object whose close() raised: closed for good
  detached : Bool := false       -- the handle's inode is no longer what the path names
  mismatch : Bool := false       -- recorded (dev, ino) differ from the path's (watch)
  nextId : Nat := 0
  written : List Nat := []       -- ghost: ids whose write returned normally
  deleted : List Nat := []       -- ghost: ids that were in files removed by retention / the environment
  orphaned : List Nat := []      -- ghost: ids written through a detached handle
  clobbered : List Name := []    -- ghost: targets of rename / archive creation that existed
  deriving Repr

/-- state + exception monad; the state survives an exception (as in Python) -/
def M (α : Type) := W → Except Err α × W

instance : Monad M where
  pure a := fun w => (.ok a, w)
  bind m f := fun w => match m w with
    | (.ok a, w') => f a w'
    | (.error e, w') => (.error e, w')

def M.throw {α} (e : Err) : M α := fun w => (.error e, w)
def getW : M W := fun w => (.ok w, w)
def modW (f : W → W) : M Unit := fun w => (.ok (), f w)

/-- `if c: m` as a statement -/
def whenM (c : Bool) (m : M Unit) : M Unit := if c then m else pure ()

def seqM : List (M Unit) → M Unit
  | [] => pure ()
  | a :: r => a >>= fun _ => seqM r

/-- one primitive call: recorded, consumes one fault bit, raises `OSError` when the bit is set -/
def tick (e : Ev) : M Unit := fun w =>
  let w' := { w with trace := e :: w.trace, faults := w.faults.tail }
  if w.faults.headD false then (.error .osError, w') else (.ok (), w')

/-- `os.makedirs(dirname, exist_ok=True)` -/
def mkdirs : M Unit := tick .mkdirs

/-- `self._file = open(path, mode=…)`; `self._file_path = path`; with `watch`: `os.fstat` -/
def createFile (cfg : Cfg) (n : Name) : M Unit := do
  tick (.open n)
  modW fun w =>
    let keep := Gen.fileMode.head? == some 'a'
    let fs := match w.fs.get n with
      | some _ => if keep then w.fs else w.fs.set n (.file [])
      | none => w.fs.set n (.file [])
    { w with fs := fs, cur := some n, closed := false, detached := false, mismatch := cfg.watch }
  if cfg.watch then
    tick .fstat
    modW fun w => { w with mismatch := false }

def closeStep : CloseStep → M Unit
  | .bindFile => pure ()            -- `file = self._file`
  | .flush => do
      let w ← getW
      tick .flush
      if w.closed then M.throw .valueError
  | .close => do
      -- a failing close() still closes the Python file object; whether the sink is left holding that
      -- closed object depends on whether `_file` has been forgotten BEFORE this statement
      let w ← getW
      modW fun w' => { w' with closed := w.cur.isSome }
      tick .close
      modW fun w => { w with closed := false }
  | .resetFile => modW fun w => { w with cur := none, closed := false, detached := false }
  | .resetPath => pure ()
  | .resetDev => modW fun w => { w with mismatch := false }
  | .resetIno => pure ()

/-- `_close_file`, following the generated statement order -/
def closeFile : M Unit := seqM (Gen.closeOrder.map closeStep)

/-- the `while os.path.exists(renamed_path)` loop of `generate_rename_path` (exists never raises) -/
def renameLoop (fs : FS) (cand : Nat → Name) : Nat → Nat → Option Name
  | 0, _ => none
  | fuel + 1, c => if fs.has (cand c) then renameLoop fs cand fuel (c + 1) else some (cand c)

def genRename (fs : FS) (cand : Nat → Name) : Option Name :=
  renameLoop fs cand (fs.length + 1) Gen.renameFirstCounter

/-- `get_ctime(path)`: stats the file -/
def getCtime (n : Name) : M Unit := do
  tick (.getctime n)
  let w ← getW
  if !w.fs.has n then M.throw .osError

/-- `os.rename(a, b)` (POSIX: silently replaces `b`) -/
def rename (a b : Name) : M Unit := do
  tick (.rename a b)
  let w ← getW
  match w.fs.get a with
  | none => M.throw .osError
  | some e =>
    modW fun w => { w with fs := (w.fs.del a).set b e,
                           clobbered := if w.fs.has b then b :: w.clobbered else w.clobbered }

/-- `os.remove(n)` -/
def remove (n : Name) : M Unit := do
  tick (.remove n)
  let w ← getW
  if !w.fs.has n then M.throw .osError
  else modW fun w => { w with fs := w.fs.del n }

def innerOf (k : CompKind) (p : Name) : Inner :=
  match k with
  | .copy => .stream
  | _ => if Gen.memberIsBasename then .member p else .noMember

/-- `open(path_in, "rb")` of `copy_compress` -/
def openSrc (k : CompKind) (p : Name) : M Unit :=
  if k == .copy then do
    tick (.openr p)
    let w ← getW
    if !w.fs.has p then M.throw .osError else pure ()
  else pure ()

/-- `compress_function(path_in, path_out)` for the three kinds – the hand-written reading (kept as the reference the
generated primitive list is proved equal to: `compressFn_eq`) -/
def compressFnHand (k : CompKind) (p out : Name) : M Unit := do
  openSrc k p
  -- the opener creates / truncates the archive
  tick (.copen out)
  modW fun w => { w with fs := w.fs.set out (.arch (match k with | .copy => .stream | .add => .broken | .write => .noMember) []),
                         clobbered := if w.fs.has out then out :: w.clobbered else w.clobbered }
  tick .ccopy
  let w ← getW
  match w.fs.get p with
  | none => M.throw .osError
  | some e => modW fun w => { w with fs := w.fs.set out (.arch (innerOf k p) e.content) }

/-- one primitive of a compress function (`Gen.compressPrims`, read from the `with` nests of /repo) -/
def cPrim (k : CompKind) (p out : Name) : CPrim → M Unit
  | .openSource _ => do
      tick (.openr p)
      let w ← getW
      if !w.fs.has p then M.throw .osError else pure ()
  | .openArchive => do
      tick (.copen out)
      modW fun w => { w with fs := w.fs.set out (.arch (match k with | .copy => .stream | .add => .broken | .write => .noMember) []),
                             clobbered := if w.fs.has out then out :: w.clobbered else w.clobbered }
  | .transfer _ => do
      tick .ccopy
      let w ← getW
      match w.fs.get p with
      | none => M.throw .osError
      | some e => modW fun w => { w with fs := w.fs.set out (.arch (innerOf k p) e.content) }
  | .closeArchive => pure ()
  | .closeSource => pure ()

/-- `compress_function(path_in, path_out)`: interpreter of the GENERATED primitive sequence of the kind -/
def compressFn (k : CompKind) (p out : Name) : M Unit := seqM ((Gen.compressPrims k).map (cPrim k p out))

def cStep (k : CompKind) (p : Name) (ct : Nat) : CStep → M Unit
  | .pathOut => pure ()
  | .collisionRename => do
      let w ← getW
      if w.fs.has (.arc p) then
        getCtime (.arc p)
        let w ← getW
        match genRename w.fs (fun c => .arc (.ren p ct c)) with
        | none => M.throw .runtimeError
        | some r => rename (.arc p) r
  | .compress => compressFn k p (.arc p)
  | .removeSource => remove p

/-- `Compression.compression(path_in, ext, compress_function)` in the generated statement order -/
def compression (k : CompKind) (p : Name) (ct : Nat) : M Unit :=
  seqM (Gen.compressionOrder.map (cStep k p ct))

def retStep : RetStep → M Unit
  | .stat => tick .retstat
  | .del n => do
      tick (.remove n)
      let w ← getW
      match w.fs.get n with
      | none => M.throw .osError
      | some e => modW fun w => { w with fs := w.fs.del n, deleted := e.content ++ w.deleted }

def retention (cfg : Cfg) (steps : List RetStep) : M Unit := do
  seqM (List.replicate cfg.nglob (tick .glob))
  seqM (steps.map retStep)

def createPath (o : Orc) : Name := .base o.clk

/-- the `if new_path == old_path:` block of `_terminate_file` -/
def renameSame (o : Orc) (new : Name) (old : Option Name) : M (Option Name) :=
  if some new == old then do
    getCtime new
    let w ← getW
    match genRename w.fs (fun c => .ren new o.ct1 c) with
    | none => M.throw .runtimeError
    | some r => do
      rename new r
      pure (some r)
  else pure old

/-- the first `if is_rotating:` block; yields the (possibly renamed) `old_path` -/
def rotatePrep (o : Orc) (rotating : Bool) (old : Option Name) : M (Option Name) :=
  if Gen.termPrepTest rotating then do
    mkdirs
    renameSame o (createPath o) old
  else pure old

def compressOld (cfg : Cfg) (o : Orc) (old : Option Name) : M Unit :=
  match cfg.comp, old with
  | some (.fmt k), some p => compression k p o.ct2
  | some .callable, some p => tick (.compcall p)
  | _, _ => pure ()

/-- the `if is_rotating or self._rotation_function is None:` block -/
def finishOld (cfg : Cfg) (o : Orc) (old : Option Name) : M Unit := do
  compressOld cfg o old
  whenM (Gen.termRetainTest cfg.hasRet) (retention cfg o.ret)

/-- `_terminate_file(is_rotating=…)`; the guards are the kernels GENERATED from the source (`Gen.term…Test`) -/
def terminate (cfg : Cfg) (o : Orc) (rotating : Bool) : M Unit := do
  let w ← getW
  whenM (Gen.termCloseTest w.cur.isSome) closeFile
  let old ← rotatePrep o rotating w.cur
  whenM (Gen.termFinishTest rotating cfg.hasRot) (finishOld cfg o old)
  whenM (Gen.termRecreateTest rotating) (createFile cfg (createPath o))

/-- one statement of the re-open branch of `_reopen_if_needed` -/
def rStep (cfg : Cfg) (p : Name) : RStep → M Unit
  | .close => closeFile
  | .mkdirs => mkdirs
  | .create => createFile cfg p

/-- `_reopen_if_needed`: the test is the GENERATED kernel `Gen.reopenNeeded` (file missing / device differs /
inode differs; the model's `mismatch` stands for "recorded (dev, ino) differ from the path's"), the branch follows
the GENERATED statement order `Gen.reopenOrder` -/
def reopenIfNeeded (cfg : Cfg) : M Unit := do
  let w ← getW
  match w.cur with
  | none => pure ()
  | some p =>
    tick .stat
    if Gen.reopenNeeded (!w.fs.has p) w.mismatch w.mismatch then
      seqM (Gen.reopenOrder.map (rStep cfg p))

/-- `self._file.write(message)` -/
def writeMsg : M Unit := do
  tick .write
  let w ← getW
  if w.closed then M.throw .valueError
  else match w.cur with
  | none => M.throw .attributeError
  | some p =>
    let m := w.nextId
    if w.detached then
      modW fun w => { w with orphaned := m :: w.orphaned, written := m :: w.written }
    else match w.fs.get p with
      | none => modW fun w => { w with orphaned := m :: w.orphaned, written := m :: w.written }
      | some e => modW fun w => { w with fs := w.fs.set p (e.append m), written := m :: w.written }

/-- `FileSink.write(message)`; the message gets the id `nextId` -/
def lazyCreate (cfg : Cfg) (o : Orc) : M Unit := do
  mkdirs
  createFile cfg (createPath o)

def rotateIfDue (cfg : Cfg) (o : Orc) : M Unit := do
  tick .rotcall
  whenM o.rot (terminate cfg o true)

def writeBody (cfg : Cfg) (o : Orc) : M Unit := do
  let w ← getW
  whenM w.cur.isNone (lazyCreate cfg o)
  whenM cfg.watch (reopenIfNeeded cfg)
  whenM cfg.hasRot (rotateIfDue cfg o)
  writeMsg

def sStep (cfg : Cfg) (o : Orc) : SStep → M Unit
  | .reopen => whenM cfg.watch (reopenIfNeeded cfg)
  | .terminate => terminate cfg o false

/-- `FileSink.stop()`, following the generated statement order -/
def stopBody (cfg : Cfg) (o : Orc) : M Unit := seqM (Gen.stopOrder.map (sStep cfg o))

/-- the tail of `FileSink.__init__` when `delay=False` -/
def initBody (cfg : Cfg) (o : Orc) : M Unit := lazyCreate cfg o

inductive Op where
  | init (o : Orc)           -- `FileSink.__init__` with `delay=False`
  | write (o : Orc)
  | stop (o : Orc)
  | restart                  -- the handler is removed and a new sink object is added on the same path
  | extDelete (n : Name)     -- the environment deletes a file
  | extReplace (n : Name)    -- the environment replaces a file by a new empty one
  deriving Repr

def envTouch (n : Name) (w : W) : W :=
  if w.cur == some n then { w with detached := true, mismatch := true } else w

/-- one API-level step; the result says whether the call raised -/
def step (cfg : Cfg) (op : Op) (w : W) : Except Err Unit × W :=
  match op with
  | .init o => initBody cfg o w
  | .write o =>
    let (r, w') := writeBody cfg o w
    (r, { w' with nextId := w'.nextId + 1 })
  | .stop o => stopBody cfg o w
  | .restart => (.ok (), { w with cur := none, closed := false, detached := false, mismatch := false })
  | .extDelete n =>
    match w.fs.get n with
    | none => (.ok (), w)
    | some e => (.ok (), envTouch n { w with fs := w.fs.del n, deleted := e.content ++ w.deleted })
  | .extReplace n =>
    match w.fs.get n with
    | none => (.ok (), w)
    | some e => (.ok (), envTouch n { w with fs := w.fs.set n (.file []), deleted := e.content ++ w.deleted })

def run (cfg : Cfg) : List Op → W → W
  | [], w => w
  | op :: ops, w => run cfg ops (step cfg op w).2

/-- results of every step, for the driver -/
def runLog (cfg : Cfg) : List Op → W → List (Except Err Unit × W)
  | [], _ => []
  | op :: ops, w => let r := step cfg op w; r :: runLog cfg ops r.2

/-! ### compression format spelling (`_make_compression_function`) -/

/-- `str.isspace` characters (what `str.strip()` removes) -/
def isSpace (c : Char) : Bool :=
  let n := c.toNat
  (9 ≤ n && n ≤ 13) || (28 ≤ n && n ≤ 32) || n == 0x85 || n == 0xa0 || n == 0x1680 ||
  (0x2000 ≤ n && n ≤ 0x200a) || n == 0x2028 || n == 0x2029 || n == 0x202f || n == 0x205f || n == 0x3000

def lstripBy (p : Char → Bool) : Str → Str
  | [] => []
  | c :: cs => if p c then lstripBy p cs else c :: cs

def rstripBy (p : Char → Bool) (s : Str) : Str := (lstripBy p s.reverse).reverse

/-- `compression.strip().lstrip('.')` -/
def normFormat (s : Str) : Str :=
  lstripBy (fun c => Gen.lstripChars.contains c) (rstripBy isSpace (lstripBy isSpace s))

def lookupFormat (ext : Str) : List (Str × CompKind × Str × Str × Str) → Option (CompKind × Str)
  | [] => none
  | (n, k, _, m, _) :: r => if ext == n then some (k, m) else lookupFormat ext r

/-- string compression → kind and archive suffix, or `ValueError` -/
def parseCompression (s : Str) : Except Err (CompKind × Str) :=
  match lookupFormat (normFormat s) Gen.formatTable with
  | some (k, _) => .ok (k, Gen.extPrefix ++ normFormat s)
  | none => .error .valueError

end FileSink
