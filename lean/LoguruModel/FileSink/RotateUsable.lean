import LoguruModel.FileSink.WatchLemmas
import LoguruModel.FileSink.RenamePathLemmas
/-!
Usability of a logging call in which a ROTATION IS DUE (round 5): from any state with no fault pending, the whole
chain close → new path → same-name rename (`generate_rename_path`) → compression (collision rename, compress,
remove source) → retention → create new file → write succeeds, provided

* the file being closed exists in the directory (automatic with `watch`, or when the sink has no file yet), and
* the retention policy deletes nothing in this call (`noDel`; what a policy deletes is an oracle of the model).

The counter loops never fail: `genRename_isSome` (pigeonhole over the directory's keys).
-/
namespace FileSink
open Py

/-- no fault pending, no closed file object, and the directory is exactly `fs0` -/
def GF (fs0 : FS) (w : W) : Prop := w.faults = [] ∧ (w.closed = false ∧ w.fs = fs0)

theorem GF.good {fs0 : FS} {w : W} (h : GF fs0 w) : Good w := ⟨h.1, h.2.1⟩

theorem tick_GF (fs0 : FS) (e : Ev) : Triple (GF fs0) (tick e) (fun _ => GF fs0) (fun _ => False) :=
  tick_good (P := fun w => w.closed = false ∧ w.fs = fs0) (fun _ _ _ h => h) e

/-- chain a step that needs the exact directory after steps that only promise a property of it -/
theorem GF.lift {α} {m : M α} {Q : α → W → Prop} (Pfs : FS → Prop)
    (h : ∀ fs0, Pfs fs0 → Triple (GF fs0) m Q (fun _ => False)) :
    Triple (fun w => Good w ∧ Pfs w.fs) m Q (fun _ => False) :=
  fun w hw => h w.fs hw.2 w ⟨hw.1.1, hw.1.2, rfl⟩

theorem getCtime_GF (fs0 : FS) (n : Name) (h : fs0.has n = true) :
    Triple (GF fs0) (getCtime n) (fun _ => GF fs0) (fun _ => False) := by
  unfold getCtime
  refine Triple.seq (tick_GF fs0 _) (Triple.bindGet (fun a => ?_))
  refine Triple.withPre ?_
  rintro w ⟨rfl, hw⟩
  have hh : w.fs.has n = true := by rw [hw.2.2]; exact h
  simp only [hh, Bool.not_true, Bool.false_eq_true, ↓reduceIte]
  intro w' hw'
  subst hw'
  exact hw

theorem rename_GF (fs0 : FS) (a b : Name) (e : Entry) (h : fs0.get a = some e) :
    Triple (GF fs0) (rename a b) (fun _ => GF ((fs0.del a).set b e)) (fun _ => False) := by
  unfold rename
  refine Triple.seq (tick_GF fs0 _) (Triple.bindGet (fun a' => ?_))
  refine Triple.withPre ?_
  rintro w ⟨rfl, hw⟩
  have hh : w.fs.get a = some e := by rw [hw.2.2]; exact h
  simp only [hh]
  intro w' hw'
  subst hw'
  exact ⟨hw.1, hw.2.1, by simp [hw.2.2]⟩

theorem remove_GF (fs0 : FS) (n : Name) (h : fs0.has n = true) :
    Triple (GF fs0) (remove n) (fun _ => GF (fs0.del n)) (fun _ => False) := by
  unfold remove
  refine Triple.seq (tick_GF fs0 _) (Triple.bindGet (fun a' => ?_))
  refine Triple.withPre ?_
  rintro w ⟨rfl, hw⟩
  have hh : w.fs.has n = true := by rw [hw.2.2]; exact h
  simp only [hh, Bool.not_true, Bool.false_eq_true, ↓reduceIte]
  intro w' hw'
  subst hw'
  exact ⟨hw.1, hw.2.1, by simp [hw.2.2]⟩

theorem closeStep_GF (fs0 : FS) (s : CloseStep) : Triple (GF fs0) (closeStep s) (fun _ => GF fs0) (fun _ => False) := by
  cases s with
  | bindFile => exact Triple.unit
  | resetPath => exact Triple.unit
  | resetIno => exact Triple.unit
  | resetFile => exact modW_spec _ (fun w h => ⟨h.1, rfl, h.2.2⟩)
  | resetDev => exact modW_spec _ (fun w h => h)
  | flush =>
    unfold closeStep
    refine Triple.withPre ?_
    intro w0 hg
    refine Triple.bindGet (fun a => ?_)
    refine Triple.withPre ?_
    rintro w ⟨rfl, rfl⟩
    simp only [hg.2.1, Bool.false_eq_true, ↓reduceIte]
    refine Triple.pre (P := GF fs0) ?_ (fun w h => h ▸ hg)
    exact Triple.seq (tick_GF fs0 _) Triple.unit
  | close =>
    unfold closeStep
    refine Triple.bindGet (fun a => Triple.pre (P := GF fs0) ?_ (fun w h => h.2))
    refine Triple.bind (Q := fun _ w => w.faults = [] ∧ w.fs = fs0) (modW_spec _ (fun w h => ⟨h.1, h.2.2⟩)) (fun _ => ?_)
    exact Triple.seq (tick_good (P := fun w => w.fs = fs0) (fun _ _ _ h => h) _) (modW_spec _ (fun w h => ⟨h.1, rfl, h.2⟩))

theorem closeFile_GF (fs0 : FS) : Triple (GF fs0) closeFile (fun _ => GF fs0) (fun _ => False) := by
  unfold closeFile
  refine Triple.seqM _ (fun a ha => ?_)
  obtain ⟨s, _, rfl⟩ := List.mem_map.1 ha
  exact closeStep_GF fs0 s

/-- `_close_file` never touches the directory, whatever fails -/
theorem closeFile_fs (fs0 : FS) :
    Triple (fun w => w.fs = fs0) closeFile (fun _ w => w.fs = fs0) (fun w => w.fs = fs0) := by
  unfold closeFile
  refine Triple.seqM _ (fun a ha => ?_)
  obtain ⟨s, _, rfl⟩ := List.mem_map.1 ha
  have hI := insens_fs (· = fs0)
  cases s with
  | bindFile => exact Triple.unit
  | resetPath => exact Triple.unit
  | resetIno => exact Triple.unit
  | resetFile => exact modW_spec _ (fun w h => h)
  | resetDev => exact modW_spec _ (fun w h => h)
  | flush =>
    unfold closeStep
    refine Triple.bindGet (fun a => Triple.pre ?_ (fun w h => h.2))
    exact Triple.seq (tick_spec hI _) (Triple.ite (fun _ => Triple.throw _) (fun _ => Triple.unit))
  | close =>
    unfold closeStep
    refine Triple.bindGet (fun a => Triple.pre ?_ (fun w h => h.2))
    exact Triple.seq (modW_spec _ (fun w h => h)) (Triple.seq (tick_spec hI _) (modW_spec _ (fun w h => h)))

/-- `_create_file(n)` without faults: the sink holds `n`, which exists -/
theorem createFile_there (cfg : Cfg) (n : Name) :
    Triple Good (createFile cfg n) (fun _ w => Good w ∧ w.cur = some n ∧ w.fs.has n = true) (fun _ => False) := by
  unfold createFile
  refine Triple.seq (tick_good (P := fun w => w.closed = false) (fun _ _ _ h => h) _) ?_
  refine Triple.bind (Q := fun _ w => Good w ∧ w.cur = some n ∧ w.fs.has n = true) (modW_spec _ ?_) (fun _ => ?_)
  · intro w h
    refine ⟨⟨h.1, rfl⟩, rfl, ?_⟩
    simp only [fileMode_append, ↓reduceIte]
    cases hg : w.fs.get n with
    | some e => exact (has_iff _ _).2 ⟨e, hg⟩
    | none => exact has_set_self _ _ _
  refine Triple.ite (fun _ => ?_) (fun _ => Triple.unit)
  refine Triple.seq (P := fun w => Good w ∧ w.cur = some n ∧ w.fs.has n = true) ?_ (modW_spec _ (fun w h => h))
  exact Triple.conseq (tick_good (P := fun w => w.closed = false ∧ w.cur = some n ∧ w.fs.has n = true) (fun _ _ _ h => h) _)
    (fun w h => ⟨h.1.1, h.1.2, h.2⟩) (fun _ w h => ⟨⟨h.1, h.2.1⟩, h.2.2⟩) (fun _ h => h)

/-! ### the counter loop always returns -/

theorem has_mem_keys (fs : FS) (n : Name) (h : fs.has n = true) : n ∈ fs.map (·.1) := by
  induction fs with
  | nil => simp [FS.has] at h
  | cons p rest ih =>
    obtain ⟨k, e⟩ := p
    by_cases hk : n = k
    · simp [hk]
    · have hb : (n == k) = false := by simp [hk]
      have hr : FS.has rest n = true := by simpa [FS.has, List.lookup_cons, hb] using h
      simp [ih hr]

/-- `generate_rename_path` always finds a name when distinct counters give distinct names -/
theorem genRename_isSome (fs : FS) (cand : Nat → Name) (hinj : ∀ a b, cand a = cand b → a = b) :
    ∃ r, genRename fs cand = some r := by
  cases h : genRename fs cand with
  | some r => exact ⟨r, rfl⟩
  | none =>
    have h' : probeLoop fs.has cand (fs.length + 1) Gen.renameFirstCounter = none := by
      rw [← renameLoopP_eq_probeLoop, ← renameLoop_eq]; exact h
    have hall := probeLoop_none _ _ _ _ h'
    have := pigeonhole_list cand hinj Gen.renameFirstCounter (fs.length + 1) (fs.map (·.1))
      (fun i hi => has_mem_keys fs _ (hall i hi))
    rw [List.length_map] at this
    omega

theorem ren_inj (n : Name) (d : Nat) : ∀ a b, Name.ren n d a = Name.ren n d b → a = b := by
  intro a b h; injection h

theorem arcren_inj (n : Name) (d : Nat) : ∀ a b, Name.arc (Name.ren n d a) = Name.arc (Name.ren n d b) → a = b := by
  intro a b h; injection h with h; injection h

/-! ### the pieces of `_terminate_file(is_rotating=True)` without faults -/

/-- the same-name rename: the closed file exists before, the returned path exists afterwards -/
theorem renameSame_GF (o : Orc) (new p : Name) (fs0 : FS) (h : fs0.has p = true) :
    Triple (GF fs0) (renameSame o new (some p))
      (fun old w => Good w ∧ ∃ q, old = some q ∧ w.fs.has q = true) (fun _ => False) := by
  unfold renameSame
  refine Triple.ite (fun hc => ?_) (fun _ => ?_)
  · have hn : new = p := by simpa using hc
    subst hn
    refine Triple.seq (getCtime_GF fs0 new h) (Triple.bindGet (fun w1 => ?_))
    refine Triple.withPre ?_
    rintro w ⟨rfl, hw⟩
    obtain ⟨r, hr⟩ := genRename_isSome w.fs (fun c => Name.ren new o.ct1 c) (ren_inj new o.ct1)
    simp only [hr]
    obtain ⟨e, he⟩ := (has_iff _ _).1 h
    refine Triple.pre (P := GF fs0) ?_ (fun w' h' => h' ▸ hw)
    refine Triple.bind (rename_GF fs0 new r e he) (fun _ => ?_)
    intro w' hw'
    exact ⟨hw'.good, r, rfl, by rw [hw'.2.2]; exact has_set_self _ _ _⟩
  · intro w hw
    exact ⟨hw.good, p, rfl, by rw [hw.2.2]; exact h⟩

theorem compressFn_GF (k : CompKind) (p out : Name) (hne : out ≠ p) (fs0 : FS) (h : fs0.has p = true) :
    Triple (GF fs0) (compressFn k p out) (fun _ w => Good w ∧ w.fs.has p = true) (fun _ => False) := by
  rw [compressFn_eq]
  unfold compressFnHand
  have hpo : p ≠ out := fun e => hne e.symm
  refine Triple.seq (P := GF fs0) ?_ ?_
  · unfold openSrc
    refine Triple.ite (fun _ => ?_) (fun _ => Triple.unit)
    refine Triple.seq (tick_GF fs0 _) (Triple.bindGet (fun a => ?_))
    refine Triple.withPre ?_
    rintro w ⟨rfl, hw⟩
    have hh : w.fs.has p = true := by rw [hw.2.2]; exact h
    simp only [hh, Bool.not_true, Bool.false_eq_true, ↓reduceIte]
    intro w' hw'
    subst hw'
    exact hw
  refine Triple.seq (tick_GF fs0 _) ?_
  refine Triple.bind (Q := fun _ w => Good w ∧ w.fs.has p = true) (modW_spec _ ?_) (fun _ => ?_)
  · intro w hw
    refine ⟨⟨hw.1, hw.2.1⟩, ?_⟩
    obtain ⟨e, he⟩ := (has_iff _ _).1 h
    exact (has_iff _ _).2 ⟨e, by simp [get_set, hpo, hw.2.2, he]⟩
  refine Triple.seq (P := fun w => Good w ∧ w.fs.has p = true) ?_ ?_
  · exact Triple.conseq (tick_good (P := fun w => w.closed = false ∧ w.fs.has p = true) (fun _ _ _ h => h) _)
      (fun w h => ⟨h.1.1, h.1.2, h.2⟩) (fun _ w h => ⟨⟨h.1, h.2.1⟩, h.2.2⟩) (fun _ h => h)
  refine Triple.bindGet (fun a => ?_)
  refine Triple.withPre ?_
  rintro w ⟨rfl, hw⟩
  obtain ⟨e, he⟩ := (has_iff _ _).1 hw.2
  simp only [he]
  intro w' hw'
  subst hw'
  exact ⟨hw.1, (has_iff _ _).2 ⟨e, by simp [get_set, hpo, he]⟩⟩

/-- `Compression.compression` without faults on an existing file succeeds (any collision chain) -/
theorem compression_GF (k : CompKind) (p : Name) (ct : Nat) (fs0 : FS) (h : fs0.has p = true) :
    Triple (GF fs0) (compression k p ct) (fun _ w => Good w) (fun _ => False) := by
  unfold compression
  simp only [Gen.compressionOrder, List.map, seqM]
  refine Triple.seq (P := GF fs0) (by unfold cStep; exact Triple.unit) ?_
  -- collision rename
  refine Triple.bind (Q := fun _ w => Good w ∧ w.fs.has p = true) ?_ (fun _ => ?_)
  · unfold cStep
    refine Triple.bindGet (fun a => ?_)
    refine Triple.withPre ?_
    rintro w ⟨rfl, hw⟩
    refine Triple.ite (fun hc => ?_) (fun _ => ?_)
    · have hc' : fs0.has (.arc p) = true := by rw [← hw.2.2]; exact hc
      refine Triple.pre (P := GF fs0) ?_ (fun w' h' => h' ▸ hw)
      refine Triple.seq (getCtime_GF fs0 _ hc') (Triple.bindGet (fun w1 => ?_))
      refine Triple.withPre ?_
      rintro w1 ⟨rfl, hw1⟩
      obtain ⟨r, hr⟩ := genRename_isSome w1.fs (fun c => Name.arc (Name.ren p ct c)) (arcren_inj p ct)
      simp only [hr]
      obtain ⟨c', _, hrc⟩ := (renameLoop_fresh _ _ _ _ r hr).2
      have hne2 : p ≠ r := by rw [hrc]; exact (cand_ne p ct c').symm
      obtain ⟨e, he⟩ := (has_iff _ _).1 hc'
      refine Triple.pre (P := GF fs0) ?_ (fun w' h' => h' ▸ hw1)
      refine Triple.post (rename_GF fs0 (.arc p) r e he) ?_
      intro _ w' hw'
      refine ⟨hw'.good, ?_⟩
      obtain ⟨ep, hep⟩ := (has_iff _ _).1 h
      exact (has_iff _ _).2 ⟨ep, by rw [hw'.2.2]; simp [get_set, get_del, hne2, (Name.arc_ne p).symm, hep]⟩
    · intro w' hw'
      subst hw'
      exact ⟨hw.good, by rw [hw.2.2]; exact h⟩
  -- compress, then remove the source
  refine Triple.bind (Q := fun _ w => Good w ∧ w.fs.has p = true) ?_ (fun _ => ?_)
  · unfold cStep
    exact GF.lift (fun fs => fs.has p = true) (fun fs1 h1 => compressFn_GF k p (.arc p) (Name.arc_ne p) fs1 h1)
  refine Triple.bind (Q := fun _ w => Good w) ?_ (fun _ => Triple.unit)
  unfold cStep
  exact GF.lift (fun fs => fs.has p = true) (fun fs1 h1 => Triple.post (remove_GF fs1 p h1) (fun _ _ hw => hw.good))

/-- a retention policy that deletes nothing in this call -/
def noDel : List RetStep → Bool
  | [] => true
  | .stat :: r => noDel r
  | .del _ :: _ => false

theorem noDel_mem (steps : List RetStep) (h : noDel steps = true) : ∀ s ∈ steps, s = RetStep.stat := by
  induction steps with
  | nil => intro s hs; cases hs
  | cons x r ih =>
    cases x with
    | stat =>
      intro s hs
      rcases List.mem_cons.1 hs with h1 | h1
      · exact h1
      · exact ih (by simpa [noDel] using h) s h1
    | del m => simp [noDel] at h

theorem retention_good (cfg : Cfg) (steps : List RetStep) (h : noDel steps = true) :
    Triple Good (retention cfg steps) (fun _ => Good) (fun _ => False) := by
  unfold retention
  have tk : ∀ e, Triple Good (tick e) (fun _ => Good) (fun _ => False) :=
    fun e => tick_good (P := fun w => w.closed = false) (fun _ _ _ h => h) e
  refine Triple.seq (Triple.seqM _ ?_) (Triple.seqM _ ?_)
  · intro a ha
    rw [List.eq_of_mem_replicate ha]
    exact tk _
  · intro a ha
    obtain ⟨s, hs, rfl⟩ := List.mem_map.1 ha
    rw [noDel_mem steps h s hs]
    exact tk _

theorem finishOld_good (cfg : Cfg) (o : Orc) (q : Name) (hret : cfg.hasRet = false ∨ noDel o.ret = true) :
    Triple (fun w => Good w ∧ w.fs.has q = true) (finishOld cfg o (some q)) (fun _ => Good) (fun _ => False) := by
  unfold finishOld
  refine Triple.bind (Q := fun _ => Good) ?_ (fun _ => ?_)
  · unfold compressOld
    split
    · rename_i k p hk hp
      cases hp
      exact GF.lift (fun fs => fs.has q = true) (fun fs1 h1 => compression_GF k q o.ct2 fs1 h1)
    · exact Triple.pre (tick_good (P := fun w => w.closed = false) (fun _ _ _ h => h) _) (fun _ h => h.1)
    · exact Triple.pre Triple.unit (fun _ h => h.1)
  · unfold whenM
    refine Triple.ite (fun hr => ?_) (fun _ => Triple.unit)
    rcases hret with h | h
    · simp [Gen.termRetainTest, h] at hr
    · exact retention_good cfg _ h

/-- a due rotation without faults: from a state whose open file exists, `_terminate_file(is_rotating=True)`
succeeds and leaves an open file -/
theorem terminate_good (cfg : Cfg) (o : Orc) (hret : cfg.hasRet = false ∨ noDel o.ret = true) :
    Triple (fun w => Good w ∧ ∃ p, w.cur = some p ∧ w.fs.has p = true) (terminate cfg o true)
      (fun _ w => Good w ∧ w.cur.isSome = true) (fun _ => False) := by
  unfold terminate
  refine Triple.bindGet (fun w0 => ?_)
  refine Triple.withPre ?_
  rintro w ⟨rfl, hg, p, hcur, hp⟩
  simp only [hcur, Option.isSome_some, whenM, Gen.termCloseTest, Gen.termFinishTest, Gen.termRecreateTest, ↓reduceIte,
    Bool.true_or]
  refine Triple.pre (P := GF w.fs) ?_ (fun w' h' => by rw [h']; exact ⟨hg.1, hg.2, rfl⟩)
  refine Triple.seq (closeFile_GF w.fs) ?_
  refine Triple.bind (Q := fun old w' => Good w' ∧ ∃ q, old = some q ∧ w'.fs.has q = true) ?_ (fun old => ?_)
  · unfold rotatePrep
    simp only [Gen.termPrepTest, ↓reduceIte]
    refine Triple.seq ?_ (renameSame_GF o _ p w.fs hp)
    unfold mkdirs
    exact tick_GF _ _
  refine Triple.withPre ?_
  rintro w1 ⟨hg1, q, rfl, hq⟩
  refine Triple.pre (P := fun w' => Good w' ∧ w'.fs.has q = true) ?_ (fun w' h' => h' ▸ ⟨hg1, hq⟩)
  refine Triple.bind (finishOld_good cfg o q hret) (fun _ => ?_)
  exact Triple.post (createFile_there cfg _) (fun _ w' h' => ⟨h'.1, by rw [h'.2.1]; rfl⟩)

/-- after `_reopen_if_needed` without faults the open file exists -/
theorem reopen_there (cfg : Cfg) :
    Triple (fun w => Good w ∧ w.cur.isSome = true) (reopenIfNeeded cfg)
      (fun _ w => Good w ∧ ∃ p, w.cur = some p ∧ w.fs.has p = true) (fun _ => False) := by
  unfold reopenIfNeeded
  refine Triple.bindGet (fun w0 => ?_)
  refine Triple.withPre ?_
  rintro w ⟨rfl, hg, hc⟩
  cases hcur : w.cur with
  | none => rw [hcur] at hc; cases hc
  | some p =>
    simp only
    refine Triple.pre (P := fun w' => Good w' ∧ w'.cur = some p ∧ w'.fs = w.fs) ?_ (fun w' h' => by rw [h']; exact ⟨hg, hcur, rfl⟩)
    refine Triple.seq ?_ ?_
    · exact Triple.conseq (tick_good (P := fun w' => w'.closed = false ∧ w'.cur = some p ∧ w'.fs = w.fs) (fun _ _ _ h => h) _)
        (fun w' h => ⟨h.1.1, h.1.2, h.2⟩) (fun _ w' h => ⟨⟨h.1, h.2.1⟩, h.2.2⟩) (fun _ h => h)
    refine Triple.ite (fun _ => ?_) (fun hcond => ?_)
    · refine Triple.pre (P := Good) ?_ (fun w' h => h.1)
      simp only [Gen.reopenOrder, List.map, seqM, rStep]
      refine Triple.seq closeFile_good ?_
      refine Triple.seq (P := Good) ?_ ?_
      · unfold mkdirs
        exact tick_good (P := fun w => w.closed = false) (fun _ _ _ h => h) _
      · exact Triple.bind (createFile_there cfg p) (fun _ w' h' => ⟨h'.1, p, h'.2.1, h'.2.2⟩)
    · have hk : w.fs.has p = true := by
        have := hcond
        simp only [Gen.reopenNeeded, Bool.or_eq_true, Bool.not_eq_true', not_or, Bool.not_eq_false] at this
        exact this.1.1
      intro w' hw'
      exact ⟨hw'.1, p, hw'.2.1, by rw [hw'.2.2]; exact hk⟩

/-- **a logging call with or without a due rotation** is acknowledged from every state with no fault pending, if the
open file exists in the directory (or `watch` is on, or there is no open file) and retention deletes nothing -/
theorem writeBody_good_rot (cfg : Cfg) (o : Orc) (hret : cfg.hasRet = false ∨ noDel o.ret = true) :
    Triple (fun w => Good w ∧ (cfg.watch = true ∨ ∀ p, w.cur = some p → w.fs.has p = true))
      (writeBody cfg o) (fun _ _ => True) (fun _ => False) := by
  unfold writeBody
  refine Triple.withPre ?_
  rintro w0 ⟨hg, hth⟩
  refine Triple.bindGet (fun w1 => ?_)
  refine Triple.withPre ?_
  rintro w2 ⟨rfl, rfl⟩
  -- lazy creation
  refine Triple.bind (Q := fun _ w => Good w ∧ w.cur.isSome = true ∧
      (cfg.watch = true ∨ ∃ p, w.cur = some p ∧ w.fs.has p = true)) ?_ (fun _ => ?_)
  · unfold whenM
    refine Triple.ite (fun _ => ?_) (fun hn => ?_)
    · unfold lazyCreate mkdirs
      refine Triple.pre (P := Good) ?_ (fun w h => h ▸ hg)
      refine Triple.seq (tick_good (P := fun w => w.closed = false) (fun _ _ _ h => h) _) ?_
      exact Triple.post (createFile_there cfg _) (fun _ w h => ⟨h.1, by rw [h.2.1]; rfl, Or.inr ⟨_, h.2.1, h.2.2⟩⟩)
    · intro w h
      subst h
      cases hc : w.cur with
      | none => simp [hc] at hn
      | some p =>
        refine ⟨hg, by rw [hc]; rfl, ?_⟩
        rcases hth with h | h
        · exact Or.inl h
        · exact Or.inr ⟨p, hc, h p hc⟩
  -- re-open (watch)
  refine Triple.bind (Q := fun _ w => Good w ∧ ∃ p, w.cur = some p ∧ w.fs.has p = true) ?_ (fun _ => ?_)
  · unfold whenM
    refine Triple.ite (fun _ => Triple.pre (reopen_there cfg) (fun w h => ⟨h.1, h.2.1⟩)) (fun hnw => ?_)
    intro w h
    rcases h.2.2 with h' | h'
    · exact absurd h' hnw
    · exact ⟨h.1, h'⟩
  -- rotation
  refine Triple.bind (Q := fun _ w => Good w ∧ w.cur.isSome = true) ?_ (fun _ => writeMsg_good)
  unfold whenM
  refine Triple.ite (fun _ => ?_) (fun _ => ?_)
  · unfold rotateIfDue
    refine Triple.bind (Q := fun _ w => Good w ∧ ∃ p, w.cur = some p ∧ w.fs.has p = true) ?_ (fun _ => ?_)
    · exact Triple.conseq (tick_good (P := fun w => w.closed = false ∧ ∃ p, w.cur = some p ∧ w.fs.has p = true)
          (fun _ _ _ h => h) _)
        (fun w h => ⟨h.1.1, h.1.2, h.2⟩) (fun _ w h => ⟨⟨h.1, h.2.1⟩, h.2.2⟩) (fun _ h => h)
    · unfold whenM
      refine Triple.ite (fun _ => terminate_good cfg o hret) (fun _ => ?_)
      intro w h
      obtain ⟨hg', p, hp, _⟩ := h
      exact ⟨hg', by rw [hp]; rfl⟩
  · intro w h
    obtain ⟨hg', p, hp, _⟩ := h
    exact ⟨hg', by rw [hp]; rfl⟩

theorem write_ok_rotation_due (cfg : Cfg) (o : Orc) (w : W) (hf : w.faults = []) (hc : w.closed = false)
    (hret : cfg.hasRet = false ∨ noDel o.ret = true)
    (hthere : cfg.watch = true ∨ ∀ p, w.cur = some p → w.fs.has p = true) :
    isOk (writeBody cfg o w).1 = true := by
  have := writeBody_good_rot cfg o hret w ⟨⟨hf, hc⟩, hthere⟩
  match hm : writeBody cfg o w with
  | (.ok u, w') => rfl
  | (.error e, w') => rw [hm] at this; exact this.elim

end FileSink
