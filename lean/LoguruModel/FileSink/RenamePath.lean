import LoguruModel.FileSink.Base
import LoguruModel.Generated.FileSink
/-!
`generate_rename_path(root, ext, creation_time)` at the level of path STRINGS (round 5).  The two name
templates are the lists of pieces GENERATED from the format strings of /repo (`Gen.renameFirstTemplate`,
`Gen.renameLoopTemplate`); the date is an arbitrary string (what `FileDateFormatter` printed); the existence
test `os.path.exists` is membership in an arbitrary list of taken paths (holes included).
-/
namespace FileSink
open Py

/-- `template.format(*args)` for a template of literal pieces and plain `{}` fields -/
def fmtPieces (t : List Piece) (args : List Str) : Str :=
  match t with
  | [] => []
  | .lit s :: r => s ++ fmtPieces r args
  | .arg i :: r => args.getD i [] ++ fmtPieces r args

/-- the path probed at counter `c`: the first counter value gives the name without counter -/
def candStr (root date ext : Str) (c : Nat) : Str :=
  if c = Gen.renameFirstCounter then fmtPieces Gen.renameFirstTemplate [root, date, ext]
  else fmtPieces Gen.renameLoopTemplate [root, date, ext, natStr c]

/-- the loop `while os.path.exists(renamed_path): counter += 1; renamed_path = …` for an arbitrary existence
test and candidate family (fuel = number of probes) -/
def probeLoop {α : Type} (taken : α → Bool) (cand : Nat → α) : Nat → Nat → Option α
  | 0, _ => none
  | fuel + 1, c => if taken (cand c) then probeLoop taken cand fuel (c + Gen.renameCounterStep) else some (cand c)

/-- `generate_rename_path` over a directory given as the list of existing paths -/
def generateRenamePath (existing : List Str) (root date ext : Str) : Option Str :=
  probeLoop (fun s => existing.contains s) (candStr root date ext) (existing.length + 1) Gen.renameFirstCounter

end FileSink
