import LoguruModel.FileSink.RenamePath
import LoguruModel.FileSink.CompLemmas
/-!
Lemmas about the string-level `generate_rename_path`: the decimal counter makes the candidates pairwise
distinct, so the loop ends within |existing|+1 probes and returns the LEAST free candidate.
-/
namespace FileSink
open Py

theorem natStr_injective {a b : Nat} (h : natStr a = natStr b) : a = b := by
  have := congrArg (fun l => Nat.ofDigitChars 10 l 0) h
  simpa [natStr, Nat.ofDigitChars_ten_toDigits] using this

theorem natStr_ne_nil (n : Nat) : natStr n ≠ [] := Nat.toDigits_ne_nil

/-- the shapes of the two generated templates (re-proved against /repo on every run) -/
theorem candStr_first (root date ext : Str) :
    candStr root date ext 1 = root ++ '.' :: (date ++ ext) := by
  simp [candStr, Gen.renameFirstCounter, Gen.renameFirstTemplate, fmtPieces]

theorem candStr_loop (root date ext : Str) (c : Nat) (hc : c ≠ 1) :
    candStr root date ext c = root ++ '.' :: (date ++ '.' :: (natStr c ++ ext)) := by
  simp [candStr, Gen.renameFirstCounter, hc, Gen.renameLoopTemplate, fmtPieces]

theorem candStr_injective (root date ext : Str) (a b : Nat) (h : candStr root date ext a = candStr root date ext b) :
    a = b := by
  by_cases ha : a = 1 <;> by_cases hb : b = 1
  · rw [ha, hb]
  · subst ha
    rw [candStr_first, candStr_loop _ _ _ _ hb] at h
    have := congrArg List.length h
    simp at this
    omega
  · subst hb
    rw [candStr_first, candStr_loop _ _ _ _ ha] at h
    have := congrArg List.length h
    simp at this
    omega
  · rw [candStr_loop _ _ _ _ ha, candStr_loop _ _ _ _ hb] at h
    have h1 := List.append_cancel_left h
    simp only [List.cons.injEq, true_and] at h1
    have h2 := List.append_cancel_left h1
    simp only [List.cons.injEq, true_and] at h2
    exact natStr_injective (List.append_cancel_right h2)

/-- the renamed path is never the path being renamed (`old_path = root + ext`, the `os.path.splitext` law) -/
theorem candStr_ne_source (root date ext : Str) (c : Nat) : candStr root date ext c ≠ root ++ ext := by
  intro h
  by_cases hc : c = 1
  · subst hc
    rw [candStr_first] at h
    have := congrArg List.length h
    simp at this
    omega
  · rw [candStr_loop _ _ _ _ hc] at h
    have := congrArg List.length h
    simp at this
    omega

theorem probeLoop_some {α : Type} (taken : α → Bool) (cand : Nat → α) (fuel c : Nat) (r : α)
    (h : probeLoop taken cand fuel c = some r) :
    ∃ k, r = cand (c + k) ∧ taken (cand (c + k)) = false ∧ ∀ j, j < k → taken (cand (c + j)) = true := by
  induction fuel generalizing c with
  | zero => simp [probeLoop] at h
  | succ f ih =>
    simp only [probeLoop, Gen.renameCounterStep] at h
    by_cases hc : taken (cand c) = true
    · simp only [hc, ↓reduceIte] at h
      obtain ⟨k, h1, h2, h3⟩ := ih (c + 1) h
      refine ⟨k + 1, ?_, ?_, ?_⟩
      · rw [h1]; congr 1; omega
      · rw [← h2]; congr 2; omega
      · intro j hj
        cases j with
        | zero => simpa using hc
        | succ i =>
          have := h3 i (by omega)
          rw [← this]; congr 2; omega
    · simp only [hc, Bool.false_eq_true, ↓reduceIte, Option.some.injEq] at h
      subst h
      exact ⟨0, rfl, by simpa using hc, fun j hj => by omega⟩

theorem probeLoop_none {α : Type} (taken : α → Bool) (cand : Nat → α) (fuel c : Nat)
    (h : probeLoop taken cand fuel c = none) : ∀ i, i < fuel → taken (cand (c + i)) = true := by
  induction fuel generalizing c with
  | zero => intro i hi; omega
  | succ f ih =>
    simp only [probeLoop, Gen.renameCounterStep] at h
    by_cases hc : taken (cand c) = true
    · simp only [hc, ↓reduceIte] at h
      intro i hi
      cases i with
      | zero => simpa using hc
      | succ j =>
        have := ih (c + 1) h j (by omega)
        rw [← this]; congr 2; omega
    · simp [hc] at h

/-- pigeonhole over a list of taken paths: `k` pairwise distinct candidates that are all members need `k ≤ |L|` -/
theorem pigeonhole_list {α : Type} [DecidableEq α] (cand : Nat → α) (hinj : ∀ a b, cand a = cand b → a = b) (c : Nat) :
    ∀ (k : Nat) (L : List α), (∀ i, i < k → cand (c + i) ∈ L) → k ≤ L.length := by
  intro k
  induction k with
  | zero => intro L _; exact Nat.zero_le _
  | succ k ih =>
    intro L h
    have hlast := h k (Nat.lt_succ_self k)
    have := ih (L.erase (cand (c + k))) (by
      intro i hi
      have hne : cand (c + i) ≠ cand (c + k) := fun e => by have := hinj _ _ e; omega
      exact (List.mem_erase_of_ne hne).2 (h i (Nat.lt_succ_of_lt hi)))
    rw [List.length_erase_of_mem hlast] at this
    have hpos : 0 < L.length := List.length_pos_of_mem hlast
    omega

/-- the abstract counter loop of `FileSink/Model.lean` is the same loop -/
theorem renameLoopP_eq_probeLoop (taken : Name → Bool) (cand : Nat → Name) (fuel c : Nat) :
    renameLoopP taken cand fuel c = probeLoop taken cand fuel c := by
  induction fuel generalizing c with
  | zero => rfl
  | succ f ih => simp only [renameLoopP, probeLoop, Gen.renameCounterStep, ih]

end FileSink
