import LoguruModel.FileSink.UsableLemmas
/-!
`watch=True` (round 5): the re-open path `_reopen_if_needed` – whose test is the GENERATED kernel
`Gen.reopenNeeded` and whose branch follows the GENERATED order `Gen.reopenOrder` – guarantees that a message is
never written through a handle whose file the environment has deleted or replaced:

* invariant `WI` of all histories (any faults): no message was ever orphaned, and a detached handle is always
  *noticed* (the recorded (dev, ino) no longer match what the path names);
* after `_reopen_if_needed` returned normally the handle is the file the path names (`Landed`);
* hence every acknowledged `write` appends to the file `_file_path` names, in the directory.

Second part: the usability theorem without its `watch = false` guard.
-/
namespace FileSink
open Py

/-- nothing was ever written through a detached handle, and a detached handle is always noticed by the
(dev, ino) comparison of `_reopen_if_needed` -/
def WR : FS → Core → Prop := fun _ c => c.orphaned = [] ∧ (c.detached = true → c.mismatch = true)

def WI (w : W) : Prop := WR w.fs w.core

theorem WR_subclosed : SubClosed WR := fun _ _ _ h _ => h

theorem WI.insens : Insens WI := fun _ _ _ h => h

/-- the open handle (if any) is the file its path names -/
def Landed (w : W) : Prop := ∀ p, w.cur = some p → w.fs.has p = true ∧ w.detached = false

/-- state right after a successful `_create_file(n)` -/
def CF (n : Name) (w : W) : Prop :=
  w.orphaned = [] ∧ w.detached = false ∧ w.cur = some n ∧ w.fs.has n = true

theorem CF.insens (n : Name) : Insens (CF n) := fun _ _ _ h => h

theorem CF.wi {n : Name} {w : W} (h : CF n w) : WI w :=
  ⟨h.1, fun hd => by have hd' : w.detached = true := hd; rw [h.2.1] at hd'; cases hd'⟩

theorem CF.landed {n : Name} {w : W} (h : CF n w) : Landed w := by
  intro p hp
  rw [h.2.2.1] at hp
  cases hp
  exact ⟨h.2.2.2, h.2.1⟩

theorem has_set_self (fs : FS) (n : Name) (e : Entry) : (fs.set n e).has n = true :=
  (has_iff _ _).2 ⟨e, by simp [get_set]⟩

theorem createFile_watch (cfg : Cfg) (n : Name) :
    Triple WI (createFile cfg n) (fun _ w => CF n w) WI := by
  unfold createFile
  refine Triple.seq (tick_spec WI.insens _) ?_
  refine Triple.bind (Q := fun _ w => CF n w) (modW_spec _ ?_) (fun _ => ?_)
  · intro w hw
    refine ⟨hw.1, rfl, rfl, ?_⟩
    simp only [fileMode_append, ↓reduceIte]
    cases hg : w.fs.get n with
    | some e => exact (has_iff _ _).2 ⟨e, hg⟩
    | none => exact has_set_self _ _ _
  · refine Triple.ite (fun _ => ?_) (fun _ => Triple.unit)
    exact Triple.seq (tick_specE (CF.insens n) (fun _ h => h.wi) _) (modW_spec _ (fun w h => h))

theorem closeFile_watch : Triple WI closeFile (fun _ => WI) WI := by
  unfold closeFile
  simp only [Gen.closeOrder, List.map, seqM]
  -- file = self._file
  refine Triple.seq (P := WI) (by unfold closeStep; exact Triple.unit) ?_
  -- file.flush()
  refine Triple.seq (P := WI) ?_ ?_
  · unfold closeStep
    refine Triple.bindGet (fun a => Triple.pre ?_ (fun w h => h.2))
    exact Triple.seq (tick_spec WI.insens _) (Triple.ite (fun _ => Triple.throw _) (fun _ => Triple.unit))
  -- self._file = None: the handle is forgotten, whatever it was
  have hI : Insens (fun w : W => w.orphaned = [] ∧ w.detached = false) := fun _ _ _ h => h
  have toE : ∀ w : W, (w.orphaned = [] ∧ w.detached = false) → WI w :=
    fun w h => ⟨h.1, fun hd => by have hd' : w.detached = true := hd; rw [h.2] at hd'; cases hd'⟩
  refine Triple.bind (Q := fun _ w => w.orphaned = [] ∧ w.detached = false) ?_ (fun _ => ?_)
  · unfold closeStep
    exact modW_spec _ (fun w h => ⟨h.1, rfl⟩)
  refine Triple.seq (P := fun w => w.orphaned = [] ∧ w.detached = false) (by unfold closeStep; exact Triple.unit) ?_
  refine Triple.seq (P := fun w => w.orphaned = [] ∧ w.detached = false)
    (by unfold closeStep; exact modW_spec _ (fun w h => h)) ?_
  refine Triple.seq (P := fun w => w.orphaned = [] ∧ w.detached = false) (by unfold closeStep; exact Triple.unit) ?_
  -- file.close()
  refine Triple.bind (Q := fun _ => WI) ?_ (fun _ => Triple.unit)
  unfold closeStep
  refine Triple.bindGet (fun a => Triple.pre (P := fun w => w.orphaned = [] ∧ w.detached = false) ?_ (fun w h => h.2))
  refine Triple.seq (modW_spec _ (fun w h => h)) ?_
  refine Triple.seq (tick_specE hI toE _) (modW_spec _ (fun w h => toE _ h))

theorem watch_leafs : Leafs WI :=
  { insens := WI.insens
    create := fun cfg n => Triple.post (createFile_watch cfg n) (fun _ _ h => h.wi)
    close := closeFile_watch
    renameSame := sc_renameSame (R := WR) WR_subclosed
    compression := sc_compression (R := WR) WR_subclosed
    retStep := sc_retStep (R := WR) WR_subclosed }

/-- **the re-open path**: after `_reopen_if_needed` returned normally, the open handle is the file the path names -/
theorem reopen_watch (cfg : Cfg) :
    Triple WI (reopenIfNeeded cfg) (fun _ w => WI w ∧ Landed w) WI := by
  unfold reopenIfNeeded
  refine Triple.withPre ?_
  intro w0 h0
  refine Triple.bindGet (fun w1 => ?_)
  refine Triple.withPre ?_
  rintro w2 ⟨rfl, rfl⟩
  cases hc : w2.cur with
  | none =>
    intro w hw
    subst hw
    exact ⟨h0, fun p hp => by rw [hc] at hp; cases hp⟩
  | some p =>
    simp only
    -- what the `os.stat` leaves untouched
    have hI : Insens (fun w : W => w.fs = w2.fs ∧ w.core = w2.core) := fun _ _ _ h => h
    have toWI : ∀ w : W, (w.fs = w2.fs ∧ w.core = w2.core) → WI w := by
      intro w h
      show WR w.fs w.core
      rw [h.2]
      exact h0
    refine Triple.pre (P := fun w => w.fs = w2.fs ∧ w.core = w2.core) ?_ (fun w h => by rw [h]; exact ⟨rfl, rfl⟩)
    refine Triple.seq (tick_specE hI toWI _) ?_
    refine Triple.ite (fun _ => ?_) (fun hcond => ?_)
    · -- re-open: close, create the directories, create the file (generated order)
      refine Triple.pre (P := WI) ?_ toWI
      simp only [Gen.reopenOrder, List.map, seqM, rStep]
      refine Triple.seq closeFile_watch ?_
      refine Triple.seq (tick_spec WI.insens _) ?_
      refine Triple.bind (createFile_watch cfg p) (fun _ => ?_)
      intro w hw
      exact ⟨hw.wi, hw.landed⟩
    · -- no re-open: the file exists and the recorded identity matches, so the handle is not detached
      have hk : w2.fs.has p = true ∧ w2.mismatch = false := by
        simpa [Gen.reopenNeeded] using hcond
      intro w hw
      refine ⟨toWI w hw, ?_⟩
      intro q hq
      have hcore := hw.2
      have hcur : w.cur = w2.cur := congrArg Core.cur hcore
      have hdet : w.detached = w2.detached := congrArg Core.detached hcore
      rw [hcur, hc] at hq
      cases hq
      refine ⟨by rw [hw.1]; exact hk.1, ?_⟩
      rw [hdet]
      cases hd : w2.detached with
      | false => rfl
      | true => have this : w2.mismatch = true := h0.2 hd; rw [hk.2] at this; cases this

theorem Landed.insens : Insens (fun w => WI w ∧ Landed w) := fun _ _ _ h => h

/-- a rotation ends with `_create_file(new_path)`: the handle is the new file -/
theorem terminate_watch (cfg : Cfg) (o : Orc) :
    Triple WI (terminate cfg o true) (fun _ w => WI w ∧ Landed w) WI := by
  unfold terminate
  refine Triple.bindGet (fun w0 => Triple.pre ?_ (fun w h => h.2))
  refine Triple.seq (Triple.whenM (fun _ => closeFile_watch)) ?_
  refine Triple.bind (rotatePrep_gen watch_leafs _ _ _) (fun old => ?_)
  refine Triple.seq (Triple.whenM (fun _ => finishOld_gen watch_leafs _ _ _)) ?_
  simp only [whenM, Gen.termRecreateTest, ↓reduceIte]
  exact Triple.post (createFile_watch cfg _) (fun _ _ h => ⟨h.wi, h.landed⟩)

theorem rotateIfDue_watch (cfg : Cfg) (o : Orc) :
    Triple (fun w => WI w ∧ Landed w) (rotateIfDue cfg o) (fun _ w => WI w ∧ Landed w) WI := by
  unfold rotateIfDue
  refine Triple.seq (tick_specE Landed.insens (fun _ h => h.1) _) ?_
  unfold whenM
  refine Triple.ite (fun _ => Triple.pre (terminate_watch cfg o) (fun _ h => h.1)) (fun _ => ?_)
  exact Triple.unit

/-- `self._file.write(message)` through a handle that is the named file: the message is in that file -/
theorem writeMsg_watch :
    Triple (fun w => WI w ∧ Landed w) writeMsg
      (fun _ w => WI w ∧ ∃ p e, w.cur = some p ∧ w.fs.get p = some e ∧ w.nextId ∈ e.content) WI := by
  unfold writeMsg
  refine Triple.seq (tick_specE Landed.insens (fun _ h => h.1) _) (Triple.bindGet (fun w0 => ?_))
  refine Triple.withPre ?_
  rintro w ⟨rfl, hwi, hl⟩
  refine Triple.ite (fun _ => Triple.throw' _ (fun w' h => by rw [h]; exact hwi)) (fun _ => ?_)
  cases hcur : w.cur with
  | none => exact Triple.throw' _ (fun w' h => by rw [h]; exact hwi)
  | some p =>
    obtain ⟨hhas, hdet⟩ := hl p hcur
    obtain ⟨e, he⟩ := (has_iff _ _).1 hhas
    simp only [hdet, Bool.false_eq_true, ↓reduceIte, he]
    refine modW_spec _ ?_
    rintro w' rfl
    refine ⟨hwi, p, e.append w'.nextId, hcur, by simp [get_set], ?_⟩
    cases e <;> simp [Entry.append, Entry.content]

/-- `FileSink.write` with `watch=True`: the invariant is kept under every fault vector, and an acknowledged
message is in the file the sink's path names -/
theorem writeBody_watch (cfg : Cfg) (o : Orc) (hw : cfg.watch = true) :
    Triple WI (writeBody cfg o)
      (fun _ w => WI w ∧ ∃ p e, w.cur = some p ∧ w.fs.get p = some e ∧ w.nextId ∈ e.content) WI := by
  unfold writeBody
  refine Triple.bindGet (fun w0 => Triple.pre ?_ (fun w h => h.2))
  refine Triple.seq (Triple.whenM (fun _ => lazyCreate_gen watch_leafs _ _)) ?_
  simp only [hw, whenM, ↓reduceIte]
  refine Triple.bind (reopen_watch cfg) (fun _ => ?_)
  refine Triple.bind (Q := fun _ w => WI w ∧ Landed w) ?_ (fun _ => writeMsg_watch)
  refine Triple.ite (fun _ => rotateIfDue_watch cfg o) (fun _ => ?_)
  exact Triple.unit

theorem lazyCreate_landed (cfg : Cfg) (o : Orc) :
    Triple WI (lazyCreate cfg o) (fun _ w => WI w ∧ Landed w) WI := by
  unfold lazyCreate mkdirs
  exact Triple.seq (tick_spec WI.insens _) (Triple.post (createFile_watch cfg _) (fun _ _ h => ⟨h.wi, h.landed⟩))

/-- `FileSink.write` for ANY configuration: if the open handle (if any) is the file its path names – or `watch` is on –
an acknowledged message is in the file the path names afterwards, WHATEVER the retention policy deleted in that call:
retention runs before the new file is created -/
theorem writeBody_lands (cfg : Cfg) (o : Orc) :
    Triple (fun w => WI w ∧ (cfg.watch = true ∨ Landed w)) (writeBody cfg o)
      (fun _ w => WI w ∧ ∃ p e, w.cur = some p ∧ w.fs.get p = some e ∧ w.nextId ∈ e.content) WI := by
  unfold writeBody
  refine Triple.bindGet (fun w0 => Triple.pre ?_ (fun w h => h.2))
  refine Triple.bind (Q := fun _ w => WI w ∧ (cfg.watch = true ∨ Landed w)) ?_ (fun _ => ?_)
  · unfold whenM
    refine Triple.ite (fun _ => ?_) (fun _ => Triple.unit)
    exact Triple.conseq (lazyCreate_landed cfg o) (fun _ h => h.1) (fun _ _ h => ⟨h.1, Or.inr h.2⟩) (fun _ h => h)
  refine Triple.bind (Q := fun _ w => WI w ∧ Landed w) ?_ (fun _ => ?_)
  · unfold whenM
    refine Triple.ite (fun _ => Triple.pre (reopen_watch cfg) (fun _ h => h.1)) (fun hnw => ?_)
    intro w h
    rcases h.2 with h' | h'
    · exact absurd h' hnw
    · exact ⟨h.1, h'⟩
  refine Triple.bind (Q := fun _ w => WI w ∧ Landed w) ?_ (fun _ => writeMsg_watch)
  unfold whenM
  exact Triple.ite (fun _ => rotateIfDue_watch cfg o) (fun _ => Triple.unit)

theorem step_WI (cfg : Cfg) (hw : cfg.watch = true) (op : Op) (w : W) (h : WI w) : WI (step cfg op w).2 := by
  cases op with
  | init o => exact Triple.snd (lazyCreate_gen watch_leafs cfg o) w h
  | stop o => exact Triple.snd (stopBody_gen watch_leafs cfg o) w h
  | restart => exact ⟨h.1, fun hd => by cases hd⟩
  | write o =>
    have := writeBody_watch cfg o hw w h
    simp only [step]
    match hm : writeBody cfg o w with
    | (.ok u, w') => rw [hm] at this; exact this.1
    | (.error e, w') => rw [hm] at this; exact this
  | extDelete n =>
    simp only [step]
    cases hg : w.fs.get n with
    | none => exact h
    | some e =>
      simp only
      unfold envTouch
      split
      · exact ⟨h.1, fun _ => rfl⟩
      · exact h
  | extReplace n =>
    simp only [step]
    cases hg : w.fs.get n with
    | none => exact h
    | some e =>
      simp only
      unfold envTouch
      split
      · exact ⟨h.1, fun _ => rfl⟩
      · exact h

theorem run_WI (cfg : Cfg) (hw : cfg.watch = true) (ops : List Op) (w : W) (h : WI w) : WI (run cfg ops w) := by
  induction ops generalizing w with
  | nil => exact h
  | cons op rest ih => exact ih _ (step_WI cfg hw op w h)

/-! ### usability without the `watch = false` guard -/

theorem createFile_good' (cfg : Cfg) (n : Name) :
    Triple Good (createFile cfg n) (fun _ w => Good w ∧ w.cur.isSome = true) (fun _ => False) := by
  unfold createFile
  refine Triple.seq (tick_good (P := fun w => w.closed = false) (fun _ _ _ h => h) _) ?_
  refine Triple.bind (Q := fun _ w => Good w ∧ w.cur.isSome = true) (modW_spec _ (fun w h => ⟨⟨h.1, rfl⟩, rfl⟩)) (fun _ => ?_)
  refine Triple.ite (fun _ => ?_) (fun _ => Triple.unit)
  refine Triple.seq (P := fun w => Good w ∧ w.cur.isSome = true) ?_ (modW_spec _ (fun w h => h))
  exact Triple.conseq (tick_good (P := fun w => w.closed = false ∧ w.cur.isSome = true) (fun _ _ _ h => h) _)
    (fun w h => ⟨h.1.1, h.1.2, h.2⟩) (fun _ w h => ⟨⟨h.1, h.2.1⟩, h.2.2⟩) (fun _ h => h)

theorem closeStep_good (s : CloseStep) : Triple Good (closeStep s) (fun _ => Good) (fun _ => False) := by
  cases s with
  | bindFile => exact Triple.unit
  | resetPath => exact Triple.unit
  | resetIno => exact Triple.unit
  | resetFile => exact modW_spec _ (fun w h => ⟨h.1, rfl⟩)
  | resetDev => exact modW_spec _ (fun w h => h)
  | flush =>
    unfold closeStep
    refine Triple.withPre ?_
    intro w0 hg
    refine Triple.bindGet (fun a => ?_)
    refine Triple.withPre ?_
    rintro w ⟨rfl, rfl⟩
    simp only [hg.2, Bool.false_eq_true, ↓reduceIte]
    refine Triple.pre (P := Good) ?_ (fun w h => h ▸ hg)
    exact Triple.seq (tick_good (P := fun w => w.closed = false) (fun _ _ _ h => h) _) Triple.unit
  | close =>
    unfold closeStep
    refine Triple.bindGet (fun a => Triple.pre (P := Good) ?_ (fun w h => h.2))
    refine Triple.bind (Q := fun _ w => w.faults = [] ∧ True) (modW_spec _ (fun w h => ⟨h.1, trivial⟩)) (fun _ => ?_)
    exact Triple.seq (tick_good (P := fun _ => True) (fun _ _ _ h => h) _) (modW_spec _ (fun w h => ⟨h.1, rfl⟩))

theorem closeFile_good : Triple Good closeFile (fun _ => Good) (fun _ => False) := by
  unfold closeFile
  refine Triple.seqM _ (fun a ha => ?_)
  obtain ⟨s, _, rfl⟩ := List.mem_map.1 ha
  exact closeStep_good s

theorem reopen_good (cfg : Cfg) :
    Triple (fun w => Good w ∧ w.cur.isSome = true) (reopenIfNeeded cfg)
      (fun _ w => Good w ∧ w.cur.isSome = true) (fun _ => False) := by
  unfold reopenIfNeeded
  refine Triple.bindGet (fun w0 => Triple.pre (P := fun w => Good w ∧ w.cur.isSome = true) ?_ (fun w h => h.2))
  cases w0.cur with
  | none => exact Triple.unit
  | some p =>
    simp only
    refine Triple.seq ?_ ?_
    · exact Triple.conseq (tick_good (P := fun w => w.closed = false ∧ w.cur.isSome = true) (fun _ _ _ h => h) _)
        (fun w h => ⟨h.1.1, h.1.2, h.2⟩) (fun _ w h => ⟨⟨h.1, h.2.1⟩, h.2.2⟩) (fun _ h => h)
    · refine Triple.ite (fun _ => ?_) (fun _ => Triple.unit)
      refine Triple.pre (P := Good) ?_ (fun w h => h.1)
      simp only [Gen.reopenOrder, List.map, seqM, rStep]
      refine Triple.seq closeFile_good ?_
      refine Triple.seq (P := Good) ?_ ?_
      · unfold mkdirs
        exact tick_good (P := fun w => w.closed = false) (fun _ _ _ h => h) _
      · exact Triple.bind (createFile_good' cfg p) (fun _ => Triple.unit)

/-- a logging call with no fault pending, no rotation due, `watch` on or off, is acknowledged -/
theorem writeBody_good' (cfg : Cfg) (o : Orc) (hr : o.rot = false) :
    Triple Good (writeBody cfg o) (fun _ _ => True) (fun _ => False) := by
  unfold writeBody
  refine Triple.withPre ?_
  rintro w0 hg
  refine Triple.bindGet (fun w1 => ?_)
  refine Triple.withPre ?_
  rintro w2 ⟨rfl, rfl⟩
  refine Triple.bind (Q := fun _ w => Good w ∧ w.cur.isSome = true) ?_ (fun _ => ?_)
  · unfold whenM
    refine Triple.ite (fun _ => ?_) (fun hn => ?_)
    · unfold lazyCreate mkdirs
      refine Triple.pre (P := Good) ?_ (fun w h => h ▸ hg)
      exact Triple.seq (tick_good (P := fun w => w.closed = false) (fun _ _ _ h => h) _) (createFile_good' cfg _)
    · intro w h
      subst h
      refine ⟨hg, ?_⟩
      cases hc : w.cur with
      | none => simp [hc] at hn
      | some p => rfl
  · refine Triple.seq (P := fun w => Good w ∧ w.cur.isSome = true) ?_ ?_
    · unfold whenM
      exact Triple.ite (fun _ => reopen_good cfg) (fun _ => Triple.unit)
    refine Triple.seq ?_ writeMsg_good
    unfold whenM
    refine Triple.ite (fun _ => ?_) (fun _ => Triple.unit)
    unfold rotateIfDue
    simp only [hr, whenM, Bool.false_eq_true, ↓reduceIte]
    refine Triple.seq ?_ Triple.unit
    exact Triple.pre (Triple.post (tick_good (P := fun w => w.closed = false ∧ w.cur.isSome = true) (fun _ _ _ h => h) _)
      (fun _ w h => ⟨⟨h.1, h.2.1⟩, h.2.2⟩)) (fun w h => ⟨h.1.1, h.1.2, h.2⟩)

theorem write_ok_of_good' (cfg : Cfg) (o : Orc) (w : W) (hf : w.faults = []) (hc : w.closed = false)
    (hr : o.rot = false) : isOk (writeBody cfg o w).1 = true := by
  have := writeBody_good' cfg o hr w ⟨hf, hc⟩
  match hm : writeBody cfg o w with
  | (.ok u, w') => rfl
  | (.error e, w') => rw [hm] at this; exact this.elim

end FileSink
