import LoguruModel.FileSink.Model
/-!
Helper lemmas for the FileSink theorems: association-list file system, a small Hoare logic for the
state+exception monad `M`, and the per-primitive facts.
-/
namespace FileSink
open Py

/-! ### names -/
theorem Name.arc_ne (p : Name) : Name.arc p ≠ p := by
  intro h
  have := congrArg sizeOf h
  simp at this

theorem Name.ren_ne (p : Name) (d c : Nat) : Name.ren p d c ≠ p := by
  intro h
  have := congrArg sizeOf h
  simp at this
  omega

/-! ### file system -/
theorem get_del (fs : FS) (n n' : Name) : (fs.del n).get n' = if n' = n then none else fs.get n' := by
  induction fs with
  | nil => simp [FS.del, FS.get]
  | cons p rest ih =>
    obtain ⟨k, e⟩ := p
    simp only [FS.del, FS.get] at ih ⊢
    by_cases hk : k = n
    · subst hk
      simp only [List.filter_cons, bne_self_eq_false, Bool.false_eq_true, ↓reduceIte]
      rw [ih]
      by_cases h : n' = k
      · simp [h]
      · have hb : (n' == k) = false := by simp [h]
        simp [h, List.lookup_cons, hb]
    · have : (k != n) = true := by simp [hk]
      simp only [List.filter_cons, this, ↓reduceIte, List.lookup_cons]
      by_cases h : n' = k
      · subst h; simp [hk]
      · have hb : (n' == k) = false := by simp [h]
        simp only [hb]
        rw [ih]

theorem get_set (fs : FS) (n : Name) (e : Entry) (n' : Name) :
    (fs.set n e).get n' = if n' = n then some e else fs.get n' := by
  by_cases h : n' = n
  · subst h; simp [FS.set, FS.get, List.lookup_cons]
  · have := get_del fs n n'
    simp only [FS.get] at this
    have hb : (n' == n) = false := by simp [h]
    simp [FS.set, FS.get, List.lookup_cons, h, this, hb]

theorem has_iff (fs : FS) (n : Name) : fs.has n = true ↔ ∃ e, fs.get n = some e := by
  simp [FS.has, FS.get, Option.isSome_iff_exists]

theorem has_false_iff (fs : FS) (n : Name) : fs.has n = false ↔ fs.get n = none := by
  simp [FS.has, FS.get]

/-- `m` can be read back from some file or archive of the directory -/
def Holds (fs : FS) (m : Nat) : Prop := ∃ n e, fs.get n = some e ∧ m ∈ e.content

theorem Holds.set_fresh {fs : FS} {m : Nat} (n : Name) (e : Entry) (hn : fs.get n = none)
    (h : Holds fs m) : Holds (fs.set n e) m := by
  obtain ⟨n', e', h1, h2⟩ := h
  refine ⟨n', e', ?_, h2⟩
  rw [get_set]
  by_cases hx : n' = n
  · subst hx; rw [hn] at h1; cases h1
  · simp [hx, h1]

theorem Holds.set_grow {fs : FS} {m : Nat} (n : Name) (e e' : Entry) (hn : fs.get n = some e)
    (hsub : ∀ x ∈ e.content, x ∈ e'.content) (h : Holds fs m) : Holds (fs.set n e') m := by
  obtain ⟨n', e'', h1, h2⟩ := h
  by_cases hx : n' = n
  · subst hx
    rw [hn] at h1; cases h1
    exact ⟨n', e', by simp [get_set], hsub _ h2⟩
  · exact ⟨n', e'', by simp [get_set, hx, h1], h2⟩

theorem Holds.set_self {fs : FS} {m : Nat} (n : Name) (e : Entry) (h : m ∈ e.content) :
    Holds (fs.set n e) m := ⟨n, e, by simp [get_set], h⟩

/-- removing `n` keeps everything that some other name holds -/
theorem Holds.del_other {fs : FS} {m : Nat} (n n' : Name) (e' : Entry) (hne : n' ≠ n)
    (h1 : fs.get n' = some e') (h2 : m ∈ e'.content) : Holds (fs.del n) m :=
  ⟨n', e', by simp [get_del, hne, h1], h2⟩

theorem Holds.del_or {fs : FS} {m : Nat} (n : Name) (h : Holds fs m) :
    Holds (fs.del n) m ∨ ∃ e, fs.get n = some e ∧ m ∈ e.content := by
  obtain ⟨n', e', h1, h2⟩ := h
  by_cases hx : n' = n
  · subst hx; exact Or.inr ⟨e', h1, h2⟩
  · exact Or.inl (Holds.del_other n n' e' hx h1 h2)

/-- rename onto a name that does not exist loses nothing -/
theorem Holds.rename_fresh {fs : FS} {m : Nat} (a b : Name) (e : Entry) (ha : fs.get a = some e)
    (hb : fs.get b = none) (h : Holds fs m) : Holds ((fs.del a).set b e) m := by
  obtain ⟨n', e', h1, h2⟩ := h
  by_cases hx : n' = a
  · subst hx
    rw [ha] at h1; cases h1
    exact ⟨b, e, by simp [get_set], h2⟩
  · have hnb : n' ≠ b := by
      intro hh; subst hh; rw [hb] at h1; cases h1
    exact ⟨n', e', by simp [get_set, get_del, hx, hnb, h1], h2⟩

/-! ### Hoare logic for `M` -/
@[simp] theorem bind_apply {α β} (m : M α) (f : α → M β) (w : W) :
    (m >>= f) w = match m w with
      | (.ok a, w') => f a w'
      | (.error e, w') => (.error e, w') := rfl

@[simp] theorem pure_apply {α} (a : α) (w : W) : (pure a : M α) w = (.ok a, w) := rfl
@[simp] theorem throw_apply {α} (e : Err) (w : W) : (M.throw e : M α) w = (.error e, w) := rfl
@[simp] theorem getW_apply (w : W) : getW w = (.ok w, w) := rfl
@[simp] theorem modW_apply (f : W → W) (w : W) : modW f w = (.ok (), f w) := rfl

/-- from `P`, the computation ends in `Q a` (normal return) or in `E` (exception) -/
def Triple {α} (P : W → Prop) (m : M α) (Q : α → W → Prop) (E : W → Prop) : Prop :=
  ∀ w, P w → match m w with
    | (.ok a, w') => Q a w'
    | (.error _, w') => E w'

theorem Triple.bind {α β} {P : W → Prop} {m : M α} {Q : α → W → Prop} {f : α → M β}
    {R : β → W → Prop} {E : W → Prop}
    (h1 : Triple P m Q E) (h2 : ∀ a, Triple (Q a) (f a) R E) : Triple P (m >>= f) R E := by
  intro w hw
  have := h1 w hw
  simp only [bind_apply]
  match hm : m w with
  | (.ok a, w') => rw [hm] at this; exact h2 a w' this
  | (.error e, w') => rw [hm] at this; exact this

theorem Triple.ret {α} {P : W → Prop} (a : α) {E : W → Prop} :
    Triple P (Pure.pure a : M α) (fun b w => b = a ∧ P w) E := by
  intro w hw; exact ⟨rfl, hw⟩

theorem Triple.throw {α} {P : W → Prop} (e : Err) {Q : α → W → Prop} :
    Triple P (M.throw e : M α) Q P := by
  intro w hw; exact hw

theorem Triple.conseq {α} {P P' : W → Prop} {m : M α} {Q Q' : α → W → Prop} {E E' : W → Prop}
    (h : Triple P m Q E) (hp : ∀ w, P' w → P w) (hq : ∀ a w, Q a w → Q' a w) (he : ∀ w, E w → E' w) :
    Triple P' m Q' E' := by
  intro w hw
  have := h w (hp w hw)
  match hm : m w with
  | (.ok a, w') => rw [hm] at this; exact hq a w' this
  | (.error e, w') => rw [hm] at this; exact he w' this

theorem Triple.get {P : W → Prop} {E : W → Prop} :
    Triple P FileSink.getW (fun a w => a = w ∧ P w) E := by
  intro w hw; exact ⟨rfl, hw⟩

theorem Triple.seqM {P : W → Prop} {E : W → Prop} (l : List (M Unit))
    (h : ∀ a ∈ l, Triple P a (fun _ => P) E) : Triple P (seqM l) (fun _ => P) E := by
  induction l with
  | nil => intro w hw; exact hw
  | cons a r ih =>
    simp only [FileSink.seqM]
    exact Triple.bind (h a (by simp)) (fun _ => ih (fun b hb => h b (by simp [hb])))

/-! ### the no-loss / no-overwrite invariant -/

/-- every acknowledged message is still readable, unless retention (or the environment) deleted the
file that held it or it went through a handle the environment had detached -/
def J (w : W) : Prop := ∀ m ∈ w.written, m ∈ w.deleted ∨ m ∈ w.orphaned ∨ Holds w.fs m

/-- `J` and: no rename target / archive target ever existed when it was written -/
def Inv (w : W) : Prop := J w ∧ w.clobbered = []

theorem Inv.frame {w w' : W} (h : Inv w) (h1 : w'.fs = w.fs) (h2 : w'.written = w.written)
    (h3 : w'.deleted = w.deleted) (h4 : w'.orphaned = w.orphaned) (h5 : w'.clobbered = w.clobbered) :
    Inv w' := by
  obtain ⟨hj, hc⟩ := h
  refine ⟨?_, by rw [h5, hc]⟩
  intro m hm
  rw [h2] at hm
  rw [h1, h3, h4]
  exact hj m hm

/-- the facts we thread through the code do not look at the trace or the fault vector -/
def Insens (P : W → Prop) : Prop := ∀ w t f, P w → P { w with trace := t, faults := f }

theorem Inv.insens : Insens Inv := fun _ _ _ h => h.frame rfl rfl rfl rfl rfl

theorem tick_spec {P : W → Prop} (hP : Insens P) (e : Ev) : Triple P (tick e) (fun _ => P) P := by
  intro w hw
  by_cases hf : w.faults.headD false = true
  · simp only [tick, hf, ↓reduceIte]; exact hP _ _ _ hw
  · simp only [tick, hf, Bool.false_eq_true, ↓reduceIte]; exact hP _ _ _ hw

theorem tick_specE {P E : W → Prop} (hP : Insens P) (hE : ∀ w, P w → E w) (e : Ev) :
    Triple P (tick e) (fun _ => P) E :=
  Triple.conseq (tick_spec hP e) (fun _ x => x) (fun _ _ x => x) hE

theorem modW_spec {P Q : W → Prop} {E : W → Prop} (f : W → W) (h : ∀ w, P w → Q (f w)) :
    Triple P (modW f) (fun _ => Q) E := by
  intro w hw; exact h w hw

theorem Triple.ite {α} {P : W → Prop} {c : Prop} [Decidable c] {a b : M α} {Q : α → W → Prop} {E : W → Prop}
    (h1 : c → Triple P a Q E) (h2 : ¬ c → Triple P b Q E) : Triple P (if c then a else b) Q E := by
  by_cases h : c
  · simp only [h, ↓reduceIte]; exact h1 h
  · simp only [h, ↓reduceIte]; exact h2 h

theorem Triple.unit {P : W → Prop} {E : W → Prop} : Triple P (Pure.pure () : M Unit) (fun _ => P) E := by
  intro w hw; exact hw

/-- sequencing two unit steps that keep the same predicate -/
theorem Triple.seq {β} {P : W → Prop} {m : M Unit} {f : Unit → M β} {R : β → W → Prop} {E : W → Prop}
    (h1 : Triple P m (fun _ => P) E) (h2 : Triple P (f ()) R E) : Triple P (m >>= f) R E :=
  Triple.bind h1 (fun _ => h2)

theorem fileMode_append : (Gen.fileMode.head? == some 'a') = true := by decide

theorem createFile_spec (cfg : Cfg) (n : Name) : Triple Inv (createFile cfg n) (fun _ => Inv) Inv := by
  unfold createFile
  refine Triple.seq (tick_spec Inv.insens _) (Triple.seq (modW_spec _ ?_) (Triple.ite (fun _ => ?_) (fun _ => Triple.unit)))
  · intro w hw
    obtain ⟨hj, hc⟩ := hw
    refine ⟨?_, hc⟩
    intro m hm
    rcases hj m hm with h | h | h
    · exact Or.inl h
    · exact Or.inr (Or.inl h)
    · refine Or.inr (Or.inr ?_)
      simp only [fileMode_append, ↓reduceIte]
      cases hg : w.fs.get n with
      | some e => simpa using h
      | none => exact Holds.set_fresh n _ hg h
  · exact Triple.seq (tick_spec Inv.insens _) (modW_spec _ (fun w hw => hw.frame rfl rfl rfl rfl rfl))

theorem Triple.bindGet {β} {P : W → Prop} {f : W → M β} {R : β → W → Prop} {E : W → Prop}
    (h : ∀ a, Triple (fun w => w = a ∧ P w) (f a) R E) : Triple P (FileSink.getW >>= f) R E := by
  intro w hw
  simp only [bind_apply, getW_apply]
  exact h w w ⟨rfl, hw⟩

theorem Triple.pre {α} {P P' : W → Prop} {m : M α} {Q : α → W → Prop} {E : W → Prop}
    (h : Triple P m Q E) (hp : ∀ w, P' w → P w) : Triple P' m Q E :=
  Triple.conseq h hp (fun _ _ x => x) (fun _ x => x)

theorem Triple.post {α} {P : W → Prop} {m : M α} {Q Q' : α → W → Prop} {E : W → Prop}
    (h : Triple P m Q E) (hq : ∀ a w, Q a w → Q' a w) : Triple P m Q' E :=
  Triple.conseq h (fun _ x => x) hq (fun _ x => x)

theorem Triple.throw' {α} {P : W → Prop} (e : Err) {Q : α → W → Prop} {E : W → Prop} (h : ∀ w, P w → E w) :
    Triple P (M.throw e : M α) Q E := by
  intro w hw; exact h w hw

theorem closeStep_spec (s : CloseStep) : Triple Inv (closeStep s) (fun _ => Inv) Inv := by
  cases s with
  | flush =>
    unfold closeStep
    refine Triple.bindGet (fun a => Triple.pre ?_ (fun w h => h.2))
    exact Triple.seq (tick_spec Inv.insens _) (Triple.ite (fun _ => Triple.throw _) (fun _ => Triple.unit))
  | bindFile => exact Triple.unit
  | close =>
    unfold closeStep
    refine Triple.bindGet (fun a => Triple.pre ?_ (fun w h => h.2))
    exact Triple.seq (modW_spec _ (fun w hw => hw.frame rfl rfl rfl rfl rfl))
      (Triple.seq (tick_spec Inv.insens _) (modW_spec _ (fun w hw => hw.frame rfl rfl rfl rfl rfl)))
  | resetFile => exact modW_spec _ (fun w hw => hw.frame rfl rfl rfl rfl rfl)
  | resetPath => exact Triple.unit
  | resetDev => exact modW_spec _ (fun w hw => hw.frame rfl rfl rfl rfl rfl)
  | resetIno => exact Triple.unit

theorem closeFile_spec : Triple Inv closeFile (fun _ => Inv) Inv := by
  unfold closeFile
  apply Triple.seqM
  intro a ha
  obtain ⟨s, _, rfl⟩ := List.mem_map.1 ha
  exact closeStep_spec s

theorem getCtime_spec {P : W → Prop} (hP : Insens P) (n : Name) :
    Triple P (getCtime n) (fun _ => P) P := by
  unfold getCtime
  refine Triple.seq (tick_spec hP _) (Triple.bindGet (fun a => Triple.pre ?_ (fun w h => h.2)))
  exact Triple.ite (fun _ => Triple.throw _) (fun _ => Triple.unit)

theorem Triple.whenM {P : W → Prop} {c : Bool} {m : M Unit} {E : W → Prop}
    (h : c = true → Triple P m (fun _ => P) E) : Triple P (whenM c m) (fun _ => P) E := by
  unfold FileSink.whenM
  exact Triple.ite h (fun _ => Triple.unit)

/-- `os.rename` onto a name that does not exist keeps the invariant (and the source name is gone) -/
theorem rename_spec (a b : Name) :
    Triple (fun w => Inv w ∧ w.fs.get b = none) (rename a b) (fun _ w => Inv w ∧ w.fs.get a = none) Inv := by
  unfold rename
  have hI : Insens (fun w => Inv w ∧ w.fs.get b = none) := fun w t f h => ⟨Inv.insens _ _ _ h.1, h.2⟩
  refine Triple.seq (tick_specE hI (fun w h => h.1) _) (Triple.bindGet (fun w0 => ?_))
  cases hg : w0.fs.get a with
  | none => exact Triple.throw' _ (fun w h => h.2.1)
  | some e =>
    refine modW_spec _ ?_
    rintro w ⟨rfl, ⟨hj, hc⟩, hb⟩
    have hhas : w.fs.has b = false := (has_false_iff _ _).2 hb
    have hab : a ≠ b := by intro h; subst h; rw [hb] at hg; cases hg
    refine ⟨⟨?_, by simp [hhas, hc]⟩, by simp [get_set, get_del, hab]⟩
    intro m hm
    rcases hj m hm with h | h | h
    · exact Or.inl h
    · exact Or.inr (Or.inl h)
    · exact Or.inr (Or.inr (Holds.rename_fresh a b e hg hb h))

/-- `os.remove(n)` keeps the invariant when another name holds everything `n` holds -/
theorem remove_spec (n n' : Name) (hne : n' ≠ n) :
    Triple (fun w => Inv w ∧ ∀ e, w.fs.get n = some e → ∃ e', w.fs.get n' = some e' ∧ ∀ x ∈ e.content, x ∈ e'.content)
      (remove n) (fun _ => Inv) Inv := by
  unfold remove
  have hI : Insens (fun w => Inv w ∧ ∀ e, w.fs.get n = some e → ∃ e', w.fs.get n' = some e' ∧ ∀ x ∈ e.content, x ∈ e'.content) :=
    fun w t f h => ⟨Inv.insens _ _ _ h.1, h.2⟩
  refine Triple.seq (tick_specE hI (fun w h => h.1) _) (Triple.bindGet (fun w0 => ?_))
  refine Triple.ite (fun _ => Triple.throw' _ (fun w h => h.2.1)) (fun _ => modW_spec _ ?_)
  rintro w ⟨rfl, ⟨hj, hc⟩, hcov⟩
  refine ⟨?_, hc⟩
  intro m hm
  rcases hj m hm with h | h | h
  · exact Or.inl h
  · exact Or.inr (Or.inl h)
  · refine Or.inr (Or.inr ?_)
    rcases Holds.del_or n h with h' | ⟨e, he, hme⟩
    · exact h'
    · obtain ⟨e', he', hsub⟩ := hcov e he
      exact Holds.del_other n n' e' hne he' (hsub m hme)

theorem openSrc_spec {P : W → Prop} (hP : Insens P) (k : CompKind) (p : Name) :
    Triple P (openSrc k p) (fun _ => P) P := by
  unfold openSrc
  refine Triple.ite (fun _ => ?_) (fun _ => Triple.unit)
  refine Triple.seq (tick_spec hP _) (Triple.bindGet (fun a => Triple.pre ?_ (fun w h => h.2)))
  exact Triple.ite (fun _ => Triple.throw _) (fun _ => Triple.unit)

/-! ### monad laws of `M`, and: the generated primitive sequences ARE the hand-written compress function -/
theorem M.bind_assoc {α β γ} (m : M α) (f : α → M β) (g : β → M γ) :
    (m >>= f) >>= g = m >>= fun a => f a >>= g := by
  funext w
  simp only [bind_apply]
  cases m w with
  | mk r w' => cases r <;> rfl

theorem M.bind_pure_unit (m : M Unit) : (m >>= fun _ => (pure () : M Unit)) = m := by
  funext w
  simp only [bind_apply]
  cases m w with
  | mk r w' =>
    cases r with
    | ok a => cases a; rfl
    | error e => rfl

theorem M.pure_bind {β} (f : Unit → M β) : ((pure () : M Unit) >>= f) = f () := rfl

/-- **generated = hand model**: interpreting `Gen.compressPrims` (read from the `with` nests of `copy_compress`,
`add_compress`, `write_compress`) gives exactly the hand-written primitive sequence – an edit of the nesting, of the
order, or a new primitive re-opens this proof and with it every compression theorem -/
theorem compressFn_eq (k : CompKind) (p out : Name) : compressFn k p out = compressFnHand k p out := by
  cases k <;>
    simp only [compressFn, compressFnHand, Gen.compressPrims, List.map, seqM, cPrim, openSrc, M.bind_assoc,
      M.pure_bind, M.bind_pure_unit, beq_self_eq_true, ↓reduceIte] <;> rfl

/-- the compress function: needs a fresh target; afterwards the archive holds what the source holds;
the source is never touched -/
theorem compressFn_spec (k : CompKind) (p out : Name) (hne : out ≠ p) :
    Triple (fun w => Inv w ∧ w.fs.get out = none) (compressFn k p out)
      (fun _ w => Inv w ∧ ∀ e, w.fs.get p = some e → ∃ i, w.fs.get out = some (.arch i e.content)) Inv := by
  rw [compressFn_eq]
  unfold compressFnHand
  have hI : Insens (fun w => Inv w ∧ w.fs.get out = none) := fun w t f h => ⟨Inv.insens _ _ _ h.1, h.2⟩
  have hI2 : Insens (fun w => Inv w ∧ ∃ i, w.fs.get out = some (.arch i [])) := fun w t f h => ⟨Inv.insens _ _ _ h.1, h.2⟩
  refine Triple.seq (Triple.conseq (openSrc_spec hI k p) (fun _ h => h) (fun _ _ h => h) (fun _ h => h.1)) ?_
  refine Triple.seq (tick_specE hI (fun w h => h.1) _) ?_
  refine Triple.bind (Q := fun _ w => Inv w ∧ ∃ i, w.fs.get out = some (.arch i [])) (modW_spec _ ?_) (fun _ => ?_)
  · rintro w ⟨⟨hj, hc⟩, hb⟩
    have hhas : w.fs.has out = false := (has_false_iff _ _).2 hb
    refine ⟨⟨?_, by simp [hhas, hc]⟩, ⟨_, (get_set _ _ _ _).trans (if_pos rfl)⟩⟩
    intro m hm
    rcases hj m hm with h | h | h
    · exact Or.inl h
    · exact Or.inr (Or.inl h)
    · exact Or.inr (Or.inr (Holds.set_fresh out _ hb h))
  · refine Triple.seq (tick_specE hI2 (fun w h => h.1) _) (Triple.bindGet (fun w0 => ?_))
    cases hg : w0.fs.get p with
    | none => exact Triple.throw' _ (fun w h => h.2.1)
    | some e =>
      refine modW_spec _ ?_
      rintro w ⟨rfl, ⟨hj, hc⟩, ⟨i, hi⟩⟩
      have hpo : p ≠ out := fun h => hne h.symm
      refine ⟨⟨?_, hc⟩, ?_⟩
      · intro m hm
        rcases hj m hm with h | h | h
        · exact Or.inl h
        · exact Or.inr (Or.inl h)
        · exact Or.inr (Or.inr (Holds.set_grow out _ _ hi (by simp [Entry.content]) h))
      · intro e' he'
        simp only [get_set, hpo, ↓reduceIte] at he'
        rw [hg] at he'; cases he'
        exact ⟨_, (get_set _ _ _ _).trans (if_pos rfl)⟩

theorem renameLoop_fresh (fs : FS) (cand : Nat → Name) (fuel c : Nat) (r : Name)
    (h : renameLoop fs cand fuel c = some r) : fs.has r = false ∧ ∃ c', c ≤ c' ∧ r = cand c' := by
  induction fuel generalizing c with
  | zero => simp [renameLoop] at h
  | succ f ih =>
    simp only [renameLoop] at h
    by_cases hc : fs.has (cand c) = true
    · simp only [hc, ↓reduceIte] at h
      obtain ⟨h1, c', h2, h3⟩ := ih (c + 1) h
      exact ⟨h1, c', by omega, h3⟩
    · simp only [hc, Bool.false_eq_true, ↓reduceIte, Option.some.injEq] at h
      subst h
      exact ⟨by simpa using hc, c, Nat.le_refl _, rfl⟩

theorem genRename_fresh (fs : FS) (cand : Nat → Name) (r : Name) (h : genRename fs cand = some r) :
    fs.get r = none :=
  (has_false_iff _ _).1 (renameLoop_fresh fs cand _ _ r h).1

theorem collision_spec (k : CompKind) (p : Name) (ct : Nat) :
    Triple Inv (cStep k p ct .collisionRename) (fun _ w => Inv w ∧ w.fs.get (.arc p) = none) Inv := by
  unfold cStep
  refine Triple.bindGet (fun w0 => ?_)
  refine Triple.ite (fun hc => ?_) (fun hc => ?_)
  · refine Triple.pre ?_ (fun w h => h.2)
    refine Triple.seq (getCtime_spec Inv.insens _) (Triple.bindGet (fun w1 => ?_))
    cases hg : genRename w1.fs (fun c => Name.arc (Name.ren p ct c)) with
    | none => exact Triple.throw' _ (fun w h => h.2)
    | some r =>
      refine Triple.pre (rename_spec _ r) ?_
      rintro w ⟨rfl, hw⟩
      exact ⟨hw, genRename_fresh _ _ _ hg⟩
  · intro w hw
    obtain ⟨rfl, hw⟩ := hw
    refine ⟨hw, ?_⟩
    apply (has_false_iff _ _).1
    simpa using hc

theorem compression_spec (k : CompKind) (p : Name) (ct : Nat) :
    Triple Inv (compression k p ct) (fun _ => Inv) Inv := by
  unfold compression
  simp only [Gen.compressionOrder, List.map, seqM]
  refine Triple.seq (P := Inv) (by unfold cStep; exact Triple.unit) ?_
  refine Triple.bind (collision_spec k p ct) (fun _ => ?_)
  refine Triple.bind (by unfold cStep; exact compressFn_spec k p (.arc p) (Name.arc_ne p)) (fun _ => ?_)
  refine Triple.bind (Q := fun _ => Inv) ?_ (fun _ => Triple.unit)
  unfold cStep
  refine Triple.pre (remove_spec p (.arc p) (Name.arc_ne p)) ?_
  rintro w ⟨hw, hcov⟩
  refine ⟨hw, fun e he => ?_⟩
  obtain ⟨i, hi⟩ := hcov e he
  exact ⟨_, hi, fun x hx => by simpa [Entry.content] using hx⟩

theorem retStep_spec (s : RetStep) : Triple Inv (retStep s) (fun _ => Inv) Inv := by
  cases s with
  | stat => exact tick_spec Inv.insens _
  | del n =>
    unfold retStep
    refine Triple.seq (tick_spec Inv.insens _) (Triple.bindGet (fun w0 => ?_))
    cases hg : w0.fs.get n with
    | none => exact Triple.throw' _ (fun w h => h.2)
    | some e =>
      refine modW_spec _ ?_
      rintro w ⟨rfl, hj, hc⟩
      refine ⟨?_, hc⟩
      intro m hm
      rcases hj m hm with h | h | h
      · exact Or.inl (by simp [h])
      · exact Or.inr (Or.inl h)
      · rcases Holds.del_or n h with h' | ⟨e', he', hme⟩
        · exact Or.inr (Or.inr h')
        · rw [hg] at he'; cases he'
          exact Or.inl (by simp [hme])

theorem retention_spec (cfg : Cfg) (steps : List RetStep) :
    Triple Inv (retention cfg steps) (fun _ => Inv) Inv := by
  unfold retention
  refine Triple.seq (Triple.seqM _ ?_) (Triple.seqM _ ?_)
  · intro a ha
    rw [List.eq_of_mem_replicate ha]
    exact tick_spec Inv.insens _
  · intro a ha
    obtain ⟨s, _, rfl⟩ := List.mem_map.1 ha
    exact retStep_spec s

theorem mkdirs_spec : Triple Inv mkdirs (fun _ => Inv) Inv := tick_spec Inv.insens _

theorem renameSame_spec (o : Orc) (new : Name) (old : Option Name) :
    Triple Inv (renameSame o new old) (fun _ => Inv) Inv := by
  unfold renameSame
  refine Triple.ite (fun _ => ?_) (fun _ => Triple.post (Triple.ret _) (fun _ _ h => h.2))
  refine Triple.seq (getCtime_spec Inv.insens _) (Triple.bindGet (fun w1 => ?_))
  cases hg : genRename w1.fs (fun c => Name.ren new o.ct1 c) with
  | none => exact Triple.throw' _ (fun w h => h.2)
  | some r =>
    refine Triple.bind (Q := fun _ => Inv) (Triple.conseq (rename_spec new r) ?_ (fun _ _ h => h.1) (fun _ h => h)) ?_
    · rintro w ⟨rfl, hw⟩
      exact ⟨hw, genRename_fresh _ _ _ hg⟩
    · intro _
      exact Triple.post (Triple.ret _) (fun _ _ h => h.2)

theorem rotatePrep_spec (o : Orc) (rotating : Bool) (old : Option Name) :
    Triple Inv (rotatePrep o rotating old) (fun _ => Inv) Inv := by
  unfold rotatePrep
  refine Triple.ite (fun _ => Triple.seq mkdirs_spec (renameSame_spec _ _ _))
    (fun _ => Triple.post (Triple.ret _) (fun _ _ h => h.2))

theorem compressOld_spec (cfg : Cfg) (o : Orc) (old : Option Name) :
    Triple Inv (compressOld cfg o old) (fun _ => Inv) Inv := by
  unfold compressOld
  split
  · exact compression_spec _ _ _
  · exact tick_spec Inv.insens _
  · exact Triple.unit

theorem finishOld_spec (cfg : Cfg) (o : Orc) (old : Option Name) :
    Triple Inv (finishOld cfg o old) (fun _ => Inv) Inv := by
  unfold finishOld
  exact Triple.seq (compressOld_spec _ _ _) (Triple.whenM (fun _ => retention_spec _ _))

theorem terminate_spec (cfg : Cfg) (o : Orc) (rotating : Bool) :
    Triple Inv (terminate cfg o rotating) (fun _ => Inv) Inv := by
  unfold terminate
  refine Triple.bindGet (fun w0 => Triple.pre ?_ (fun w h => h.2))
  refine Triple.seq (Triple.whenM (fun _ => closeFile_spec)) ?_
  refine Triple.bind (rotatePrep_spec _ _ _) (fun old => ?_)
  refine Triple.seq (Triple.whenM (fun _ => finishOld_spec _ _ _)) ?_
  exact Triple.whenM (fun _ => createFile_spec _ _)

theorem reopen_spec (cfg : Cfg) : Triple Inv (reopenIfNeeded cfg) (fun _ => Inv) Inv := by
  unfold reopenIfNeeded
  refine Triple.bindGet (fun w0 => Triple.pre ?_ (fun w h => h.2))
  split
  · exact Triple.unit
  · refine Triple.seq (tick_spec Inv.insens _) (Triple.ite (fun _ => ?_) (fun _ => Triple.unit))
    refine Triple.seqM _ (fun a ha => ?_)
    obtain ⟨s, _, rfl⟩ := List.mem_map.1 ha
    cases s with
    | close => exact closeFile_spec
    | mkdirs => exact mkdirs_spec
    | create => exact createFile_spec _ _

theorem writeMsg_spec : Triple Inv writeMsg (fun _ => Inv) Inv := by
  unfold writeMsg
  refine Triple.seq (tick_spec Inv.insens _) (Triple.bindGet (fun w0 => ?_))
  refine Triple.ite (fun _ => Triple.throw' _ (fun w h => h.2)) (fun _ => ?_)
  cases hcur : w0.cur with
  | none => exact Triple.throw' _ (fun w h => h.2)
  | some p =>
    simp only
    have orph : ∀ w, Inv w → Inv { w with orphaned := w0.nextId :: w.orphaned, written := w0.nextId :: w.written } := by
      rintro w ⟨hj, hc⟩
      refine ⟨?_, hc⟩
      intro m hm
      simp only [List.mem_cons] at hm
      rcases hm with rfl | hm
      · exact Or.inr (Or.inl (by simp))
      · rcases hj m hm with h | h | h
        · exact Or.inl h
        · exact Or.inr (Or.inl (by simp [h]))
        · exact Or.inr (Or.inr h)
    refine Triple.ite (fun _ => modW_spec _ (fun w h => orph w h.2)) (fun _ => ?_)
    cases hg : w0.fs.get p with
    | none => exact modW_spec _ (fun w h => orph w h.2)
    | some e =>
      refine modW_spec _ ?_
      rintro w ⟨rfl, hj, hc⟩
      refine ⟨?_, hc⟩
      intro m hm
      simp only [List.mem_cons] at hm
      have happ : ∀ x ∈ e.content, x ∈ (e.append w.nextId).content := by
        intro x hx; cases e <;> simp_all [Entry.append, Entry.content]
      rcases hm with rfl | hm
      · refine Or.inr (Or.inr (Holds.set_self p _ ?_))
        cases e <;> simp [Entry.append, Entry.content]
      · rcases hj m hm with h | h | h
        · exact Or.inl h
        · exact Or.inr (Or.inl h)
        · exact Or.inr (Or.inr (Holds.set_grow p e _ hg happ h))

theorem lazyCreate_spec (cfg : Cfg) (o : Orc) : Triple Inv (lazyCreate cfg o) (fun _ => Inv) Inv := by
  unfold lazyCreate
  exact Triple.seq mkdirs_spec (createFile_spec _ _)

theorem writeBody_spec (cfg : Cfg) (o : Orc) : Triple Inv (writeBody cfg o) (fun _ => Inv) Inv := by
  unfold writeBody
  refine Triple.bindGet (fun w0 => Triple.pre ?_ (fun w h => h.2))
  refine Triple.seq (Triple.whenM (fun _ => lazyCreate_spec _ _)) ?_
  refine Triple.seq (Triple.whenM (fun _ => reopen_spec _)) ?_
  refine Triple.seq (Triple.whenM (fun _ => ?_)) writeMsg_spec
  unfold rotateIfDue
  exact Triple.seq (tick_spec Inv.insens _) (Triple.whenM (fun _ => terminate_spec _ _ _))

theorem stopBody_spec (cfg : Cfg) (o : Orc) : Triple Inv (stopBody cfg o) (fun _ => Inv) Inv := by
  unfold stopBody
  refine Triple.seqM _ (fun a ha => ?_)
  obtain ⟨s, _, rfl⟩ := List.mem_map.1 ha
  cases s with
  | reopen => exact Triple.whenM (fun _ => reopen_spec _)
  | terminate => exact terminate_spec _ _ _

/-- a triple with the same predicate everywhere is preservation by the state component -/
theorem Triple.snd {α} {P : W → Prop} {m : M α} (h : Triple P m (fun _ => P) P) (w : W) (hw : P w) :
    P (m w).2 := by
  have := h w hw
  match hm : m w with
  | (.ok a, w') => rw [hm] at this; exact this
  | (.error e, w') => rw [hm] at this; exact this

theorem envDelete_inv (w : W) (n : Name) (e : Entry) (f : FS → FS) (hw : Inv w) (hg : w.fs.get n = some e)
    (hf : ∀ m, Holds w.fs m → Holds (f w.fs) m ∨ m ∈ e.content) :
    Inv (envTouch n { w with fs := f w.fs, deleted := e.content ++ w.deleted }) := by
  have base : Inv { w with fs := f w.fs, deleted := e.content ++ w.deleted } := by
    obtain ⟨hj, hc⟩ := hw
    refine ⟨?_, hc⟩
    intro m hm
    rcases hj m hm with h | h | h
    · exact Or.inl (by simp [h])
    · exact Or.inr (Or.inl h)
    · rcases hf m h with h' | h'
      · exact Or.inr (Or.inr h')
      · exact Or.inl (by simp [h'])
  unfold envTouch
  split
  · exact base.frame rfl rfl rfl rfl rfl
  · exact base

theorem step_inv (cfg : Cfg) (op : Op) (w : W) (hw : Inv w) : Inv (step cfg op w).2 := by
  cases op with
  | init o => exact Triple.snd (lazyCreate_spec cfg o) w hw
  | write o =>
    have := Triple.snd (writeBody_spec cfg o) w hw
    simp only [step]
    exact this.frame rfl rfl rfl rfl rfl
  | stop o => exact Triple.snd (stopBody_spec cfg o) w hw
  | restart => exact hw.frame rfl rfl rfl rfl rfl
  | extDelete n =>
    simp only [step]
    cases hg : w.fs.get n with
    | none => exact hw
    | some e =>
      refine envDelete_inv w n e (fun fs => fs.del n) hw hg ?_
      intro m hm
      rcases Holds.del_or n hm with h | ⟨e', he', hme⟩
      · exact Or.inl h
      · rw [hg] at he'; cases he'; exact Or.inr hme
  | extReplace n =>
    simp only [step]
    cases hg : w.fs.get n with
    | none => exact hw
    | some e =>
      refine envDelete_inv w n e (fun fs => fs.set n (.file [])) hw hg ?_
      intro m hm
      obtain ⟨n', e', h1, h2⟩ := hm
      by_cases hx : n' = n
      · subst hx; rw [hg] at h1; cases h1; exact Or.inr h2
      · exact Or.inl ⟨n', e', by simp [get_set, hx, h1], h2⟩

theorem run_inv (cfg : Cfg) (ops : List Op) (w : W) (hw : Inv w) : Inv (run cfg ops w) := by
  induction ops generalizing w with
  | nil => exact hw
  | cons op rest ih => exact ih _ (step_inv cfg op w hw)

end FileSink
