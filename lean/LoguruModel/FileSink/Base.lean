import LoguruModel.Py.Basic
/-!
FileSink area (C08, C18) – types shared by the generated tables and the hand model.
-/
namespace FileSink

/-- how an archive is produced: `copy_compress` (single stream), `add_compress` (tar member),
`write_compress` (zip member) -/
inductive CompKind where
  | copy | add | write
  deriving DecidableEq, Repr

/-- statements of `Compression.compression` -/
inductive CStep where
  | pathOut | collisionRename | compress | removeSource
  deriving DecidableEq, Repr

/-- statements of `FileSink._close_file` -/
inductive CloseStep where
  | bindFile | flush | close | resetFile | resetPath | resetDev | resetIno
  deriving DecidableEq, Repr

/-- phases of `FileSink._terminate_file` -/
inductive TStep where
  | close | newPath | mkdirs | sameNameRename | compression | retention | createFile
  deriving DecidableEq, Repr

/-- primitives of the three compress functions (`copy_compress`, `add_compress`, `write_compress`), in execution
order: what the nested `with` statements open, the transfer, and the exits (innermost first) -/
inductive CPrim where
  | openSource (binary : Bool)    -- `open(path_in, "rb")`
  | openArchive                    -- `opener(path_out, **kwargs)`
  | transfer (basename : Bool)     -- `copyfileobj(f_in, f_out)` / `f.add|write(path_in, os.path.basename(path_in))`
  | closeArchive
  | closeSource
  deriving DecidableEq, Repr

/-- statements of the re-open branch of `FileSink._reopen_if_needed` (watch=True) -/
inductive RStep where
  | close | mkdirs | create
  deriving DecidableEq, Repr

/-- phases of `FileSink.stop` -/
inductive SStep where
  | reopen | terminate
  deriving DecidableEq, Repr

/-- a piece of a `str.format` template: literal text or the n-th (canonically numbered) argument -/
inductive Piece where
  | lit (s : Py.Str)
  | arg (i : Nat)
  deriving DecidableEq, Repr

/-- phases of `FileSink.write` -/
inductive WStep where
  | lazyCreate | reopen | rotationTest | terminate | writeMessage
  deriving DecidableEq, Repr

end FileSink
