import LoguruModel.Py.Basic
/-!
FileSink area (C08, C18) – types shared by the generated tables and the hand model.
-/
namespace FileSink

/-- how an archive is produced: `copy_compress` (single stream), `add_compress` (tar member),
`write_compress` (zip member) -/
inductive CompKind where
  | copy | add | write
  deriving DecidableEq, Repr

/-- statements of `Compression.compression` -/
inductive CStep where
  | pathOut | collisionRename | compress | removeSource
  deriving DecidableEq, Repr

/-- statements of `FileSink._close_file` -/
inductive CloseStep where
  | bindFile | flush | close | resetFile | resetPath | resetDev | resetIno
  deriving DecidableEq, Repr

/-- phases of `FileSink._terminate_file` -/
inductive TStep where
  | close | newPath | mkdirs | sameNameRename | compression | retention | createFile
  deriving DecidableEq, Repr

/-- phases of `FileSink.write` -/
inductive WStep where
  | lazyCreate | reopen | rotationTest | terminate | writeMessage
  deriving DecidableEq, Repr

end FileSink
